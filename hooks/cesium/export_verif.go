//go:build verif

// Add-only verification hooks, injected by the /verif build overlay (never committed to
// the repository): a synchronous entry to the existing private garbage-collection pass
// and an Option for the (unexported) streaming configuration.
package cesium

import (
	"context"

	xfs "github.com/synnaxlabs/x/io/fs"
)

// VerifGarbageCollect runs one garbage-collection pass synchronously.
func (db *DB) VerifGarbageCollect(ctx context.Context) error {
	return db.garbageCollect(ctx, 4)
}

// WithVerifStreamingConfig sets the streaming configuration.
func WithVerifStreamingConfig(cfg DBStreamingConfig) Option {
	return func(o *options) { o.streamingConfig = cfg }
}

// VerifFS returns the file system the database stores its channels in (already rooted at
// the database directory), so that a check can reopen an engine on the same storage.
func (db *DB) VerifFS() xfs.FS { return db.fs }
