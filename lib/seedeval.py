#!/usr/bin/env python3
"""Confirms a seeded change and runs the property's checks against it.

  python3 lib/seedeval.py <ID> <src-dir> <name> [--skip-suite] [--tier quick|thorough]

<src-dir> holds patch.diff, demo_test.go and meta.json (keys used: demo_place, demo_cmd, files).
Steps, all in a scratch worktree of /repo under /tmp (removed afterwards):
  1. demo without the patch passes; 2. patch applies; 3. demo with the patch fails;
  4. the touched module's existing suite passes with the patch (unless --skip-suite);
  5. ./check <ID> --repo <worktree> reports a VIOLATION (caught) or not (missed).
The change is kept as /verif/seeded/<ID>/<name>/ with the verdicts added to meta.json."""
import json, os, re, shutil, subprocess, sys, time
VERIF = os.path.dirname(os.path.dirname(os.path.abspath(__file__)))
ENV = dict(os.environ, GOFLAGS="-mod=mod", GOPROXY="off")
ENV.pop("GOSUMDB", None)


def sh(cmd, cwd=None, timeout=3000):
    # the Go build cache is shared with other experiments on this machine and has been wiped
    # under running builds more than once: a build that dies on a vanished cache entry is retried
    for attempt in range(3):
        try:
            r = subprocess.run(cmd, shell=isinstance(cmd, str), cwd=cwd, env=ENV, stdout=subprocess.PIPE, stderr=subprocess.STDOUT, text=True, timeout=timeout)
        except subprocess.TimeoutExpired as e:
            class R:  # noqa
                returncode = 124
                stdout = "TIMEOUT " + str(e)
            return R()
        if r.returncode != 0 and "/go-build/" in r.stdout and ("no such file or directory" in r.stdout or "cannot open file" in r.stdout):
            time.sleep(5)
            continue
        return r
    return r


def main():
    pid, src, name = sys.argv[1], sys.argv[2], sys.argv[3]
    skip_suite = "--skip-suite" in sys.argv
    suite_only = "--suite-only" in sys.argv  # re-establish the demo and suite facts, keep the recorded check result
    tier = "quick"
    if "--tier" in sys.argv:
        tier = sys.argv[sys.argv.index("--tier") + 1]
    meta = json.load(open(os.path.join(src, "meta.json")))
    wt = "/tmp/seedeval-%s-%s" % (pid.lower(), name)
    sh(["git", "-C", "/repo", "worktree", "remove", "--force", wt])
    r = sh(["git", "-C", "/repo", "worktree", "add", "--detach", wt, "HEAD"])
    assert r.returncode == 0, r.stdout
    verdict = {}
    try:
        place = meta.get("demo_place") or ""
        cmd = meta.get("demo_cmd", "")
        m = re.search(r"([\w./-]+_test\.go|[\w./-]+\.go)\s*$", place.strip().rstrip(".")) or re.search(r"to\s+([\w./-]+\.go)", place)
        if not m:
            m = re.search(r"cp\s+\S+\s+(\S+_test\.go)", cmd)
        if not m:
            head = "".join(open(os.path.join(src, "demo_test.go")).readlines()[:25])
            m = re.search(r"((?:cesium|aspen|core|x/go|freighter/go|arc/go)/[\w./-]+_test\.go)", head)
        demo_dst = None
        if m:
            rel = re.sub(r"^/tmp/seed\d*-c\d\d/", "", m.group(1))
            demo_dst = os.path.join(wt, rel)
        cmd = re.sub(r"^cp\s+\S+\s+\S+\s*&&\s*", "", cmd)
        cmd = re.sub(r"/tmp/seed\d*-c\d\d", wt, cmd)
        if not cmd.startswith("cd "):
            cmd = "cd %s && %s" % (wt, cmd)
        if demo_dst and cmd:
            os.makedirs(os.path.dirname(demo_dst), exist_ok=True)
            shutil.copy(os.path.join(src, "demo_test.go"), demo_dst)
            r0 = sh(cmd, cwd=wt)
            verdict["demo_passes_without_change"] = r0.returncode == 0
            if r0.returncode != 0:
                print("demo without change FAILED:\n", r0.stdout[-1500:])
        r = sh(["git", "-C", wt, "apply", os.path.join(os.path.abspath(src), "patch.diff")])
        verdict["patch_applies"] = r.returncode == 0
        if r.returncode != 0:
            print(r.stdout)
            return
        if demo_dst and cmd:
            r1 = sh(cmd, cwd=wt)
            verdict["demo_fails_with_change"] = r1.returncode != 0
            os.remove(demo_dst)
        if not skip_suite:
            mods = sorted({f.split("/")[0] if not f.startswith(("x/go", "freighter/go", "arc/go", "alamos/go")) else "/".join(f.split("/")[:2]) for f in meta.get("files", [])})
            ok = True
            for mod in mods:
                rs = sh("go test -vet=off -count=1 ./... 2>&1", cwd=os.path.join(wt, mod), timeout=3000)
                failed = sorted(set(re.findall(r"^FAIL[ \t]+(\S+)", rs.stdout, re.M)))
                if failed:
                    # the repository has a few timing-dependent packages: a package only counts as
                    # failing with the change when it fails twice in a row on its own
                    verdict.setdefault("suite_first_run_failures", []).extend(failed)
                    rs2 = sh("go test -vet=off -count=1 %s 2>&1" % " ".join(failed), cwd=os.path.join(wt, mod), timeout=3000)
                    failed2 = sorted(set(re.findall(r"^FAIL[ \t]+(\S+)", rs2.stdout, re.M)))
                    # ... and, since several packages bind fixed TCP ports that other experiments on
                    # this machine use at the same time, fails again alone in a private network
                    # namespace while the unchanged tree passes there
                    still = []
                    for pkg in failed2:
                        ns = "unshare -n bash -c 'ip link set lo up; go test -vet=off -count=1 %s 2>&1'" % pkg
                        rs3 = sh(ns, cwd=os.path.join(wt, mod), timeout=3000)
                        if rs3.returncode == 0 and "FAIL" not in rs3.stdout:
                            verdict.setdefault("suite_passes_in_private_netns", []).append(pkg)
                            continue
                        sh(["git", "-C", wt, "apply", "-R", os.path.join(os.path.abspath(src), "patch.diff")])
                        rs4 = sh(ns, cwd=os.path.join(wt, mod), timeout=3000)
                        sh(["git", "-C", wt, "apply", os.path.join(os.path.abspath(src), "patch.diff")])
                        if rs4.returncode != 0 or "FAIL" in rs4.stdout:
                            verdict.setdefault("suite_fails_without_change_too", []).append(pkg)
                            continue
                        still.append(pkg)
                        print(rs3.stdout[-1500:])
                    if still:
                        ok = False
                        verdict.setdefault("suite_failures", []).extend(still)
                elif "FAIL" in rs.stdout or rs.returncode != 0:
                    ok = False
                    print(rs.stdout[-1500:])
            verdict["existing_suite_passes_with_change"] = ok
        if suite_only:
            for k, v in (meta.get("verified") or {}).items():
                if k.startswith("check_"):
                    verdict[k] = v
        else:
            t0 = time.time()
            rc = sh([os.path.join(VERIF, "check"), pid, "--repo", wt, "--tier", tier], cwd=VERIF, timeout=7000)
            out = rc.stdout
            viol = [l for l in out.splitlines() if l.startswith("VIOLATION")]
            sigs = [l[4:260] for l in out.splitlines() if l.startswith("--- ")]
            verdict["check_tier"] = tier
            verdict["check_result"] = "caught" if viol else ("inconclusive" if rc.returncode == 2 else "missed")
            verdict["check_wall_s"] = round(time.time() - t0)
            verdict["check_first_signature"] = sigs[0] if sigs else ""
            if not viol:
                print(out[-1200:])
    finally:
        sh(["git", "-C", "/repo", "worktree", "remove", "--force", wt])
        import hashlib
        bname = "%s-%s" % (pid, hashlib.sha256(os.path.abspath(wt).encode()).hexdigest()[:8])
        for d in (os.path.join(VERIF, "build", bname), os.path.join(VERIF, "build", "found", bname)):
            shutil.rmtree(d, ignore_errors=True)
    dst = os.path.join(VERIF, "seeded", pid, name)
    os.makedirs(dst, exist_ok=True)
    for f in ("patch.diff", "demo_test.go"):
        if os.path.exists(os.path.join(src, f)) and os.path.abspath(src) != os.path.abspath(dst):
            shutil.copy(os.path.join(src, f), os.path.join(dst, f))
    if skip_suite:  # keep what an earlier full evaluation established about the existing suite
        for k, v in (meta.get("verified") or {}).items():
            if k.startswith("existing_suite") or k.startswith("suite_"):
                verdict.setdefault(k, v)
    meta["verified"] = verdict
    meta["what_i_ran"] = "lib/seedeval.py: demo without/with the change in a scratch worktree, the touched module's `go test ./...` with the change, then ./check %s --repo <worktree> --tier %s" % (pid, tier)
    json.dump(meta, open(os.path.join(dst, "meta.json"), "w"), indent=1)
    print(pid, name, json.dumps(verdict))


if __name__ == "__main__":
    main()
