#!/usr/bin/env python3
"""Validates MANIFEST.json and evidence/*.json against the schemas (needs the tooling venv: python3-vt)."""
import json, glob, sys
import jsonschema
ok = True
def v(p, s):
    global ok
    try:
        jsonschema.validate(json.load(open(p)), json.load(open(s)))
    except Exception as e:
        ok = False
        print("INVALID", p, str(e)[:300])
v('/verif/MANIFEST.json', '/root/.vp/MANIFEST.schema.json')
for p in sorted(glob.glob('/verif/evidence/*.json')):
    v(p, '/root/.vp/EVIDENCE.schema.json')
print("valid" if ok else "INVALID")
sys.exit(0 if ok else 1)
