#!/usr/bin/env python3
"""setup_cmd: builds every harness binary once so the Go build cache is warm. Offline."""
import os, sys
HERE = os.path.dirname(os.path.abspath(__file__))
sys.path.insert(0, HERE)
import driver
from checks import CHECKS
rc = 0
with open(os.path.join(HERE, "ready.txt")) as f:
    READY = set(f.read().split())
for pid, cfg in CHECKS.items():
    if pid not in READY:
        continue
    for race in sorted({bool(t.get("race")) for t in cfg["tests"]}):
        if driver.build(pid, cfg, driver.REPO, race=race) is None:
            rc = 1
sys.exit(rc)
