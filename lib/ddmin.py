#!/usr/bin/env python3
"""Delta-debugging minimiser for replay files whose script has an "ops" list.

  python3 lib/ddmin.py <ID> <replay.json> [out.json]

Re-runs the property's test binary in replay mode on candidate scripts with operations
removed and keeps a candidate when it still fails with the same violation signature.
The binary must already be built (run ./check <ID> once)."""
import json, os, subprocess, sys, tempfile
VERIF = os.path.dirname(os.path.dirname(os.path.abspath(__file__)))
sys.path.insert(0, os.path.join(VERIF, "lib"))
from checks import CHECKS

def main():
    pid, path = sys.argv[1], sys.argv[2]
    out = sys.argv[3] if len(sys.argv) > 3 else path.replace(".json", ".min.json")
    rf = json.load(open(path))
    cfg = CHECKS[pid]
    test = next(t for t in cfg["tests"] if t["name"] == rf.get("name", cfg["tests"][0]["name"]))
    binp = os.path.join(VERIF, "build", pid, "bin", pid + (".race" if test.get("race") else "") + ".test")
    tmpd = tempfile.mkdtemp(prefix="ddmin")
    sig0 = rf["sig"]
    runs = [0]

    def fails(ops):
        runs[0] += 1
        cand = dict(rf)
        cand["script"] = dict(rf["script"], ops=ops)
        p = os.path.join(tmpd, "cand.json")
        json.dump(cand, open(p, "w"))
        env = dict(os.environ, VERIF_REPLAY=p, VERIF_OUT=tmpd, VERIF_PROPERTY=pid, VERIF_SHARD="0",
                   VERIF_KNOWN=os.path.join(VERIF, "known_findings.json"))
        try:
            r = subprocess.run([binp, "-test.run", "^%s$" % test["name"], "-test.timeout", "120s"], env=env,
                               cwd=tmpd, stdout=subprocess.PIPE, stderr=subprocess.STDOUT, text=True, timeout=150)
        except subprocess.TimeoutExpired:
            return False
        if r.returncode == 0:
            return False
        try:
            st = json.load(open(os.path.join(tmpd, "%s.0.stats.json" % test["name"])))
        except Exception:
            return False
        return st.get("violations", 0) > 0 and st.get("violation_sig") == sig0

    ops = rf["script"]["ops"]
    assert fails(ops), "original does not fail with sig %s" % sig0
    n = 2
    while len(ops) >= 2:
        chunk = max(1, len(ops) // n)
        reduced = False
        for i in range(0, len(ops), chunk):
            cand = ops[:i] + ops[i + chunk:]
            if cand and fails(cand):
                ops = cand
                n = max(n - 1, 2)
                reduced = True
                break
        if not reduced:
            if chunk == 1:
                break
            n = min(n * 2, len(ops))
    rf["script"]["ops"] = ops
    json.dump(rf, open(out, "w"), indent=1)
    print("minimised to %d ops in %d runs -> %s" % (len(ops), runs[0], out))

if __name__ == "__main__":
    main()
