"""Per-property configuration of the /verif checks (read by lib/driver.py)."""

CHECKS = {}
ALL_IDS = ["C%02d" % i for i in range(1, 21)]
# property id -> reason, for properties that are deliberately not claimed
NOT_APPLICABLE = {}

CHECKS["C12"] = dict(
    module="aspen",
    pkg="internal/verif/c12",
    packages=[("internal/verif/c12", "harness/aspen/c12")],
    level="exploration",
    rule=("rapid generates 2-4 gossip nodes with generated initial knowledge (incl. disjoint subsets and "
          "non-running 'ghost' members at differing versions) and scripts of exchange(i->j, lost sync/ack/ack2), "
          "heartbeat tick, state change, restart (fresh or stale persisted view) and fair rounds (every pair once, "
          "generated order and direction); every script ends with a fair round. Oracle: per-node per-member "
          "heartbeat monotonicity across each exchange, records equal to what the member published at that "
          "heartbeat, identical complete views after a fair round. Non-trivial = a script containing an exchange "
          "in which both sides were ahead of the other on different members; distinct by script hash."),
    assumptions=["the three-message exchange is delivered synchronously by a harness transport; production timers and RandomPeer are not exercised",
                 "a host changes its own record only together with a heartbeat increment (as production code does)"],
    technique="model-based property testing (rapid): generated exchange/tick/restart/loss scripts against a monotonicity + published-record + convergence oracle",
    level_text=("Generated-input search: thousands of gossip scripts over 2-4 real gossip.Gossip/store.Store instances wired by a "
                "synchronous harness transport; each step is checked against an independent heartbeat order and the set of records "
                "each member published. Sampled, not exhaustive; no absence claim."),
    level_note="Trusted: the harness transport (synchronous call chain, loss of sync/ack/ack2), rapid, the Go toolchain. Production timers and random peer selection are outside the check.",
    tests=[dict(name="TestC12", quick=dict(cases=20000, shards=2), thorough=dict(cases=150000, shards=16, timeout=1500))],
)

CESIUM_PKGS = [("internal/verif/tsm", "harness/cesium/tsm"), ("internal/verif/cx", "harness/cesium/cx")]
CESIUM_HOOKS = [("cesium/export_verif.go", "hooks/cesium/export_verif.go")]

CHECKS["C01"] = dict(
    module="cesium",
    pkg="internal/verif/c01",
    packages=CESIUM_PKGS + [("internal/verif/c01", "harness/cesium/c01")],
    hooks=CESIUM_HOOKS,
    level="exploration",
    technique="model-based property testing (rapid): generated writer scripts against an in-memory timestamp->value reference map",
    level_text=("Generated-input search against the M-TS reference model through the public cesium API on an in-memory filesystem: "
                "every read (db.Read and manual iterator loops) after commits, at the end and after close+reopen must equal the model byte for byte. "
                "Scripts are sampled; no absence claim."),
    level_note="Trusted: the reference model (harness/cesium/tsm), x/io/fs MemFS as the storage medium, rapid. Auto-index (wall-clock) writers are excluded; one writer per index group at a time (contention is C05).",
    rule=("rapid draws 1-2 index groups with 0-3 data channels (10 fixed + 3 variable-length types), a file-size cap from {16B..1KiB, default}, and <=40 operations "
          "open(writer in a gap: before/between/after/adjacent; data-only writers on existing index samples)/write(1-40 samples, generated spacing)/commit/close/reopen/read. "
          "Non-trivial = a script with >=2 commits on some channel and a read with a bound strictly inside stored data; distinct by script hash."),
    assumptions=["writes obey the documented rules of writes (one series per writer channel, equal lengths, increasing timestamps >= start)",
                 "a step that returns an error ends the script and is counted as discarded, not as a violation (the property conditions on successful writes)"],
    tests=[dict(name="TestC01", quick=dict(cases=600, shards=4), thorough=dict(cases=5000, shards=16, timeout=2400))],
)

CHECKS["C04"] = dict(
    module="cesium",
    pkg="internal/verif/c04",
    packages=CESIUM_PKGS + [("internal/verif/c04", "harness/cesium/c04")],
    hooks=CESIUM_HOOKS,
    level="exploration",
    technique="model-based property testing (rapid) with a metamorphic GC relation: reads before GC == after GC == reference map minus deleted keys",
    level_text=("Generated scripts of writes, time-range deletes with arbitrary bounds, synchronous GC passes (verif hook) and reopen; after every mutating step all channels "
                "are read over derived ranges and compared with the reference map; an index delete must be refused while a dependant holds a sample in range; data files must not grow across GC. Sampled."),
    level_note="Trusted: reference model, MemFS, the verif hook VerifGarbageCollect (calls the existing private pass synchronously). Deletes are issued only on groups without an open writer.",
    rule=("C01 scripts extended with delete(1-3 channels, [a,b) drawn on/between samples, on domain ends, outside) and gc at thresholds {1e-4,0.2,1.0} with small file caps. "
          "Non-trivial = a script with a delete that removed samples, a delete bound strictly between two stored samples, and a GC pass after which data files shrank; distinct by script hash."),
    assumptions=["a refused or failed multi-channel delete may leave each named channel either untouched or with [a,b) removed (the property does not promise atomicity); the refused index channel itself must be unchanged",
                 "when only a dependant's domain (not a sample) overlaps an index delete, either outcome is accepted"],
    tests=[dict(name="TestC04", quick=dict(cases=500, shards=4), thorough=dict(cases=4000, shards=16, timeout=2400))],
)
