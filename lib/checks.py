"""Per-property configuration of the /verif checks (read by lib/driver.py).

Each property has its own file lib/checks.d/<ID>.py which is exec'd with the names below in
scope and must assign CHECKS["<ID>"] = dict(...)."""
import glob, os

CHECKS = {}
ALL_IDS = ["C%02d" % i for i in range(1, 21)]
# property id -> reason, for properties that are deliberately not claimed
NOT_APPLICABLE = {}

# shared building blocks
CESIUM_PKGS = [("internal/verif/tsm", "harness/cesium/tsm"), ("internal/verif/cx", "harness/cesium/cx")]
CESIUM_HOOKS = [("cesium/export_verif.go", "hooks/cesium/export_verif.go")]

_here = os.path.dirname(os.path.abspath(__file__))
for _p in sorted(glob.glob(os.path.join(_here, "checks.d", "*.py"))):
    with open(_p) as _f:
        exec(compile(_f.read(), _p, "exec"))
