"""Build / run / merge logic of the /verif driver. Stdlib only."""
import argparse, hashlib, base64, json, os, re, resource, shutil, subprocess, sys, time, glob

VERIF = os.path.dirname(os.path.dirname(os.path.abspath(__file__)))
REPO = os.environ.get("VERIF_REPO", "/repo")
BUILD = os.path.join(VERIF, "build")
RAPID = "pgregory.net/rapid"
RAPID_VER = "v1.3.0"

sys.path.insert(0, os.path.join(VERIF, "lib"))
from checks import CHECKS  # noqa: E402


def log(*a):
    print(*a, flush=True)


def go_env():
    e = dict(os.environ)
    e["GOFLAGS"] = "-mod=mod"
    e["GOPROXY"] = "off"
    e["GOTOOLCHAIN"] = "auto"
    e.pop("GOSUMDB", None)  # GOSUMDB=off breaks the cached-toolchain switch
    e["GONOSUMDB"] = "*"
    e["GONOSUMCHECK"] = "1"
    e["GONOSUMDB"] = "*"
    e["GOWORK"] = "off"
    e.setdefault("GOCACHE", os.path.expanduser("~/.cache/go-build"))
    return e


def modcache():
    return os.environ.get("GOMODCACHE") or os.path.expanduser("~/go/pkg/mod")


def h1_of_gomod(path):
    """h1: hash of a single go.mod file as recorded in go.sum."""
    with open(path, "rb") as f:
        inner = hashlib.sha256(f.read()).hexdigest()
    summary = ("%s  go.mod\n" % inner).encode()
    return "h1:" + base64.b64encode(hashlib.sha256(summary).digest()).decode()


def rapid_sum_lines():
    d = os.path.join(modcache(), "cache", "download", RAPID, "@v")
    with open(os.path.join(d, RAPID_VER + ".ziphash")) as f:
        zh = f.read().strip()
    mh = h1_of_gomod(os.path.join(d, RAPID_VER + ".mod"))
    return ["%s %s %s" % (RAPID, RAPID_VER, zh), "%s %s/go.mod %s" % (RAPID, RAPID_VER, mh)]


def write_if_changed(path, content):
    try:
        with open(path) as f:
            if f.read() == content:
                return
    except OSError:
        pass
    tmp = path + ".tmp%d" % os.getpid()
    with open(tmp, "w") as f:
        f.write(content)
    os.replace(tmp, path)


def build_dir(pid, repo):
    """Build/output directory of a property; scratch trees (--repo) get their own."""
    if os.path.abspath(repo) == os.path.abspath(REPO):
        return os.path.join(BUILD, pid)
    return os.path.join(BUILD, "%s-%s" % (pid, hashlib.sha256(os.path.abspath(repo).encode()).hexdigest()[:8]))


def prepare_build(pid, cfg, repo):
    """Writes overlay.json, <mod>.mod and <mod>.sum for one property. Returns paths."""
    bdir = build_dir(pid, repo)
    os.makedirs(os.path.join(bdir, "bin"), exist_ok=True)
    module = cfg["module"]
    moddir = os.path.join(repo, module)
    # --- modfile
    with open(os.path.join(moddir, "go.mod")) as f:
        gomod = f.read()

    def absrep(m):
        p = m.group(2)
        return m.group(1) + os.path.normpath(os.path.join(moddir, p))
    gomod = re.sub(r"(=>\s*)(\.\.?/[^\s]*)", absrep, gomod)
    if RAPID not in gomod:
        gomod += "\nrequire %s %s\n" % (RAPID, RAPID_VER)
    modfile = os.path.join(bdir, "go.mod")
    write_if_changed(modfile, gomod)
    gosum = ""
    sp = os.path.join(moddir, "go.sum")
    if os.path.exists(sp):
        with open(sp) as f:
            gosum = f.read()
    if RAPID + " " + RAPID_VER not in gosum:
        gosum = gosum.rstrip("\n") + "\n" + "\n".join(rapid_sum_lines()) + "\n"
    write_if_changed(os.path.join(bdir, "go.sum"), gosum)
    # --- overlay
    replace = {}
    kit = os.path.join(VERIF, "harness", "kit", "kit.go")
    replace[os.path.join(moddir, "internal", "verifkit", "kit.go")] = kit
    for virt, src in cfg.get("packages", []):
        srcdir = os.path.join(VERIF, src)
        for fn in sorted(os.listdir(srcdir)):
            if fn.endswith(".go"):
                replace[os.path.join(moddir, virt, fn)] = os.path.join(srcdir, fn)
    for virt, src in cfg.get("hooks", []):
        # hook paths are relative to the repository root (may be in another module)
        replace[os.path.join(repo, virt)] = os.path.join(VERIF, src)
    overlay = os.path.join(bdir, "overlay.json")
    write_if_changed(overlay, json.dumps({"Replace": replace}, indent=1, sort_keys=True))
    return bdir, modfile, overlay


def disk_guard():
    """Builds against many scratch trees fill the Go build cache (every tree has its own
    cache keys). When the disk is nearly full the cache is dropped: the next build is
    slower, but nothing a check needs lives there."""
    try:
        free = shutil.disk_usage(os.path.expanduser("~")).free
    except OSError:
        return
    if free < 15 * (1 << 30):
        log("disk nearly full (%.1f GiB free): dropping the Go build cache" % (free / (1 << 30)))
        subprocess.run(["go", "clean", "-cache"], env=go_env(), stdout=subprocess.DEVNULL, stderr=subprocess.DEVNULL)


def build(pid, cfg, repo, race=False, fuzz=False):
    disk_guard()
    bdir, modfile, overlay = prepare_build(pid, cfg, repo)
    out = os.path.join(bdir, "bin", pid + (".race" if race else "") + (".fuzz" if fuzz else "") + ".test")
    cmd = ["go", "test", "-c", "-vet=off", "-tags", "verif", "-overlay", overlay,
           "-modfile", modfile, "-o", out]
    if race:
        cmd.append("-race")
    if fuzz:
        cmd.append("-fuzz=Fuzz")  # coverage instrumentation for native fuzzing
    cmd.append("./" + cfg["pkg"] + "/")
    t0 = time.time()
    for attempt in range(3):
        p = subprocess.run(cmd, cwd=os.path.join(repo, cfg["module"]), env=go_env(),
                           stdout=subprocess.PIPE, stderr=subprocess.STDOUT, text=True)
        # a build that dies because somebody emptied the shared Go build cache under it
        # (observed on this machine) is simply repeated
        if p.returncode != 0 and "/go-build/" in p.stdout and ("no such file or directory" in p.stdout or "cannot open file" in p.stdout):
            time.sleep(3)
            continue
        break
    if p.returncode != 0:
        log("BUILD FAILED (%s):\n%s" % (" ".join(cmd), p.stdout[-6000:]))
        return None
    log("built %s in %.1fs" % (os.path.basename(out), time.time() - t0))
    return out


class Proc:
    def __init__(self, test, shard, popen, logpath, cases, deadline):
        self.test, self.shard, self.popen, self.logpath = test, shard, popen, logpath
        self.cases, self.deadline = cases, deadline
        self.timed_out = False
        self.skipped = False


def limit_as(gb):
    def f():
        b = int(gb * (1 << 30))
        resource.setrlimit(resource.RLIMIT_AS, (b, b))
    return f


def run_tests(pid, cfg, tier, seed, binaries, outdir, replay=None, scale=1.0):
    """Runs all tests of a property; returns list of (test, shard, rc, logpath, cases, timed_out)."""
    procs, results, pending = [], [], []
    maxpar = int(os.environ.get("VERIF_JOBS", "16"))
    for test in cfg["tests"]:
        tcfg = test.get(tier) or test.get("quick")
        if tcfg is None or (tier == "quick" and test.get("quick") is None):
            continue
        if replay and test["name"] != replay[0]:
            continue
        shards = 1 if replay else tcfg.get("shards", 1)
        for sh in range(shards):
            pending.append((test, tcfg, sh))
    running = []

    def launch(test, tcfg, sh):
        race = test.get("race", False)
        binp = binaries["race" if race else "plain"]
        cases = max(1, int(tcfg.get("cases", 100) * scale))
        rseed = (seed * 1000003 + sh * 7919 + (hash_name(test["name"]) % 1000)) & 0x7FFFFFFFFFFFFFFF
        if rseed == 0:
            rseed = 1
        timeout = tcfg.get("timeout", 900)
        args = [binp, "-test.run", "^%s$" % test["name"], "-test.v", "-test.count=1",
                "-test.timeout", "%ds" % (timeout + 60),
                "-rapid.checks", str(cases), "-rapid.seed", str(rseed), "-rapid.nofailfile",
                "-rapid.shrinktime", tcfg.get("shrinktime", "60s")]
        if "steps" in tcfg:
            args += ["-rapid.steps", str(tcfg["steps"])]
        e = dict(os.environ)
        e.update({"VERIF_OUT": outdir, "VERIF_SHARD": str(sh), "VERIF_PROPERTY": pid,
                  "VERIF_KNOWN": os.path.join(VERIF, "known_findings.json"),
                  "VERIF_TIER": tier, "VERIF_CASES": str(cases), "VERIF_SEED": str(seed),
                  "VERIF_DATA": os.path.join(VERIF, "harness"),
                  "VERIF_SCRATCH": os.path.join(outdir, "scratch-%s-%d" % (test["name"], sh))})
        e.pop("VERIF_REPLAY", None)
        e.pop("VERIF_REGRESSIONS", None)
        if replay:
            e["VERIF_REPLAY"] = replay[1]
        elif sh == 0:
            rd = os.path.join(VERIF, "replays", pid)
            if os.path.isdir(rd):
                e["VERIF_REGRESSIONS"] = rd
        if race:
            e["GORACE"] = "halt_on_error=1 exitcode=66"
        gmp = tcfg.get("gomaxprocs")
        if gmp:
            e["GOMAXPROCS"] = str(gmp[sh % len(gmp)] if isinstance(gmp, list) else gmp)
        for k, v in test.get("env", {}).items():
            e[k] = str(v)
        for k, v in tcfg.get("env", {}).items():
            e[k] = str(v)
        logpath = os.path.join(outdir, "%s.%d.log" % (test["name"], sh))
        lf = open(logpath, "w")
        pre = None
        vl = test.get("vlimit_gb")
        if vl and not race:
            pre = limit_as(vl)
        po = subprocess.Popen(args, cwd=outdir, env=e, stdout=lf, stderr=subprocess.STDOUT,
                              preexec_fn=pre)
        return Proc(test, sh, po, logpath, cases, time.time() + timeout)

    stop_early = False
    while pending or running:
        while pending and len(running) < maxpar:
            running.append(launch(*pending.pop(0)))
        time.sleep(0.05)
        still = []
        for pr in running:
            rc = pr.popen.poll()
            if rc is None:
                if time.time() > pr.deadline:
                    pr.timed_out = True
                    pr.popen.send_signal(3)  # SIGQUIT: goroutine dump into the log
                    try:
                        pr.popen.wait(10)
                    except subprocess.TimeoutExpired:
                        pr.popen.kill()
                        pr.popen.wait()
                    results.append(pr)
                else:
                    still.append(pr)
            else:
                results.append(pr)
                # a shard that has found a violation ends the search: the remaining shards
                # would only repeat it (or hang on a tree that is broken enough)
                if rc != 0 and not stop_early and shard_found_violation(pr, outdir):
                    stop_early = True
        if stop_early:
            pending = []
            for pr in still:
                pr.popen.kill()
                pr.popen.wait()
                pr.skipped = True
                results.append(pr)
            still = []
        running = still
    return results


def shard_found_violation(pr, outdir):
    try:
        with open(pr.logpath, errors="replace") as f:
            if "WARNING: DATA RACE" in f.read():
                return True
    except OSError:
        pass
    try:
        with open(os.path.join(outdir, "%s.%d.stats.json" % (pr.test["name"], pr.shard))) as f:
            return bool(json.load(f).get("violations"))
    except (OSError, ValueError):
        return False


def hash_name(s):
    return int(hashlib.sha256(s.encode()).hexdigest()[:8], 16)


def load_known(pid):
    p = os.path.join(VERIF, "known_findings.json")
    try:
        with open(p) as f:
            return [e for e in json.load(f).get("findings", []) if e.get("property") == pid]
    except OSError:
        return []


def merge_stats(outdir):
    merged = {}
    for p in sorted(glob.glob(os.path.join(outdir, "*.stats.json"))):
        try:
            with open(p) as f:
                s = json.load(f)
        except (OSError, ValueError):
            continue
        m = merged.setdefault(s["name"], {"evaluations": 0, "hashes": set(), "classes": {},
                                          "discards": {}, "counters": {}, "known_hits": {},
                                          "samples": [], "violations": 0, "replayed": 0,
                                          "violation_msgs": [], "replay_files": []})
        m["evaluations"] += s.get("evaluations", 0)
        m["hashes"].update(s.get("nontrivial_hashes") or [])
        for k in ("classes", "discards", "counters", "known_hits"):
            for a, b in (s.get(k) or {}).items():
                m[k][a] = m[k].get(a, 0) + b
        if len(m["samples"]) < 3:
            m["samples"].extend((s.get("samples") or [])[: 3 - len(m["samples"])])
        m["violations"] += s.get("violations", 0)
        m["replayed"] += s.get("replayed", 0)
        if s.get("violations"):
            m["violation_msgs"].append((s.get("violation_sig", ""), s.get("violation_msg", "")))
            if s.get("replay_file"):
                m["replay_files"].append(s["replay_file"])
    return merged


def write_evidence(pid, cfg, tier, seed, merged, wall, violations, extra_notes, evdir=None):
    cov = {
        "evaluations": sum(m["evaluations"] for m in merged.values()),
        "distinct_nontrivial": sum(len(m["hashes"]) for m in merged.values()),
        "rule": cfg.get("rule", ""),
        "samples": [],
        "per_test": {},
        "exhaustive": False,
    }
    for name, m in sorted(merged.items()):
        cov["per_test"][name] = {
            "evaluations": m["evaluations"], "distinct_nontrivial": len(m["hashes"]),
            "classes": dict(sorted(m["classes"].items())),
            "discards": dict(sorted(m["discards"].items())),
            "counters": dict(sorted(m["counters"].items())),
            "excluded_known_findings": dict(sorted(m["known_hits"].items())),
            "regression_replays_run": m["replayed"],
        }
        for s in m["samples"][:2]:
            cov["samples"].append({"test": name, "script": s})
        for k, v in m["counters"].items():
            cov[k] = cov.get(k, 0) + v
    if extra_notes:
        cov["notes"] = extra_notes
    ev = {
        "property_id": pid, "tier": tier, "seed": seed, "level": cfg.get("level", "exploration"),
        "coverage": cov, "assumptions": cfg.get("assumptions", []),
        "wall_s": round(wall, 2), "violations": violations,
    }
    evdir = evdir or os.path.join(VERIF, "evidence")
    os.makedirs(evdir, exist_ok=True)
    p = os.path.join(evdir, pid + ".json")
    tmp = p + ".tmp"
    with open(tmp, "w") as f:
        json.dump(ev, f, indent=1, default=str)
    os.replace(tmp, p)
    return ev



FUZZ_PROGRESS = re.compile(r"fuzz: elapsed: \S+, execs: (\d+) \(\d+/sec\), new interesting: (\d+) \(total: (\d+)\)")
FUZZ_FAIL = re.compile(r"--- FAIL: (Fuzz\w+)(?:/(\S+))?")
FUZZ_WROTE = re.compile(r"Failing input written to (\S+)")


def is_fuzz_corpus_file(path):
    try:
        with open(path, "rb") as f:
            return f.read(16).startswith(b"go test fuzz v1")
    except OSError:
        return False


def run_fuzz(pid, cfg, tier, binp, outdir, bdir, replay_file=None, scale=1.0):
    """Native (coverage-guided) fuzz targets. Both tiers execute the seed corpus (f.Add entries
    plus committed crashers under replays/<ID>/fuzz/<Target>/); the thorough tier adds a
    time-boxed campaign. Returns (violations, infra, per_target_stats)."""
    violations, infra, stats = [], [], {}
    for fz in cfg.get("fuzz", []):
        target = fz["target"]
        if replay_file:
            # replay files are named <Target>-<hash> or live in a directory named <Target>
            base = os.path.basename(replay_file)
            if not (base.startswith(target + "-") or os.path.basename(os.path.dirname(replay_file)) == target):
                continue
        cwd = os.path.join(outdir, "fuzz-" + target)
        tdir = os.path.join(cwd, "testdata", "fuzz", target)
        os.makedirs(tdir, exist_ok=True)
        committed = os.path.join(VERIF, "replays", pid, "fuzz", target)
        n_committed = 0
        if replay_file:
            shutil.copy(replay_file, os.path.join(tdir, "replay"))
        elif os.path.isdir(committed):
            for fn in sorted(os.listdir(committed)):
                shutil.copy(os.path.join(committed, fn), os.path.join(tdir, fn))
                n_committed += 1
        e = dict(os.environ)
        e.update({"VERIF_PROPERTY": pid, "VERIF_KNOWN": os.path.join(VERIF, "known_findings.json")})
        for k, v in fz.get("env", {}).items():
            e[k] = str(v)
        logpath = os.path.join(outdir, "fuzz-%s.log" % target)
        st = {"seed_corpus_runs": 0, "execs": 0, "interesting_total": 0, "new_interesting": 0,
              "committed_crashers_replayed": n_committed, "campaign_seconds": 0}

        def run(args, timeout):
            with open(logpath, "a") as lf:
                lf.write("\n$ " + " ".join(args) + "\n")
                lf.flush()
                try:
                    p = subprocess.run(args, cwd=cwd, env=e, stdout=subprocess.PIPE, stderr=subprocess.STDOUT,
                                       text=True, errors="replace", timeout=timeout)
                    out, rc = p.stdout, p.returncode
                except subprocess.TimeoutExpired as ex:
                    out, rc = (ex.stdout or b"").decode(errors="replace") if isinstance(ex.stdout, bytes) else (ex.stdout or ""), 124
                lf.write(out)
            return rc, out

        def report(out, phase):
            m = FUZZ_FAIL.search(out)
            name = m.group(2) if m and m.group(2) else None
            src = None
            w = FUZZ_WROTE.search(out)
            if w:
                src = os.path.join(cwd, w.group(1))
            elif name and os.path.exists(os.path.join(tdir, name)):
                src = os.path.join(tdir, name)
            elif name and os.path.exists(os.path.join(committed, name)):
                src = os.path.join(committed, name)
            msg = ""
            i = out.find("VERIF-FUZZ-VIOLATION")
            if i >= 0:
                msg = out[i + len("VERIF-FUZZ-VIOLATION"):i + 1500].strip()
            else:
                msg = "%s: target failed (panic, crash or timeout of the fuzz worker)\n%s" % (phase, out[-1500:])
            if src is None:
                src = logpath
            elif os.path.abspath(src).startswith(cwd):
                dst = os.path.join(outdir, "%s-%s" % (target, os.path.basename(src)))
                shutil.copy(src, dst)
                src = dst
            violations.append((target, src, msg))

        # --- seed corpus + committed crashers (deterministic, seconds)
        rc, out = run([binp, "-test.run", "^%s$" % target, "-test.count=1", "-test.timeout", "600s", "-test.v"], 700)
        st["seed_corpus_runs"] = out.count("--- PASS: %s/" % target) + out.count("--- FAIL: %s/" % target)
        if rc == 124:
            infra.append("%s: seed corpus run hit the time budget" % target)
        elif rc != 0:
            report(out, "seed corpus")
        tcfg = fz.get(tier)
        if rc == 0 and tcfg and not replay_file:
            secs = max(5, int(tcfg.get("seconds", 60) * scale))
            cache = os.path.join(bdir, "fuzzcache", target)
            os.makedirs(cache, exist_ok=True)
            rc, out = run([binp, "-test.run", "^%s$" % target, "-test.fuzz", "^%s$" % target, "-test.fuzzcachedir", cache,
                           "-test.fuzztime", "%ds" % secs, "-test.parallel", str(tcfg.get("workers", 8)), "-test.timeout", "%ds" % (secs + 600)], secs + 700)
            st["campaign_seconds"] = secs
            for m in FUZZ_PROGRESS.finditer(out):
                st["execs"], st["new_interesting"], st["interesting_total"] = int(m.group(1)), int(m.group(2)), int(m.group(3))
            if rc == 124:
                infra.append("%s: fuzz campaign hit the time budget" % target)
            elif rc != 0:
                if "--- FAIL" in out or "Failing input written" in out:
                    report(out, "campaign")
                else:
                    infra.append("%s: fuzz campaign exited %d without a failing input (see %s)" % (target, rc, logpath))
        stats[target] = st
    return violations, infra, stats


RAPID_OK = re.compile(r"\[rapid\] OK, passed (\d+) tests")


def main(argv):
    ap = argparse.ArgumentParser()
    ap.add_argument("pid")
    ap.add_argument("--tier", default=os.environ.get("VERIF_TIER", "quick"), choices=["quick", "thorough"])
    ap.add_argument("--replay")
    ap.add_argument("--scale", type=float, default=1.0)
    ap.add_argument("--repo", default=REPO)
    ap.add_argument("--only", help="run only the named test function")
    args = ap.parse_args(argv)
    pid = args.pid
    if pid not in CHECKS:
        log("unknown property %s" % pid)
        return 2
    cfg = dict(CHECKS[pid])
    if args.only:
        cfg["tests"] = [t for t in cfg["tests"] if t["name"] == args.only]
    try:
        seed = int(os.environ.get("VERIF_SEED", "1"))
    except ValueError:
        seed = 1
    if seed == 0:
        seed = 1
    t0 = time.time()
    repo = args.repo
    # --- build
    need_race = any(t.get("race") for t in cfg["tests"] if (t.get(args.tier) or (args.tier == "thorough" and t.get("quick"))))
    need_plain = any(not t.get("race") for t in cfg["tests"] if (t.get(args.tier) or (args.tier == "thorough" and t.get("quick"))))
    binaries = {}
    if need_plain:
        binaries["plain"] = build(pid, cfg, repo)
        if binaries["plain"] is None:
            log("INCONCLUSIVE property=%s reason=build-failed" % pid)
            return 2
    if need_race:
        binaries["race"] = build(pid, cfg, repo, race=True)
        if binaries["race"] is None:
            log("INCONCLUSIVE property=%s reason=race-build-failed" % pid)
            return 2
    fuzz_replay = None
    if args.replay and is_fuzz_corpus_file(args.replay):
        fuzz_replay = os.path.abspath(args.replay)
    if cfg.get("fuzz") and (fuzz_replay or not args.replay) and not args.only:
        binaries["fuzz"] = build(pid, cfg, repo, fuzz=True)
        if binaries["fuzz"] is None:
            log("INCONCLUSIVE property=%s reason=fuzz-build-failed" % pid)
            return 2
    outdir = os.path.join(build_dir(pid, repo), "out")
    shutil.rmtree(outdir, ignore_errors=True)
    os.makedirs(outdir)
    if fuzz_replay:
        fv, fi, _ = run_fuzz(pid, cfg, args.tier, binaries["fuzz"], outdir, build_dir(pid, repo), replay_file=fuzz_replay)
        for name, src, msg in fv:
            log("--- %s: %s" % (name, msg))
            log("VIOLATION property=%s replay=%s" % (pid, fuzz_replay))
        if fv:
            return 1
        for i in fi:
            log("INCONCLUSIVE property=%s reason=%s" % (pid, i))
        if fi:
            return 2
        log("OK property=%s replay=%s" % (pid, fuzz_replay))
        return 0
    replay = None
    if args.replay:
        rp = os.path.abspath(args.replay)
        try:
            with open(rp) as f:
                rname = json.load(f).get("name")
        except (OSError, ValueError) as ex:
            log("cannot read replay %s: %s" % (rp, ex))
            return 2
        if not rname:
            rname = cfg["tests"][0]["name"]
        replay = (rname, rp)
    results = run_tests(pid, cfg, args.tier, seed, binaries, outdir, replay=replay, scale=args.scale)
    merged = merge_stats(outdir)
    # --- classify
    violations, infra, notes = [], [], []
    for pr in results:
        if pr.skipped:
            continue
        with open(pr.logpath, errors="replace") as f:
            out = f.read()
        name = pr.test["name"]
        rc = pr.popen.returncode
        if pr.timed_out:
            if pr.test.get("stall_is_violation") and "VERIF-STALL" in out:
                violations.append((name, pr.logpath, "stall"))
            else:
                infra.append("%s shard %d: time budget hit (inconclusive)" % (name, pr.shard))
            continue
        if rc == 0:
            if not replay and not pr.test.get("no_rapid"):
                m = RAPID_OK.search(out)
                if not m:
                    infra.append("%s shard %d: no rapid summary in output" % (name, pr.shard))
                elif int(m.group(1)) < pr.cases:
                    infra.append("%s shard %d: only %s of %d cases ran" % (name, pr.shard, m.group(1), pr.cases))
            continue
        if "WARNING: DATA RACE" in out:
            violations.append((name, pr.logpath, "data race"))
            continue
        st_p = os.path.join(outdir, "%s.%d.stats.json" % (name, pr.shard))
        st = None
        try:
            with open(st_p) as f:
                st = json.load(f)
        except (OSError, ValueError):
            pass
        if st and st.get("violations"):
            src = st.get("replay_file") or pr.logpath
            violations.append((name, src, st.get("violation_sig", "") + ": " + (st.get("violation_msg", "")[:1500])))
        else:
            infra.append("%s shard %d: exit %s without a recorded violation (see %s)" % (name, pr.shard, rc, pr.logpath))
    # --- native fuzz targets
    fuzz_stats = {}
    if "fuzz" in binaries and not replay and (not violations or os.environ.get("VERIF_FUZZ_ALWAYS")):
        fv, fi, fuzz_stats = run_fuzz(pid, cfg, args.tier, binaries["fuzz"], outdir, build_dir(pid, repo), scale=args.scale)
        violations.extend(fv)
        infra.extend(fi)
        for target, st in fuzz_stats.items():
            merged[target] = {"evaluations": st["execs"] + st["seed_corpus_runs"], "hashes": set(range(st["interesting_total"])),
                              "classes": {}, "discards": {}, "counters": dict(("fuzz_" + k, v) for k, v in st.items()),
                              "known_hits": {}, "samples": [], "violations": 0, "replayed": st["committed_crashers_replayed"],
                              "violation_msgs": [], "replay_files": []}
    # --- generator health: a check whose cases are mostly discarded decides little
    for name, m in merged.items():
        tcfg = next((t for t in cfg["tests"] if t["name"] == name), {})
        limit = tcfg.get("max_discard_rate", 0.25)
        nd = sum(m["discards"].values())
        if m["evaluations"] >= 50 and nd > limit * m["evaluations"]:
            infra.append("%s: %d of %d cases were discarded (%s) - above the %.0f%% health limit; the run decides too little to be trusted" % (
                name, nd, m["evaluations"], dict(sorted(m["discards"].items())), 100 * limit))
    # --- persist found replays outside the scratch out dir
    found_dir = os.path.join(BUILD, "found", os.path.basename(build_dir(pid, repo)))
    final_viol = []
    for name, src, msg in violations:
        os.makedirs(found_dir, exist_ok=True)
        try:
            with open(src, "rb") as f:
                data = f.read()
        except OSError:
            data = msg.encode()
        hh = hashlib.sha256(data).hexdigest()[:12]
        ext = ".json" if src.endswith(".json") else ".log"
        if is_fuzz_corpus_file(src):
            ext = ""
        dst = os.path.join(found_dir, "%s-%s%s" % (name, hh, ext))
        if os.path.abspath(src).startswith(os.path.join(VERIF, "replays")):
            dst = src
        else:
            with open(dst, "wb") as f:
                f.write(data)
        final_viol.append((name, dst, msg))
    wall = time.time() - t0
    if not replay:
        custom = os.path.abspath(repo) != os.path.abspath(REPO)
        ev = write_evidence(pid, cfg, args.tier, seed, merged, wall, len(final_viol), infra,
                            evdir=os.path.join(build_dir(pid, repo), "evidence") if custom else None)
        cov = ev["coverage"]
        log("evidence: evaluations=%d distinct_nontrivial=%d wall=%.1fs" % (cov["evaluations"], cov["distinct_nontrivial"], wall))
        for name, pt in cov["per_test"].items():
            log("  %s: eval=%d nontrivial=%d discards=%s classes=%s" % (
                name, pt["evaluations"], pt["distinct_nontrivial"], pt["discards"], pt["classes"]))
    # --- known findings
    hits = {}
    for m in merged.values():
        for k, v in m["known_hits"].items():
            hits[k] = hits.get(k, 0) + v
    for e in load_known(pid):
        if e.get("status") == "known":
            log("KNOWN-FINDING: property=%s %s [key=%s; reproduced %d times in this run, excluded from search]" % (
                pid, e.get("what", ""), e.get("key", ""), hits.get(e.get("key"), 0)))
    if final_viol:
        for name, dst, msg in final_viol:
            log("--- %s: %s" % (name, msg))
            log("VIOLATION property=%s replay=%s" % (pid, dst))
        return 1
    if infra:
        for i in infra:
            log("INCONCLUSIVE property=%s reason=%s" % (pid, i))
        return 2
    if not replay and not merged:
        log("INCONCLUSIVE property=%s reason=no statistics written" % pid)
        return 2
    log("OK property=%s tier=%s seed=%d" % (pid, args.tier, seed))
    return 0
