#!/usr/bin/env python3
"""Sensitivity runner: applies hand-written mutants (deliberate breakage) to a scratch
worktree of /repo, runs the property's quick check against it and records whether the
check reported a VIOLATION.

  python3 lib/sens.py <ID> [mutant-name ...]

Mutants are defined in sensitivity/<ID>.json:
  [{"name": "...", "file": "cesium/internal/...go", "old": "...", "new": "...", "note": "..."}, ...]
(a mutant may carry "edits": [{"file","old","new"}, ...] instead of a single edit).
Results are merged into sensitivity/results.json. Scratch worktrees live under /tmp and are
removed, together with the build output under /verif/build, after each run."""
import json, os, shutil, subprocess, sys, time, hashlib
VERIF = os.path.dirname(os.path.dirname(os.path.abspath(__file__)))


def sh(*a, **k):
    return subprocess.run(a, stdout=subprocess.PIPE, stderr=subprocess.STDOUT, text=True, **k)


def main():
    pid = sys.argv[1]
    only = set(sys.argv[2:])
    muts = json.load(open(os.path.join(VERIF, "sensitivity", pid + ".json")))
    resp = os.path.join(VERIF, "sensitivity", "results.json")
    results = json.load(open(resp)) if os.path.exists(resp) else {}
    for m in muts:
        if only and m["name"] not in only:
            continue
        wt = "/tmp/mut-%s-%s" % (pid.lower(), hashlib.sha256(m["name"].encode()).hexdigest()[:6])
        sh("git", "-C", "/repo", "worktree", "remove", "--force", wt)
        r = sh("git", "-C", "/repo", "worktree", "add", "--detach", wt, "HEAD")
        if r.returncode != 0:
            print(r.stdout)
            continue
        try:
            ok = True
            for e in m.get("edits") or [m]:
                p = os.path.join(wt, e["file"])
                s = open(p).read()
                if s.count(e["old"]) != 1:
                    print("mutant %s: pattern occurs %d times in %s" % (m["name"], s.count(e["old"]), e["file"]))
                    ok = False
                    break
                open(p, "w").write(s.replace(e["old"], e["new"]))
            if not ok:
                continue
            t0 = time.time()
            env = dict(os.environ, VERIF_SEED=os.environ.get("VERIF_SEED", "1"))
            r = sh(os.path.join(VERIF, "check"), pid, "--repo", wt, cwd=VERIF, env=env)
            dt = time.time() - t0
            viol = [l for l in r.stdout.splitlines() if l.startswith("VIOLATION")]
            sigs = [l[4:160] for l in r.stdout.splitlines() if l.startswith("--- ")]
            status = "caught" if viol else ("inconclusive" if r.returncode == 2 else "MISSED")
            print("%s %-40s %-12s %5.0fs  %s" % (pid, m["name"], status, dt, sigs[0] if sigs else ""))
            results.setdefault(pid, {})[m["name"]] = {"status": status, "wall_s": round(dt), "first_signature": sigs[0] if sigs else "",
                                                     "note": m.get("note", ""), "files": [e["file"] for e in (m.get("edits") or [m])]}
            if status != "caught":
                print(r.stdout[-1500:])
        finally:
            sh("git", "-C", "/repo", "worktree", "remove", "--force", wt)
            bname = "%s-%s" % (pid, hashlib.sha256(os.path.abspath(wt).encode()).hexdigest()[:8])
            for d in (os.path.join(VERIF, "build", bname), os.path.join(VERIF, "build", "found", bname)):
                shutil.rmtree(d, ignore_errors=True)
        if m["name"] in results.get(pid, {}):
            import fcntl
            with open(resp + ".lock", "w") as lk:  # several runners may work on different properties at once
                fcntl.flock(lk, fcntl.LOCK_EX)
                cur = json.load(open(resp)) if os.path.exists(resp) else {}
                cur.setdefault(pid, {})[m["name"]] = results[pid][m["name"]]
                json.dump(cur, open(resp, "w"), indent=1, sort_keys=True)


if __name__ == "__main__":
    main()
