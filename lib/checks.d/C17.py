CHECKS["C17"] = dict(
    module="x/go",
    pkg="internal/verif/c17",
    packages=[("internal/verif/c17", "harness/x/c17")],
    level="exploration",
    rule=("rapid generates histories over a gorp table (int32 keys 1..NK, NK<=12) with two LookupIndexes (fields A, B sharing a 3-4 value domain) "
          "and a SortedIndex (field S, 3/4/16 values) on memkv; every indexed domain contains the zero value of its type (\"\" for A/B, 0 for S), and a dedicated macro generates delete -> re-create (and set -> delete -> set) of one key inside one transaction with the re-created indexed values equal to the zero value, equal to the values before the delete, or fresh, followed by a positive or negated indexed query on the new value: rows seeded before OpenTable (bulk populate, optionally without WaitForIndexes, optionally "
          "with a refused populate scan), up to 3 interleaved transactions (open/commit/abort in any order; leftovers aborted), table-bound "
          "create/update/delete by key and through indexed filter trees on the DB handle or inside a transaction (set-delete-set on one key, same row in "
          "two transactions), batches that bypass the table and reach the indexes only through the change observer (DB-observer mode and "
          "WithIndexObservable mode as in the distribution layer), table reopen, queries with filter trees of depth <= 3 over idx.Filter / MatchKeys / "
          "Match under And/Or/Not (Exec, Count, Exists, Limit/Offset, chained Where), direct Index.Get, ordered walks with cursor pagination. "
          "Oracles: indexed form == one gorp.Match full scan of the same predicate == in-memory model with one overlay per open transaction; "
          "Index.Get for every index, every domain value and every reader (committed and each open tx) == model after each commit/abort/replicated batch/reopen "
          "and at the end; pages == documented 'strictly past the cursor value' slices of the full walk, concatenation == full walk when sort values are distinct. "
          "Non-trivial = history in which two simultaneously open transactions staged writes touching the same indexed (field,value) and which contains a "
          "query with Not or Or above an indexed leaf; distinct by script hash."),
    assumptions=["kv transactions are pebble indexed batches: a reader sees the latest committed state overlaid by its own staged writes (read committed, last commit wins); the model is exactly that and is cross-checked by the full scan on every query",
                 "ordered iteration (OrderBy) is documented not to reflect the reader's uncommitted writes: ordered walks are issued only on the DB handle or in transactions without staged writes",
                 "SortedQuery.After is documented to skip every entry whose value is <= the cursor: when a page boundary falls inside a group of equal sort values the rest of the group is not returned; this is counted (class pagination-tie-group-split), not reported",
                 "filters made only of MatchKeys under And/Or have gorp's bare-keys contract (ErrNotFound for missing keys, Exists = all exist): ErrNotFound is tolerated there, Exists is not compared",
                 "Limit is applied before the post-filter on ordered walks (documented); Offset is not combined with OrderBy",
                 "writes inside a transaction always go through the table-bound builders (unbound writes are not staged against the indexes by design)"],
    technique="model-based + differential property testing (rapid): generated multi-transaction histories and filter trees; indexed query vs full scan vs overlay model; Index.Get sweeps against the model",
    level_text=("Generated-input search: tens of thousands of histories per run against the real gorp table/index/filter/retrieve code on memkv; each query is decided three ways "
                "(indexed, full scan, model), each transaction end is followed by a sweep of all index buckets for all readers. Sampled, not exhaustive; no absence claim."),
    level_note=("Trusted: the overlay model (cross-checked against the full scan), memkv/pebble, rapid, the Go toolchain. Histories are sequential interleavings: "
                "goroutine-level races between commit, observer and populate are not exercised (only the deterministic no-wait populate case). "
                "TestC17DupValues is the same search with equality leaves that repeat a value (idx.Filter(v, v)); it is separate so that this shallow class does not stop the main search."),
    tests=[dict(name="TestC17", quick=dict(cases=16000, shards=4), thorough=dict(cases=40000, shards=16, timeout=1800)),
           dict(name="TestC17DupValues", quick=dict(cases=3000, shards=1), thorough=dict(cases=15000, shards=2, timeout=1800))],
)
