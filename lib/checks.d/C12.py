CHECKS["C12"] = dict(
    module="aspen",
    pkg="internal/verif/c12",
    packages=[("internal/verif/c12", "harness/aspen/c12")],
    level="exploration",
    rule=("rapid generates 2-4 gossip nodes with generated initial knowledge (incl. disjoint subsets and "
          "non-running 'ghost' members at differing versions) and scripts of exchange(i->j, lost sync/ack/ack2), "
          "heartbeat tick, state change, restart (fresh or stale persisted view) and fair rounds (every pair once, "
          "generated order and direction); every script ends with a fair round. Oracle: per-node per-member "
          "heartbeat monotonicity across each exchange, records equal to what the member published at that "
          "heartbeat, identical complete views after a fair round. Non-trivial = a script containing an exchange "
          "in which both sides were ahead of the other on different members; distinct by script hash."),
    assumptions=["the three-message exchange is delivered synchronously by a harness transport; production timers and RandomPeer are not exercised",
                 "a host changes its own record only together with a heartbeat increment (as production code does)"],
    technique="model-based property testing (rapid): generated exchange/tick/restart/loss scripts against a monotonicity + published-record + convergence oracle",
    level_text=("Generated-input search: thousands of gossip scripts over 2-4 real gossip.Gossip/store.Store instances wired by a "
                "synchronous harness transport; each step is checked against an independent heartbeat order and the set of records "
                "each member published. Sampled, not exhaustive; no absence claim."),
    level_note="Trusted: the harness transport (synchronous call chain, loss of sync/ack/ack2), rapid, the Go toolchain. Production timers and random peer selection are outside the check.",
    tests=[dict(name="TestC12", quick=dict(cases=20000, shards=2), thorough=dict(cases=150000, shards=16, timeout=1500)),
           dict(name="TestC12Cluster", quick=dict(cases=500, shards=6, gomaxprocs=[1, 2, 4, 16, 2, 4]), thorough=dict(cases=1200, shards=16, timeout=1500))],
)
