CHECKS["C05"] = dict(
    module="cesium",
    pkg="internal/verif/c05",
    packages=CESIUM_PKGS + [("internal/verif/c05", "harness/cesium/c05")],
    hooks=CESIUM_HOOKS,
    level="exploration",
    technique="stateful model-based property testing (rapid) of the control package and of cesium writers against an argmax(authority, -open order) reference, plus race-detector stress of concurrent gate operations",
    level_text=("L1: generated histories of OpenGate/SetAuthority/Release on control.Controller (exclusive and shared concurrency, bounded and unbounded ranges, bridging ranges, ErrIfControlled/ErrOnUnauthorizedOpen) - after every step Authorize succeeds exactly for the model's holder (shared: the gates at the holder's authority), every returned Transfer names exactly the model's previous and next holder, LeadingState is the first region's holder, refused opens change nothing. "
                "L2: several cesium writers with authorities on one channel group - Write's authorized flag and persisted content follow the model; L2c (TestC05Digests): with a control update channel configured, the ControlUpdates a streamer receives reconstruct the holder after every operation, each names the holder it replaces, an operation that changes nothing publishes nothing, and ControlStates agrees. L2d (TestC05AutoIndex): an auto-index writer (data channels only) against a competitor on the index channel - the implicitly opened index carries the maximum of the writer's data-channel authorities, also after SetAuthority on one data channel or a broadcast, and the writer's frames are authorised and persisted exactly while it controls the index. L3: the same gate operations from several goroutines under the race detector with a quiescent-state check. Sampled; schedules are sampled, not enumerated."),
    level_note="Trusted: the M-CTRL model (harness), rapid, the race detector for L3. Region formation (a gate joins the single region its range overlaps; a range overlapping two regions is refused) follows the controller's documented structure.",
    rule=("L1: 2-30 ops over subjects a-e, authorities {0,1,5,254,255}, ranges [s,MAX) (70%) or bounded. Non-trivial = history with >=3 holder changes including one caused by SetAuthority and a tie decided by open order; distinct by script hash."),
    assumptions=["gates are opened with ranges of positive length"],
    tests=[dict(name="TestC05Control", quick=dict(cases=40000, shards=2), thorough=dict(cases=400000, shards=12, timeout=1500)),
           dict(name="TestC05Concurrent", race=True, quick=dict(cases=3000, shards=2, gomaxprocs=[4, 16]), thorough=dict(cases=40000, shards=8, gomaxprocs=[1, 2, 4, 16], timeout=1500)),
           dict(name="TestC05Relay", quick=dict(cases=1200, shards=2), thorough=dict(cases=12000, shards=8, timeout=1500)),
           dict(name="TestC05Writers", quick=dict(cases=1500, shards=2), thorough=dict(cases=15000, shards=8, timeout=1500)),
           dict(name="TestC05AutoIndex", quick=dict(cases=1500, shards=2), thorough=dict(cases=15000, shards=8, timeout=1500)),
           dict(name="TestC05Digests", quick=dict(cases=800, shards=2), thorough=dict(cases=10000, shards=8, timeout=1500))],
)
