CHECKS["C18"] = dict(
    module="core",
    pkg="internal/verif/c18",
    packages=[("internal/verif/c18", "harness/core/c18")],
    level="exploration",
    rule=("rapid generates 2-4 subjects (subject 0 is never given a role; subject 1 is unknown to the user service: "
          "an ontology-only resource or an id nobody knows; others are users created through the user service or the "
          "root user holding the provisioned Owner role), 2-4 role slots, 2-6 policy slots (action subsets incl. empty, "
          "0-3 objects mixing type-level and instance-level ids over 2-3 of the types channel / range / range-alias "
          "with keys 1,10,11,a,ab,1:a) and histories of create/overwrite/delete policy, create/delete role (slots have "
          "fixed keys, so a deleted role or policy can be re-created under the same key), attach policy to role, "
          "assign/unassign role (custom and provisioned roles), each either in its own committed transaction or inside "
          "one open transaction that is later committed or rolled back. After every mutation 1-2 Enforce requests "
          "(0-4 objects: all covered / exactly one uncovered / free mix, near misses = same key other type or "
          "colliding key same type; every action) and sometimes RetrievePoliciesForSubject are issued in the same "
          "view (NewEnforcer(tx) while a transaction is open, Service.Enforce otherwise) and, while a transaction is "
          "open, also against the committed view. Oracle: set-based reference M-RBAC whose initial content is read "
          "from the freshly provisioned service. Non-trivial = a script containing a request with >= 2 objects of "
          "which exactly one is uncovered, issued after a revocation (unassign of a held role, role or policy "
          "deletion, policy overwrite); distinct by script hash."),
    assumptions=["an empty object list is permitted for every subject (the statement's 'every requested object' is vacuously true; allowRequest agrees)",
                 "deleting a role removes its assignments and attachments, deleting a policy removes its attachments: a role or policy re-created under the same key starts without edges",
                 "the provisioned roles, policies and their edges are read once per case through the role/policy tables and an ontology traversal and are trusted as the initial model state",
                 "assigning a role to a subject the ontology does not know may fail or succeed; both are accepted and the model follows the outcome",
                 "mutations are only generated when they are meaningful in the model (existing role/policy); Internal roles and policies are never deleted or re-attached"],
    technique="model-based property testing (rapid): generated RBAC mutation histories and requests against a set-based reference model",
    level_text=("Generated-input search: thousands of histories over a fresh rbac.Service (gorp on memkv, ontology, group, search, auth, user, "
                "provisioned built-in roles) with every Enforce / RetrievePoliciesForSubject result compared to an independent set-based "
                "model, in committed and in-transaction views. Sampled, not exhaustive; no absence claim."),
    level_note="Added later: transactions whose storage commit is refused (the committed view must not change), relationship indexes that fail to populate when the services open (every parent lookup through the table-scan fallback). Trusted: memkv transactions, the initial provisioned state as read back from the service, rapid, the Go toolchain. The API layer (api/access) and network transport are outside the check.",
    tests=[dict(name="TestC18", quick=dict(cases=3000, shards=2), thorough=dict(cases=20000, shards=16, timeout=1800))],
)
