CHECKS["C13"] = dict(
    module="aspen",
    pkg="internal/verif/c06",
    packages=[("internal/verif/c06", "harness/aspen/c06")],
    level="exploration",
    rule=("Same simulation and script language as C06 (2-3 real kv.Open nodes behind harness transports; local transactions, synthetic "
          "leaseholders, harness-produced gossip with loss/duplication/held feedback, redelivery whole/split/reversed/doubled/merged, "
          "restart with recovery, partitions), weighted towards redelivery. Every node carries 2-3 subscribers from the start and again "
          "after each restart (DB.OnChange, NewObservable().OnChange, NewObservable(IgnoreHostLeaseholder).OnChange) and scripts attach "
          "more in the middle of traffic. Deliveries are paced one request at a time; after each, a barrier marker pushed through the same "
          "FIFO ingress must reach every subscriber, so all notifications due are in. The executor keeps the history of stored digests per "
          "node and derives, per subscriber, the multiset of changes that altered the stored state while it was attached (accepted gossip "
          "operations in request order; local and forwarded writes, which the filtered observable must hide). Judged at each stop and at the "
          "end: more notifications than state changes for a (key, value) -> notified-twice; a notified change whose operation was rejected -> "
          "stale-notification; fewer -> missed-notification; a host-led change at the filtered subscriber or a remote change hidden from it "
          "-> filter-mismatch. Sets carry a unique value per operation, so (key, value) identifies (key, version); deletes are counted per key. "
          "Non-trivial = a case with at least one duplicate delivery and at least one stale (losing) delivery; distinct by script hash."),
    assumptions=["recovery at start-up writes to the engine before any subscriber can attach (kv.Open returns afterwards); those changes are outside the oracle",
                 "subscribers return immediately and at most a handful of notifications are in flight per node, far below the 64-entry handler queue and the 500-entry relay",
                 "state divergences that belong to C06 (digest regressions, non-convergence) are counted as classes here, not reported",
                 "delete notifications carry only the key: duplicates and omissions among deletes of one key are detected by count"],
    technique=("model-based, schedule-controlling property test (rapid): real kv.Open nodes with real observers behind harness-owned transports; "
               "expected notifications derived from the per-node history of stored digests; FIFO barrier instead of timeouts to decide completeness"),
    level_text=("Generated-input search over redelivery patterns, delivery orders, restarts and subscription times on 2-3 real kv nodes with 2-3+ "
                "subscribers each; exact multiset comparison of notifications per subscriber. Sampled, not exhaustive; no absence claim."),
    level_note=("Trusted: the harness transports and barrier, the stored-digest model (re-read from the engine after every step), rapid, the Go "
                "toolchain. Slow subscribers (relay overflow) are outside the property's 'keeps up' condition and not generated."),
    tests=[dict(name="TestC13", quick=dict(cases=1000, shards=6, shrinktime="30s"),
                thorough=dict(cases=7000, shards=16, timeout=1500, shrinktime="120s"))],
)
