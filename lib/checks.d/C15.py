CHECKS["C15"] = dict(
    module="core",
    pkg="internal/verif/c15",
    packages=[("internal/verif/c15", "harness/core/c15")],
    hooks=CESIUM_HOOKS,
    level="exploration",
    rule=("rapid draws a cluster size n in {1,2,3}, name validation on (4/5) or off, and a history of 1-12 batched requests, each "
          "issued through a generated gateway node, inside db.WithTx (3/4, as the API layer does) or with a nil transaction: "
          "CreateMany of 1-4 channels (persisted index, fixed-size data, variable-length data, leased virtual, free virtual, "
          "calculated; requested leaseholder unspecified / any node) with none, RetrieveIfNameExists, "
          "OverwriteIfNameExistsAndDifferentProperties or both options, names fresh or colliding with existing channels or with "
          "the derived '<name>_time' index name; one request in four carries an invalid element, placed in the middle of the "
          "batch when it has three or more elements (unknown index, duplicate name, empty name, invalid name, taken name, unknown "
          "leaseholder); RenameMany of 1-3 channels to fresh / taken / invalid names; Delete / DeleteMany of single channels, "
          "of mixed batches (an index, the data channels it indexes - sometimes leaving one out -, virtual channels of the same "
          "leaseholder, free channels) and of random batches, sometimes with a key that never existed; DeleteManyByNames. "
          "Oracle: table model of the channels; after every request the authoritative metadata (each leaseholder's view of its "
          "own keys) is compared with the model's prediction (successful request) or adopted (failed request, open outcomes of "
          "the options), every node must come to retrieve exactly that table by scan and by name (bounded wait, timeout = "
          "discard), every node's engine - enumerated by probing every key the counters can have produced - is compared with the "
          "metadata leased to that node (key, data type, index, virtual flag, name after a successful request; existence only "
          "after a failed one), created keys must be new over the whole history and embed the requested leaseholder, names must "
          "be valid and unique with validation on, and channels deleted by the request must not be retrievable, writable or "
          "readable through any node's distribution layer nor at the leaseholder's engine. Non-trivial = a history with at "
          "least one successful delete request that removed channels of two or more kinds (index / data / virtual / free) and at "
          "least one request routed to a leaseholder other than the gateway; distinct by script hash."),
    assumptions=[
        "a fresh mock.ProvisionCluster-style in-memory cluster per case (mock.NewCluster + Provision), closed after the case; node restarts are not exercised (the mock cannot reopen a node's distribution layer on the same storage)",
        "requests are issued one at a time; after each one the harness waits for gossip quiescence (every node agrees with the leaseholders' tables, by scan and by name) for at most 6 s, otherwise the case is discarded",
        "the statement is over successful creates, renames and deletes: a request that FAILED is not required to leave the two stores consistent (cesium documents CreateChannel/DeleteChannels as not atomic and lease_proxy.go runs the engine step last for that reason); channels it leaves in exactly one store are counted (classes orphan-after-failed-request/<op>/<side>, orphan-after-failed-notx-request), the (node, key) pair is exempted from later comparisons and the history continues",
        "which requests must fail is not part of the oracle, except through name validity/uniqueness with validation on; a create carrying the Retrieve/Overwrite options may resolve a requested name to any channel that carries it, and may replace channels that share a requested or derived name",
        "one new name per key in a rename request, names without regular-expression metacharacters (MatchNames treats other names as patterns), duplicate names inside one create batch only with validation on",
        "engine enumeration probes local keys 1..(largest initial local key + number of channels submitted so far + 4) for every leaseholder prefix and the free prefix on every node's engine; the cesium directory listing is not reachable without a hook",
        "a leaseholder whose own name index still disagrees with its own table 3 s after the request returned is reported (the index is updated in the same step as the table or never); every other lag is a discard",
    ],
    technique="model-based property testing (rapid): generated multi-node create/rename/delete histories against a channel-table model, with a metadata-vs-engine cross-check after every request",
    level_text=("Generated-input search: thousands of request histories against real 1-3 node in-memory clusters (distribution layer, aspen "
                "gossip, cesium engines; fresh per case). After every request the cluster metadata is compared with a table model and with "
                "every node's time-series engine, keys are checked for novelty and leaseholder, names for validity/uniqueness, and deleted "
                "channels for being unreachable at both layers. Sampled, not exhaustive; no absence claim."),
    level_note=("Added later: `burst` (3-12 goroutines create one leased virtual channel each through one node at the same moment), renames with allowInternal=true, engines restarted on their storage at the end. Trusted: the table model and the request/result pairing in the harness, channel retrieval (full scan) as the view of a node's "
                "metadata, cesium RetrieveChannel as the view of an engine, the mock transports, rapid, the Go toolchain. Node restarts, "
                "concurrent requests and the ontology/search side effects of channel operations are outside the check; cases whose gossip "
                "does not converge within the bound are discarded, not judged."),
    tests=[dict(name="TestC15", quick=dict(cases=400, shards=4, shrinktime="45s", timeout=600),
                thorough=dict(cases=1000, shards=16, timeout=1500, shrinktime="120s"))],
)
