CHECKS["C15"] = dict(
    module="core",
    pkg="internal/verif/c15",
    packages=[("internal/verif/c15", "harness/core/c15")],
    level="exploration",
    rule="TBD",
    assumptions=[],
    technique="TBD",
    level_text="TBD",
    level_note="TBD",
    tests=[dict(name="TestC15", quick=dict(cases=40, shards=4, shrinktime="60s"),
                thorough=dict(cases=250, shards=16, timeout=1500))],
)
