CHECKS["C06"] = dict(
    module="aspen",
    pkg="internal/verif/c06",
    packages=[("internal/verif/c06", "harness/aspen/c06")],
    level="exploration",
    rule=("TestC06Cluster: rapid generates 2-4 nodes (each a real kv.Open on a memkv engine; all four kv transports are harness "
          "objects, GossipInterval 10 h so only the harness produces gossip), 1-5 keys, RecoveryThreshold 1-2 and 1-28 steps of: "
          "local transaction through DB.OpenTx (1-3 distinct keys, set/delete; versions come from the leaseholder's persisted "
          "counter, writes to keys leased elsewhere travel through the lease transport), operations of two synthetic remote "
          "leaseholders with own monotonic counters (gaps 1-5) injected as gossip, gossip(a->b) built from a's real infected set "
          "(reply of a's operation handler to an empty request) with flags drop request / drop ack / ack computed before or after "
          "b applied the request / feedback delivered, dropped, duplicated or held; late delivery, duplication or loss of held "
          "feedback; redelivery of any captured request whole, split, reversed, doubled or merged with another; stop / start / "
          "restart of a node on the same engine (real runRecovery over the harness stream, scripted commit order of the peers); "
          "partition / heal. After every step each node's engine (value + digest per key) is compared with the last-writer-wins "
          "fold (higher version, then higher leaseholder) of every operation that node was given (local writes, gossip, acks, "
          "recovery streams) and with its previous digest (never backwards). At the end the cluster is healed, down nodes are "
          "started, held feedback is delivered (or dropped), gossip runs round-robin over all ordered pairs until every infected "
          "set is empty, and every node must hold the LWW winner of all operations that exist. TestC06Order: 2-10 operations of "
          "1-4 leaseholders on 1-4 keys are delivered to 2-4 fresh single nodes in generated permutations with duplicates and "
          "batchings; final states must be identical and equal to the LWW fold. Non-trivial = a case in which some node held a "
          "digest for a key when a different operation on that key arrived (conflict) and at least one delivery was a duplicate "
          "or stale/reordered; distinct by script hash."),
    assumptions=["a node's membership view contains every real node from the start (no membership gossip runs); synthetic leaseholders are never members, so feedback addressed to them is lost and writes forwarded to them fail, as for an unknown node",
                 "at most one node is down at a time: kv.Open fails when any peer's recovery stream cannot be opened, so two simultaneously stopped nodes could never restart",
                 "lease forwarding is a synchronous RPC in the harness: delivered and answered, or refused (down / partitioned); a lost reply after delivery is not generated",
                 "two nodes may create the same fresh key concurrently (each becomes leaseholder in its own view); this is the only way two leaseholders for one key arise, for real and synthetic leaseholders alike",
                 "quiescence is declared when every node's infected set is empty and no feedback is held; the round-robin bound is 6*(threshold+3) sweeps, hitting it discards the case",
                 "waits on node pipelines (barrier marker visible at observers, gossip store and feedback sender) are bounded by 20 s and discard the case on timeout"],
    technique=("model-based, schedule-controlling property test (rapid): real kv.Open nodes behind harness-owned freighter transports; "
               "gossip rounds, feedback, redelivery, restarts and partitions are scripted; per-node LWW reference, digest monotonicity and "
               "quiescent-convergence oracles; order-independence differential over permuted/duplicated/batched deliveries to fresh nodes"),
    level_text=("Generated-input search over delivery orders, duplication, batching, feedback timing, restarts with recovery and partitions on "
                "2-4 real kv nodes; every step is checked against an independent last-writer-wins model. Sampled, not exhaustive; no absence claim."),
    level_note=("Trusted: the harness transports and the barrier (a marker operation pushed through the same FIFO ingress; marker keys '~m<n>' are "
                "private to the harness), the LWW model, rapid, the Go toolchain. The production emitter, RandomPeer and real timers are not "
                "exercised. Divergences are attributed to one sufficient cause per node and key (signature quiescent-divergence:<cause>); each "
                "cause is matched against known_findings separately. Env C06_EXCLUDE=<sig-or-cause,...> suppresses classes locally "
                "(investigation aid); C06_NORESTART=1 generates no stop/start."),
    tests=[dict(name="TestC06Order", quick=dict(cases=2500, shards=2, shrinktime="30s"),
                thorough=dict(cases=12000, shards=4, timeout=1500)),
           dict(name="TestC06Cluster", quick=dict(cases=800, shards=5, shrinktime="30s"),
                thorough=dict(cases=5000, shards=16, timeout=1500, shrinktime="120s"))],
)
