CHECKS["C06"] = dict(
    module="aspen",
    pkg="internal/verif/c06",
    packages=[("internal/verif/c06", "harness/aspen/c06")],
    level="exploration",
    rule="draft",
    assumptions=[],
    technique="draft", level_text="draft", level_note="draft",
    tests=[dict(name="TestC06Order", quick=dict(cases=100, shards=1), thorough=dict(cases=1000, shards=8, timeout=1500)),
           dict(name="TestC06Cluster", quick=dict(cases=100, shards=1), thorough=dict(cases=1000, shards=8, timeout=1500))],
)
