CHECKS["C20"] = dict(
    module="cesium",
    pkg="internal/verif/c20",
    packages=CESIUM_PKGS + [("internal/verif/c20", "harness/cesium/c20")],
    hooks=CESIUM_HOOKS,
    level="exploration",
    technique="generated concurrent writer/streamer plans run under the race detector at several GOMAXPROCS; per-streamer history oracles (per-writer sequence numbers, key-set filter, authorisation, completeness) and a stall watchdog",
    level_text=("Each generated plan runs 1-4 writers (persist+stream and stream-only, optional lower-authority contender whose samples are tagged) and 1-4 streamers (stable, re-subscribing, disconnecting mid-run, stalled) concurrently on one database. "
                "Per streamer: per-channel sequence numbers strictly increase (no duplicate, no reorder), every series belongs to a requested key set, nothing written by the unauthorised writer arrives, and a stable always-ready streamer (slow-consumer timeout raised to 60 s through the verif hook) receives every frame whose Write returned after its open ack. "
                "With the production 20 ms timeout and stalled consumers everything must still return. Schedules are sampled, not enumerated; the race detector is the schedule-independent oracle."),
    level_note="Added later: TestC20Virtual, a sequential companion on one virtual channel (shared-mode control: every writer at the leading authority is authorised): open / set authority / write, also frames without samples / close of up to three writers, one always-ready streamer that must receive exactly the authorised frames in order, marker frame as a bound. Trusted: the verif hook WithVerifStreamingConfig (sets the existing unexported streaming configuration), the race detector, the 120 s stall watchdog (declared exception: a stall that long, where microseconds are expected, is reported).",
    rule=("plans: writers x frames(1-40) x samples per frame(1-3), one writer in three also owns an int64 data channel carried in every frame, one writer in four has a lower-authority contender "
          "opened on the index, on the data channel only, or on both; streamer kinds {stable, re-subscribe after k frames of writer 0, disconnect after k frames, stalled} over subsets of all index and data keys; "
          "20% of plans use the production 20 ms timeout. Always-ready stable streamers must receive every frame on their keys; always-ready re-subscribed streamers every frame on a key of the new set whose Write began "
          "after the request was handed over (unbuffered inlet) and every frame on keys in both sets. "
          "Non-trivial = plan with >=2 writers and a streamer that re-subscribed or disconnected while writes were in flight; distinct by plan hash."),
    assumptions=["one authorised writer per channel, so per-channel sequence numbers identify a writer's write order",
                 "after a re-subscribe, two further frames of the old key set are tolerated (one buffered in the outlet, one in flight)"],
    tests=[dict(name="TestC20", race=True, stall_is_violation=True, quick=dict(cases=150, shards=4, gomaxprocs=[2, 4, 8, 16], timeout=600), thorough=dict(cases=1500, shards=16, gomaxprocs=[1, 2, 4, 16], timeout=3000)),
           dict(name="TestC20Virtual", quick=dict(cases=1500, shards=2), thorough=dict(cases=15000, shards=8, timeout=1500))],
)
