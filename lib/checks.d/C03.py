CHECKS["C03"] = dict(
    module="cesium",
    pkg="internal/verif/c03",
    packages=[("internal/verif/c03", "harness/cesium/c03")],
    level="exploration",
    technique="stateful model-based property testing (rapid) of cesium/internal/domain against an interval-set model, invariant evaluated after every operation",
    level_text=("Generated histories of open-writer/write/commit(end)/close/delete/reopen over up to 4 simultaneously open writers on one domain.DB; after every step the stored domains are enumerated and read completely: "
                "ordered, pairwise non-overlapping, fully readable from their files and (modulo merging of adjacent domains) byte-identical to the model; an open inside committed data and a commit that overlaps or moves backwards must fail with a validation error and change nothing. Sampled."),
    level_note="Added later: TestC03Loose asserts the structural clauses alone (ordered, non-overlapping, not inverted, readable, failed operations change nothing, no open inside stored data) with preset ends on 8-64 byte files, deletes beside open writers and commits or whole new domains landing inside Delete's end-offset resolver; TestC03 has a `failwrite` operation (the file system stores 1-7 bytes of a write and reports an error). Trusted: the interval model and the offset resolvers the harness passes to domain.Delete (they count the model's samples below a timestamp). Operations the model considers legal but the engine refuses are counted, not reported. Preset ends are combined with the default file size only.",
    rule=("3-45 ops; starts/ends/delete bounds drawn on, next to and inside existing domains; commit ends drawn from {valid, zero-length, backwards, exactly next domain start, inside next domain, around preset end, arbitrary}; file size in {default, 24, 40, 64 B}. "
          "Non-trivial = history ending with >=3 committed domains that contains a rejected conflicting operation followed by an accepted commit; distinct by script hash. TestC03Intervals: OverlapsWith/ContainsStamp vs the half-open definition on valid non-empty ranges."),
    assumptions=["time-range deletes are issued only while no writer is open on the channel (the unary layer serialises them through the control gate)"],
    tests=[dict(name="TestC03", quick=dict(cases=15000, shards=4), thorough=dict(cases=40000, shards=16, timeout=2400)),
           dict(name="TestC03Loose", quick=dict(cases=40000, shards=4), thorough=dict(cases=300000, shards=16, timeout=2400)),
           dict(name="TestC03Intervals", quick=dict(cases=20000, shards=1), thorough=dict(cases=200000, shards=2))],
)
