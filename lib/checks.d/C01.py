CHECKS["C01"] = dict(
    module="cesium",
    pkg="internal/verif/c01",
    packages=CESIUM_PKGS + [("internal/verif/c01", "harness/cesium/c01")],
    hooks=CESIUM_HOOKS,
    level="exploration",
    technique="model-based property testing (rapid): generated writer scripts against an in-memory timestamp->value reference map",
    level_text=("Generated-input search against the M-TS reference model through the public cesium API on an in-memory filesystem: "
                "every read (db.Read and manual iterator loops) after commits, at the end and after close+reopen must equal the model byte for byte. "
                "Scripts are sampled; no absence claim."),
    level_note="Trusted: the reference model (harness/cesium/tsm), x/io/fs MemFS as the storage medium, rapid. Auto-index writers (timestamps from the node's clock) have a test of their own, TestC01AutoIndex, whose oracle learns the timestamps after each commit (count, order, lower bound, agreement of index and data positions); one writer per index group at a time (contention is C05).",
    rule=("rapid draws 1-2 index groups with 0-3 data channels (10 fixed + 3 variable-length types), a file-size cap from {16B..1KiB, default}, and <=40 operations "
          "open(writer in a gap: before/between/after/adjacent; data-only writers on existing index samples)/write(1-40 samples, generated spacing)/commit/close/reopen/read. "
          "Non-trivial = a script with >=2 commits on some channel and a read with a bound strictly inside stored data; distinct by script hash."),
    assumptions=["writes obey the documented rules of writes (one series per writer channel, equal lengths, increasing timestamps >= start)",
                 "a step that returns an error ends the script and is counted as discarded, not as a violation (the property conditions on successful writes)"],
    tests=[dict(name="TestC01", quick=dict(cases=600, shards=8), thorough=dict(cases=5000, shards=16, timeout=2400)),
           dict(name="TestC01AutoIndex", quick=dict(cases=500, shards=2), thorough=dict(cases=5000, shards=8, timeout=2400))],
)
