CHECKS["C11"] = dict(
    module="aspen",
    pkg="internal/verif/c11",
    packages=[("internal/verif/c11", "harness/aspen/c11")],
    level="exploration",
    rule=("Every case starts from the bootstrap member (key 1) running the real pledge.Arbitrate and grows the cluster "
          "(up to 9 members) by real pledges, so juror approval memories are the ones production would hold. Views move only "
          "as production moves them: a new node knows itself; its first gossip exchange gives it the peer's view and the peer "
          "the new node; generated learn(i->j) exchanges between members where i knows j; converge = gossip fixed point; script "
          "options allow the last gossip message to be lost (one-sided learn) and the first gossip to be deferred. The "
          "coordinator never learns the admitted node automatically. TestC11: rapid generates setup joins, then 1-2 bursts of "
          "1-4 concurrent coordinator calls (member handler called with Request{Key:0}) interleaved with scheduler steps "
          "(pick a pending or abandoned juror request: deliver / deliver and lose the reply / drop / late-deliver), learn and "
          "converge steps; MaxProposals in {1,2,3,4,6,10}. TestC11Pledge: same setup, then 1-3 concurrent real pledge.Pledge "
          "calls (BlazingFastConfig, generated peer lists) against faults by request ordinal (juror: drop, timeout, lost reply, "
          "late delivery; coordinator: unreachable, grant reply lost). Oracle: (1) keys of successful pledges pairwise distinct "
          "and distinct from member keys; (2) the granted key was approved by >= floor(|view|/2)+1 members of the coordinator's "
          "candidate snapshot of that proposal; (3) response carries the cluster key; (4) no juror approves a key twice. "
          "Non-trivial = two coordinator calls of different pledges, overlapping in time, whose proposals of the same key "
          "reached the same juror; distinct by observed history (the quorum sample is random)."),
    assumptions=["node states other than Healthy never occur in candidate views (no production code sets Suspect/Dead/Left)",
                 "members do not restart during a case (juror approvals are in memory only; restarts are outside the quantifier)",
                 "the schedule is quasi-deterministic: buildQuorum samples jurors with math/rand, so a replay file is re-executed up to 300 times and the observed history is carried in the violation message",
                 "TestC11Pledge fixes MaxProposals=10: with small values pledge.Pledge livelocks once MaxProposals consecutive keys are burnt (liveness, not part of C11); such cases and 5 ms request timeouts under load end as 'timeout' discards"],
    technique=("schedule-controlling property test (rapid): real pledge coordinators/jurors over harness-owned freighter transports in "
               "which every juror request waits for a generated scheduler decision; membership views produced by a model of "
               "production gossip; uniqueness / quorum-approval / approve-once oracle over the complete observed history"),
    level_text=("Generated-input search over join orders, view staleness, interleavings of up to 4 concurrent coordinators, juror "
                "request loss, lost replies and late deliveries, plus a free-running variant with the real pledge.Pledge timers and "
                "retries. Sampled, not exhaustive; juror selection inside buildQuorum is random and not steered."),
    level_note=("Trusted: the harness transports and scheduler, the gossip view model (union on exchange; only admitted nodes appear "
                "in views), goroutine-id attribution of candidate refreshes to coordinator calls, rapid, the Go toolchain. "
                "Env C11_RELAX=none|lost restricts generated view relaxations; C11_ONLYPREFIX=1 skips duplicates whose history "
                "contained a non-prefix view (investigation aids)."),
    tests=[dict(name="TestC11", quick=dict(cases=12000, shards=2, shrinktime="20s"),
                thorough=dict(cases=20000, shards=16, timeout=1500)),
           dict(name="TestC11Pledge", quick=dict(cases=300, shards=2, shrinktime="20s"),
                thorough=dict(cases=400, shards=16, timeout=1500))],
)
