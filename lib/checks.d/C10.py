CHECKS["C10"] = dict(
    module="cesium",
    pkg="internal/verif/c10",
    packages=CESIUM_PKGS + [("internal/verif/c10", "harness/cesium/c10")],
    hooks=CESIUM_HOOKS,
    level="exploration",
    technique="model-based property testing (rapid): generated stored layouts x iterator command sequences; oracle = reference samples inside the view the iterator itself reports, plus a cesium-vs-unary iterator differential and full-traversal laws",
    level_text=("Generated layouts (several domains, gaps, deletes, rollover, variable-length types) are written through the public API, then unary.Iterator is driven with generated "
                "Seek*/Next/Prev/auto-span/SetBounds sequences; after every command Value() must equal the model samples in View() within bounds, Valid() must agree, consecutive views in one direction must be adjacent, "
                "and complete forward/backward traversals (fixed span and auto span) must visit every stored sample exactly once. Sampled."),
    level_note="Trusted: reference model, MemFS, unary.Open on the channel directories as cesium/open.go does. An iterator error is tolerated only when no stored sample remains in the direction of travel.",
    rule=("layout = C01/C04 script (<=22 ops, 1 index group, <=2 data channels, deletes, small file caps); bounds drawn around stored samples/domain ends or open; chunk in {1,2,3,5,8,50}; 2-14 commands. "
          "Non-trivial = a sequence with a direction change, or a view that straddles a gap between domains, or a view that ends between samples; distinct by script hash."),
    assumptions=["Seek return values are not asserted (the property speaks about steps and views)",
                 "SetBounds is always followed by a seek (documented: the iterator is invalid until then)"],
    tests=[dict(name="TestC10", quick=dict(cases=700, shards=8), thorough=dict(cases=6000, shards=16, timeout=2400))],
)
