CHECKS["C04"] = dict(
    module="cesium",
    pkg="internal/verif/c04",
    packages=CESIUM_PKGS + [("internal/verif/c04", "harness/cesium/c04")],
    hooks=CESIUM_HOOKS,
    level="exploration",
    technique="model-based property testing (rapid) with a metamorphic GC relation: reads before GC == after GC == reference map minus deleted keys",
    level_text=("Generated scripts of writes, time-range deletes with arbitrary bounds, synchronous GC passes (verif hook) and reopen; after every mutating step all channels "
                "are read over derived ranges and compared with the reference map; an index delete must be refused while a dependant holds a sample in range; data files must not grow across GC. Sampled."),
    level_note="Trusted: reference model, MemFS, the verif hook VerifGarbageCollect (calls the existing private pass synchronously). Deletes are issued only on groups without an open writer.",
    rule=("C01 scripts extended with delete(1-3 channels, [a,b) drawn on/between samples, on domain ends, outside) and gc at thresholds {1e-4,0.2,1.0} with small file caps. "
          "Non-trivial = a script with a delete that removed samples, a delete bound strictly between two stored samples, and a GC pass after which data files shrank; distinct by script hash."),
    assumptions=["a refused or failed multi-channel delete may leave each named channel either untouched or with [a,b) removed (the property does not promise atomicity); the refused index channel itself must be unchanged",
                 "when only a dependant's domain (not a sample) overlaps an index delete, either outcome is accepted"],
    tests=[dict(name="TestC04", quick=dict(cases=500, shards=8), thorough=dict(cases=4000, shards=16, timeout=2400))],
)
