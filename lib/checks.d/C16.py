CHECKS["C16"] = dict(
    module="core",
    pkg="internal/verif/c16",
    packages=[("internal/verif/c16", "harness/core/c16")],
    level="exploration",
    rule=("rapid draws 3-8 resource identifiers from a pool built to collide textually (types t, tt, b; keys 1, 10, 11, 100, "
          "101, a, ab, abc, b:1, so that one 'Type:Key' string is a prefix or suffix of another) and a history of 4-60 "
          "operations: define/delete resource (single and many), DefineRelationship (biased towards: accepted edges that "
          "build chains and diamonds, the reverse of an existing edge, descendant->ancestor edges closing long cycles, "
          "from == to, an existing edge, missing endpoints), DefineFromOneToManyRelationships, DeleteRelationship, "
          "Delete{Outgoing,Incoming}RelationshipsOfType, begin/commit/abort of a gorp transaction (operations outside a "
          "transaction go straight to the DB), and traversal queries (1-3 start ids, 1-4 hops of children/parents, "
          "optionally with bound intermediate entries). Oracle: adjacency-map model; DefineRelationship must return nil "
          "without change for an existing edge, an error without change for a missing endpoint, from == to or an edge "
          "that closes a cycle (DFS), and must succeed otherwise; after every step the raw relationship table and the "
          "raw resource table (read through the open transaction, and through the DB after commit/abort) equal the "
          "model; each traversal equals the model's hop-by-hop search as a set. Non-trivial = a history in which, at "
          "some step, two identifiers of which one 'Type:Key' string is a strict prefix of the other both have outgoing "
          "edges, and at least one relationship was refused for closing a cycle; distinct by script hash."),
    assumptions=["one relationship type (parent), the only one production code defines and the only one the traversers follow",
                 "one transaction open at a time (interleaved transactions belong to C17)",
                 "resource types contain no ':' and keys contain no '->' (the key format cannot represent them)",
                 "a traversal whose start set contains a missing resource may return query.ErrNotFound or the model's result; both are counted",
                 "DefineFromOneToManyRelationships with an empty target list may return nil or an error, but must not change anything",
                 "the test re-executes itself as a child process so that a fatal 'stack overflow' in the code under test becomes a violation with a replay"],
    technique="model-based property testing (rapid): generated define/delete/transaction/traversal histories over colliding identifiers against an adjacency-map + DFS oracle",
    level_text=("Generated-input search: tens of thousands of histories against a real ontology.Ontology on an in-memory gorp DB "
                "(fresh per case); every mutating step is followed by a comparison of the raw relationship and resource tables "
                "with the model, every traversal is compared with a plain graph search. Sampled, not exhaustive; no absence claim."),
    level_note="Added later: a second relationship type (cycle check spans types, traversals and delete-of-type do not), transactions whose storage commit is refused, relationship indexes that fail to populate (scan fallback). Trusted: the adjacency-map model and DFS in the harness, gorp.NewRetrieve full-table scans used as the raw view, rapid, the Go toolchain. Multi-node propagation of ontology changes and the search/index services built on top are outside the check.",
    tests=[dict(name="TestC16", quick=dict(cases=10000, shards=4, shrinktime="15s"),
                thorough=dict(cases=20000, shards=16, timeout=1500))],
)
