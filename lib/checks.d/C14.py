CHECKS["C14"] = dict(
    module="freighter/go",
    pkg="internal/verif/c14",
    packages=[("internal/verif/c14", "harness/freighter/c14")],
    level="exploration",
    rule=("rapid generates a script = one legal sequential order of client ops {Send(0..256 KiB, sequence-numbered), "
          "CloseSend, Receive} and handler ops {Receive, Send, return(nil | every registered error kind, bare or wrapped | "
          "unregistered error)}, with generated rendezvous edges (an op starts only after the other side's preceding op "
          "completed) and short sleeps; the two programs run concurrently against the real transport (mock channel "
          "buffer 0/1/3/10, websocket with json/msgpack codec, gRPC with Internal on/off). A reference model predicts every "
          "Receive result and rejects scripts that could deadlock if a transport held at most 16 KiB / buf messages in flight. "
          "CloseSend on an exactly full request buffer (incl. unbuffered) is generated on purpose while the handler is still going "
          "to Receive, usually with the handler's draining Receive held back by a rendezvous on the last Send (class closesend-on-full-buffer[-held]). "
          "After its scripted ops the client always drains to the terminal result and calls Receive three more times. "
          "Non-trivial = script in which the handler returns while >= 1 response is unread by the client in script order, or "
          "CloseSend precedes >= 1 response; distinct by script hash."),
    assumptions=[
        "timing between the two sides is sampled (rendezvous edges, sleeps of at most 1.5 ms, scheduler noise); not every interleaving is reached",
        "a blocking call that makes no progress for 30 s is counted as inconclusive (discard 'timeout'), never as a violation, with two exceptions "
        "where the statement demands a definite end and nothing remains to be awaited (10 s of observed scheduler ticks): a client Receive after the "
        "terminal result was already returned, and a handler Receive that must yield end-of-stream after the client's CloseSend has returned and all earlier requests were received",
        "websocket: a client that reaches the terminal result more than 300 ms after the handler returned is discarded, because the server "
        "deliberately tears the connection down 500 ms after the handler returns (closeReadWriteDeadline)",
        "results of Send/CloseSend are recorded as classes only; the property statement constrains Receive results",
        "registered kinds: freighter EOF/stream_closed, query.{base,not_found,unique_violation,invalid_parameters}, control.unauthorized, "
        "validation, validation.path, and one kind registered by the harness; sub-kinds that share a registered type (validate.ErrRequired, ...) are not separate kinds",
    ],
    technique="model-based property testing (rapid): generated two-sided stream scripts with rendezvous edges against a FIFO/terminal-result reference model, on mock, websocket and gRPC transports over loopback",
    level_text=("Generated-input search: thousands of two-sided scripts per transport run against real freighter servers and clients "
                "(in-memory mock, fiber/websocket and gRPC on 127.0.0.1:0); every Receive result on both ends is compared with a "
                "reference model (FIFO, no duplicates, all responses before the terminal result, terminal result matches the handler's "
                "return value and is stable). Sampled scripts and timings, not exhaustive; no absence claim."),
    level_note="Trusted: the reference model, the rendezvous machinery, rapid, the Go toolchain, loopback TCP. Context cancellation, transport failure, middleware and the freightfluence wrappers are outside the check.",
    tests=[
        dict(name="TestC14Mock",
             quick=dict(cases=44000, shards=2, gomaxprocs=[0, 2], shrinktime="15s", timeout=600),
             thorough=dict(cases=150000, shards=4, gomaxprocs=[0, 2, 1, 4], timeout=1500)),
        dict(name="TestC14WS",
             quick=dict(cases=30000, shards=3, gomaxprocs=[0, 4, 1], shrinktime="15s", timeout=600),
             thorough=dict(cases=80000, shards=6, gomaxprocs=[0, 4, 1, 2, 0, 8], timeout=1500)),
        dict(name="TestC14WSDeadline",
             quick=dict(cases=25, shards=8, shrinktime="15s", timeout=600),
             thorough=dict(cases=150, shards=16, timeout=1500)),
        dict(name="TestC14GRPC",
             quick=dict(cases=36000, shards=3, gomaxprocs=[0, 4, 1], shrinktime="15s", timeout=600),
             thorough=dict(cases=100000, shards=6, gomaxprocs=[0, 4, 1, 2, 0, 8], timeout=1500)),
    ],
)
