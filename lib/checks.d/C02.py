CHECKS["C02"] = dict(
    module="cesium",
    pkg="internal/verif/c02",
    packages=CESIUM_PKGS + [("internal/verif/c02", "harness/cesium/c02")],
    hooks=CESIUM_HOOKS,
    level="fault_enumeration",
    technique="exhaustive crash-point enumeration over a journaling filesystem (every prefix of the recorded mutation log plus torn variants of the last write) for rapid-generated operation scripts, decided against per-commit-point snapshots of the reference model",
    level_text=("For every generated script all filesystem mutations crossing the x/io/fs interface are journaled; for EVERY prefix length and for torn variants (1, n/2, n-1 bytes) of each write the "
                "crash image is rebuilt on a fresh MemFS, cesium.Open must succeed, every channel must read back a model state between its last durable commit point and the latest started one, and a new write+commit+read must work. "
                "Crash points of a script are enumerated exhaustively; scripts themselves are sampled."),
    level_note="Crash model = process crash: completed filesystem calls survive, nothing else exists (cesium never fsyncs). Trusted: the journaling wrapper and replay (harness/cesium/c02/jfs.go), MemFS, the reference model, synchronous writers so that filesystem calls are attributed to the executing script operation.",
    rule=("scripts: 1 index group, <=2 data channels, 4-22 ops of open/write(<=6 samples)/commit/close/delete/gc/reopen with small file caps, all three persistence regimes; every journal prefix and torn variant is one evaluation of the image oracle (counters images/crash_points/torn_variants). "
          "A script is non-trivial when at least one crash point lies strictly inside a write/commit/close/delete/gc operation or inside channel creation; distinct by script hash."),
    assumptions=["multi-channel commits and deletes are not atomic across channels; each channel is judged on its own",
                 "interval-persisted auto-commits become durable at writer close (or earlier); earlier durability is accepted"],
    tests=[dict(name="TestC02", quick=dict(cases=40, shards=8, shrinktime="120s"), thorough=dict(cases=400, shards=16, timeout=3000, shrinktime="300s"))],
)
