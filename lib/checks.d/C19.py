# Hazard tags excluded by default on the unchanged tree: each names a construct class whose
# documented semantics the compiler does not implement (reported as findings, see the tags in
# harness/arc/c19/interp_test.go and print_test.go). Remove a tag once the defect is fixed;
# `C19_AVOID= ./check C19` (empty) searches with nothing excluded, `C19_AVOID=a,b ./check C19`
# with a custom set.
_C19_AVOID = ",".join([
    "infer-decl-literal",  # `s := 0.0` then `s = 0` turns s into i64 (inconsistent types -> invalid WASM)
    "narrow-wrap",         # i8/i16/u8/u16 arithmetic is not wrapped to the width
    "cast-trunc",          # narrowing casts to i8/i16/u8/u16 do not truncate
    "cast-sat-s2u",        # signed -> unsigned casts do not saturate
    "cast-sat-u2s",        # unsigned -> signed casts do not saturate
    "cast-f2i-sat",        # float -> integer casts trap instead of saturating
    "prec-unary-pow",      # `-2 ^ 2` parsed as (-2) ^ 2
    "cmp-eq-rel",          # `a == b < c` parsed as a == (b < c)
    "andor-mixed",         # `a or b and c` parsed as a or (b and c)
])

CHECKS["C19"] = dict(
    module="arc/go",
    pkg="internal/verif/c19",
    packages=[("internal/verif/c19", "harness/arc/c19")],
    level="exploration",
    technique=("differential property testing (rapid): typed program generator + reference interpreter written from the language "
               "specification vs. arc.CompileText + wazero; token-mutation fuzzing of CompileText for the no-crash clause"),
    level_text=("Generated-input search: typed Arc functions (construction, not rejection) over the ten numeric types are printed with "
                "minimal parentheses, compiled with arc.CompileText, validated/instantiated with wazero wired to the STL host modules, and "
                "called on boundary and generated arguments; every result is compared bit-exactly with a reference interpreter over the "
                "generator's own AST (1 ulp only for float ^). Mutated source text must never make CompileText panic. Sampled, not exhaustive; "
                "no absence claim."),
    level_note=("Trusted: the reference interpreter M-ARC (harness/arc/c19/interp_test.go, written from arc/docs/spec.md and the reference pages), "
                "wazero (validation and execution; its optimizing compiler engine as production uses it), Go's float arithmetic, rapid. "
                "Regions the documents leave undefined are avoided and counted (evidence counters avoided-region:*, avoided-construct:*, constructed:*); "
                "constructs hitting already reported defects are excluded by the hazard tags in C19_AVOID_DEFAULT and counted (avoided-hazard*)."),
    rule=("rapid builds a function `func f(a T1, ...) R` (0-3 parameters, all ten numeric types) from a typed AST: literals, parameters, locals, "
          "stateful variables, unary -/not, + - * / % ^, comparisons, and/or, casts between all numeric types (depth <= 4), local/stateful declarations, "
          "(compound) assignment, if/else-if/else with early return, range loops (1-3 arguments), counted conditional and infinite loops with "
          "break/continue (<= 12 statements); integer exponents are literals 0-4 or from {5..17,19,..,63,64} or a clamped expression; a third of the programs "
          "define 1-2 helper functions first (1-3 scalar parameters, optional trailing defaults, small bodies; a helper may call the earlier one) "
          "that expressions call with all or only the non-defaulted arguments; 3-12 argument vectors drawn from per-type boundary values (min, max, -1, 0, 1, sign and width boundaries, "
          "NaN/inf/-0) and random ones, called in sequence on one instance. Non-trivial = an accepted program containing an integer type of <= 32 bits "
          "or a cast, with >= 1 call on a boundary argument compared against the reference; distinct by script hash. "
          "TestC19NoCrash: token delete/duplicate/swap/replace/insert/truncate mutations of generated programs and of the repository's .arc examples and "
          "```arc documentation blocks; non-trivial = text that gets past the parser."),
    assumptions=[
        "arguments of i8/i16 parameters are passed sign-extended (as the compiler materialises literals of these types and the stateful host returns them); "
        "C19_ARGS=zeroext passes them as arc/go/stl/wasm/node.go valueAt does (zero-extended) and exposes a separate finding",
        "a result is read as the runtime reads it: the low bytes of the returned register at the width of the declared type",
        "a program the parser/analyzer/compiler rejects with an error value is a discard (rate reported), a panic is a violation",
        "compile or call time-outs (30 s / 20 s) are inconclusive (discard), never a violation",
        "regions the documents leave undefined or ambiguous are not asserted (counters avoided-region:*, avoided-construct:*, constructed:* in the evidence): "
        "integer / and % by zero (divisor is a non-zero literal, or guarded by `if d != 0` / `d != 0 and ...`); MIN / -1 and MIN % -1 for i32/i64; "
        "% with a negative operand when truncated and floored remainders differ; float / by zero (spec lists division by zero as a runtime error, IEEE gives inf); "
        "float % (not implemented, documented on integers only); integer ^ with a negative exponent (exponents are small literals or clamped); "
        "float->integer cast of NaN; narrowing casts that also change signedness with an unrepresentable value (truncate and saturate rules conflict); "
        "range loops with step 0, a loop variable that leaves its type's range, or bounds assigned in the body (bounds are small by construction); "
        "stateful declarations inside if/for (documented at function top level only); statements after return; "
        "literals that cannot be spelled: the minimum of a signed type (`-128` is rejected as unary minus of 128), integers above MaxInt64, negated unsigned literals, NaN/inf",
    ],
    fuzz=[dict(target="FuzzC19CompileText", thorough=dict(seconds=240, workers=16))],
    tests=[
        dict(name="TestC19", env={"C19_AVOID_DEFAULT": _C19_AVOID},
             quick=dict(cases=5000, shards=8, timeout=900), thorough=dict(cases=25000, shards=16, timeout=3000)),
        dict(name="TestC19Runtime", env={"C19_AVOID_DEFAULT": _C19_AVOID},
             quick=dict(cases=4000, shards=4, timeout=900), thorough=dict(cases=25000, shards=16, timeout=3000)),
        dict(name="TestC19NoCrash",
             quick=dict(cases=30000, shards=2, timeout=900), thorough=dict(cases=80000, shards=16, timeout=3000)),
    ],
)
