CHECKS["C19"] = dict(
    module="arc/go",
    pkg="internal/verif/c19",
    packages=[("internal/verif/c19", "harness/arc/c19")],
    level="exploration",
    rule="wip",
    assumptions=[],
    technique="wip", level_text="wip", level_note="wip",
    tests=[dict(name="TestC19", quick=dict(cases=300, shards=4), thorough=dict(cases=3000, shards=16, timeout=2400)),
           dict(name="TestC19NoCrash", quick=dict(cases=300, shards=2), thorough=dict(cases=3000, shards=16, timeout=2400))],
)
