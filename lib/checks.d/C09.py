CHECKS["C09"] = dict(
    module="cesium",
    pkg="internal/verif/c09",
    packages=CESIUM_PKGS + [("internal/verif/c09", "harness/cesium/c09")],
    hooks=CESIUM_HOOKS,
    level="exploration",
    technique="generated concurrent plans (writers, deleters, readers, GC, channel create/delete, streamers) run under the race detector at several GOMAXPROCS; serialisability oracle over the operations that reported success, stall watchdog",
    level_text=("Each plan runs 3-8 goroutines against one database: writers on different channel groups and on the same group in disjoint time regions (auto- and explicit commit, immediate and lazy index persistence), time-range deletes, full-range reads, synchronous GC passes, create/delete of private channels and streamers. "
                "Oracles: no race report; no stall (120 s watchdog, declared exception); the final content of every channel - in memory and again after close and reopen - must be explainable by a serial order of the operations that reported success: every committed sample not covered by a later successful delete is present, samples whose commit and a covering delete overlapped in real time may be present or absent, nothing else is present; index reads taken during the run are strictly increasing. Schedules are sampled."),
    level_note="Trusted: the race detector, a harness-owned logical clock (atomic counter ticked at invoke/return) to order operations in real time, the verif GC hook. Operations that report failure (unauthorised writes, refused deletes, refused opens) are treated as having no effect.",
    rule=("plans: 1-3 index groups with one data channel each (fixed and variable types), small file caps, 3-8 tasks. Non-trivial = a run in which two writes on the same group, or a write and a successful delete, overlapped in real time (invoke/return intervals intersect); distinct by plan and observed event count."),
    assumptions=["each writer task uses its own timestamp region, so samples are identifiable and never rewritten"],
    tests=[dict(name="TestC09Domain", race=True, stall_is_violation=True, quick=dict(cases=400, shards=4, gomaxprocs=[2, 4, 8, 16], timeout=600), thorough=dict(cases=4000, shards=16, gomaxprocs=[1, 2, 4, 16], timeout=3000)),
           dict(name="TestC09", race=True, stall_is_violation=True, quick=dict(cases=450, shards=6, gomaxprocs=[2, 4, 8, 16, 3, 6], timeout=600), thorough=dict(cases=4000, shards=16, gomaxprocs=[1, 2, 4, 16], timeout=3000))],
)
