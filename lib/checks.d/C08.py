CHECKS["C08"] = dict(
    module="core",
    pkg="internal/verif/c08",
    packages=[("internal/verif/c08", "harness/core/c08")],
    level="exploration",
    technique=("property-based testing (rapid): generated frames through the real codec against an independent round-trip oracle; "
               "generated update/frame schedules for two dynamic codecs; generated and mutated byte strings decoded in a "
               "resource-limited child process with a panic / crash / TotalAlloc oracle"),
    level_text=("Generated-input search. Round trip: channel sets of 1-8 keys (fixed and variable types) and frames with 0-40 series per key "
                "through codec.NewStatic Encode/Decode, EncodeStream/DecodeStream and the HTTP framer codec, checked against an oracle written "
                "from the property text (per-key sample sequence, data type, partition into alignment-contiguous runs, dropped foreign keys). "
                "Dynamic: two codec.NewDynamic instances over a real channel service, fed the same update sequence at different moments. "
                "Bytes: Decode of mutated encodings and hostile strings for static / dynamic / HTTP codecs in every state, executed in a child "
                "process under RLIMIT_AS; a panic, a dead child or TotalAlloc > 64 KiB + 16*len(input) is a violation. Sampled, not exhaustive."),
    level_note=("Trusted: the oracle's own alignment arithmetic (no sample-index wrap generated), rapid, the Go runtime's MemStats.TotalAlloc "
                "(re-measured up to 4 times when over the bound to rule out allocation by the channel service's background goroutines), "
                "distribution/mock for the channel service. Native coverage-guided fuzzing is not wired (needs a -fuzz build in the driver)."),
    rule=("RoundTrip: rapid draws a channel set and 1-3 frames: per key 0-3 (rarely 20-40) series; lengths equal / varied / zero; time ranges zero / "
          "equal / distinct; alignments zero / equal / distinct / chains with gaps 0,1,3,-1 over several domains; entry order as built, reversed "
          "or shuffled; keys outside the set; int64<->timestamp equivalence and (rarely) a wrong data type (expects the documented validation "
          "error). Non-trivial = a frame whose flag byte differs from 'all flags set' with >= 2 kept series; distinct by (flag byte, merge "
          "pattern, key subset) of the script's frames. Dynamic: shared list of 1-10 updates over a pool of 8 channels; ops enc-update / "
          "dec-update / frame with |e-d| <= 8 and <= 6 pending updates per side; non-trivial = a non-empty frame decoded with an older state "
          "than the decoder's newest; distinct by script hash. Bytes: input = real encoding / header+hostile fields / random / tiny, then 0-3 "
          "of truncate, bit flip, byte set, hostile u32 overwrite, flag byte, sequence number, append, duplicate tail; HTTP adds the prefix byte "
          "and JSON control messages; one third of the cases go through DecodeStream with a reader that exposes only Read (1/3/7-byte or "
          "unlimited chunks), as freighter's WebSocket server does. A frame returned by Decode is re-encoded and must pass the round-trip oracle. Non-trivial = the input names a sequence number the codec knows (decoder proceeds past the header); "
          "distinct by script hash."),
    assumptions=[
        "valid frame = every series' buffer is a whole number of samples of its type (variable types: 4-byte length-prefixed samples) and sample index + length does not wrap 2^32",
        "keys outside the codec's set are dropped by Encode (unit tests 'Delayed Frames'); a kept series of the wrong data type makes Encode return a validation error (unit test 'Error Handling'); int64 and timestamp are interchangeable on input (unit tests)",
        "both sides of a stream apply the same sequence of Update calls (as the HTTP framer codec does from the open/streamer/iterator request); a decoder that has not yet applied update s must reject sequence number s with an error",
        "at most 6 Updates are issued to one codec between two Encode/Decode calls (Update blocks after 50 unprocessed updates; not part of the property)",
        "the allocation bound applies to the binary frame format; JSON control messages (which may trigger a channel lookup) get 1 MiB + 4096*len(input)",
        "inputs are at most 1 KiB, so that per-series bookkeeping (about 50 bytes allocated per 4-byte key on the wire) stays inside the 64 KiB constant",
    ],
    fuzz=[dict(target="FuzzC08Decode", thorough=dict(seconds=240, workers=16)),
          dict(target="FuzzC08HTTP", thorough=dict(seconds=240, workers=16))],
    tests=[
        dict(name="TestC08RoundTrip", quick=dict(cases=150000, shards=4), thorough=dict(cases=250000, shards=16, timeout=1500)),
        dict(name="TestC08Dynamic", quick=dict(cases=60000, shards=3), thorough=dict(cases=80000, shards=16, timeout=1500)),
        dict(name="TestC08Bytes", vlimit_gb=8, quick=dict(cases=120000, shards=4, shrinktime="20s"), thorough=dict(cases=200000, shards=16, timeout=1500)),
        dict(name="TestC08BytesFresh", vlimit_gb=8, quick=dict(cases=50000, shards=2, shrinktime="20s"), thorough=dict(cases=60000, shards=16, timeout=1500)),
    ],
)
