CHECKS["C07"] = dict(
    module="core",
    pkg="internal/verif/c07",
    # the M-TS reference model imports nothing from the repository, so the same source
    # directory is mapped into the core module as well
    packages=[("internal/verif/tsm", "harness/cesium/tsm"), ("internal/verif/c07", "harness/core/c07")],
    level="exploration",
    technique=("model-based property testing (rapid): generated channel placements, gateway choices and writer/iterator scripts on a fresh "
               "in-memory multi-node cluster (distribution/mock) against the single-node M-TS reference model"),
    level_text=("Generated-input search: every case provisions a fresh 1-3 node cluster (in-memory aspen, cesium on MemFS, mock framer and channel "
                "networks), creates index groups and free virtual channels on generated leaseholders through generated nodes, then runs a generated "
                "script of distributed writers and iterators opened through generated gateway nodes. Every iterator result (through every node at "
                "the end) is compared byte for byte with the M-TS model; each leaseholder's cesium engine is read directly and the other engines are "
                "inspected for strays; opens on never-created keys must fail; a commit that must be refused by one leaseholder must not be "
                "acknowledged, and an acknowledged commit must be visible through a generated node. Sampled, not exhaustive; no absence claim."),
    level_note=("Added later: iterators with repeated keys, writers with per-channel authorities, a lower-authority intruder opened after an acknowledged round trip of the first writer, masked partial frames (ExcludeKeys), overrun writes of auto-commit writers without acknowledgements (the following commit must return an error, not hang). Trusted: the M-TS model (harness/cesium/tsm, itself exercised against cesium by C01), distribution/mock's in-process transports "
                "(no real network, no message loss or reordering between two nodes), x/io/fs MemFS, rapid. One writer per index group at a time "
                "(control contention is C05); reads use Next(TimeSpanMax) passes only (span stepping is C10); no channel deletion, no node "
                "restart or failure; wall-clock auto-index writers are excluded. A write/commit/open that returns an error where the model "
                "expects success ends the case as a discard, so a defect that turns legal writes into errors shows up as a discard rate, not as a violation."),
    rule=("rapid draws n in {1,2,3}; 1-3 index groups (index + 0-2 data channels of 10 fixed and 3 variable-length types), each on a generated "
          "leaseholder (spread over the nodes 2/3 of the time); 0-2 free virtual channels; the two CreateMany calls (indexes + free, then data) go "
          "through generated nodes and are followed by a bounded wait until every node resolves the new keys. Up to 15 operations: open writer "
          "(generated gateway; any non-busy subset of groups plus free channels; start in a gap before/between/after committed domains; auto-commit "
          "and sync drawn; data-only writers on existing index samples), write (1-12 samples, one series per writer channel), commit (followed by a "
          "read of the writer's channels through a generated node), close, read (generated gateway, channel subset and bounds), open of a writer or "
          "iterator on 1-2 never-created keys (existing node / non-existent node / free) mixed with existing keys, and an 'overrun' write that runs "
          "into a domain committed earlier on one leaseholder, whose commit must not be acknowledged. At the end every channel is read through "
          "every node (single-channel and all-channel iterators) and from the engines. Non-trivial = a writer whose frame spans >= 2 leaseholders "
          "with a gateway different from at least one of them commits samples that are afterwards read through a node other than that gateway "
          "(generated read or post-commit read); distinct by script hash."),
    assumptions=["writes obey the documented rules of writes (one series per writer channel, equal lengths, increasing index timestamps >= start); the same timestamps are written to every index of a writer",
                 "a write/commit/open/close that returns an error although the model expects success ends the case as a discard (the property conditions on successful writes); the discard rate is reported",
                 "channel metadata reaches other nodes by gossip: a propagation or provisioning timeout is a discard, never a violation",
                 "an iterator pass is the documented loop `if SeekFirst { for Next(TimeSpanMax) { Value } }`; the frames received are additionally compared without regard to the acknowledgements, so lost data (read-mismatch-via-gateway) and misleading acknowledgements (iterator-ack-loses-samples) have separate signatures",
                 "what a refused multi-leaseholder commit leaves behind on the leaseholders that accepted it is unspecified (the writer package documents the lack of distributed transactions): after a refused commit the script ends and the writer's channels are not inspected",
                 "a channel definition (without samples) found in a non-leaseholder engine is counted, not a violation"],
    tests=[dict(name="TestC07", quick=dict(cases=450, shards=8, shrinktime="20s"),
                thorough=dict(cases=6000, shards=16, timeout=3000, shrinktime="60s"))],
)
