#!/usr/bin/env python3
"""Runs every claimed check at the given seeds / tier and prints one line per run.
  python3 lib/soak.py [--tier quick|thorough] [--seeds 1,2,3] [--only C01,C02] [--parallel N]"""
import os, subprocess, sys, time
from concurrent.futures import ThreadPoolExecutor
VERIF = os.path.dirname(os.path.dirname(os.path.abspath(__file__)))
args = sys.argv[1:]
def opt(name, default):
    return args[args.index(name) + 1] if name in args else default
tier = opt("--tier", "quick")
seeds = [int(x) for x in opt("--seeds", "1").split(",")]
ids = open(os.path.join(VERIF, "lib", "ready.txt")).read().split()
if "--only" in args:
    ids = opt("--only", "").split(",")
par = int(opt("--parallel", "1"))
def run(job):
    pid, seed = job
    t0 = time.time()
    r = subprocess.run([os.path.join(VERIF, "check"), pid, "--tier", tier], cwd=VERIF, env=dict(os.environ, VERIF_SEED=str(seed)),
                       stdout=subprocess.PIPE, stderr=subprocess.STDOUT, text=True)
    last = [l for l in r.stdout.splitlines() if l.startswith(("OK", "VIOLATION", "INCONCLUSIVE", "---"))]
    return "%s seed=%d rc=%d %4.0fs %s" % (pid, seed, r.returncode, time.time() - t0, " | ".join(x[:160] for x in last[-2:]))
with ThreadPoolExecutor(par) as ex:
    for line in ex.map(run, [(p, s) for s in seeds for p in ids]):
        print(line, flush=True)
