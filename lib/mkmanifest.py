#!/usr/bin/env python3
"""Regenerates /verif/MANIFEST.json from lib/checks.py (single source of truth)."""
import json, os, sys
HERE = os.path.dirname(os.path.abspath(__file__))
sys.path.insert(0, HERE)
from checks import CHECKS, NOT_APPLICABLE, ALL_IDS  # noqa

VERIF = os.path.dirname(HERE)
# Only checks listed in lib/ready.txt are claimed (a checks.d file may exist while a
# harness is still being built).
with open(os.path.join(HERE, "ready.txt")) as f:
    READY = set(f.read().split())
checks = []
for pid in ALL_IDS:
    if pid not in CHECKS or pid not in READY:
        continue
    c = CHECKS[pid]
    checks.append({
        "property_id": pid,
        "quick_cmd": "./check %s --tier quick" % pid,
        "thorough_cmd": "./check %s --tier thorough" % pid,
        "evidence_file": "/verif/evidence/%s.json" % pid,
        "replay_cmd_template": "./check %s --replay {path}" % pid,
        "engine": "verif-pbt",
        "level_claimed": {"category": c.get("level", "exploration"), "text": c["level_text"], "design_ref": "DESIGN.md §4 " + pid},
        "level_note": c["level_note"],
        "technique": c["technique"],
    })
na = [{"property_id": pid, "reason": NOT_APPLICABLE.get(pid, "check not built yet in this session; see DESIGN.md §4 for the planned design")}
      for pid in ALL_IDS if pid not in CHECKS or pid not in READY]
m = {
    "version": 1,
    "setup_cmd": "python3 lib/setup.py",
    "hooks": {
        "guard": "verif",
        "enable": "go test -c -tags verif -overlay /verif/build/<ID>/overlay.json -modfile /verif/build/<ID>/go.mod (hook files live in /verif/hooks and are injected by the build overlay; /repo contains no hook commits)",
        "baseline_off_cmd": "for m in alamos/go arc/go aspen cesium core freighter/go freighter/integration oracle x/go; do (cd /repo/$m && GOFLAGS=-mod=mod go test -vet=off -count=1 -timeout 25m ./...) || exit 1; done",
        "source_commits": [],
        "add_only": True,
    },
    "engines": [{"name": "verif-pbt", "path": "/verif/check", "serves_properties": [c["property_id"] for c in checks],
                 "kind_free_text": "python driver + Go harnesses (pgregory.net/rapid v1.3.0 generators, reference models, native go fuzzing, race detector) compiled into the repository modules through go build overlays"}],
    "checks": checks,
    "not_applicable": na,
    "notes": "Driver: ./check <ID> [--tier quick|thorough] [--replay FILE]; VERIF_SEED selects the rapid seeds. Exit 0 held / 1 VIOLATION / 2 inconclusive (infrastructure). Known findings: known_findings.json.",
}
with open(os.path.join(VERIF, "MANIFEST.json"), "w") as f:
    json.dump(m, f, indent=1)
print("wrote MANIFEST.json with %d checks, %d not_applicable" % (len(checks), len(na)))
