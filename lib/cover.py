#!/usr/bin/env python3
"""Statement coverage of a property's anchor files under its own check (an audit aid, not a
check): builds the property's test binary with -cover over the packages that hold the anchor
files, runs every rapid test of the property with a fraction of the quick-tier cases, and lists
the functions in the anchor files with the lowest coverage.

  python3 lib/cover.py <ID> [--scale 0.2] [--all-files]

Output goes to build/cover/<ID>/ (profiles, report.txt); nothing registered in MANIFEST.json
depends on it."""
import json, os, re, subprocess, sys
VERIF = os.path.dirname(os.path.dirname(os.path.abspath(__file__)))
sys.path.insert(0, os.path.join(VERIF, "lib"))
import driver
from checks import CHECKS

MODS = {"cesium": "github.com/synnaxlabs/cesium", "aspen": "github.com/synnaxlabs/aspen",
        "core": "github.com/synnaxlabs/synnax", "x/go": "github.com/synnaxlabs/x",
        "freighter/go": "github.com/synnaxlabs/freighter", "arc/go": "github.com/synnaxlabs/arc"}


def import_path(relfile):
    for d, imp in sorted(MODS.items(), key=lambda kv: -len(kv[0])):
        if relfile.startswith(d + "/"):
            sub = os.path.dirname(relfile[len(d) + 1:])
            return imp + ("/" + sub if sub else "")
    return None


def main():
    pid = sys.argv[1]
    scale = float(sys.argv[sys.argv.index("--scale") + 1]) if "--scale" in sys.argv else 0.2
    cfg = CHECKS[pid]
    prop = next(json.loads(l) for l in open(os.path.join(VERIF, "properties.jsonl")) if json.loads(l)["id"] == pid)
    files = [f for f in prop["anchors"]["files"] if f.endswith(".go")]
    pkgs = sorted({import_path(f) for f in files if import_path(f)})
    repo = driver.REPO
    if cfg.get("hooks"):
        # the cover tool cannot instrument a file that exists only in the overlay: use a scratch
        # worktree that physically holds the hook files
        import shutil
        repo = "/tmp/verif-cover-wt"
        subprocess.run(["git", "-C", driver.REPO, "worktree", "remove", "--force", repo], stdout=subprocess.DEVNULL, stderr=subprocess.DEVNULL)
        subprocess.run(["git", "-C", driver.REPO, "worktree", "add", "--detach", repo, "HEAD"], check=True, stdout=subprocess.DEVNULL)
        for virt, src in cfg["hooks"]:
            shutil.copy(os.path.join(VERIF, src), os.path.join(repo, virt))
        cfg = dict(cfg, hooks=[])
    bdir, modfile, overlay = driver.prepare_build(pid, cfg, repo)
    out = os.path.join(VERIF, "build", "cover", pid)
    os.makedirs(out, exist_ok=True)
    binp = os.path.join(out, pid + ".cover.test")
    cmd = ["go", "test", "-c", "-vet=off", "-tags", "verif", "-overlay", overlay, "-modfile", modfile,
           "-cover", "-covermode=atomic", "-coverpkg=" + ",".join(pkgs), "-o", binp, "./" + cfg["pkg"] + "/"]
    p = subprocess.run(cmd, cwd=os.path.join(repo, cfg["module"]), env=driver.go_env(),
                       stdout=subprocess.PIPE, stderr=subprocess.STDOUT, text=True)
    if p.returncode != 0:
        print(p.stdout[-3000:])
        sys.exit(2)
    profiles = []
    procs = []
    for test in cfg["tests"]:
        tc = test.get("quick")
        if not tc:
            continue
        cases = max(1, int(tc.get("cases", 100) * scale))
        prof = os.path.join(out, test["name"] + ".cov")
        e = dict(os.environ, VERIF_OUT=out, VERIF_SHARD="0", VERIF_PROPERTY=pid, VERIF_TIER="quick",
                 VERIF_KNOWN=os.path.join(VERIF, "known_findings.json"), VERIF_CASES=str(cases), VERIF_SEED="1",
                 VERIF_DATA=os.path.join(VERIF, "harness"), VERIF_SCRATCH=os.path.join(out, "scratch-" + test["name"]))
        rd = os.path.join(VERIF, "replays", pid)
        if os.path.isdir(rd):
            e["VERIF_REGRESSIONS"] = rd
        for k, v in test.get("env", {}).items():
            e[k] = str(v)
        args = [binp, "-test.run", "^%s$" % test["name"], "-test.count=1", "-test.timeout", "1500s",
                "-rapid.checks", str(cases), "-rapid.seed", "424243", "-rapid.nofailfile",
                "-test.coverprofile", prof]
        procs.append((test["name"], prof, subprocess.Popen(args, cwd=out, env=e, stdout=open(os.path.join(out, test["name"] + ".log"), "w"), stderr=subprocess.STDOUT)))
    for name, prof, po in procs:
        rc = po.wait()
        print("ran %s rc=%d" % (name, rc))
        if os.path.exists(prof):
            profiles.append(prof)
    # merge: block -> max count
    blocks = {}
    for prof in profiles:
        for line in open(prof):
            if line.startswith("mode:"):
                continue
            m = re.match(r"(.+):(\d+)\.(\d+),(\d+)\.(\d+) (\d+) (\d+)$", line.strip())
            if not m:
                continue
            key = (m.group(1), int(m.group(2)), int(m.group(3)), int(m.group(4)), int(m.group(5)), int(m.group(6)))
            blocks[key] = max(blocks.get(key, 0), int(m.group(7)))
    merged = os.path.join(out, "merged.cov")
    with open(merged, "w") as f:
        f.write("mode: atomic\n")
        for (fn, l0, c0, l1, c1, n), cnt in sorted(blocks.items()):
            f.write("%s:%d.%d,%d.%d %d %d\n" % (fn, l0, c0, l1, c1, n, cnt))
    r = subprocess.run(["go", "tool", "cover", "-func", merged, "-modfile", modfile], cwd=os.path.join(repo, cfg["module"]),
                       env=driver.go_env(), stdout=subprocess.PIPE, stderr=subprocess.STDOUT, text=True)
    if r.returncode != 0:
        r = subprocess.run(["go", "tool", "cover", "-func", merged], cwd=os.path.join(repo, cfg["module"]),
                           env=driver.go_env(), stdout=subprocess.PIPE, stderr=subprocess.STDOUT, text=True)
    anchors = {import_path(f) + "/" + os.path.basename(f) for f in files if import_path(f)}
    rows = []
    for line in r.stdout.splitlines():
        m = re.match(r"(\S+):(\d+):\s+(\S+)\s+([\d.]+)%", line)
        if not m:
            continue
        if "--all-files" in sys.argv or m.group(1) in anchors:
            rows.append((float(m.group(4)), m.group(1), m.group(2), m.group(3)))
    rows.sort()
    with open(os.path.join(out, "report.txt"), "w") as f:
        for pct, fn, ln, func in rows:
            f.write("%5.1f%%  %s:%s  %s\n" % (pct, fn, ln, func))
    print("anchor functions: %d, below 60%%: %d (report: %s)" % (len(rows), sum(1 for r_ in rows if r_[0] < 60), os.path.join(out, "report.txt")))
    if repo != driver.REPO:
        subprocess.run(["git", "-C", driver.REPO, "worktree", "remove", "--force", repo], stdout=subprocess.DEVNULL, stderr=subprocess.DEVNULL)
        import shutil
        shutil.rmtree(bdir, ignore_errors=True)
    for pct, fn, ln, func in rows[:45]:
        print("%5.1f%%  %s:%s  %s" % (pct, fn.replace("github.com/synnaxlabs/", ""), ln, func))


if __name__ == "__main__":
    main()
