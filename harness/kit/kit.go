// Package verifkit is the shared runtime of all /verif harnesses. It is injected into
// every repository module through the build overlay (one virtual copy per module), and
// provides: the generator/executor/replay split, statistics for the evidence file,
// known-finding matching, and replay-file writing.
//
// Contract with the driver (/verif/check), all through environment variables:
//
//	VERIF_OUT      directory for statistics (<name>.stats.json) and replays (<name>.replay.json)
//	VERIF_REPLAY   if set: path of a replay JSON; the named test executes it and nothing else
//	VERIF_KNOWN    path of known_findings.json
//	VERIF_PROPERTY property id (C01 ...)
//	VERIF_SHARD    shard number (only used to name output files)
package verifkit

import (
	"encoding/json"
	"fmt"
	"hash/fnv"
	"os"
	"path/filepath"
	"regexp"
	"runtime/debug"
	"sort"
	"strings"
	"sync"
	"testing"

	"pgregory.net/rapid"
)

// Report is filled by an executor while it runs one case.
type Report struct {
	mu         sync.Mutex
	classes    map[string]int
	nontrivial bool
	ntKey      string
	discard    string
	counters   map[string]int64
	known      []knownEntry
	knownHits  map[string]int64
}

// Known reports whether a violation signature matches a listed known finding (status
// "known") of this property, and counts the hit. Enumerating executors (many oracle
// evaluations per case) use it to exclude exactly the listed class and keep going, so a
// known finding does not hide what lies behind it in the same case.
func (r *Report) Known(sig string) bool {
	r.mu.Lock()
	defer r.mu.Unlock()
	for _, k := range r.known {
		if k.re.MatchString(sig) {
			if r.knownHits == nil {
				r.knownHits = map[string]int64{}
			}
			r.knownHits[k.Key]++
			return true
		}
	}
	return false
}

// Class records that the case exhibited the named class (counted once per case).
func (r *Report) Class(name string) {
	r.mu.Lock()
	defer r.mu.Unlock()
	if r.classes == nil {
		r.classes = map[string]int{}
	}
	r.classes[name] = 1
}

// Classes returns the classes recorded for this case (sorted).
func (r *Report) Classes() []string {
	r.mu.Lock()
	defer r.mu.Unlock()
	out := make([]string, 0, len(r.classes))
	for c := range r.classes {
		out = append(out, c)
	}
	sort.Strings(out)
	return out
}

// Has reports whether a class has been recorded for this case.
func (r *Report) Has(name string) bool {
	r.mu.Lock()
	defer r.mu.Unlock()
	return r.classes[name] > 0
}

// Nontrivial marks the case as non-trivial by the property's stated rule.
func (r *Report) Nontrivial() {
	r.mu.Lock()
	r.nontrivial = true
	r.mu.Unlock()
}

// NontrivialKey marks the case non-trivial and overrides the distinctness key (default:
// hash of the script) — used by schedule-dependent checks where the observed history,
// not the script, distinguishes cases.
func (r *Report) NontrivialKey(key string) {
	r.mu.Lock()
	r.nontrivial = true
	r.ntKey = key
	r.mu.Unlock()
}

// Discard marks the case as discarded (e.g. an operation the property conditions on
// failed). Discarded cases are counted, never violations.
func (r *Report) Discard(reason string) {
	r.mu.Lock()
	r.discard = reason
	if r.classes == nil {
		r.classes = map[string]int{}
	}
	r.classes["__discarded"] = 1
	r.mu.Unlock()
}

// Add adds n to a free-form counter that is summed over all cases (e.g. crash points).
func (r *Report) Add(name string, n int64) {
	r.mu.Lock()
	defer r.mu.Unlock()
	if r.counters == nil {
		r.counters = map[string]int64{}
	}
	r.counters[name] += n
}

// Violation is returned by an executor when the oracle fails. Sig is a stable signature
// of the failing input class, matched against known_findings.json.
type Violation struct {
	Sig string
	Msg string
}

func (v *Violation) Error() string { return v.Sig + ": " + v.Msg }

// Fail builds a violation.
func Fail(sig, format string, args ...any) *Violation {
	return &Violation{Sig: sig, Msg: fmt.Sprintf(format, args...)}
}

type knownEntry struct {
	Property string `json:"property"`
	Key      string `json:"key"`
	Status   string `json:"status"`
	Match    string `json:"match"`
	What     string `json:"what"`
	re       *regexp.Regexp
}

type stats struct {
	Property     string           `json:"property"`
	Name         string           `json:"name"`
	Evaluations  int64            `json:"evaluations"`
	Nontrivial   int64            `json:"nontrivial"`
	Hashes       []uint64         `json:"nontrivial_hashes"`
	Classes      map[string]int64 `json:"classes"`
	Discards     map[string]int64 `json:"discards"`
	Counters     map[string]int64 `json:"counters"`
	KnownHits    map[string]int64 `json:"known_hits"`
	Samples      []any            `json:"samples"`
	Violations   int64            `json:"violations"`
	ViolationMsg string           `json:"violation_msg,omitempty"`
	ViolationSig string           `json:"violation_sig,omitempty"`
	ReplayFile   string           `json:"replay_file,omitempty"`
	Replayed     int64            `json:"replayed"`
}

// Runner accumulates statistics of one named check inside a test binary.
type Runner[S any] struct {
	Name string
	// Exec runs one script against the real code and the oracle. A non-nil error is a
	// violation unless it matches a listed known finding.
	Exec func(script S, rep *Report) error
	// MaxSamples is the number of sample scripts kept for evidence (default 3).
	MaxSamples int
	// ReplayRepeat is how often a committed replay is executed (default once); checks
	// whose outcome depends on the goroutine schedule set it above one.
	ReplayRepeat int

	st     stats
	hashes map[uint64]struct{}
	known  []knownEntry
	last   *S
	lastV  *Violation
}

func env(k, def string) string {
	if v := os.Getenv(k); v != "" {
		return v
	}
	return def
}

func (r *Runner[S]) init() {
	r.st = stats{
		Property: env("VERIF_PROPERTY", "?"), Name: r.Name,
		Classes: map[string]int64{}, Discards: map[string]int64{}, Counters: map[string]int64{},
		KnownHits: map[string]int64{},
	}
	r.hashes = map[uint64]struct{}{}
	if r.MaxSamples == 0 {
		r.MaxSamples = 3
	}
	if p := os.Getenv("VERIF_KNOWN"); p != "" {
		if b, err := os.ReadFile(p); err == nil {
			var f struct {
				Findings []knownEntry `json:"findings"`
			}
			if json.Unmarshal(b, &f) == nil {
				for _, e := range f.Findings {
					if e.Property == r.st.Property && e.Status == "known" && e.Match != "" {
						if re, err := regexp.Compile(e.Match); err == nil {
							e.re = re
							r.known = append(r.known, e)
						}
					}
				}
			}
		}
	}
}

// HashOf returns the 64-bit FNV hash of the canonical JSON of v.
func HashOf(v any) uint64 {
	b, _ := json.Marshal(v)
	h := fnv.New64a()
	_, _ = h.Write(b)
	return h.Sum64()
}

func hashString(s string) uint64 {
	h := fnv.New64a()
	_, _ = h.Write([]byte(s))
	return h.Sum64()
}

// runOne executes one case, records statistics and returns a violation that is not a
// known finding (nil otherwise). Panics inside Exec are converted to violations.
func (r *Runner[S]) runOne(script S) (v *Violation) {
	rep := &Report{known: r.known}
	var err error
	func() {
		defer func() {
			if p := recover(); p != nil {
				if isRapidInternal(p) {
					panic(p)
				}
				err = &Violation{Sig: "panic", Msg: fmt.Sprintf("panic: %v\n%s", p, trimStack(debug.Stack()))}
			}
		}()
		err = r.Exec(script, rep)
	}()
	r.st.Evaluations++
	for c := range rep.classes {
		r.st.Classes[c]++
	}
	for c, n := range rep.counters {
		r.st.Counters[c] += n
	}
	if rep.discard != "" {
		r.st.Discards[rep.discard]++
	}
	for k, n := range rep.knownHits {
		r.st.KnownHits[k] += n
	}
	if err != nil {
		viol, ok := err.(*Violation)
		if !ok {
			viol = &Violation{Sig: "error", Msg: err.Error()}
		}
		for _, k := range r.known {
			if k.re.MatchString(viol.Sig) {
				r.st.KnownHits[k.Key]++
				return nil
			}
		}
		return viol
	}
	if rep.nontrivial && rep.discard == "" {
		var h uint64
		if rep.ntKey != "" {
			h = hashString(rep.ntKey)
		} else {
			h = HashOf(script)
		}
		if _, seen := r.hashes[h]; !seen {
			r.hashes[h] = struct{}{}
			r.st.Nontrivial++
			if len(r.st.Samples) < r.MaxSamples {
				r.st.Samples = append(r.st.Samples, script)
			}
		}
	}
	return nil
}

func isRapidInternal(p any) bool {
	s := fmt.Sprintf("%T", p)
	return strings.HasPrefix(s, "rapid.") || strings.HasPrefix(s, "*rapid.")
}

func trimStack(b []byte) string {
	s := string(b)
	if len(s) > 6000 {
		s = s[:6000] + "\n...[truncated]"
	}
	return s
}

func (r *Runner[S]) outPath(suffix string) string {
	dir := env("VERIF_OUT", os.TempDir())
	_ = os.MkdirAll(dir, 0o755)
	return filepath.Join(dir, fmt.Sprintf("%s.%s.%s", r.Name, env("VERIF_SHARD", "0"), suffix))
}

func (r *Runner[S]) flush() {
	r.st.Hashes = r.st.Hashes[:0]
	for h := range r.hashes {
		r.st.Hashes = append(r.st.Hashes, h)
	}
	sort.Slice(r.st.Hashes, func(i, j int) bool { return r.st.Hashes[i] < r.st.Hashes[j] })
	if len(r.st.Samples) == 0 && r.last != nil {
		r.st.Samples = append(r.st.Samples, *r.last)
	}
	b, _ := json.Marshal(r.st)
	_ = os.WriteFile(r.outPath("stats.json"), b, 0o644)
}

type replayFile[S any] struct {
	Property string `json:"property"`
	Name     string `json:"name"`
	Sig      string `json:"sig"`
	Msg      string `json:"msg"`
	Script   S      `json:"script"`
}

func (r *Runner[S]) writeReplay() {
	if r.last == nil || r.lastV == nil {
		return
	}
	p := r.outPath("replay.json")
	msg := r.lastV.Msg
	if len(msg) > 4000 {
		msg = msg[:4000]
	}
	b, _ := json.MarshalIndent(replayFile[S]{Property: r.st.Property, Name: r.Name, Sig: r.lastV.Sig, Msg: msg, Script: *r.last}, "", " ")
	_ = os.WriteFile(p, b, 0o644)
	r.st.ReplayFile = p
}

// Replays executes every committed replay in dir (files named <Name>.*.json or
// <Name>-*.json) as a plain regression case. A failure is reported as a violation unless
// it matches a known finding.
func (r *Runner[S]) replayFiles(t *testing.T, files []string) bool {
	for _, f := range files {
		b, err := os.ReadFile(f)
		if err != nil {
			t.Fatalf("replay %s: %v", f, err)
		}
		var rf replayFile[S]
		if err := json.Unmarshal(b, &rf); err != nil {
			t.Fatalf("replay %s: %v", f, err)
		}
		if rf.Name != "" && rf.Name != r.Name {
			continue
		}
		s := rf.Script
		r.last = &s
		var v *Violation
		// schedule-dependent checks re-run a committed script several times: one execution
		// samples one interleaving
		for n := 0; n < max(1, r.ReplayRepeat) && v == nil; n++ {
			r.st.Replayed++
			v = r.runOne(s)
		}
		if v != nil {
			r.lastV = v
			r.st.Violations++
			r.st.ViolationMsg = v.Msg
			r.st.ViolationSig = v.Sig
			r.st.ReplayFile = f
			t.Errorf("replay %s violates: %s", f, v.Error())
			return false
		}
	}
	return true
}

// Run is the entry point used by the test functions. gen draws a script using rapid;
// r.Exec decides it.
func (r *Runner[S]) Run(t *testing.T, gen func(*rapid.T) S) {
	r.init()
	defer r.flush()
	if rp := os.Getenv("VERIF_REPLAY"); rp != "" {
		r.replayFiles(t, []string{rp})
		return
	}
	if dir := os.Getenv("VERIF_REGRESSIONS"); dir != "" {
		files, _ := filepath.Glob(filepath.Join(dir, "*.json"))
		sort.Strings(files)
		if !r.replayFiles(t, files) {
			return
		}
	}
	defer func() {
		if t.Failed() {
			if r.lastV == nil {
				r.lastV = &Violation{Sig: "rapid", Msg: "rapid reported a failure outside the executor (generator panic or flaky case)"}
			}
			r.st.Violations++
			r.st.ViolationMsg = r.lastV.Msg
			r.st.ViolationSig = r.lastV.Sig
			r.writeReplay()
		}
	}()
	rapid.Check(t, func(rt *rapid.T) {
		script := gen(rt)
		r.last = &script
		if v := r.runOne(script); v != nil {
			r.lastV = v
			rt.Fatalf("%s", v.Error())
		}
	})
}

// RunScripts executes a fixed list of scripts (no rapid): used by enumerating checks and
// by fuzz-crasher replays.
func (r *Runner[S]) RunScripts(t *testing.T, scripts []S) {
	r.init()
	defer r.flush()
	for i := range scripts {
		r.last = &scripts[i]
		if v := r.runOne(scripts[i]); v != nil {
			r.lastV = v
			r.st.Violations++
			r.st.ViolationMsg = v.Msg
			r.st.ViolationSig = v.Sig
			r.writeReplay()
			t.Errorf("%s", v.Error())
			return
		}
	}
}
