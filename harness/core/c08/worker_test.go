package verif_c08_test

import (
	"bufio"
	"encoding/binary"
	"encoding/json"
	"fmt"
	"io"
	"os"
	"os/exec"
	"strconv"
	"strings"
	"sync"
	"syscall"
	"testing"
	"time"

	kit "github.com/synnaxlabs/synnax/internal/verifkit"
)

// "Decoding an arbitrary byte string never crashes the process" can only be observed from
// outside the process. TestC08Bytes therefore executes every case in a child process (this
// same test binary, running TestC08BytesWorker) under an address-space limit. The child
// answers with the oracle's verdict; if it dies instead, the parent records a violation for
// exactly the input it had sent, and starts a new child. Allocations that fit under the limit
// are caught deterministically by the TotalAlloc oracle inside the child; the child is
// recycled after such a case so that no large span is ever reused (and zeroed).

type wReq struct {
	Kind   string       `json:"kind"` // exec | pool
	Script *BytesScript `json:"script,omitempty"`
}

type wResp struct {
	Sig        string           `json:"sig,omitempty"`
	Msg        string           `json:"msg,omitempty"`
	Classes    []string         `json:"classes,omitempty"`
	Adds       map[string]int64 `json:"adds,omitempty"`
	Discard    string           `json:"discard,omitempty"`
	Nontrivial bool             `json:"nontrivial,omitempty"`
	Big        bool             `json:"big,omitempty"`
	PoolKeys   []uint32         `json:"pool_keys,omitempty"`
	Err        string           `json:"err,omitempty"`
}

type recorder struct{ r wResp }

func (r *recorder) Class(c string) { r.r.Classes = append(r.r.Classes, c) }
func (r *recorder) Add(k string, n int64) {
	if r.r.Adds == nil {
		r.r.Adds = map[string]int64{}
	}
	r.r.Adds[k] += n
}
func (r *recorder) Discard(d string) { r.r.Discard = d }
func (r *recorder) Nontrivial()      { r.r.Nontrivial = true }

func writeMsg(w io.Writer, v any) error {
	b, err := json.Marshal(v)
	if err != nil {
		return err
	}
	var l [4]byte
	binary.LittleEndian.PutUint32(l[:], uint32(len(b)))
	if _, err := w.Write(l[:]); err != nil {
		return err
	}
	_, err = w.Write(b)
	return err
}

func readMsg(r io.Reader, v any) error {
	var l [4]byte
	if _, err := io.ReadFull(r, l[:]); err != nil {
		return err
	}
	b := make([]byte, binary.LittleEndian.Uint32(l[:]))
	if _, err := io.ReadFull(r, b); err != nil {
		return err
	}
	return json.Unmarshal(b, v)
}

// TestC08BytesWorker is the child side. It is only ever started by TestC08Bytes.
func TestC08BytesWorker(t *testing.T) {
	if os.Getenv("VERIF_C08_WORKER") == "" {
		t.Skip("helper process of TestC08Bytes")
	}
	gb := 4.0
	if v, err := strconv.ParseFloat(os.Getenv("VERIF_C08_WORKER_AS_GB"), 64); err == nil && v > 0 {
		gb = v
	}
	var lim syscall.Rlimit
	if err := syscall.Getrlimit(syscall.RLIMIT_AS, &lim); err == nil {
		want := uint64(gb * float64(1<<30))
		if want < lim.Max {
			lim.Max = want
		}
		if want < lim.Cur {
			lim.Cur = want
		}
		if lim.Cur > lim.Max {
			lim.Cur = lim.Max
		}
		_ = syscall.Setrlimit(syscall.RLIMIT_AS, &lim)
	}
	in := bufio.NewReader(os.NewFile(3, "requests"))
	out := os.NewFile(4, "responses")
	for {
		var req wReq
		if err := readMsg(in, &req); err != nil {
			return // parent closed the pipe
		}
		var rec recorder
		switch req.Kind {
		case "pool":
			p, err := getPool()
			if err != nil {
				rec.r.Err = err.Error()
			} else {
				rec.r.PoolKeys = p.keys
			}
		case "exec":
			big, err := execBytes(*req.Script, &rec)
			rec.r.Big = big
			if err != nil {
				if v, ok := err.(*kit.Violation); ok {
					rec.r.Sig, rec.r.Msg = v.Sig, v.Msg
				} else {
					rec.r.Sig, rec.r.Msg = "error", err.Error()
				}
			}
		}
		if err := writeMsg(out, &rec.r); err != nil {
			return
		}
	}
}

// tailBuf keeps the end of what is written to it until a Go crash report starts; from then on
// it keeps the beginning of the report (its first lines say what happened).
type tailBuf struct {
	mu     sync.Mutex
	b      []byte
	frozen bool
}

func (t *tailBuf) Write(p []byte) (int, error) {
	t.mu.Lock()
	defer t.mu.Unlock()
	if t.frozen {
		if len(t.b) < 6<<10 {
			t.b = append(t.b, p...)
		}
		return len(p), nil
	}
	t.b = append(t.b, p...)
	for _, marker := range []string{"fatal error:", "panic:", "runtime: out of memory", "runtime: cannot allocate"} {
		if i := strings.Index(string(t.b), marker); i >= 0 {
			t.b = append([]byte{}, t.b[i:]...)
			t.frozen = true
			return len(p), nil
		}
	}
	if len(t.b) > 16<<10 {
		t.b = append([]byte{}, t.b[len(t.b)-(8<<10):]...)
	}
	return len(p), nil
}

func (t *tailBuf) head(n int) string {
	t.mu.Lock()
	defer t.mu.Unlock()
	s := string(t.b)
	if len(s) > n {
		s = s[:n] + "..."
	}
	return s
}

type workerProc struct {
	cmd   *exec.Cmd
	to    *os.File
	from  *bufio.Reader
	fromF *os.File
	log   *tailBuf
}

type workerMgr struct {
	w      *workerProc
	keys   []uint32
	spawns int
}

func newWorkerMgr() *workerMgr { return &workerMgr{} }

func (m *workerMgr) spawn() error {
	reqR, reqW, err := os.Pipe()
	if err != nil {
		return err
	}
	respR, respW, err := os.Pipe()
	if err != nil {
		return err
	}
	cmd := exec.Command(os.Args[0], "-test.run=^TestC08BytesWorker$", "-test.timeout=0", "-test.count=1")
	cmd.Env = append(os.Environ(), "VERIF_C08_WORKER=1", "GOTRACEBACK=single")
	cmd.ExtraFiles = []*os.File{reqR, respW}
	log := &tailBuf{}
	cmd.Stdout, cmd.Stderr = log, log
	if err := cmd.Start(); err != nil {
		return err
	}
	_ = reqR.Close()
	_ = respW.Close()
	m.w = &workerProc{cmd: cmd, to: reqW, from: bufio.NewReader(respR), fromF: respR, log: log}
	m.spawns++
	return nil
}

func (m *workerMgr) kill() {
	if m.w == nil {
		return
	}
	_ = m.w.to.Close()
	_ = m.w.cmd.Process.Kill()
	_ = m.w.cmd.Wait()
	_ = m.w.fromF.Close()
	m.w = nil
}

func (m *workerMgr) stop() { m.kill() }

// call sends one request. died=true: the child exited (or closed its pipe) before answering.
func (m *workerMgr) call(req wReq) (resp wResp, died bool, diag string, err error) {
	if m.w == nil {
		if err = m.spawn(); err != nil {
			return
		}
	}
	w := m.w
	if err = writeMsg(w.to, &req); err != nil {
		// child already gone (should not happen: it is respawned after every death)
		m.kill()
		return resp, true, "write to worker failed: " + err.Error(), nil
	}
	type rr struct {
		resp wResp
		err  error
	}
	ch := make(chan rr, 1)
	go func() {
		var r rr
		r.err = readMsg(w.from, &r.resp)
		ch <- r
	}()
	select {
	case r := <-ch:
		if r.err != nil {
			_ = w.to.Close()
			werr := w.cmd.Wait()
			_ = w.fromF.Close()
			m.w = nil
			return resp, true, fmt.Sprintf("worker exit: %v\n%s", werr, w.log.head(1500)), nil
		}
		return r.resp, false, "", nil
	case <-time.After(120 * time.Second):
		m.kill()
		<-ch
		return resp, false, "", fmt.Errorf("worker-timeout")
	}
}

func (m *workerMgr) poolKeys() []uint32 {
	if m.keys != nil {
		return m.keys
	}
	resp, died, diag, err := m.call(wReq{Kind: "pool"})
	if err != nil || died || resp.Err != "" {
		panic(fmt.Sprintf("c08: cannot obtain pool keys from worker: %v %v %s %s", err, died, diag, resp.Err))
	}
	m.keys = resp.PoolKeys
	return m.keys
}

func (m *workerMgr) exec(sc BytesScript, rep *kit.Report) error {
	resp, died, diag, err := m.call(wReq{Kind: "exec", Script: &sc})
	if err != nil {
		rep.Discard(err.Error())
		return nil
	}
	if died {
		sig := "decode-process-crash"
		if strings.Contains(diag, "out of memory") || strings.Contains(diag, "cannot allocate memory") {
			sig = "decode-crash-out-of-memory"
		}
		return kit.Fail(sig, "the process died while decoding %d bytes (target %s %s) under its address-space limit; input %s\n%s", len(sc.Input)/2, sc.Target, sc.Msg, sc.Input, diag)
	}
	for _, c := range resp.Classes {
		rep.Class(c)
	}
	for k, n := range resp.Adds {
		rep.Add(k, n)
	}
	if resp.Nontrivial {
		rep.Nontrivial()
	}
	if resp.Discard != "" {
		rep.Discard(resp.Discard)
	}
	if resp.Big {
		m.kill() // recycle: never reuse a heap that held a huge span
	}
	if resp.Sig != "" {
		return kit.Fail(resp.Sig, "%s", resp.Msg)
	}
	return nil
}
