package verif_c08_test

import (
	"context"
	"encoding/binary"
	"encoding/hex"
	"fmt"
	"io"
	"os"
	"runtime"
	"runtime/debug"
	"strings"
	"testing"

	fhttp "github.com/synnaxlabs/freighter/http"
	kit "github.com/synnaxlabs/synnax/internal/verifkit"
	"github.com/synnaxlabs/synnax/pkg/distribution/framer"
	"github.com/synnaxlabs/synnax/pkg/distribution/framer/codec"
	httpframer "github.com/synnaxlabs/synnax/pkg/transport/http/framer"
	xjson "github.com/synnaxlabs/x/encoding/json"
	"pgregory.net/rapid"
)

// BytesScript: one Decode call on a codec in a given state with an explicit input.
type BytesScript struct {
	// Target: static | dyn-fresh (NewDynamic, never updated) | dyn-updated |
	// http-fresh | http-updated (HTTP framer codec around a dynamic codec, as WithCodec builds it).
	Target string `json:"target"`
	// Msg (http only): wreq wres sreq sres ireq ires — the WSMessage payload type decoded into.
	Msg      string     `json:"msg,omitempty"`
	Chans    []ChanSpec `json:"chans,omitempty"`     // static: channel set
	PoolKeys []uint32   `json:"pool_keys,omitempty"` // channel keys of the pool the input was built for
	Updates  [][]int    `json:"updates,omitempty"`   // *-updated: pool indices per Update call
	// Stream: call DecodeStream with a reader that exposes nothing but Read (as the WebSocket
	// message reader in freighter's stream server does) and hands out at most Chunk bytes per
	// call (0 = no limit); otherwise Decode(bytes).
	Stream bool   `json:"stream,omitempty"`
	Chunk  int    `json:"chunk,omitempty"`
	Input  string `json:"input"`         // hex
	How    string `json:"how,omitempty"` // how the generator built the input (for humans)
}

const maxInput = 1024

var hostileU32 = []uint32{0, 1, 2, 0xFFFFFFFF, 0x7FFFFFFF, 0x80000000, 0xFFFFFFFE, 0x00FFFFFF, 0x0000FFFF, 0x000000FF, 0x01000000, 0x10000000, 0x00010000}

var httpMsgs = []string{"wreq", "wres", "sreq", "sres", "ireq", "ires"}

func le32(v uint32) []byte {
	var b [4]byte
	binary.LittleEndian.PutUint32(b[:], v)
	return b[:]
}

// genFrameBytes draws a candidate wire frame for a codec whose states are sets[0..] (state s =
// sets[s-1]); with no sets the codec has no state at all.
func genFrameBytes(t *rapid.T, sets [][]ChanSpec) ([]byte, string) {
	nseq := len(sets)
	genSeq := func() uint32 {
		if nseq > 0 && rapid.IntRange(0, 5).Draw(t, "seqValid") > 0 {
			return uint32(rapid.IntRange(1, nseq).Draw(t, "seq"))
		}
		return rapid.SampledFrom([]uint32{0, 1, 2, 3, 50, 0xFFFFFFFF}).Draw(t, "seqX")
	}
	kinds := []string{"valid", "valid", "valid", "header", "header", "random", "tiny"}
	if nseq == 0 {
		kinds = []string{"valid", "header", "header", "random", "tiny"}
	}
	var b []byte
	how := rapid.SampledFrom(kinds).Draw(t, "base")
	switch how {
	case "valid":
		var chans []ChanSpec
		seq := uint32(1)
		if nseq > 0 {
			seq = uint32(rapid.IntRange(1, nseq).Draw(t, "seq"))
			chans = sets[seq-1]
		} else {
			chans = genChans(t)
		}
		specs := genFrame(t, chans, nil, frameOpts{small: true})
		set := setOf(chans)
		for i := range specs { // a valid encoding needs matching data types
			specs[i].DT = set[specs[i].Key]
		}
		fr, _ := buildFrame(specs, identityKey)
		enc, err := staticCodec(chans).Encode(context.Background(), fr)
		if err != nil || len(enc) < 5 {
			enc = append([]byte{0x3F}, le32(1)...)
		}
		copy(enc[1:5], le32(seq))
		b = enc
	case "header":
		flags := byte(rapid.IntRange(0, 63).Draw(t, "flags"))
		if rapid.IntRange(0, 9).Draw(t, "hiFlags") == 0 {
			flags |= byte(rapid.IntRange(1, 3).Draw(t, "hi") << 6)
		}
		b = append([]byte{flags}, le32(genSeq())...)
		for n := rapid.IntRange(0, 6).Draw(t, "nfields"); n > 0; n-- {
			switch rapid.IntRange(0, 4).Draw(t, "field") {
			case 0:
				b = append(b, le32(rapid.SampledFrom(hostileU32).Draw(t, "u32"))...)
			case 1:
				b = append(b, le32(uint32(rapid.IntRange(0, 12).Draw(t, "small")))...)
			case 2:
				if nseq > 0 { // a key of some state
					s := sets[rapid.IntRange(0, nseq-1).Draw(t, "ks")]
					b = append(b, le32(s[rapid.IntRange(0, len(s)-1).Draw(t, "ki")].Key)...)
				} else {
					b = append(b, le32(rapid.SampledFrom(keyPool).Draw(t, "key"))...)
				}
			case 3:
				b = append(b, rapid.SliceOfN(rapid.Byte(), 8, 8).Draw(t, "u64")...)
			default:
				b = append(b, rapid.SliceOfN(rapid.Byte(), 0, 9).Draw(t, "raw")...)
			}
		}
	case "random":
		b = rapid.SliceOfN(rapid.Byte(), 0, 64).Draw(t, "random")
	default:
		b = rapid.SliceOfN(rapid.Byte(), 0, 5).Draw(t, "tiny")
	}
	// mutations
	for n := rapid.SampledFrom([]int{0, 0, 1, 1, 1, 2, 3}).Draw(t, "nmut"); n > 0; n-- {
		kind := rapid.SampledFrom([]string{"trunc", "flip", "set", "u32", "u32", "flags", "seq", "append", "dup"}).Draw(t, "mut")
		pos := 0
		if len(b) > 0 {
			pos = rapid.IntRange(0, len(b)-1).Draw(t, "pos")
		}
		switch kind {
		case "trunc":
			b = b[:pos]
		case "flip":
			if len(b) > 0 {
				b[pos] ^= 1 << rapid.IntRange(0, 7).Draw(t, "bit")
			}
		case "set":
			if len(b) > 0 {
				b[pos] = rapid.SampledFrom([]byte{0, 0xFF, 0x80, 0x7F, 1}).Draw(t, "val")
			}
		case "u32":
			if pos+4 <= len(b) {
				copy(b[pos:], le32(rapid.SampledFrom(hostileU32).Draw(t, "u32")))
			}
		case "flags":
			if len(b) > 0 {
				b[0] = byte(rapid.IntRange(0, 63).Draw(t, "flags"))
			}
		case "seq":
			if len(b) >= 5 {
				copy(b[1:5], le32(genSeq()))
			}
		case "append":
			b = append(b, rapid.SliceOfN(rapid.Byte(), 1, 12).Draw(t, "tail")...)
		case "dup":
			if len(b) > 0 {
				b = append(b, b[pos:]...)
			}
		}
		how += "+" + kind
	}
	if len(b) > maxInput {
		b = b[:maxInput]
	}
	return b, how
}

func genJSONMsg(t *rapid.T, msg string, poolKeys []uint32) []byte {
	keys := func() string {
		var parts []string
		for n := rapid.IntRange(0, 4).Draw(t, "nk"); n > 0; n-- {
			if len(poolKeys) > 0 && rapid.IntRange(0, 4).Draw(t, "kreal") > 0 {
				parts = append(parts, fmt.Sprint(rapid.SampledFrom(poolKeys).Draw(t, "k")))
			} else {
				parts = append(parts, fmt.Sprint(rapid.SampledFrom([]uint32{0, 1, 77, 4294967295}).Draw(t, "kx")))
			}
		}
		return "[" + strings.Join(parts, ",") + "]"
	}
	switch rapid.IntRange(0, 5).Draw(t, "jsonKind") {
	case 0:
		return []byte(`{"type":"open"}`)
	case 1:
		return []byte(`{"type":"close","err":{"type":"freighter.eof","data":""}}`)
	case 2:
		return []byte(`{"type":"data","payload":{}}`)
	}
	switch msg {
	case "wreq":
		cmd := rapid.IntRange(0, 3).Draw(t, "cmd")
		return []byte(fmt.Sprintf(`{"type":"data","payload":{"command":%d,"config":{"keys":%s,"start":0},"frame":{"keys":%s,"series":[]}}}`, cmd, keys(), keys()))
	case "sreq", "ireq":
		return []byte(fmt.Sprintf(`{"type":"data","payload":{"keys":%s}}`, keys()))
	case "wres":
		return []byte(`{"type":"data","payload":{"command":2,"end":5,"authorized":true,"err":{"type":"nil","data":""}}}`)
	default:
		return []byte(fmt.Sprintf(`{"type":"data","payload":{"variant":1,"command":2,"frame":{"keys":%s,"series":[]}}}`, keys()))
	}
}

var (
	targetsUpdated = []string{"static", "static", "dyn-updated", "dyn-updated", "http-updated", "http-updated"}
	targetsFresh   = []string{"dyn-fresh", "http-fresh", "http-fresh"}
)

func genBytesWith(targets []string, poolKeys func() []uint32) func(t *rapid.T) BytesScript {
	return func(t *rapid.T) BytesScript {
		sc := BytesScript{Target: rapid.SampledFrom(targets).Draw(t, "target")}
		if sc.Stream = rapid.IntRange(0, 2).Draw(t, "stream") == 0; sc.Stream {
			sc.Chunk = rapid.SampledFrom([]int{0, 0, 1, 3, 7}).Draw(t, "chunk")
		}
		var sets [][]ChanSpec
		switch sc.Target {
		case "static":
			sc.Chans = genChans(t)
			sets = [][]ChanSpec{sc.Chans}
		case "dyn-updated", "http-updated":
			sc.PoolKeys = poolKeys()
			all := make([]int, len(poolTypes))
			for i := range all {
				all[i] = i
			}
			for n := rapid.IntRange(1, 3).Draw(t, "nupd"); n > 0; n-- {
				perm := rapid.Permutation(all).Draw(t, "uperm")
				u := append([]int{}, perm[:rapid.SampledFrom([]int{1, 1, 2, 3, 5}).Draw(t, "usize")]...)
				sc.Updates = append(sc.Updates, u)
				cs := make([]ChanSpec, len(u))
				for i, x := range u {
					cs[i] = ChanSpec{Key: sc.PoolKeys[x], DT: poolTypes[x]}
				}
				sets = append(sets, cs)
			}
		case "http-fresh":
			sc.PoolKeys = poolKeys()
		}
		var input []byte
		if strings.HasPrefix(sc.Target, "http") {
			sc.Msg = rapid.SampledFrom(httpMsgs).Draw(t, "msg")
			switch rapid.SampledFrom([]string{"frame", "frame", "frame", "json", "json", "rawframe"}).Draw(t, "httpKind") {
			case "frame":
				input, sc.How = genFrameBytes(t, sets)
				input = append([]byte{rapid.SampledFrom([]byte{255, 255, 255, 255, 253, 0}).Draw(t, "prefix")}, input...)
				sc.How = "prefix+" + sc.How
			case "rawframe":
				input, sc.How = genFrameBytes(t, sets)
			default:
				input = genJSONMsg(t, sc.Msg, sc.PoolKeys)
				if sc.Msg != "sreq" && sc.Msg != "ireq" || rapid.IntRange(0, 5).Draw(t, "jsonPrefix") == 0 {
					input = append([]byte{254}, input...)
				}
				sc.How = "json"
				for n := rapid.SampledFrom([]int{0, 0, 1, 2}).Draw(t, "njmut"); n > 0 && len(input) > 0; n-- {
					pos := rapid.IntRange(0, len(input)-1).Draw(t, "jpos")
					switch rapid.IntRange(0, 2).Draw(t, "jmut") {
					case 0:
						input = input[:pos]
						sc.How += "+trunc"
					case 1:
						input[pos] = rapid.Byte().Draw(t, "jval")
						sc.How += "+set"
					default:
						input = append(input[:pos:pos], append([]byte(rapid.SampledFrom([]string{"[", "{", "\"", "9999999999999999999999", "null", "-1", "1e999"}).Draw(t, "jins")), input[pos:]...)...)
						sc.How += "+insert"
					}
				}
			}
		} else {
			input, sc.How = genFrameBytes(t, sets)
		}
		if len(input) > maxInput {
			input = input[:maxInput]
		}
		sc.Input = hex.EncodeToString(input)
		return sc
	}
}

// opaqueReader exposes only Read.
type opaqueReader struct {
	b     []byte
	chunk int
}

func (r *opaqueReader) Read(p []byte) (int, error) {
	if len(r.b) == 0 {
		return 0, io.EOF
	}
	n := len(p)
	if r.chunk > 0 && n > r.chunk {
		n = r.chunk
	}
	n = copy(p[:n], r.b)
	r.b = r.b[n:]
	return n, nil
}

// httpCodec calls Decode(bytes) or DecodeStream(opaque reader) of the HTTP framer codec.
type httpCodec struct {
	c   *httpframer.Codec
	src *opaqueReader
}

func (h *httpCodec) Decode(ctx context.Context, input []byte, v any) error {
	if h.src != nil {
		return h.c.DecodeStream(ctx, h.src, v)
	}
	return h.c.Decode(ctx, input, v)
}

// reporter is the part of kit.Report the executor needs (the worker records into its own).
type reporter interface {
	Class(string)
	Add(string, int64)
	Discard(string)
	Nontrivial()
}

type outcome struct {
	err      error
	panicked any
	stack    string
	alloc    uint64
	series   int
}

// measure performs one call and returns its outcome and the bytes allocated meanwhile.
// ReadMemStats stops the world and flushes the per-P caches, so TotalAlloc is exact; other
// goroutines of the process (the channel pool's cluster, if provisioned) can add noise,
// which the caller handles by re-measuring.
func measure(call func() (int, error)) (o outcome) {
	var m1, m2 runtime.MemStats
	runtime.ReadMemStats(&m1)
	func() {
		defer func() {
			if p := recover(); p != nil {
				o.panicked = p
				o.stack = string(debug.Stack())
			}
		}()
		o.series, o.err = call()
	}()
	runtime.ReadMemStats(&m2)
	o.alloc = m2.TotalAlloc - m1.TotalAlloc
	return o
}

const (
	bigAlloc = 32 << 20 // above this the worker is recycled and no re-measurement is attempted
)

func execBytes(sc BytesScript, rep reporter) (big bool, res error) {
	input, err := hex.DecodeString(sc.Input)
	if err != nil {
		rep.Discard("bad-hex")
		return false, nil
	}
	ctx := context.Background()
	var pool *poolT
	if sc.Target != "static" && sc.Target != "dyn-fresh" {
		if pool, err = getPool(); err != nil {
			return false, kit.Fail("harness-pool", "cannot provision the channel pool: %v", err)
		}
		if len(sc.PoolKeys) != len(pool.keys) {
			return false, kit.Fail("harness-pool-mismatch", "script was generated for pool keys %v, this process has %v", sc.PoolKeys, pool.keys)
		}
		for i := range pool.keys {
			if pool.keys[i] != sc.PoolKeys[i] {
				return false, kit.Fail("harness-pool-mismatch", "script was generated for pool keys %v, this process has %v", sc.PoolKeys, pool.keys)
			}
		}
		for _, u := range sc.Updates {
			for _, x := range u {
				if x < 0 || x >= len(pool.keys) {
					rep.Discard("bad-pool-index")
					return false, nil
				}
			}
		}
	}
	var decoded framer.Frame // result of the (last) plain-codec Decode
	// prepare builds a fresh codec in the scripted state and returns the single call to measure.
	prepare := func() (func() (int, error), error) {
		var c *codec.Codec
		switch sc.Target {
		case "static":
			if len(sc.Chans) == 0 {
				return nil, fmt.Errorf("no channels")
			}
			c = staticCodec(sc.Chans)
		case "dyn-fresh":
			c = codec.NewDynamic(nil)
		default:
			c = codec.NewDynamic(pool.svc)
			for _, u := range sc.Updates {
				if len(u) == 0 {
					return nil, fmt.Errorf("empty update")
				}
				if err := c.Update(ctx, pool.channelKeys(u)); err != nil {
					return nil, fmt.Errorf("update: %w", err)
				}
			}
		}
		var src *opaqueReader
		if sc.Stream {
			src = &opaqueReader{b: input, chunk: sc.Chunk}
		}
		if !strings.HasPrefix(sc.Target, "http") {
			return func() (int, error) {
				var (
					fr  framer.Frame
					err error
				)
				if src != nil {
					fr, err = c.DecodeStream(src)
				} else {
					fr, err = c.Decode(input)
				}
				decoded = fr
				return fr.Count(), err
			}, nil
		}
		hc := &httpCodec{c: &httpframer.Codec{Codec: c, LowerPerfCodec: xjson.Codec}, src: src}
		switch sc.Msg {
		case "wreq":
			v := &fhttp.WSMessage[httpframer.WriterRequest]{}
			return func() (int, error) { err := hc.Decode(ctx, input, v); return v.Payload.Frame.Count(), err }, nil
		case "wres":
			v := &fhttp.WSMessage[httpframer.WriterResponse]{}
			return func() (int, error) { return 0, hc.Decode(ctx, input, v) }, nil
		case "sreq":
			v := &fhttp.WSMessage[httpframer.StreamerRequest]{}
			return func() (int, error) { return 0, hc.Decode(ctx, input, v) }, nil
		case "sres":
			v := &fhttp.WSMessage[httpframer.StreamerResponse]{}
			return func() (int, error) { err := hc.Decode(ctx, input, v); return v.Payload.Frame.Count(), err }, nil
		case "ireq":
			v := &fhttp.WSMessage[httpframer.IteratorRequest]{}
			return func() (int, error) { return 0, hc.Decode(ctx, input, v) }, nil
		case "ires":
			v := &fhttp.WSMessage[httpframer.IteratorResponse]{}
			return func() (int, error) { err := hc.Decode(ctx, input, v); return v.Payload.Frame.Count(), err }, nil
		}
		return nil, fmt.Errorf("unknown msg %q", sc.Msg)
	}
	call, err := prepare()
	if err != nil {
		rep.Discard("script-illegal")
		return false, nil
	}
	rep.Class("target-" + sc.Target)
	if sc.Stream {
		rep.Class("via-DecodeStream-opaque-reader")
	}
	if sc.Msg != "" {
		rep.Class("msg-" + sc.Msg)
	}
	// which wire format is this input for?
	frameBytes, lowPerf := input, false
	if strings.HasPrefix(sc.Target, "http") {
		switch {
		case sc.Msg == "sreq" || sc.Msg == "ireq":
			lowPerf = true
		case len(input) > 0 && input[0] == 254:
			lowPerf = true
		case len(input) > 0:
			frameBytes = input[1:]
		}
	}
	bound := uint64(64<<10 + 16*len(input))
	if lowPerf {
		// JSON control messages may legitimately look up channels (Update): looser bound
		bound = uint64(1<<20 + 4096*len(input))
		rep.Class("http-low-perf-path")
	} else if len(frameBytes) >= 5 {
		seq := binary.LittleEndian.Uint32(frameBytes[1:5])
		known := (sc.Target == "static" && seq == 1) || (len(sc.Updates) > 0 && seq >= 1 && int(seq) <= len(sc.Updates))
		if known {
			rep.Class("past-header") // sequence number known: the decoder goes on to the body
			rep.Nontrivial()
		}
	}
	o := measure(call)
	label := map[string]string{"static": "static", "dyn-fresh": "dynamic-before-update", "dyn-updated": "dynamic",
		"http-fresh": "http-before-update", "http-updated": "http"}[sc.Target]
	if o.panicked != nil {
		return false, kit.Fail("decode-panic-"+label, "Decode of %d bytes panicked (target %s %s, input %s): %v\n%s", len(input), sc.Target, sc.Msg, sc.Input, o.panicked, trim(o.stack, 3000))
	}
	if o.err != nil {
		rep.Class("decode-error")
	} else {
		rep.Class("decode-ok")
		if o.series > 0 {
			rep.Class("decode-ok-with-series")
		}
	}
	alloc := o.alloc
	if alloc > bound && alloc <= bigAlloc {
		rep.Class("alloc-remeasured")
		for i := 0; i < 4 && alloc > bound; i++ {
			c2, err := prepare()
			if err != nil {
				break
			}
			if o2 := measure(c2); o2.panicked == nil && o2.alloc < alloc {
				alloc = o2.alloc
			}
		}
	}
	big = alloc > bigAlloc
	if alloc > bound {
		sig := "decode-alloc-disproportionate"
		if lowPerf {
			sig = "decode-alloc-disproportionate-lowperf"
		}
		return big, kit.Fail(sig, "Decode of %d bytes allocated %d bytes (bound %d; target %s %s; result err=%v); input %s", len(input), alloc, bound, sc.Target, sc.Msg, o.err, sc.Input)
	}
	// A frame the decoder accepted must itself survive the round trip (re-encode, decode).
	if o.err == nil && o.series > 0 && len(input) >= 5 && (sc.Target == "static" || sc.Target == "dyn-updated") {
		chans := sc.Chans
		if sc.Target == "dyn-updated" {
			seq := int(binary.LittleEndian.Uint32(input[1:5]))
			if seq < 1 || seq > len(sc.Updates) {
				return big, kit.Fail("decode-ok-unknown-sequence", "Decode returned a frame for sequence number %d, but the codec has %d states; input %s", seq, len(sc.Updates), sc.Input)
			}
			chans = pool.chans(sc.Updates[seq-1])
		}
		if v := fixedPoint(chans, decoded, rep); v != nil {
			v.Msg = fmt.Sprintf("input %s (target %s): %s", sc.Input, sc.Target, v.Msg)
			return big, v
		}
	}
	return big, nil
}

// fixedPoint re-encodes a frame produced by Decode and checks it with the round-trip oracle.
// Frames the oracle's alignment arithmetic or sample counting does not cover (sample index
// wrapping past 2^32, variable-type buffers that are not a chain of length-prefixed samples)
// are counted and skipped.
func fixedPoint(chans []ChanSpec, fr framer.Frame, rep reporter) *kit.Violation {
	var in []mSeries
	pos := 0
	for k, s := range fr.Entries() {
		m := mSeries{key: uint32(k), dt: string(s.DataType), data: s.Data, start: int64(s.TimeRange.Start), end: int64(s.TimeRange.End), align: uint64(s.Alignment), pos: pos}
		pos++
		if d := density(m.dt); d > 0 {
			if len(m.data)%d != 0 {
				return kit.Fail("decoded-series-misaligned", "decoded %s series has %d bytes", m.dt, len(m.data))
			}
			m.n = int64(len(m.data) / d)
		} else {
			off := 0
			for off+4 <= len(m.data) {
				l := int(binary.LittleEndian.Uint32(m.data[off:]))
				if off+4+l > len(m.data) {
					break
				}
				off += 4 + l
				m.n++
			}
			if off != len(m.data) {
				rep.Class("fixed-point-skipped")
				return nil
			}
		}
		if uint64(uint32(m.align))+uint64(m.n) >= 1<<32 {
			rep.Class("fixed-point-skipped")
			return nil
		}
		in = append(in, m)
	}
	ctx := context.Background()
	b, err := staticCodec(chans).Encode(ctx, fr)
	if err != nil {
		return kit.Fail("fixed-point-encode-error", "a frame returned by Decode cannot be encoded: %v", err)
	}
	out, err := staticCodec(chans).Decode(b)
	if err != nil {
		return kit.Fail("fixed-point-decode-error", "re-encoding %x of a decoded frame cannot be decoded: %v", b, err)
	}
	if _, v := checkRoundTrip(setOf(chans), in, out); v != nil {
		v.Sig = "fixed-point-" + v.Sig
		return v
	}
	rep.Class("fixed-point-checked")
	return nil
}

func trim(s string, n int) string {
	if len(s) > n {
		return s[:n] + "..."
	}
	return s
}

func inproc() bool { return os.Getenv("VERIF_C08_INPROC") != "" }

// TestC08Bytes: codecs that have a channel set (static, dynamic after 1-3 updates, HTTP framer
// codec around an updated dynamic codec).
func TestC08Bytes(t *testing.T) { runBytes(t, "TestC08Bytes", targetsUpdated) }

// TestC08BytesFresh: codecs as a new connection has them — NewDynamic, no Update yet (plain and
// inside the HTTP framer codec).
func TestC08BytesFresh(t *testing.T) { runBytes(t, "TestC08BytesFresh", targetsFresh) }

func runBytes(t *testing.T, name string, targets []string) {
	var m *workerMgr
	poolKeys := func() []uint32 {
		p, err := getPool()
		if err != nil {
			panic(err)
		}
		return p.keys
	}
	exec := func(sc BytesScript, rep *kit.Report) error {
		_, err := execBytes(sc, rep)
		return err
	}
	if !inproc() {
		m = newWorkerMgr()
		defer m.stop()
		poolKeys = m.poolKeys
		exec = m.exec
	}
	r := &kit.Runner[BytesScript]{Name: name, Exec: exec}
	r.Run(t, genBytesWith(targets, poolKeys))
}
