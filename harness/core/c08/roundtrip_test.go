package verif_c08_test

import (
	"bytes"
	"context"
	"fmt"
	"testing"

	fhttp "github.com/synnaxlabs/freighter/http"
	kit "github.com/synnaxlabs/synnax/internal/verifkit"
	"github.com/synnaxlabs/synnax/pkg/distribution/channel"
	"github.com/synnaxlabs/synnax/pkg/distribution/framer"
	"github.com/synnaxlabs/synnax/pkg/distribution/framer/codec"
	"github.com/synnaxlabs/synnax/pkg/distribution/framer/iterator"
	"github.com/synnaxlabs/synnax/pkg/distribution/framer/writer"
	httpframer "github.com/synnaxlabs/synnax/pkg/transport/http/framer"
	xjson "github.com/synnaxlabs/x/encoding/json"
	"github.com/synnaxlabs/x/errors"
	"github.com/synnaxlabs/x/telem"
	"github.com/synnaxlabs/x/validate"
	"pgregory.net/rapid"
)

// RTScript: a static codec (pair) and a sequence of frames pushed through it.
type RTScript struct {
	Chans      []ChanSpec `json:"chans"`
	NoCompress bool       `json:"no_compress,omitempty"` // codec.DisableAlignmentCompression on the encoder
	Stream     bool       `json:"stream,omitempty"`      // EncodeStream/DecodeStream instead of Encode/Decode
	SameCodec  bool       `json:"same_codec,omitempty"`  // one instance encodes and decodes
	// Via: "" = the codec itself; wreq | sres | ires = through the HTTP framer codec's
	// Encode/Decode as the payload of that WebSocket message type.
	Via    string         `json:"via,omitempty"`
	Frames [][]SeriesSpec `json:"frames"`
}

func genRT(t *rapid.T) RTScript {
	sc := RTScript{Chans: genChans(t)}
	sc.NoCompress = rapid.IntRange(0, 7).Draw(t, "nocompress") == 0
	sc.Stream = rapid.IntRange(0, 3).Draw(t, "stream") == 0
	sc.SameCodec = rapid.IntRange(0, 3).Draw(t, "same") == 0
	sc.Via = rapid.SampledFrom([]string{"", "", "", "", "", "wreq", "sres", "ires"}).Draw(t, "via")
	foreign := genForeign(t, sc.Chans)
	nf := rapid.SampledFrom([]int{1, 1, 1, 2, 3}).Draw(t, "nframes")
	for i := 0; i < nf; i++ {
		sc.Frames = append(sc.Frames, genFrame(t, sc.Chans, foreign, frameOpts{}))
	}
	return sc
}

func staticCodec(chans []ChanSpec, opts ...codec.Option) *codec.Codec {
	keys := make(channel.Keys, len(chans))
	dts := make([]telem.DataType, len(chans))
	for i, c := range chans {
		keys[i] = channel.Key(c.Key)
		dts[i] = telem.DataType(c.DT)
	}
	return codec.NewStatic(keys, dts, opts...)
}

// Flag bit positions of the wire format's first byte (used for classification only).
const (
	flagAllPresent = 1 << 0
	flagZeroTR     = 1 << 1
	flagEqualTR    = 1 << 2
	flagEqualLens  = 1 << 3
	flagEqualAl    = 1 << 4
	flagZeroAl     = 1 << 5
	flagsAll       = 0x3F
)

func classifyFlags(rep *kit.Report, b byte) {
	names := []string{"flag-all-present", "flag-zero-tr", "flag-equal-tr", "flag-equal-lens", "flag-equal-align", "flag-zero-align"}
	for i, n := range names {
		if b&(1<<i) != 0 {
			rep.Class(n)
		} else {
			rep.Class("no-" + n)
		}
	}
}

func classifyInput(rep *kit.Report, set map[uint32]string, in []mSeries) {
	perKey := map[uint32]int{}
	for _, s := range in {
		if _, ok := set[s.key]; !ok {
			rep.Class("foreign-key")
			continue
		}
		perKey[s.key]++
		if s.n == 0 {
			rep.Class("zero-length-series")
		}
		if isVariable(s.dt) {
			rep.Class("variable-type")
		}
	}
	for _, c := range perKey {
		if c > 1 {
			rep.Class("repeated-key")
		}
	}
	if len(in) >= 128 {
		rep.Class("frame>=128-entries")
	}
	if len(perKey) < len(set) {
		rep.Class("key-subset")
	}
}

type rtDone struct {
	frame int
	in    []mSeries
	out   framer.Frame
}

func execRT(sc RTScript, rep *kit.Report) error {
	ctx := context.Background()
	var opts []codec.Option
	if sc.NoCompress {
		opts = append(opts, codec.DisableAlignmentCompression())
		rep.Class("compression-disabled")
	}
	enc := staticCodec(sc.Chans, opts...)
	dec := enc
	if !sc.SameCodec {
		dec = staticCodec(sc.Chans)
	}
	set := setOf(sc.Chans)
	var done []rtDone
	var retained []retainedEnc
	ntKey := ""
	for fi, specs := range sc.Frames {
		fr, in := buildFrame(specs, identityKey)
		classifyInput(rep, set, in)
		var (
			b   []byte
			err error
		)
		if sc.Via != "" {
			b, err = httpEncode(ctx, enc, sc.Via, fr)
		} else if sc.Stream {
			var buf bytes.Buffer
			err = enc.EncodeStream(ctx, &buf, fr)
			b = bytes.Clone(buf.Bytes())
		} else {
			b, err = enc.Encode(ctx, fr)
		}
		// an encoding handed out earlier (queued for sending, say) must not change when the
		// codec encodes the next frame
		for ri, r := range retained {
			if !bytes.Equal(r.got, r.copy) {
				return kit.Fail("encoding-changed-after-later-encode", "frame %d: the bytes returned by Encode for frame %d were %x and read %x after a later Encode on the same codec", fi, r.frame, r.copy, r.got)
			}
			_ = ri
		}
		if err == nil && sc.Via == "" && !sc.Stream {
			retained = append(retained, retainedEnc{frame: fi, got: b, copy: bytes.Clone(b)})
			if len(retained) > 1 {
				rep.Class("earlier-encoding-rechecked")
			}
		}
		if hasWrongType(set, in) {
			// documented: validation error, nothing encoded
			rep.Class("wrong-datatype-rejected")
			if err == nil {
				return kit.Fail("wrong-datatype-accepted", "frame %d: a series whose data type differs from its channel's was encoded without error", fi)
			}
			if !errors.Is(err, validate.ErrValidation) {
				return kit.Fail("wrong-datatype-error-kind", "frame %d: expected a validation error, got %v", fi, err)
			}
			continue
		}
		if err != nil {
			return kit.Fail("encode-error", "frame %d: Encode of a valid frame failed: %v", fi, err)
		}
		var out framer.Frame
		if sc.Via != "" {
			rep.Class("via-http-" + sc.Via)
			if len(b) == 0 {
				return kit.Fail("encode-short", "frame %d: empty HTTP message", fi)
			}
			if b[0] != 255 {
				// documented: empty frames in responses travel as JSON control messages
				if fr.Empty() && sc.Via != "wreq" {
					rep.Class("http-empty-frame-as-json")
				} else {
					return kit.Fail("http-frame-not-binary", "frame %d: a non-empty frame was not sent in the binary format (first byte %d)", fi, b[0])
				}
			}
			out, err = httpDecode(ctx, dec, sc.Via, b)
			if err != nil {
				return kit.Fail("decode-error", "frame %d: HTTP Decode of an encoding failed: %v (bytes %x)", fi, err, b)
			}
			if b[0] != 255 {
				if out.Count() != 0 {
					return kit.Fail("unexpected-key", "frame %d: empty frame decoded as %v", fi, out)
				}
				continue
			}
			b = b[1:]
		}
		if len(b) < 5 {
			return kit.Fail("encode-short", "frame %d: encoding has %d bytes", fi, len(b))
		}
		if sc.Via != "" {
			// decoded above
		} else if sc.Stream {
			out, err = dec.DecodeStream(bytes.NewReader(b))
		} else {
			out, err = dec.Decode(b)
		}
		if err != nil {
			return kit.Fail("decode-error", "frame %d: Decode of an encoding failed: %v (bytes %x)", fi, err, b)
		}
		info, v := checkRoundTrip(set, in, out)
		if v != nil {
			v.Msg = fmt.Sprintf("frame %d (wire %x): %s", fi, b, v.Msg)
			return v
		}
		classifyFlags(rep, b[0])
		if info.inKept == 0 {
			rep.Class("nothing-kept")
		}
		if info.mergePossible {
			rep.Class("merge-possible")
		}
		if info.outSeries < info.inKept {
			rep.Class("merged")
		}
		// non-trivial: flag byte differs from "all flags set" and >= 2 series survive
		if b[0]&flagsAll != flagsAll && info.inKept >= 2 {
			present := ""
			for _, c := range sc.Chans {
				for _, s := range in {
					if s.key == c.Key {
						present += fmt.Sprint(c.Key, ",")
						break
					}
				}
			}
			ntKey += fmt.Sprintf("|%02x;%s;%s", b[0], info.pattern, present)
		}
		done = append(done, rtDone{fi, in, out})
	}
	// decoded frames must stay intact after later Encode/Decode calls on the same instances
	for _, d := range done {
		if _, v := checkRoundTrip(set, d.in, d.out); v != nil {
			v.Sig = "retained-" + v.Sig
			v.Msg = fmt.Sprintf("frame %d re-checked after later calls: %s", d.frame, v.Msg)
			return v
		}
	}
	if len(sc.Frames) > 1 {
		rep.Class("multi-frame")
	}
	if ntKey != "" {
		rep.NontrivialKey(ntKey)
	}
	return nil
}

type retainedEnc struct {
	frame     int
	got, copy []byte
}

func httpEncode(ctx context.Context, c *codec.Codec, via string, fr framer.Frame) ([]byte, error) {
	hc := &httpframer.Codec{Codec: c, LowerPerfCodec: xjson.Codec}
	switch via {
	case "wreq":
		return hc.Encode(ctx, fhttp.WSMessage[httpframer.WriterRequest]{Type: fhttp.WSMessageTypeData,
			Payload: httpframer.WriterRequest{Command: writer.CommandWrite, Frame: fr}})
	case "sres":
		return hc.Encode(ctx, fhttp.WSMessage[httpframer.StreamerResponse]{Type: fhttp.WSMessageTypeData,
			Payload: httpframer.StreamerResponse{Frame: fr}})
	default:
		return hc.Encode(ctx, fhttp.WSMessage[httpframer.IteratorResponse]{Type: fhttp.WSMessageTypeData,
			Payload: httpframer.IteratorResponse{Variant: iterator.ResponseVariantData, Frame: fr}})
	}
}

func httpDecode(ctx context.Context, c *codec.Codec, via string, b []byte) (framer.Frame, error) {
	hc := &httpframer.Codec{Codec: c, LowerPerfCodec: xjson.Codec}
	switch via {
	case "wreq":
		var v fhttp.WSMessage[httpframer.WriterRequest]
		err := hc.Decode(ctx, b, &v)
		return v.Payload.Frame, err
	case "sres":
		var v fhttp.WSMessage[httpframer.StreamerResponse]
		err := hc.Decode(ctx, b, &v)
		return v.Payload.Frame, err
	default:
		var v fhttp.WSMessage[httpframer.IteratorResponse]
		err := hc.Decode(ctx, b, &v)
		return v.Payload.Frame, err
	}
}

func TestC08RoundTrip(t *testing.T) {
	r := &kit.Runner[RTScript]{Name: "TestC08RoundTrip", Exec: execRT}
	r.Run(t, genRT)
}
