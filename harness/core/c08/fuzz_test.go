// Native (coverage-guided) fuzz target for the "safe on any bytes" clause of C08. The
// semantic oracle is execBytes, the same executor the rapid byte generators use: the call
// must return a frame or an error - no panic -, must not allocate more than a bound derived
// from the input length, and a returned frame must be a fixed point of encode/decode.
//
// The driver runs the seed corpus (f.Add below plus committed crashers under
// replays/C08/fuzz/FuzzC08Decode) in both tiers and a time-boxed campaign in the thorough
// tier only: a native campaign cannot be pinned to VERIF_SEED, its saved failing input is the
// reproducible unit.
package verif_c08_test

import (
	"context"
	"encoding/hex"
	"testing"

	kit "github.com/synnaxlabs/synnax/internal/verifkit"
)

var fuzzChans = []ChanSpec{{Key: 1, DT: "float32"}, {Key: 2, DT: "int64"}, {Key: 3, DT: "string"}, {Key: 4, DT: "uuid"}, {Key: 65537, DT: "uint8"}}

func FuzzC08Decode(f *testing.F) {
	// valid encodings of small frames under the fuzz channel set, every flag byte, hostile
	// lengths after a plausible header, truncated headers
	c := staticCodec(fuzzChans)
	for _, specs := range [][]SeriesSpec{
		{{Key: 1, DT: "float32", N: 3, Tag: 1}},
		{{Key: 1, DT: "float32", N: 2, Tag: 1}, {Key: 2, DT: "int64", N: 2, Tag: 2}},
		{{Key: 3, DT: "string", N: 2, Tag: 3}, {Key: 4, DT: "uuid", N: 1, Tag: 4}},
		{{Key: 1, DT: "float32", N: 1, Tag: 1, Start: 5, End: 9, Align: 7}, {Key: 1, DT: "float32", N: 1, Tag: 2, Start: 9, End: 12, Align: 8}},
		{},
	} {
		fr, _ := buildFrame(specs, identityKey)
		if b, err := c.Encode(context.Background(), fr); err == nil {
			f.Add(b, uint8(0))
			f.Add(b, uint8(1))
		}
	}
	for flag := 0; flag < 256; flag += 1 {
		f.Add([]byte{byte(flag), 0, 0, 0, 0}, uint8(0))
	}
	for _, v := range hostileU32 {
		f.Add(append(append([]byte{0x00}, le32(v)...), le32(v)...), uint8(0))
		f.Add(append(append([]byte{0xff}, le32(v)...), 1, 0, 0, 0), uint8(2))
	}
	f.Fuzz(func(t *testing.T, data []byte, mode uint8) {
		if len(data) > maxInput {
			data = data[:maxInput]
		}
		sc := BytesScript{Target: "static", Chans: fuzzChans, Input: hex.EncodeToString(data), How: "native-fuzz"}
		if mode&1 == 1 {
			sc.Stream = true
			sc.Chunk = []int{0, 1, 3, 7}[(mode>>1)&3]
		}
		rep := &recorder{}
		if _, err := execBytes(sc, rep); err != nil {
			if v, ok := err.(*kit.Violation); ok {
				t.Fatalf("VERIF-FUZZ-VIOLATION %s: %s", v.Sig, v.Msg)
			}
			t.Fatalf("VERIF-FUZZ-VIOLATION error: %v", err)
		}
	})
}

// FuzzC08HTTP fuzzes the HTTP framer codec (core/pkg/transport/http/framer) around a dynamic
// frame codec that has received two channel-set updates: arbitrary bytes decoded into each of
// the six WebSocket message payload types, with and without the opaque stream reader. Same
// oracle as above. Every fuzz worker provisions its own one-node mock cluster for the channel
// pool (once per process).
func FuzzC08HTTP(f *testing.F) {
	for _, msg := range httpMsgs {
		for mi := range httpMsgs {
			_ = msg
			f.Add([]byte{255, 0x3f, 1, 0, 0, 0, 0, 0, 0, 0, 0}, uint8(mi), uint8(0))
			f.Add([]byte{254, '{', '}'}, uint8(mi), uint8(0))
			f.Add([]byte(`{"type":"data","payload":{"keys":[1,2],"frame":{"keys":[1],"series":[]}}}`), uint8(mi), uint8(1))
			f.Add([]byte{253, 0, 0, 0, 0}, uint8(mi), uint8(0))
		}
		break
	}
	for _, v := range hostileU32 {
		f.Add(append(append([]byte{255, 0x00}, le32(v)...), le32(v)...), uint8(0), uint8(0))
	}
	f.Fuzz(func(t *testing.T, data []byte, msg uint8, mode uint8) {
		pool, err := getPool()
		if err != nil {
			t.Skip("channel pool unavailable: " + err.Error())
		}
		if len(data) > maxInput {
			data = data[:maxInput]
		}
		sc := BytesScript{Target: "http-updated", Msg: httpMsgs[int(msg)%len(httpMsgs)], PoolKeys: pool.keys,
			Updates: [][]int{{0, 1, 2}, {1, 3}}, Input: hex.EncodeToString(data), How: "native-fuzz"}
		if mode&1 == 1 {
			sc.Stream = true
			sc.Chunk = []int{0, 1, 3, 7}[(mode>>1)&3]
		}
		rep := &recorder{}
		if _, err := execBytes(sc, rep); err != nil {
			if v, ok := err.(*kit.Violation); ok {
				t.Fatalf("VERIF-FUZZ-VIOLATION %s: %s", v.Sig, v.Msg)
			}
			t.Fatalf("VERIF-FUZZ-VIOLATION error: %v", err)
		}
	})
}
