package verif_c08_test

import (
	"context"
	"encoding/binary"
	"fmt"
	"testing"

	kit "github.com/synnaxlabs/synnax/internal/verifkit"
	"github.com/synnaxlabs/synnax/pkg/distribution/channel"
	"github.com/synnaxlabs/synnax/pkg/distribution/framer"
	"github.com/synnaxlabs/synnax/pkg/distribution/framer/codec"
	"github.com/synnaxlabs/x/errors"
	"github.com/synnaxlabs/x/validate"
	"pgregory.net/rapid"
)

// Both sides of a stream receive the same sequence of channel-set updates (in production:
// the keys of the open / streamer / iterator request), but at different moments. The script
// holds that shared sequence and says when each side applies its next update and when a
// frame travels from the encoder to the decoder.
const (
	maxDistance = 8 // |encoder updates - decoder updates| is kept <= this
	maxPending  = 6 // updates applied to one side between two frames (the code buffers 50)
)

type DynOp struct {
	Kind  string       `json:"kind"`            // "enc": encoder applies its next update | "dec" | "frame"
	Frame []SeriesSpec `json:"frame,omitempty"` // Key = index into the channel pool
}

type DynScript struct {
	Updates [][]int `json:"updates"` // pool indices, non-empty, distinct
	Ops     []DynOp `json:"ops"`
}

func genDyn(t *rapid.T) DynScript {
	var sc DynScript
	nu := rapid.IntRange(1, 10).Draw(t, "nupdates")
	all := make([]int, len(poolTypes))
	for i := range all {
		all[i] = i
	}
	for u := 0; u < nu; u++ {
		perm := rapid.Permutation(all).Draw(t, "uperm")
		n := rapid.SampledFrom([]int{1, 1, 2, 2, 3, 4, 5, 8}).Draw(t, "usize")
		sc.Updates = append(sc.Updates, append([]int{}, perm[:n]...))
	}
	// Both sides start with the first update applied: a decoder that was never updated is the
	// subject of TestC08BytesFresh (the executor still handles that case if a script has it).
	e, d, pe, pd := 1, 1, 1, 1
	sc.Ops = append(sc.Ops, DynOp{Kind: "enc"}, DynOp{Kind: "dec"})
	nops := rapid.IntRange(1, 20).Draw(t, "nops")
	frameOp := func() {
		cur := sc.Updates[e-1]
		in := map[int]bool{}
		chans := make([]ChanSpec, 0, len(cur))
		for _, x := range cur {
			in[x] = true
			chans = append(chans, ChanSpec{Key: uint32(x), DT: poolTypes[x]})
		}
		var foreign []ChanSpec
		for x := range poolTypes {
			if !in[x] && rapid.IntRange(0, 3).Draw(t, "foreign") == 0 {
				foreign = append(foreign, ChanSpec{Key: uint32(x), DT: poolTypes[x]})
			}
		}
		sc.Ops = append(sc.Ops, DynOp{Kind: "frame", Frame: genFrame(t, chans, foreign, frameOpts{small: true})})
		pe, pd = 0, 0
	}
	for i := 0; i < nops; i++ {
		var opts []string
		if e < nu && pe < maxPending && e+1-d <= maxDistance {
			opts = append(opts, "enc")
		}
		if d < nu && pd < maxPending && d+1-e <= maxDistance {
			opts = append(opts, "dec", "dec")
		}
		opts = append(opts, "frame", "frame")
		switch rapid.SampledFrom(opts).Draw(t, "op") {
		case "enc":
			sc.Ops = append(sc.Ops, DynOp{Kind: "enc"})
			e++
			pe++
		case "dec":
			sc.Ops = append(sc.Ops, DynOp{Kind: "dec"})
			d++
			pd++
		default:
			frameOp()
		}
	}
	if sc.Ops[len(sc.Ops)-1].Kind != "frame" {
		frameOp()
	}
	return sc
}

// safeDecode calls Decode and converts a panic into a value.
func safeDecode(c *codec.Codec, b []byte) (out framer.Frame, err error, panicked any) {
	defer func() {
		if p := recover(); p != nil {
			panicked = p
		}
	}()
	out, err = c.Decode(b)
	return
}

func execDyn(sc DynScript, rep *kit.Report) error {
	pool, err := getPool()
	if err != nil {
		return kit.Fail("harness-pool", "cannot provision the channel pool: %v", err)
	}
	for _, u := range sc.Updates {
		if len(u) == 0 {
			rep.Discard("empty-update")
			return nil
		}
		for _, x := range u {
			if x < 0 || x >= len(pool.keys) {
				rep.Discard("bad-pool-index")
				return nil
			}
		}
	}
	ctx := context.Background()
	enc := codec.NewDynamic(pool.svc)
	dec := codec.NewDynamic(pool.svc)
	e, d, pe, pd := 0, 0, 0, 0
	keyOf := func(k uint32) channel.Key { return channel.Key(pool.keys[int(k)%len(pool.keys)]) }
	for i, op := range sc.Ops {
		switch op.Kind {
		case "enc":
			if e >= len(sc.Updates) || pe >= maxPending {
				rep.Discard("script-illegal")
				return nil
			}
			if err := enc.Update(ctx, pool.channelKeys(sc.Updates[e])); err != nil {
				return kit.Fail("update-error", "op %d: encoder Update(%v) failed: %v", i, sc.Updates[e], err)
			}
			e++
			pe++
		case "dec":
			if d >= len(sc.Updates) || pd >= maxPending {
				rep.Discard("script-illegal")
				return nil
			}
			if err := dec.Update(ctx, pool.channelKeys(sc.Updates[d])); err != nil {
				return kit.Fail("update-error", "op %d: decoder Update(%v) failed: %v", i, sc.Updates[d], err)
			}
			d++
			pd++
		case "frame":
			if e == 0 || e-d > maxDistance || d-e > maxDistance {
				rep.Discard("script-illegal")
				return nil
			}
			pe, pd = 0, 0
			set := setOf(pool.chans(sc.Updates[e-1]))
			fr, in := buildFrame(op.Frame, keyOf)
			b, err := enc.Encode(ctx, fr)
			if hasWrongType(set, in) {
				rep.Class("wrong-datatype-rejected")
				if err == nil {
					return kit.Fail("wrong-datatype-accepted", "op %d: a series whose data type differs from its channel's was encoded without error", i)
				}
				if !errors.Is(err, validate.ErrValidation) {
					return kit.Fail("wrong-datatype-error-kind", "op %d: expected a validation error, got %v", i, err)
				}
				continue
			}
			if err != nil {
				return kit.Fail("encode-error", "op %d: Encode failed under state %d: %v", i, e, err)
			}
			if len(b) < 5 {
				return kit.Fail("encode-short", "op %d: encoding has %d bytes", i, len(b))
			}
			if seq := binary.LittleEndian.Uint32(b[1:5]); int(seq) != e {
				return kit.Fail("sequence-number-mismatch", "op %d: encoder has applied %d updates but the frame carries sequence number %d", i, e, seq)
			}
			out, err, p := safeDecode(dec, b)
			if p != nil {
				sig := "decode-panic-dynamic"
				if d == 0 {
					sig = "decode-panic-dynamic-before-update"
				}
				return kit.Fail(sig, "op %d: Decode panicked (encoder state %d, decoder has applied %d updates): %v", i, e, d, p)
			}
			if e > d {
				// the decoder does not know state e yet
				rep.Class("decoder-behind")
				if d == 0 {
					rep.Class("decoder-never-updated")
				}
				if err == nil {
					return kit.Fail("unknown-sequence-accepted", "op %d: frame encoded under state %d decoded without error by a decoder that has applied only %d updates", i, e, d)
				}
				continue
			}
			if err != nil {
				return kit.Fail("decode-error", "op %d: frame encoded under state %d rejected by a decoder that has applied %d updates: %v", i, e, d, err)
			}
			info, v := checkRoundTrip(set, in, out)
			if v != nil {
				v.Msg = fmt.Sprintf("op %d (encoder state %d = pool %v, decoder at %d, wire %x): %s", i, e, sc.Updates[e-1], d, b, v.Msg)
				return v
			}
			classifyFlags(rep, b[0])
			if info.outSeries < info.inKept {
				rep.Class("merged")
			}
			if d > e {
				rep.Class("decoder-ahead")
				rep.Add("max-distance-"+fmt.Sprint(d-e), 1)
				if info.inKept > 0 {
					rep.Nontrivial() // a non-empty frame decoded with an older state than the decoder's newest
				}
			} else {
				rep.Class("in-sync")
			}
		default:
			rep.Discard("bad-op")
			return nil
		}
	}
	return nil
}

func TestC08Dynamic(t *testing.T) {
	r := &kit.Runner[DynScript]{Name: "TestC08Dynamic", Exec: execDyn}
	r.Run(t, genDyn)
}
