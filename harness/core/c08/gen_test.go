package verif_c08_test

import (
	"math"

	"pgregory.net/rapid"
)

var keyPool = []uint32{1, 2, 3, 4, 5, 6, 7, 8, 9, 10, 11, 12, 65537, 1048577, 1048578, 2097153, 4294967295}

// genChans draws 1-8 distinct keys with data types. The order is the generated one (the codec
// sorts its own copy).
func genChans(t *rapid.T) []ChanSpec {
	n := rapid.IntRange(1, 8).Draw(t, "nchans")
	perm := rapid.Permutation(keyPool).Draw(t, "keys")
	typeMode := rapid.SampledFrom([]string{"fixed", "fixed", "fixed", "mixed", "mixed", "variable"}).Draw(t, "typeMode")
	out := make([]ChanSpec, n)
	for i := 0; i < n; i++ {
		var dt string
		switch typeMode {
		case "fixed":
			dt = rapid.SampledFrom(fixedTypes).Draw(t, "dt")
		case "variable":
			dt = rapid.SampledFrom(variableTypes).Draw(t, "dt")
		default:
			if rapid.IntRange(0, 3).Draw(t, "isvar") == 0 {
				dt = rapid.SampledFrom(variableTypes).Draw(t, "dt")
			} else {
				dt = rapid.SampledFrom(fixedTypes).Draw(t, "dt")
			}
		}
		out[i] = ChanSpec{Key: perm[i], DT: dt}
	}
	return out
}

// genForeign draws 0-2 channels whose keys are NOT in chans.
func genForeign(t *rapid.T, chans []ChanSpec) []ChanSpec {
	in := setOf(chans)
	var free []uint32
	for _, k := range keyPool {
		if _, ok := in[k]; !ok {
			free = append(free, k)
		}
	}
	n := rapid.SampledFrom([]int{0, 0, 1, 1, 2}).Draw(t, "nforeign")
	var out []ChanSpec
	for i := 0; i < n && i < len(free); i++ {
		idx := rapid.IntRange(0, len(free)-1).Draw(t, "fk")
		all := append(append([]string{}, fixedTypes...), variableTypes...)
		out = append(out, ChanSpec{Key: free[idx], DT: rapid.SampledFrom(all).Draw(t, "fdt")})
	}
	return out
}

func genTS(t *rapid.T) int64 {
	switch rapid.IntRange(0, 9).Draw(t, "tsk") {
	case 0:
		return 0
	case 1:
		return rapid.SampledFrom([]int64{math.MaxInt64, math.MinInt64, -1, 1}).Draw(t, "tsx")
	case 2:
		return rapid.Int64().Draw(t, "tsr")
	default:
		return int64(rapid.IntRange(0, 20).Draw(t, "tss"))
	}
}

func genAlignBase(t *rapid.T) uint64 {
	dom := rapid.SampledFrom([]uint64{0, 0, 1, 1, 2, 7, 0xFFFFFFFF}).Draw(t, "dom")
	smp := rapid.SampledFrom([]uint64{0, 0, 1, 3, 10, 100, 1 << 31}).Draw(t, "smp")
	return dom<<32 | smp
}

type frameOpts struct {
	small bool // keep the frame small (bytes test)
}

// genFrame draws one frame over chans (in the codec's set) and foreign (not in it).
func genFrame(t *rapid.T, chans, foreign []ChanSpec, o frameOpts) []SeriesSpec {
	presences := []string{"once", "once", "once", "subset", "subset", "multi", "multi", "multi", "empty", "big"}
	if o.small {
		presences = []string{"once", "once", "subset", "multi", "empty"}
	}
	presence := rapid.SampledFrom(presences).Draw(t, "presence")
	lenMode := rapid.SampledFrom([]string{"equal", "equal", "equal", "varied", "varied", "zeros"}).Draw(t, "lenMode")
	trMode := rapid.SampledFrom([]string{"zero", "zero", "equal", "distinct", "mixed"}).Draw(t, "trMode")
	alMode := rapid.SampledFrom([]string{"zero", "equal", "chain", "chain", "chain", "distinct", "mixed"}).Draw(t, "alMode")
	refN := rapid.SampledFrom([]int{0, 1, 1, 2, 3, 4}).Draw(t, "refN")
	refS, refE := genTS(t), genTS(t)
	refAl := genAlignBase(t)
	tag := 0
	var out []SeriesSpec
	for _, c := range chans {
		cnt := 1
		switch presence {
		case "subset":
			cnt = rapid.IntRange(0, 1).Draw(t, "cnt")
		case "multi":
			cnt = rapid.IntRange(0, 3).Draw(t, "cnt")
		case "empty":
			cnt = 0
		case "big":
			cnt = rapid.IntRange(20, 40).Draw(t, "cnt")
		}
		cur := genAlignBase(t)
		for s := 0; s < cnt; s++ {
			sp := SeriesSpec{Key: c.Key, DT: c.DT, Tag: tag}
			tag++
			switch lenMode {
			case "equal":
				sp.N = refN
			case "varied":
				sp.N = rapid.IntRange(0, 4).Draw(t, "n")
			default:
				sp.N = rapid.SampledFrom([]int{0, 0, 1, 2}).Draw(t, "n")
			}
			if presence == "big" && sp.N > 1 {
				sp.N = 1
			}
			tm := trMode
			if tm == "mixed" {
				tm = rapid.SampledFrom([]string{"zero", "equal", "distinct"}).Draw(t, "trm")
			}
			switch tm {
			case "equal":
				sp.Start, sp.End = refS, refE
			case "distinct":
				sp.Start, sp.End = genTS(t), genTS(t)
			}
			am := alMode
			if am == "mixed" {
				am = rapid.SampledFrom([]string{"zero", "equal", "chain", "distinct"}).Draw(t, "alm")
			}
			switch am {
			case "equal":
				sp.Align = refAl
			case "chain":
				sp.Align = cur
				gap := rapid.SampledFrom([]int{0, 0, 0, 0, 0, 1, 3, -1}).Draw(t, "gap")
				step := sp.N + gap
				if step < 0 {
					step = 0
				}
				cur += uint64(step)
			case "distinct":
				sp.Align = genAlignBase(t) + uint64(rapid.IntRange(0, 6).Draw(t, "aoff"))
			}
			out = append(out, sp)
		}
	}
	for _, f := range foreign {
		for s := rapid.IntRange(0, 2).Draw(t, "fcnt"); s > 0; s-- {
			out = append(out, SeriesSpec{Key: f.Key, DT: f.DT, N: rapid.IntRange(0, 3).Draw(t, "fn"), Tag: tag, Align: genAlignBase(t), Start: genTS(t), End: genTS(t)})
			tag++
		}
	}
	// entry order: as built (grouped by key, ascending chain), reversed, or shuffled
	switch rapid.SampledFrom([]string{"asis", "asis", "reverse", "shuffle", "shuffle"}).Draw(t, "order") {
	case "reverse":
		for i, j := 0, len(out)-1; i < j; i, j = i+1, j-1 {
			out[i], out[j] = out[j], out[i]
		}
	case "shuffle":
		if len(out) > 1 {
			out = rapid.Permutation(out).Draw(t, "perm")
		}
	}
	// documented int64/timestamp equivalence and (rarely) a wrong data type
	if len(out) > 0 {
		switch rapid.IntRange(0, 39).Draw(t, "dtTweak") {
		case 0, 1:
			for i := range out {
				if out[i].DT == "int64" {
					out[i].DT = "timestamp"
					break
				} else if out[i].DT == "timestamp" {
					out[i].DT = "int64"
					break
				}
			}
		case 2:
			i := rapid.IntRange(0, len(out)-1).Draw(t, "wrongIdx")
			all := append(append([]string{}, fixedTypes...), variableTypes...)
			out[i].DT = rapid.SampledFrom(all).Draw(t, "wrongDT")
		}
	}
	return out
}
