package verif_c08_test

import (
	"context"
	"fmt"
	"sync"

	"github.com/onsi/gomega"
	"github.com/synnaxlabs/synnax/pkg/distribution/channel"
	"github.com/synnaxlabs/synnax/pkg/distribution/mock"
)

// The dynamic codec needs a *channel.Service (a concrete type). The harness provisions one
// single-node in-memory distribution layer per process (the same helper the codec's own
// suite uses) and creates a fixed pool of virtual channels in it. Cases never modify the
// pool; every case builds fresh codecs.
var poolTypes = []string{"float32", "int64", "timestamp", "uint8", "string", "float64", "json", "uint16"}

type poolT struct {
	svc   *channel.Service
	keys  []uint32
	types []string
	err   error
}

var (
	poolOnce sync.Once
	thePool  poolT
)

func getPool() (*poolT, error) {
	poolOnce.Do(func() {
		defer func() {
			if p := recover(); p != nil {
				thePool.err = fmt.Errorf("pool setup panicked: %v", p)
			}
		}()
		gomega.RegisterFailHandler(func(message string, _ ...int) { panic("gomega: " + message) })
		ctx := context.Background()
		cl := mock.NewCluster()
		node := cl.Provision(ctx)
		chs := make([]channel.Channel, len(poolTypes))
		for i, dt := range poolTypes {
			chs[i] = channel.Channel{Name: fmt.Sprintf("c08_pool_%d", i), DataType: telemDT(dt), Virtual: true}
		}
		if err := node.Channel.CreateMany(ctx, &chs); err != nil {
			thePool.err = err
			return
		}
		thePool.svc = node.Channel
		for i, ch := range chs {
			thePool.keys = append(thePool.keys, uint32(ch.Key()))
			thePool.types = append(thePool.types, poolTypes[i])
		}
		// The cluster lives for the rest of the process.
	})
	if thePool.err != nil {
		return nil, thePool.err
	}
	return &thePool, nil
}

func (p *poolT) chans(idx []int) []ChanSpec {
	out := make([]ChanSpec, len(idx))
	for i, x := range idx {
		out[i] = ChanSpec{Key: p.keys[x], DT: p.types[x]}
	}
	return out
}

func (p *poolT) channelKeys(idx []int) []channel.Key {
	out := make([]channel.Key, len(idx))
	for i, x := range idx {
		out[i] = channel.Key(p.keys[x])
	}
	return out
}
