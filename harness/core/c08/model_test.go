// C08 — frame wire codec: round trip, dynamic de-sync, arbitrary bytes.
//
// This file holds the plain-data frame description shared by the three tests, the
// construction of real frames from it, and the round-trip oracle. The oracle is written
// from the property text; it does not call the codec's sorter or merge routine, nor
// telem.Series.AlignmentBounds.
package verif_c08_test

import (
	"bytes"
	"encoding/binary"
	"fmt"
	"sort"
	"strconv"

	kit "github.com/synnaxlabs/synnax/internal/verifkit"
	"github.com/synnaxlabs/synnax/pkg/distribution/channel"
	"github.com/synnaxlabs/synnax/pkg/distribution/framer"
	"github.com/synnaxlabs/synnax/pkg/distribution/framer/frame"
	"github.com/synnaxlabs/x/telem"
)

// ChanSpec is one member of the codec's channel set.
type ChanSpec struct {
	Key uint32 `json:"key"`
	DT  string `json:"dt"`
}

// SeriesSpec describes one (key, series) entry of a frame. The sample bytes are a pure
// function of (DT, N, Tag), so that scripts stay small and every sample is recognisable.
type SeriesSpec struct {
	Key   uint32 `json:"key"`
	DT    string `json:"dt"`
	N     int    `json:"n"`
	Tag   int    `json:"tag"`
	Start int64  `json:"start,omitempty"`
	End   int64  `json:"end,omitempty"`
	Align uint64 `json:"align,omitempty"`
}

var fixedTypes = []string{"uint8", "int8", "uint16", "int16", "uint32", "int32", "float32", "uint64", "int64", "float64", "timestamp", "uuid"}
var variableTypes = []string{"string", "json", "bytes"}

func density(dt string) int {
	switch dt {
	case "uint8", "int8":
		return 1
	case "uint16", "int16":
		return 2
	case "uint32", "int32", "float32":
		return 4
	case "uint64", "int64", "float64", "timestamp":
		return 8
	case "uuid":
		return 16
	}
	return 0
}

func isVariable(dt string) bool { return dt == "string" || dt == "json" || dt == "bytes" }

// equivalentTypes: the encoder documents (unit tests "Int64 / TimeStamp Equivalence") that an
// int64 series is accepted for a timestamp channel and vice versa.
func equivalentTypes(a, b string) bool {
	return (a == "int64" || a == "timestamp") && (b == "int64" || b == "timestamp")
}

// buildData returns the data buffer of a series with n samples. Fixed types: n*density
// bytes. Variable types: every sample is a 4-byte little-endian length prefix followed by
// the sample (the representation x/go/telem documents for variable-density series).
func buildData(dt string, n, tag int) []byte {
	var out []byte
	if d := density(dt); d > 0 {
		out = make([]byte, 0, n*d)
		for j := 0; j < n; j++ {
			for i := 0; i < d; i++ {
				out = append(out, byte(tag*31+j*7+i*13+1))
			}
		}
		return out
	}
	for j := 0; j < n; j++ {
		var p []byte
		switch dt {
		case "string":
			for i := 0; i < (tag+j)%4; i++ {
				p = append(p, byte('a'+(tag+j+i)%26))
			}
		case "json":
			p = []byte(strconv.Itoa(tag*10 + j))
		default: // bytes
			for i := 0; i < (tag+2*j)%5; i++ {
				p = append(p, byte(tag*17+j*5+i))
			}
		}
		var l [4]byte
		binary.LittleEndian.PutUint32(l[:], uint32(len(p)))
		out = append(out, l[:]...)
		out = append(out, p...)
	}
	return out
}

// mSeries is the model's view of one series.
type mSeries struct {
	key        uint32
	dt         string
	data       []byte
	n          int64
	start, end int64
	align      uint64
	pos        int
}

func (s mSeries) String() string {
	return fmt.Sprintf("{key=%d dt=%s n=%d align=%d-%d tr=[%d,%d) pos=%d data=%x}", s.key, s.dt, s.n, s.align>>32, uint32(s.align), s.start, s.end, s.pos, s.data)
}

// buildFrame builds the real frame and the model series list from a spec.
func buildFrame(specs []SeriesSpec, keyOf func(uint32) channel.Key) (framer.Frame, []mSeries) {
	keys := make([]channel.Key, 0, len(specs))
	series := make([]telem.Series, 0, len(specs))
	model := make([]mSeries, 0, len(specs))
	for i, sp := range specs {
		data := buildData(sp.DT, sp.N, sp.Tag)
		k := keyOf(sp.Key)
		keys = append(keys, k)
		series = append(series, telem.Series{
			DataType:  telem.DataType(sp.DT),
			Data:      bytes.Clone(data),
			TimeRange: telem.TimeRange{Start: telem.TimeStamp(sp.Start), End: telem.TimeStamp(sp.End)},
			Alignment: telem.Alignment(sp.Align),
		})
		model = append(model, mSeries{key: uint32(k), dt: sp.DT, data: data, n: int64(sp.N), start: sp.Start, end: sp.End, align: sp.Align, pos: i})
	}
	return frame.NewMulti(keys, series), model
}

func identityKey(k uint32) channel.Key { return channel.Key(k) }

func telemDT(s string) telem.DataType { return telem.DataType(s) }

// contiguous: series b starts (in alignment space) exactly where series a ends: same
// domain index, sample index of b = sample index of a + number of samples of a.
func contiguous(a, b mSeries) bool {
	return a.align>>32 == b.align>>32 && uint64(uint32(a.align))+uint64(a.n) == uint64(uint32(b.align))
}

// hasWrongType reports whether a series that the encoder keeps has a data type that is not the
// channel's (nor the documented int64/timestamp equivalent): Encode documents a validation error.
func hasWrongType(set map[uint32]string, in []mSeries) bool {
	for _, s := range in {
		if dt, ok := set[s.key]; ok && dt != s.dt && !equivalentTypes(dt, s.dt) {
			return true
		}
	}
	return false
}

type oSeries struct {
	dt         string
	data       []byte
	start, end int64
	align      uint64
}

func (s oSeries) String() string {
	return fmt.Sprintf("{dt=%s align=%d-%d tr=[%d,%d) data=%x}", s.dt, s.align>>32, uint32(s.align), s.start, s.end, s.data)
}

type rtInfo struct {
	inKept, outSeries int
	mergePossible     bool
	pattern           string
}

// checkRoundTrip is the oracle of the round-trip clause. set: the codec's channel set
// (key -> data type); in: the input series in frame order; out: the decoded frame.
func checkRoundTrip(set map[uint32]string, in []mSeries, out framer.Frame) (rtInfo, *kit.Violation) {
	var info rtInfo
	exp := map[uint32][]mSeries{}
	for _, s := range in {
		if _, ok := set[s.key]; ok { // (iv) keys outside the set are dropped, nothing else
			exp[s.key] = append(exp[s.key], s)
			info.inKept++
		}
	}
	got := map[uint32][]oSeries{}
	var gotOrder []uint32
	for k, s := range out.Entries() {
		kk := uint32(k)
		if _, seen := got[kk]; !seen {
			gotOrder = append(gotOrder, kk)
		}
		got[kk] = append(got[kk], oSeries{dt: string(s.DataType), data: s.Data, start: int64(s.TimeRange.Start), end: int64(s.TimeRange.End), align: uint64(s.Alignment)})
		info.outSeries++
	}
	for _, k := range gotOrder {
		if _, ok := exp[k]; !ok {
			return info, kit.Fail("unexpected-key", "decoded frame has series for key %d, which the input (restricted to the codec's set) does not: %v", k, got[k])
		}
	}
	keys := make([]uint32, 0, len(exp))
	for k := range exp {
		keys = append(keys, k)
	}
	sort.Slice(keys, func(i, j int) bool { return keys[i] < keys[j] })
	for _, k := range keys {
		ins := exp[k]
		// ordered by (alignment, original position)
		sort.SliceStable(ins, func(i, j int) bool {
			if ins[i].align != ins[j].align {
				return ins[i].align < ins[j].align
			}
			return ins[i].pos < ins[j].pos
		})
		outs, ok := got[k]
		if !ok {
			return info, kit.Fail("key-lost", "key %d: %d input series, none decoded; input=%v", k, len(ins), ins)
		}
		for i := 1; i < len(ins); i++ {
			if contiguous(ins[i-1], ins[i]) {
				info.mergePossible = true
			}
		}
		// (ii) data type
		for _, o := range outs {
			if o.dt != set[k] {
				return info, kit.Fail("datatype-changed", "key %d: decoded data type %q, channel data type %q", k, o.dt, set[k])
			}
		}
		// (i) concatenated sample sequence
		var a, b []byte
		for _, s := range ins {
			a = append(a, s.data...)
		}
		for _, o := range outs {
			b = append(b, o.data...)
		}
		if !bytes.Equal(a, b) {
			return info, kit.Fail("samples-differ", "key %d: concatenated samples differ\n input (by alignment, position): %v\n decoded: %v", k, ins, outs)
		}
		// (iii) partition into runs of consecutive contiguous series
		if runs, ok := partition(ins, outs, false, false); ok {
			info.pattern += fmt.Sprintf("%v", runs)
			continue
		}
		if _, ok := partition(ins, outs, true, false); ok {
			return info, kit.Fail("timerange-mismatch", "key %d: decoded series are contiguous runs of the input, but a time range is not the hull of its run\n input: %v\n decoded: %v", k, ins, outs)
		}
		if _, ok := partition(ins, outs, false, true); ok {
			return info, kit.Fail("alignment-mismatch", "key %d: decoded series are contiguous runs of the input, but an alignment is not that of the run's first series\n input: %v\n decoded: %v", k, ins, outs)
		}
		if _, ok := partition(ins, outs, true, true); ok {
			return info, kit.Fail("alignment-and-timerange-mismatch", "key %d: decoded series are contiguous runs of the input, but alignment and time range differ\n input: %v\n decoded: %v", k, ins, outs)
		}
		return info, kit.Fail("not-a-partition-into-contiguous-runs", "key %d: decoded series are not a partition of the input into runs of consecutive alignment-contiguous series\n input: %v\n decoded: %v", k, ins, outs)
	}
	return info, nil
}

// partition decides whether outs is obtained from ins by cutting ins into consecutive runs
// whose neighbours are contiguous, each run collapsed to (first alignment, hull of the time
// ranges, concatenated data). Any such cutting is accepted. Returns the run lengths.
func partition(ins []mSeries, outs []oSeries, ignoreTR, ignoreAlign bool) ([]int, bool) {
	n, m := len(ins), len(outs)
	memo := map[[2]int]bool{}
	var runs []int
	var rec func(i, j int) bool
	rec = func(i, j int) bool {
		if i == n || j == m {
			return i == n && j == m
		}
		if m-j > n-i {
			return false
		}
		key := [2]int{i, j}
		if memo[key] {
			return false
		}
		o := outs[j]
		start, end := ins[i].start, ins[i].end
		off := 0
		for k := i; k < n; k++ {
			if k > i {
				if !contiguous(ins[k-1], ins[k]) {
					break
				}
				if ins[k].start < start {
					start = ins[k].start
				}
				if ins[k].end > end {
					end = ins[k].end
				}
			}
			d := ins[k].data
			if off+len(d) > len(o.data) || !bytes.Equal(o.data[off:off+len(d)], d) {
				break
			}
			off += len(d)
			if off != len(o.data) {
				continue
			}
			if !ignoreAlign && o.align != ins[i].align {
				continue
			}
			if !ignoreTR && (o.start != start || o.end != end) {
				continue
			}
			runs = append(runs, k-i+1)
			if rec(k+1, j+1) {
				return true
			}
			runs = runs[:len(runs)-1]
		}
		memo[key] = true
		return false
	}
	ok := rec(0, 0)
	return runs, ok
}

func setOf(chans []ChanSpec) map[uint32]string {
	m := make(map[uint32]string, len(chans))
	for _, c := range chans {
		m[c.Key] = c.DT
	}
	return m
}
