package verif_c15_test

import (
	"fmt"

	"pgregory.net/rapid"
)

// ---------------------------------------------------------------- script

// Spec is one element of a create batch.
//
//	kind  idx    persisted index channel (timestamp)
//	      fixed  persisted data channel with a fixed-size data type, indexed by slot Idx
//	      var    persisted data channel with a variable-length data type, indexed by slot Idx
//	      virt   virtual channel leased to a node
//	      free   free virtual channel (leaseholder node.KeyFree)
//	      calc   calculated channel (expression; the service makes it free + virtual and adds "<name>_time")
//
// ID is a script-wide unique slot number: later operations refer to channels by the slot
// of the spec that created (or retrieved) them, so removing operations while shrinking does
// not change what the remaining references mean.
type Spec struct {
	ID   int    `json:"id"`
	Kind string `json:"kind"`
	Name string `json:"name"`
	LH   int    `json:"lh,omitempty"`  // requested leaseholder; 0 = unspecified (the gateway assigns itself); ignored for free/calc
	DT   string `json:"dt,omitempty"`  // data type
	Idx  int    `json:"idx,omitempty"` // fixed/var: slot of the index channel; -1 = a local index key that does not exist
}

// Op is one request.
//
//	create   CreateMany(Specs) with the Retrieve / Overwrite options
//	rename   RenameMany(Slots, Names)
//	burst    len(Names) goroutines, each Create(one leased virtual channel named Names[i]) through Node
//	delete   DeleteMany(Slots)
//	delname  DeleteManyByNames(Names)
type Op struct {
	Kind      string   `json:"kind"`
	Node      int      `json:"node"`            // gateway node the request is issued through (1..N)
	NoTx      bool     `json:"notx,omitempty"`  // false: db.WithTx(...NewWriter(tx)...) as the API layer does; true: NewWriter(nil)
	Retrieve  bool     `json:"retr,omitempty"`  // RetrieveIfNameExists()
	Overwrite bool     `json:"over,omitempty"`  // OverwriteIfNameExistsAndDifferentProperties()
	Specs     []Spec   `json:"specs,omitempty"` // create
	Slots     []int    `json:"slots,omitempty"` // rename / delete targets; a slot nothing was created in denotes a key that never existed
	Names     []string `json:"names,omitempty"` // rename: new names; delname: names
	// rename: the allowInternal argument (services rename with true; it only lifts the ban on
	// renaming internal channels, which these histories do not create: same expected outcome)
	AllowInternal bool `json:"allow_internal,omitempty"`
}

type Script struct {
	N          int  `json:"n"`                    // cluster size 1..3
	NoValidate bool `json:"novalidate,omitempty"` // LayerConfig.ValidateChannelNames = false
	Ops        []Op `json:"ops"`
}

// ---------------------------------------------------------------- generator

// gslot is the generator's prediction of what a slot holds. It assumes that well-formed
// requests succeed; the executor never relies on it.
type gslot struct {
	id    int
	kind  string
	lh    int // resolved leaseholder (0 for free/calc)
	name  string
	alive bool
	idx   int // slot of the index (data channels)
	dt    string
}

type gen struct {
	t        *rapid.T
	n        int
	validate bool
	slots    []*gslot
	nextID   int
	nextName int
}

var (
	fixedTypes = []string{"float64", "int32", "uint8", "int64"}
	varTypes   = []string{"string", "json"}
	virtTypes  = []string{"float32", "string", "uint16", "json"}
	// names that ValidateName rejects (no regular-expression metacharacters: MatchNames treats
	// anything that is not a plain identifier as a pattern)
	invalidNames = []string{"1x", "a b", "x-y", "9", "é"}
)

func genScript(t *rapid.T) Script {
	n := rapid.SampledFrom([]int{1, 2, 2, 3, 3}).Draw(t, "n")
	sc := Script{N: n, NoValidate: rapid.IntRange(0, 4).Draw(t, "novalidate") == 0}
	g := &gen{t: t, n: n, validate: !sc.NoValidate, nextID: 1}
	nops := rapid.IntRange(1, 12).Draw(t, "nops")
	for i := 0; i < nops; i++ {
		sc.Ops = append(sc.Ops, g.op())
	}
	return sc
}

func (g *gen) alive(pred func(*gslot) bool) []*gslot {
	var out []*gslot
	for _, s := range g.slots {
		if s.alive && (pred == nil || pred(s)) {
			out = append(out, s)
		}
	}
	return out
}

func (g *gen) fresh() string {
	g.nextName++
	return fmt.Sprintf("c%d", g.nextName)
}

func (g *gen) op() Op {
	if len(g.alive(nil)) == 0 {
		return g.create()
	}
	switch k := rapid.IntRange(0, 99).Draw(g.t, "opkind"); {
	case k < 45:
		return g.create()
	case k < 75:
		return g.delete()
	case k < 90:
		return g.rename()
	case k < 95:
		// several clients create channels through one node at the same moment
		op := Op{Kind: "burst"}
		g.gateway(&op)
		for i, n := 0, rapid.IntRange(3, 12).Draw(g.t, "burst-n"); i < n; i++ {
			op.Names = append(op.Names, g.fresh())
		}
		return op
	default:
		return g.delname()
	}
}

func (g *gen) gateway(op *Op) {
	op.Node = rapid.IntRange(1, g.n).Draw(g.t, "node")
	op.NoTx = rapid.IntRange(0, 3).Draw(g.t, "notx") == 0
}

// name draws a channel name: mostly fresh, sometimes one that collides with an existing
// channel or with the name the service derives for a calculated channel's index.
func (g *gen) name() string {
	al := g.alive(nil)
	k := rapid.IntRange(0, 19).Draw(g.t, "namekind")
	switch {
	case k < 15 || len(al) == 0:
		return g.fresh()
	case k < 18:
		return rapid.SampledFrom(al).Draw(g.t, "taken").name
	case k == 18:
		return rapid.SampledFrom(al).Draw(g.t, "takenbase").name + "_time"
	default:
		// a name whose derived index name may exist already
		nm := rapid.SampledFrom(al).Draw(g.t, "takenstem").name
		if len(nm) > 5 && nm[len(nm)-5:] == "_time" {
			return nm[:len(nm)-5]
		}
		return g.fresh()
	}
}

func (g *gen) spec(op *Op) Spec {
	sp := Spec{ID: g.nextID}
	g.nextID++
	idxs := g.alive(func(s *gslot) bool { return s.kind == "idx" })
	k := rapid.IntRange(0, 99).Draw(g.t, "speckind")
	switch {
	case k < 18 || (k < 54 && len(idxs) == 0):
		sp.Kind, sp.DT = "idx", "timestamp"
	case k < 54:
		ix := rapid.SampledFrom(idxs).Draw(g.t, "index")
		sp.Idx = ix.id
		sp.LH = ix.lh
		if ix.lh == op.Node && rapid.Bool().Draw(g.t, "implicitlh") {
			sp.LH = 0
		}
		if rapid.IntRange(0, 2).Draw(g.t, "var") == 0 {
			sp.Kind, sp.DT = "var", rapid.SampledFrom(varTypes).Draw(g.t, "dt")
		} else {
			sp.Kind, sp.DT = "fixed", rapid.SampledFrom(fixedTypes).Draw(g.t, "dt")
		}
	case k < 74:
		sp.Kind, sp.DT = "virt", rapid.SampledFrom(virtTypes).Draw(g.t, "dt")
	case k < 88:
		sp.Kind, sp.DT = "free", rapid.SampledFrom(virtTypes).Draw(g.t, "dt")
	default:
		sp.Kind, sp.DT = "calc", "float64"
	}
	if sp.Kind == "idx" || sp.Kind == "virt" {
		sp.LH = rapid.IntRange(0, g.n).Draw(g.t, "lh")
	}
	sp.Name = g.name()
	return sp
}

func (g *gen) create() Op {
	op := Op{Kind: "create"}
	g.gateway(&op)
	switch rapid.IntRange(0, 9).Draw(g.t, "opts") {
	case 6, 7:
		op.Retrieve = true
	case 8:
		op.Overwrite = true
	case 9:
		op.Retrieve, op.Overwrite = true, true
	}
	ns := rapid.IntRange(1, 4).Draw(g.t, "nspecs")
	for i := 0; i < ns; i++ {
		op.Specs = append(op.Specs, g.spec(&op))
	}
	// With one of the options set, the batch often repeats an existing channel exactly
	// (same name, kind, type, leaseholder, index) next to new ones: the element the
	// options are for. Its position in the batch is drawn.
	if al := g.alive(func(s *gslot) bool { return s.dt != "" }); (op.Retrieve || op.Overwrite) && len(al) > 0 && rapid.Bool().Draw(g.t, "clone") {
		src := rapid.SampledFrom(al).Draw(g.t, "clonesrc")
		sp := Spec{ID: g.nextID, Kind: src.kind, DT: src.dt, LH: src.lh, Idx: src.idx, Name: src.name}
		g.nextID++
		pos := rapid.IntRange(0, len(op.Specs)).Draw(g.t, "clonepos")
		op.Specs = append(op.Specs[:pos:pos], append([]Spec{sp}, op.Specs[pos:]...)...)
		ns = len(op.Specs)
	}
	bad := ""
	if rapid.IntRange(0, 3).Draw(g.t, "bad") == 0 {
		pos := 0
		if ns >= 3 {
			pos = rapid.IntRange(1, ns-2).Draw(g.t, "badpos") // strictly in the middle
		} else {
			pos = rapid.IntRange(0, ns-1).Draw(g.t, "badpos")
		}
		sp := &op.Specs[pos]
		bad = rapid.SampledFrom([]string{"unknown-index", "unknown-index", "dup-name", "empty-name", "invalid-name", "taken-name", "unknown-leaseholder"}).Draw(g.t, "badkind")
		switch bad {
		case "unknown-index":
			sp.Kind, sp.DT, sp.Idx = "fixed", "float64", -1
			sp.LH = rapid.IntRange(0, g.n).Draw(g.t, "badlh")
		case "dup-name":
			// only with validation on, where it makes the request fail; with validation off
			// the service accepts the batch and what the options do with it is unspecified
			if ns >= 2 && g.validate {
				other := (pos + 1) % ns
				sp.Name = op.Specs[other].Name
			} else {
				bad = ""
			}
		case "empty-name":
			sp.Name = ""
		case "invalid-name":
			sp.Name = rapid.SampledFrom(invalidNames).Draw(g.t, "invalid")
		case "taken-name":
			if al := g.alive(nil); len(al) > 0 {
				sp.Name = rapid.SampledFrom(al).Draw(g.t, "takenbad").name
			} else {
				bad = ""
			}
		case "unknown-leaseholder":
			sp.Kind, sp.DT, sp.Idx = "virt", "float32", 0
			sp.LH = g.n + rapid.IntRange(1, 2).Draw(g.t, "ghost")
		}
	}
	// prediction: a request without a deliberately invalid element succeeds
	for _, sp := range op.Specs {
		s := &gslot{id: sp.ID, kind: sp.Kind, lh: sp.LH, name: sp.Name, idx: sp.Idx, alive: bad == "", dt: sp.DT}
		if s.lh == 0 {
			s.lh = op.Node
		}
		if sp.Kind == "free" || sp.Kind == "calc" {
			s.lh = 0
		}
		g.slots = append(g.slots, s)
	}
	return op
}

func (g *gen) pickSlots(max int) []*gslot {
	al := g.alive(nil)
	k := rapid.IntRange(1, max).Draw(g.t, "ntargets")
	if k > len(al) {
		k = len(al)
	}
	perm := rapid.Permutation(al).Draw(g.t, "targets")
	return perm[:k]
}

func (g *gen) delete() Op {
	op := Op{Kind: "delete"}
	g.gateway(&op)
	var targets []*gslot
	style := rapid.IntRange(0, 19).Draw(g.t, "delstyle")
	idxs := g.alive(func(s *gslot) bool { return s.kind == "idx" })
	switch {
	case style < 5:
		targets = g.pickSlots(1)
	case style < 15 && len(idxs) > 0:
		// mixed batch: an index, (some of) the data channels it indexes, virtual channels of the
		// same leaseholder, possibly a free channel
		ix := rapid.SampledFrom(idxs).Draw(g.t, "delindex")
		targets = append(targets, ix)
		dropDependent := rapid.IntRange(0, 5).Draw(g.t, "dropdep") == 0
		for _, s := range g.alive(func(s *gslot) bool { return (s.kind == "fixed" || s.kind == "var") && s.idx == ix.id }) {
			if dropDependent {
				dropDependent = false
				continue
			}
			targets = append(targets, s)
		}
		for _, s := range g.alive(func(s *gslot) bool { return s.kind == "virt" && s.lh == ix.lh }) {
			if rapid.IntRange(0, 3).Draw(g.t, "withvirt") > 0 {
				targets = append(targets, s)
			}
		}
		for _, s := range g.alive(func(s *gslot) bool { return s.kind == "free" || s.kind == "calc" }) {
			if rapid.IntRange(0, 3).Draw(g.t, "withfree") == 0 {
				targets = append(targets, s)
			}
		}
		targets = rapid.Permutation(targets).Draw(g.t, "delorder")
	default:
		targets = g.pickSlots(4)
	}
	for _, s := range targets {
		op.Slots = append(op.Slots, s.id)
	}
	if rapid.IntRange(0, 14).Draw(g.t, "bogus") == 0 {
		// a key that never existed, or a channel deleted earlier
		op.Slots = append(op.Slots, rapid.IntRange(1, g.nextID+1).Draw(g.t, "bogusslot"))
	}
	// prediction: fails when an index keeps a dependent outside the batch
	in := map[int]bool{}
	for _, id := range op.Slots {
		in[id] = true
	}
	ok := true
	for _, s := range targets {
		if s.kind != "idx" {
			continue
		}
		for _, d := range g.alive(func(d *gslot) bool { return (d.kind == "fixed" || d.kind == "var") && d.idx == s.id }) {
			if !in[d.id] {
				ok = false
			}
		}
	}
	if ok {
		for _, s := range targets {
			s.alive = false
		}
	}
	return op
}

func (g *gen) rename() Op {
	op := Op{Kind: "rename", AllowInternal: rapid.IntRange(0, 2).Draw(g.t, "allow-internal") == 0}
	g.gateway(&op)
	targets := g.pickSlots(3)
	bad := false
	for _, s := range targets {
		op.Slots = append(op.Slots, s.id)
		var nm string
		switch k := rapid.IntRange(0, 9).Draw(g.t, "renamekind"); {
		case k < 6:
			nm = g.fresh()
		case k < 8:
			nm = rapid.SampledFrom(g.alive(nil)).Draw(g.t, "renametaken").name
			bad = bad || nm != s.name
		case k == 8:
			nm = rapid.SampledFrom(invalidNames).Draw(g.t, "renameinvalid")
			bad = true
		default:
			nm = s.name + "_time"
		}
		op.Names = append(op.Names, nm)
	}
	if rapid.IntRange(0, 19).Draw(g.t, "renamebogus") == 0 {
		op.Slots = append(op.Slots, g.nextID+3)
		op.Names = append(op.Names, g.fresh())
		bad = true
	}
	if !bad || !g.validate {
		for i, s := range targets {
			s.name = op.Names[i]
		}
	}
	return op
}

func (g *gen) delname() Op {
	op := Op{Kind: "delname"}
	g.gateway(&op)
	for _, s := range g.pickSlots(2) {
		op.Names = append(op.Names, s.name)
		if s.kind != "idx" {
			s.alive = false
		}
	}
	if rapid.IntRange(0, 9).Draw(g.t, "delnamefresh") == 0 {
		op.Names = append(op.Names, g.fresh())
	}
	return op
}
