// C15 — channel keys are unique and cluster metadata always matches the storage engines.
//
// Every case provisions a fresh in-memory mock cluster of 1-3 nodes and replays a generated
// history of batched create / rename / delete requests issued through generated gateway
// nodes (see gen_test.go for the script). The executor keeps a table model of the channels
// (M-TABLE), and after every request
//
//   - reads the authoritative metadata (for a key: the view of its leaseholder, for free
//     keys the bootstrapper) and compares it with what the model predicts for a successful
//     request, or adopts it after a failed request or where an option leaves the outcome open;
//   - waits until every node retrieves exactly that table, by scan and by name (bounded wait,
//     timeout = discard);
//   - compares, for every node L, the metadata channels leased to L with the channels that
//     L's time-series engine holds (the engine is enumerated by probing every key the
//     per-node counters can have produced), fully after a successful request and on
//     existence only after a failed one;
//   - checks that channels deleted by the request cannot be retrieved, written or read at
//     the distribution layer of any node nor at the leaseholder's engine.
package verif_c15_test

import (
	"context"
	"encoding/json"
	"fmt"
	"os"
	"regexp"
	"runtime"
	"sort"
	"strings"
	"sync"
	"testing"
	"time"

	"github.com/onsi/gomega"
	"github.com/synnaxlabs/cesium"
	kit "github.com/synnaxlabs/synnax/internal/verifkit"
	"github.com/synnaxlabs/synnax/pkg/distribution"
	"github.com/synnaxlabs/synnax/pkg/distribution/channel"
	"github.com/synnaxlabs/synnax/pkg/distribution/framer"
	"github.com/synnaxlabs/synnax/pkg/distribution/mock"
	"github.com/synnaxlabs/synnax/pkg/distribution/node"
	"github.com/synnaxlabs/synnax/pkg/storage/ts"
	"github.com/synnaxlabs/x/gorp"
	xfs "github.com/synnaxlabs/x/io/fs"
	"github.com/synnaxlabs/x/telem"
)

// ---------------------------------------------------------------- model

// meta is the part of a channel the property talks about.
type meta struct {
	Key        channel.Key
	Name       string
	DT         telem.DataType
	IsIndex    bool
	Virtual    bool
	LocalIndex channel.LocalKey
	LH         node.Key
	Internal   bool
	Calc       bool
}

func metaOf(c channel.Channel) meta {
	return meta{Key: c.Key(), Name: c.Name, DT: c.DataType, IsIndex: c.IsIndex, Virtual: c.Virtual,
		LocalIndex: c.LocalIndex, LH: c.Leaseholder, Internal: c.Internal, Calc: c.Expression != ""}
}

// index is the key of the channel's index, computed independently of channel.Channel.Index.
func (m meta) index() uint32 {
	if m.LocalIndex == 0 {
		return 0
	}
	return uint32(m.LH)<<20 | uint32(m.LocalIndex)
}

func (m meta) kind() string {
	switch {
	case m.LH == node.KeyFree:
		return "free"
	case m.Virtual:
		return "virtual"
	case m.IsIndex:
		return "index"
	default:
		return "data"
	}
}

func (m meta) String() string {
	return fmt.Sprintf("{key=%d(lh=%d,local=%d) name=%q dt=%s index=%v virtual=%v localIndex=%d}",
		m.Key, m.Key>>20, m.Key&0xFFFFF, m.Name, m.DT, m.IsIndex, m.Virtual, m.LocalIndex)
}

type table map[channel.Key]meta

func (t table) clone() table {
	o := make(table, len(t))
	for k, v := range t {
		o[k] = v
	}
	return o
}

func (t table) keys() []channel.Key {
	ks := make([]channel.Key, 0, len(t))
	for k := range t {
		ks = append(ks, k)
	}
	sort.Slice(ks, func(i, j int) bool { return ks[i] < ks[j] })
	return ks
}

// diff describes the first difference between two tables ("" when equal).
func (t table) diff(o table) string {
	for _, k := range t.keys() {
		b, ok := o[k]
		if !ok {
			return fmt.Sprintf("%v only in the first", t[k])
		}
		if a := t[k]; a != b {
			return fmt.Sprintf("%v vs %v", a, b)
		}
	}
	for _, k := range o.keys() {
		if _, ok := t[k]; !ok {
			return fmt.Sprintf("%v only in the second", o[k])
		}
	}
	return ""
}

var validName = regexp.MustCompile(`^[A-Za-z_][A-Za-z0-9_]*$`)

// ---------------------------------------------------------------- executor state

const (
	quiesceTimeout = 6 * time.Second
	staleGrace     = 3 * time.Second
	freeLH         = node.Key(0xFFF)
)

var (
	setupOnce sync.Once
	tolerate  = map[string]bool{} // development aid: VERIF_C15_TOLERATE=sig,sig treats signatures as known
)

func setup() {
	setupOnce.Do(func() {
		gomega.RegisterFailHandler(func(message string, _ ...int) { panic("gomega: " + message) })
		gomega.SetDefaultEventuallyTimeout(30 * time.Second)
		gomega.SetDefaultEventuallyPollingInterval(2 * time.Millisecond)
		for _, s := range strings.Split(os.Getenv("VERIF_C15_TOLERATE"), ",") {
			if s != "" {
				tolerate[s] = true
			}
		}
	})
}

type sim struct {
	closed bool
	ctx       context.Context
	sc        Script
	rep       *kit.Report
	cl        *mock.Cluster
	nodes     map[int]mock.Node
	live      table                  // the model: channels that exist
	ever      map[channel.Key]bool   // every key that ever existed
	deleted   table                  // deleted channels, with their last metadata
	deletedBy map[channel.Key]string // what removed them: delete | overwrite | failed-request
	cause     string                 // what the request in progress is, for deletedBy
	opKind    string                 // kind of the request in progress
	slots     map[int]channel.Key    // spec id -> key
	initMax   map[node.Key]uint32    // largest local key per leaseholder before the history
	submitted uint32                 // specs submitted so far (bounds the counters)
	exempt    map[string]bool        // "node/key" pairs excluded after a known / tolerated finding
	gone      []string               // names removed by the latest request (polled by name as well)
	mixedDel  bool
	remote    bool
}

type discard struct{ reason string }

// staleIndex is returned by quiesce when a leaseholder's own name index does not follow
// its metadata table.
type staleIndex struct{ msg string }

func (e *staleIndex) Error() string { return e.msg }

// stop ends the case early (after a known finding that invalidates later predictions).
type stop struct{}

func (*stop) Error() string { return "stop" }

func (d *discard) Error() string { return "discard: " + d.reason }

// known reports a violation unless its signature is a listed known finding, in which case
// the executor continues past it.
func (s *sim) violation(sig, format string, args ...any) error {
	tolerated := false
	for t := range tolerate {
		tolerated = tolerated || strings.HasPrefix(sig, t)
	}
	if tolerated || s.rep.Known(sig) {
		s.rep.Class("known:" + sig)
		// findings after which the model no longer describes the cluster end the case;
		// the others are excluded pairwise (exempt) and the history goes on
		for _, p := range []string{"key-reused", "metadata-", "deleted-channel-retrievable", "name-index-stale", "wrong-leaseholder"} {
			if strings.HasPrefix(sig, p) && !strings.HasPrefix(sig, "metadata-engine-mismatch") {
				return &stop{}
			}
		}
		return nil
	}
	return kit.Fail(sig, format, args...)
}

func (s *sim) lhNode(k channel.Key) int {
	lh := node.Key(k >> 20)
	if lh == freeLH {
		return 1
	}
	return int(lh)
}

// view is node i's complete metadata table.
func (s *sim) view(i int) (table, error) {
	var chs []channel.Channel
	if err := s.nodes[i].Channel.NewRetrieve().Entries(&chs).Exec(s.ctx, nil); err != nil {
		return nil, err
	}
	t := make(table, len(chs))
	for _, c := range chs {
		t[c.Key()] = metaOf(c)
	}
	return t, nil
}

// authoritative is the table made of every node's view of the keys it is leaseholder of
// (free keys: the bootstrapper). Commits reach the leaseholder synchronously, so this is
// the cluster's metadata as soon as a request has returned.
func (s *sim) authoritative() (table, error) {
	t := table{}
	for i := 1; i <= s.sc.N; i++ {
		v, err := s.view(i)
		if err != nil {
			return nil, err
		}
		for k, m := range v {
			if s.lhNode(k) == i {
				t[k] = m
			}
		}
	}
	return t, nil
}

func (s *sim) byName(i int, names []string) (map[channel.Key]bool, error) {
	var chs []channel.Channel
	if err := s.nodes[i].Channel.NewRetrieve().Where(channel.MatchNames(names...)).Entries(&chs).Exec(s.ctx, nil); err != nil {
		return nil, err
	}
	out := map[channel.Key]bool{}
	for _, c := range chs {
		out[c.Key()] = true
	}
	return out, nil
}

// quiesce waits until every node retrieves exactly want, by scan and by name.
func (s *sim) quiesce(want table) error {
	// Names that are plain identifiers are served from the per-node name index, anything
	// else by a scan with a pattern: query the two groups separately so that the index is
	// really what answers the first query.
	// Names no channel carries any more (renamed away, deleted) are asked for in a query of
	// their own, which must return nothing: mixed into the first query, a stale index
	// entry under the old name would return the very key the new name should return.
	nameSet := map[string]bool{}
	for _, m := range want {
		nameSet[m.Name] = true
	}
	delete(nameSet, "")
	var groups [3][]string
	for n := range nameSet {
		if validName.MatchString(n) {
			groups[0] = append(groups[0], n)
		} else {
			groups[1] = append(groups[1], n)
		}
	}
	for _, n := range s.gone {
		if n != "" && !nameSet[n] && validName.MatchString(n) {
			nameSet[n] = true
			groups[2] = append(groups[2], n)
		}
	}
	var wantBy [3]map[channel.Key]bool
	for g := range groups {
		sort.Strings(groups[g])
		wantBy[g] = map[channel.Key]bool{}
		in := map[string]bool{}
		for _, n := range groups[g] {
			in[n] = true
		}
		for k, m := range want {
			if in[m.Name] {
				wantBy[g][k] = true
			}
		}
	}
	deadline := time.Now().Add(quiesceTimeout)
	sleep := 500 * time.Microsecond
	polls := int64(0)
	var staleSince time.Time
	for {
		polls++
		why := ""
		staleNode, staleMsg := 0, ""
		for i := 1; i <= s.sc.N && why == ""; i++ {
			v, err := s.view(i)
			if err != nil {
				why = fmt.Sprintf("node %d: retrieve: %v", i, err)
				break
			}
			if d := want.diff(v); d != "" {
				why = fmt.Sprintf("node %d: table: %s", i, d)
				break
			}
			for g := range groups {
				if len(groups[g]) == 0 || why != "" {
					continue
				}
				got, err := s.byName(i, groups[g])
				if err != nil {
					why = fmt.Sprintf("node %d: retrieve by name: %v", i, err)
					break
				}
				for k := range got {
					if !wantBy[g][k] {
						why = fmt.Sprintf("node %d: by-name retrieval (group %d) returns unexpected key %d", i, g, k)
						if g != 1 && s.lhNode(k) == i {
							staleNode, staleMsg = i, fmt.Sprintf("retrieval by the names %v through node %d returns key %d, which does not carry any of these names in the metadata table of the same node", groups[g], i, k)
						}
					}
				}
				for k := range wantBy[g] {
					if !got[k] {
						why = fmt.Sprintf("node %d: by-name retrieval (group %d) misses %v", i, g, want[k])
						if g == 0 && s.lhNode(k) == i {
							staleNode, staleMsg = i, fmt.Sprintf("retrieval by name through node %d does not return %v although the node's own metadata table holds it", i, want[k])
						}
					}
				}
			}
		}
		if why == "" {
			s.rep.Add("quiesce_polls", polls)
			return nil
		}
		// A leaseholder whose own name index disagrees with its own table: the index is
		// updated in the same step as the table or not at all, so a shorter wait decides.
		if staleNode == 0 {
			staleSince = time.Time{}
		} else if staleSince.IsZero() {
			staleSince = time.Now()
		} else if time.Since(staleSince) > staleGrace {
			return &staleIndex{msg: staleMsg}
		}
		if time.Now().After(deadline) {
			s.rep.Add("quiesce_timeouts", 1)
			if os.Getenv("VERIF_C15_DEBUG") != "" {
				b, _ := json.Marshal(s.sc)
				fmt.Fprintf(os.Stderr, "C15 quiesce timeout: %s\nC15 script: %s\n", why, b)
			}
			if staleNode != 0 {
				// The node that misses the channel by name is the channel's own leaseholder:
				// it applied the write synchronously, no gossip is involved, its scan shows the
				// channel, and its name index has had the whole bounded wait to follow.
				return &staleIndex{msg: staleMsg}
			}
			if strings.Contains(why, "by-name") {
				return &discard{"name-index-timeout"}
			}
			return &discard{"gossip-timeout"}
		}
		time.Sleep(sleep)
		if sleep < 8*time.Millisecond {
			sleep *= 2
		}
	}
}

// ---------------------------------------------------------------- engines

// engine enumerates the channels node i's time-series engine holds, by probing every key
// the counters of any leaseholder (and the free counter) can have handed out so far.
func (s *sim) engine(i int) map[channel.Key]ts.Channel {
	return s.engineOf(s.nodes[i].Storage.TS)
}

func (s *sim) engineOf(db *ts.DB) map[channel.Key]ts.Channel {
	out := map[channel.Key]ts.Channel{}
	lhs := []node.Key{freeLH}
	for j := 1; j <= s.sc.N; j++ {
		lhs = append(lhs, node.Key(j))
	}
	for _, lh := range lhs {
		bound := s.initMax[lh] + s.submitted + 4
		for local := uint32(1); local <= bound; local++ {
			k := uint32(lh)<<20 | local
			if c, err := db.RetrieveChannel(s.ctx, k); err == nil {
				out[channel.Key(k)] = c
			}
		}
	}
	return out
}

// crossStore compares metadata and engines. strong: after a successful request, on key, data
// type, index, virtual flag, name; otherwise on existence only.
func (s *sim) crossStore(step int, strong bool, countOnly bool) error {
	// report raises a violation: under the strong signature after a successful request,
	// as "orphan-after-failed-request" after a failed one. countOnly (failed request issued
	// without a transaction: nothing promises atomicity there) only counts the orphan.
	report := func(strongSig, format string, args ...any) error {
		if countOnly {
			s.rep.Class("orphan-after-failed-notx-request")
			return nil
		}
		if strong {
			return s.violation(strongSig, format, args...)
		}
		side := "missing-in-metadata"
		if strings.HasSuffix(strongSig, "missing-in-engine") {
			side = "missing-in-engine"
		}
		// The property is stated over successful requests. What a failed request leaves
		// behind (cesium documents CreateChannel/DeleteChannels as not atomic, and the
		// service runs the engine step last for that reason) is counted, the pair is
		// exempted from later comparisons, and the history goes on.
		s.rep.Class("orphan-after-failed-request/" + s.opKind + "/" + side)
		return nil
	}
	for i := 1; i <= s.sc.N; i++ {
		eng := s.engine(i)
		for _, k := range s.live.keys() {
			m := s.live[k]
			ex := fmt.Sprintf("%d/%d", i, k)
			if m.LH == freeLH || int(m.LH) != i || s.exempt[ex] {
				continue
			}
			e, ok := eng[k]
			if !ok {
				s.exempt[ex] = true
				if err := report("metadata-engine-mismatch/missing-in-engine",
					"step %d: %s channel %v is in the cluster metadata but not in the time-series engine of its leaseholder (node %d)", step, m.kind(), m, i); err != nil {
					return err
				}
				continue
			}
			var field string
			switch {
			case e.Name != m.Name:
				field = "name"
			case e.DataType != m.DT:
				field = "data-type"
			case e.Index != m.index():
				field = "index"
			case e.Virtual != m.Virtual:
				field = "virtual"
			case e.IsIndex != m.IsIndex:
				field = "is-index"
			}
			if field == "" {
				continue
			}
			if !strong && s.opKind == "rename" && !countOnly {
				// A refused rename must not rename anything: unlike a create or delete that
				// fails half-way (documented as not atomic, and repaired by retrying), an
				// engine-side rename that survives a refused request leaves the two stores
				// disagreeing on the name of a channel both of them hold, and no later
				// successful request on other channels repairs that.
				s.exempt[ex] = true
				if err := s.violation("metadata-engine-mismatch-after-refused-rename/"+field,
					"step %d: the rename request was refused, yet metadata %v now differs in %s from the engine of node %d: {name=%q dt=%s index=%d virtual=%v isIndex=%v}", step, m, field, i, e.Name, e.DataType, e.Index, e.Virtual, e.IsIndex); err != nil {
					return err
				}
				continue
			}
			if !strong {
				// the weaker check after a failed request ignores fields; remember the pair so
				// that later (strong) comparisons do not blame a later request for it
				s.exempt[ex] = true
				s.rep.Class("field-difference-after-failed-request")
				continue
			}
			s.exempt[ex] = true
			if err := s.violation("metadata-engine-mismatch/"+field,
				"step %d: metadata %v differs in %s from the engine of node %d: {name=%q dt=%s index=%d virtual=%v isIndex=%v}", step, m, field, i, e.Name, e.DataType, e.Index, e.Virtual, e.IsIndex); err != nil {
				return err
			}
		}
		eks := make([]channel.Key, 0, len(eng))
		for k := range eng {
			eks = append(eks, k)
		}
		sort.Slice(eks, func(a, b int) bool { return eks[a] < eks[b] })
		for _, k := range eks {
			ex := fmt.Sprintf("%d/%d", i, k)
			if s.exempt[ex] {
				continue
			}
			e := eng[k]
			if m, ok := s.live[k]; ok {
				if int(m.LH) != i {
					s.exempt[ex] = true
					if err := report("metadata-engine-mismatch/wrong-node",
						"step %d: channel %v leased to node %d is present in the engine of node %d", step, m, m.LH, i); err != nil {
						return err
					}
				}
				continue
			}
			s.exempt[ex] = true
			if d, ok := s.deleted[k]; ok {
				if err := report("deleted-channel-still-in-engine/"+s.deletedBy[k]+"/"+d.kind(),
					"step %d: deleted %s channel %v is still present in the engine of node %d as {name=%q virtual=%v}", step, d.kind(), d, i, e.Name, e.Virtual); err != nil {
					return err
				}
				continue
			}
			if err := report("metadata-engine-mismatch/missing-in-metadata",
				"step %d: the engine of node %d holds channel {key=%d name=%q dt=%s virtual=%v} that the cluster metadata does not know", step, i, k, e.Name, e.DataType, e.Virtual); err != nil {
				return err
			}
		}
	}
	return nil
}

// checkDeleted verifies clause (3) for the given deleted keys.
func (s *sim) checkDeleted(step int, keys []channel.Key) error {
	if len(keys) > 6 {
		keys = keys[:6]
	}
	for _, k := range keys {
		d := s.deleted[k]
		for i := 1; i <= s.sc.N; i++ {
			n := s.nodes[i]
			exists, err := n.Channel.NewRetrieve().Where(channel.MatchKeys(k)).Exists(s.ctx, nil)
			if err == nil && exists {
				if err := s.violation("deleted-channel-retrievable", "step %d: deleted channel %v is still retrievable through node %d", step, d, i); err != nil {
					return err
				}
			}
			w, err := n.Framer.OpenWriter(s.ctx, framer.WriterConfig{Keys: channel.Keys{k}, Start: telem.TimeStamp(10 * telem.Second)})
			if err == nil {
				_ = w.Close()
				if err := s.violation("deleted-channel-writable/distribution", "step %d: a writer on deleted channel %v opened through node %d", step, d, i); err != nil {
					return err
				}
			}
			it, err := n.Framer.OpenIterator(s.ctx, framer.IteratorConfig{Keys: channel.Keys{k}, Bounds: telem.TimeRangeMax})
			if err == nil {
				_ = it.Close()
				if err := s.violation("deleted-channel-readable/distribution", "step %d: an iterator on deleted channel %v opened through node %d", step, d, i); err != nil {
					return err
				}
			}
		}
		lh := s.lhNode(k)
		if node.Key(k>>20) == freeLH || lh < 1 || lh > s.sc.N || s.exempt[fmt.Sprintf("%d/%d", lh, k)] {
			continue
		}
		db := s.nodes[lh].Storage.TS
		if _, err := db.RetrieveChannel(s.ctx, uint32(k)); err == nil {
			s.exempt[fmt.Sprintf("%d/%d", lh, k)] = true
			if err := s.violation("deleted-channel-still-in-engine/"+s.deletedBy[k]+"/"+d.kind(), "step %d: deleted %s channel %v is still retrievable from the engine of node %d", step, d.kind(), d, lh); err != nil {
				return err
			}
			continue
		}
		if w, err := db.OpenWriter(s.ctx, ts.WriterConfig{Channels: []ts.ChannelKey{uint32(k)}, Start: telem.TimeStamp(10 * telem.Second)}); err == nil {
			_ = w.Close()
			if err := s.violation("deleted-channel-writable/engine", "step %d: an engine writer on deleted channel %v opened on node %d", step, d, lh); err != nil {
				return err
			}
		}
		if it, err := db.OpenIterator(ts.IteratorConfig{Channels: []ts.ChannelKey{uint32(k)}, Bounds: telem.TimeRangeMax}); err == nil {
			_ = it.Close()
			if err := s.violation("deleted-channel-readable/engine", "step %d: an engine iterator on deleted channel %v opened on node %d", step, d, lh); err != nil {
				return err
			}
		}
		if _, err := db.Read(s.ctx, telem.TimeRangeMax, uint32(k)); err == nil {
			if err := s.violation("deleted-channel-readable/engine", "step %d: an engine read of deleted channel %v succeeded on node %d", step, d, lh); err != nil {
				return err
			}
		}
	}
	return nil
}

// ---------------------------------------------------------------- requests

func (s *sim) toChannel(sp Spec) channel.Channel {
	c := channel.Channel{Name: sp.Name, DataType: telem.DataType(sp.DT)}
	switch sp.Kind {
	case "idx":
		c.IsIndex, c.DataType, c.Leaseholder = true, telem.TimeStampT, node.Key(sp.LH)
	case "fixed", "var":
		c.Leaseholder = node.Key(sp.LH)
		switch {
		case sp.Idx < 0:
			c.LocalIndex = 3999
		case sp.Idx > 0:
			if k, ok := s.slots[sp.Idx]; ok && k != 0 {
				c.LocalIndex = channel.LocalKey(k & 0xFFFFF)
			}
		}
	case "virt":
		c.Virtual, c.Leaseholder = true, node.Key(sp.LH)
	case "free":
		c.Virtual, c.Leaseholder = true, node.KeyFree
	case "calc":
		c.Expression = "return 1"
	}
	return c
}

func (s *sim) key(slot int) channel.Key {
	if k, ok := s.slots[slot]; ok && k != 0 {
		return k
	}
	// a key no counter reaches
	return channel.Key(uint32(1)<<20 | uint32(3000+slot%500))
}

func (s *sim) do(op Op, f func(w channel.Writer) error) error {
	n := s.nodes[op.Node]
	if op.NoTx {
		return f(n.Channel.NewWriter(nil))
	}
	return n.DB.WithTx(s.ctx, func(tx gorp.Tx) error { return f(n.Channel.NewWriter(tx)) })
}

func (s *sim) noteRemote(gateway int, k channel.Key) {
	lh := node.Key(k >> 20)
	if (lh == freeLH && gateway != 1) || (lh != freeLH && int(lh) != gateway) {
		s.remote = true
		s.rep.Class("remote-leaseholder")
	}
}

// adopt makes the observed authoritative table the model (after a failed request or where
// the outcome is open), still enforcing that keys are never reused.
func (s *sim) adopt(step int, before, now table, checked map[channel.Key]bool) ([]channel.Key, error) {
	var vanished []channel.Key
	for _, k := range now.keys() {
		if _, ok := before[k]; !ok {
			if s.ever[k] && !checked[k] {
				if err := s.violation("key-reused/deleted", "step %d: key %d of deleted channel %v is in use again by %v", step, k, s.deleted[k], now[k]); err != nil {
					return nil, err
				}
			}
			s.ever[k] = true
			delete(s.deleted, k)
		}
	}
	for _, k := range before.keys() {
		if _, ok := now[k]; !ok {
			s.deleted[k] = before[k]
			s.deletedBy[k] = s.cause
			s.gone = append(s.gone, before[k].Name)
			vanished = append(vanished, k)
		} else if before[k].Name != now[k].Name {
			s.gone = append(s.gone, before[k].Name)
		}
	}
	s.live = now
	return vanished, nil
}

// compare checks the authoritative table against the model's prediction.
func (s *sim) compare(step int, what string, want, got table) error {
	for _, k := range want.keys() {
		g, ok := got[k]
		if !ok {
			return s.violation("metadata-lost-channel", "step %d: after a successful %s channel %v is missing from the cluster metadata", step, what, want[k])
		}
		if w := want[k]; w != g {
			return s.violation("metadata-field-mismatch", "step %d: after a successful %s the metadata holds %v, the model expects %v", step, what, g, w)
		}
	}
	for _, k := range got.keys() {
		if _, ok := want[k]; !ok {
			if d, ok := s.deleted[k]; ok {
				return s.violation("deleted-channel-retrievable", "step %d: after a successful %s deleted channel %v is in the cluster metadata again as %v", step, what, d, got[k])
			}
			return s.violation("metadata-unexpected-channel", "step %d: after a successful %s the cluster metadata holds %v, which no request created", step, what, got[k])
		}
	}
	return nil
}

// checkNames enforces, with validation on, that the given channels have valid names that no
// other existing channel has.
func (s *sim) checkNames(step int, what string, t table, keys []channel.Key, derived map[channel.Key]bool) error {
	if s.sc.NoValidate {
		return nil
	}
	for _, k := range keys {
		m, ok := t[k]
		if !ok {
			continue
		}
		if !validName.MatchString(m.Name) {
			if err := s.violation("invalid-name", "step %d: %s left channel %v with an invalid name although validation is on", step, what, m); err != nil {
				return err
			}
		}
		for _, o := range t.keys() {
			if o != k && t[o].Name == m.Name {
				sig := "duplicate-name/" + what
				switch {
				case derived[k] && derived[o]:
					sig = "duplicate-name/derived-index-twice"
				case derived[k] || derived[o]:
					sig = "duplicate-name/derived-index-vs-other"
				}
				if err := s.violation(sig, "step %d: %s left channels %v and %v with the same name although validation is on", step, what, m, t[o]); err != nil {
					return err
				}
				break
			}
		}
	}
	return nil
}

func (s *sim) create(step int, op Op) error {
	chs := make([]channel.Channel, len(op.Specs))
	for i, sp := range op.Specs {
		chs[i] = s.toChannel(sp)
		s.submitted++
		if sp.Kind == "calc" {
			s.submitted++ // the derived index
		}
		switch {
		case sp.Kind == "free" || sp.Kind == "calc":
			if op.Node != 1 {
				s.remote = true
				s.rep.Class("remote-leaseholder")
			}
		case sp.LH != 0 && sp.LH != op.Node && sp.LH <= s.sc.N:
			s.remote = true
			s.rep.Class("remote-leaseholder")
		}
		s.rep.Class("create-" + sp.Kind)
	}
	var opts []channel.CreateOption
	if op.Retrieve {
		opts = append(opts, channel.RetrieveIfNameExists())
		s.rep.Class("opt-retrieve")
	}
	if op.Overwrite {
		opts = append(opts, channel.OverwriteIfNameExistsAndDifferentProperties())
		s.rep.Class("opt-overwrite")
	}
	before := s.live.clone()
	err := s.do(op, func(w channel.Writer) error { return w.CreateMany(s.ctx, &chs, opts...) })
	s.cause = "overwrite"
	if err != nil {
		s.rep.Class("create-failed")
		return s.afterFailure(step, before, op.NoTx)
	}
	s.rep.Class("create-ok")
	// (1) keys are new, embed the leaseholder, are never reused
	matched := make([]bool, len(chs))
	want := before.clone()
	var created []channel.Key
	inBatch := map[channel.Key]bool{}
	derived := map[channel.Key]bool{} // results no spec asked for: the index channels of calculated channels
	process := func(r channel.Channel, sp *Spec) error {
		k := r.Key()
		if inBatch[k] {
			if op.Retrieve || op.Overwrite {
				// two requested names resolved to one existing (or just created) channel
				s.rep.Class("create-retrieved-existing")
				return nil
			}
			return s.violation("key-reused/batch", "step %d: create returned key %d twice in one batch", step, k)
		}
		inBatch[k] = true
		if _, ok := before[k]; ok {
			if !op.Retrieve && !op.Overwrite {
				return s.violation("key-reused/live", "step %d: create without options returned key %d of existing channel %v for %q", step, k, before[k], r.Name)
			}
			if before[k].Name != r.Name {
				// the options resolve names: a result under another channel's key is that key
				// handed out a second time
				return s.violation("key-reused/live", "step %d: create returned %q under key %d, which belongs to existing channel %v", step, r.Name, k, before[k])
			}
			s.rep.Class("create-retrieved-existing")
			return nil
		}
		if s.ever[k] {
			if err := s.violation("key-reused/deleted", "step %d: new channel %q got key %d, which belonged to deleted channel %v", step, r.Name, k, s.deleted[k]); err != nil {
				return err
			}
		}
		if sp != nil {
			wantLH := node.Key(op.Node)
			switch {
			case sp.Kind == "free" || sp.Kind == "calc":
				wantLH = freeLH
			case sp.LH != 0:
				wantLH = node.Key(sp.LH)
			}
			if node.Key(k>>20) != wantLH {
				if err := s.violation("wrong-leaseholder-in-key", "step %d: channel %q requested for leaseholder %d got key %d (leaseholder %d)", step, r.Name, wantLH, k, k>>20); err != nil {
					return err
				}
			}
		}
		if node.Key(k>>20) != r.Leaseholder {
			if err := s.violation("wrong-leaseholder-in-key", "step %d: channel %q has leaseholder %d but key %d (leaseholder %d)", step, r.Name, r.Leaseholder, k, k>>20); err != nil {
				return err
			}
		}
		want[k] = metaOf(r)
		created = append(created, k)
		return nil
	}
	// The service returns the channels grouped by route, not in request order: pair specs
	// with results by name, preferring a result that also has the requested properties
	// (names may repeat inside a batch when validation is off, and a calculated channel's
	// derived index may carry the name of a requested channel).
	specDone := make([]bool, len(op.Specs))
	for pass := 0; pass < 2; pass++ {
		for i := range op.Specs {
			sp := &op.Specs[i]
			if specDone[i] {
				continue
			}
			req := s.toChannel(*sp)
			for j, r := range chs {
				if matched[j] || r.Name != sp.Name {
					continue
				}
				if pass == 0 {
					wantLH := node.Key(op.Node)
					switch {
					case sp.Kind == "free" || sp.Kind == "calc":
						wantLH = freeLH
					case sp.LH != 0:
						wantLH = node.Key(sp.LH)
					}
					if r.Leaseholder != wantLH || r.IsIndex != req.IsIndex || r.DataType != req.DataType ||
						(r.Expression != "") != (sp.Kind == "calc") {
						continue
					}
				}
				matched[j], specDone[i] = true, true
				s.slots[sp.ID] = r.Key()
				psp := sp
				if pass == 1 && (op.Retrieve || op.Overwrite) {
					// with these options a request resolves to whatever channel carries the
					// name, which need not have the requested leaseholder
					psp = nil
				}
				if err := process(r, psp); err != nil {
					return err
				}
				break
			}
		}
	}
	for j, r := range chs {
		if !matched[j] {
			s.rep.Class("create-derived-channel")
			derived[r.Key()] = true
			if err := process(r, nil); err != nil {
				return err
			}
		}
	}
	got, err := s.authoritative()
	if err != nil {
		return &discard{"retrieve-error"}
	}
	// The property compares the cluster metadata with the engines, not with the structs a
	// create call hands back. For a calculated channel the service fills in the derived index
	// of the caller's copy by name, and with one name twice in a batch (validation off) only
	// the first copy gets it: the stored link is what counts (counted, not reported).
	for _, k := range created {
		if w, g := want[k], got[k]; w.Calc && g.Calc && w.LocalIndex != g.LocalIndex {
			s.rep.Class("calculated-channel-returned-without-its-stored-index")
			w.LocalIndex = g.LocalIndex
			want[k] = w
		}
	}
	if op.Overwrite {
		// channels that share a name with a requested one may have been replaced
		names := map[string]bool{}
		for _, sp := range op.Specs {
			names[sp.Name] = true
			if sp.Kind == "calc" {
				names[sp.Name+"_time"] = true // the derived index takes part in the overwrite
			}
		}
		for _, k := range before.keys() {
			if _, still := got[k]; !still && names[before[k].Name] {
				delete(want, k)
				s.rep.Class("overwritten")
			}
		}
		// a name requested twice in one batch (possible with validation off, or through a
		// calculated channel's derived index): the later element may replace the earlier
		count := map[string]int{}
		for _, k := range created {
			count[want[k].Name]++
		}
		for _, k := range created {
			if _, still := got[k]; !still && count[want[k].Name] > 1 {
				s.deleted[k] = want[k]
				s.deletedBy[k] = "overwrite"
				s.ever[k] = true
				delete(want, k)
				s.rep.Class("overwritten-within-batch")
			}
		}
	}
	if err := s.compare(step, "create", want, got); err != nil {
		return err
	}
	vanished, err := s.adopt(step, before, got, inBatch)
	if err != nil {
		return err
	}
	if err := s.checkNames(step, "create", s.live, created, derived); err != nil {
		return err
	}
	return s.afterSuccess(step, vanished)
}

// burst: K goroutines create one leased virtual channel each through the same node at the same
// moment (separate requests, as K clients would issue them). Every request must succeed - the
// names are fresh, valid and distinct - and the keys handed out must be distinct, embed the
// leaseholder and never have been used before; afterwards metadata and engines must agree as
// after any successful create.
func (s *sim) burst(step int, op Op) error {
	k := len(op.Names)
	chs := make([]channel.Channel, k)
	errs := make([]error, k)
	start := make(chan struct{})
	var wg sync.WaitGroup
	before := s.live.clone()
	for i := range chs {
		chs[i] = channel.Channel{Name: op.Names[i], DataType: telem.Float32T, Virtual: true, Leaseholder: node.Key(op.Node)}
		s.submitted++
		wg.Add(1)
		go func(i int) {
			defer wg.Done()
			<-start
			errs[i] = s.do(op, func(w channel.Writer) error { return w.Create(s.ctx, &chs[i]) })
		}(i)
	}
	close(start)
	wg.Wait()
	s.cause = "burst"
	s.rep.Class("create-burst")
	want := before.clone()
	seen := map[channel.Key]int{}
	checked := map[channel.Key]bool{}
	var created []channel.Key
	for i, r := range chs {
		if errs[i] != nil {
			return s.violation("concurrent-create-failed", "step %d: %d channels with fresh, distinct, valid names were created through node %d at the same moment; the request for %q failed: %v", step, k, op.Node, r.Name, errs[i])
		}
		key := r.Key()
		if j, dup := seen[key]; dup {
			return s.violation("key-reused/concurrent", "step %d: concurrent creates through node %d handed key %d to both %q and %q", step, op.Node, key, chs[j].Name, r.Name)
		}
		seen[key] = i
		if _, live := before[key]; live {
			return s.violation("key-reused/live", "step %d: concurrent create of %q got key %d of existing channel %v", step, r.Name, key, before[key])
		}
		if s.ever[key] {
			return s.violation("key-reused/deleted", "step %d: concurrent create of %q got key %d, which belonged to deleted channel %v", step, r.Name, key, s.deleted[key])
		}
		if node.Key(key>>20) != node.Key(op.Node) || r.Leaseholder != node.Key(op.Node) {
			return s.violation("wrong-leaseholder-in-key", "step %d: channel %q requested for leaseholder %d got key %d (leaseholder field %d)", step, r.Name, op.Node, key, r.Leaseholder)
		}
		want[key] = metaOf(r)
		checked[key] = true
		created = append(created, key)
	}
	got, err := s.authoritative()
	if err != nil {
		return &discard{"retrieve-error"}
	}
	if err := s.compare(step, "concurrent create", want, got); err != nil {
		return err
	}
	vanished, err := s.adopt(step, before, got, checked)
	if err != nil {
		return err
	}
	if err := s.checkNames(step, "concurrent create", s.live, created, nil); err != nil {
		return err
	}
	return s.afterSuccess(step, vanished)
}

func (s *sim) targets(op Op) channel.Keys {
	seen := map[channel.Key]bool{}
	var keys channel.Keys
	for _, sl := range op.Slots {
		k := s.key(sl)
		if !seen[k] {
			seen[k] = true
			keys = append(keys, k)
		}
	}
	return keys
}

func (s *sim) rename(step int, op Op) error {
	seen := map[channel.Key]bool{}
	var keys channel.Keys
	var names []string
	for i, sl := range op.Slots {
		k := s.key(sl)
		if seen[k] || i >= len(op.Names) {
			continue // one new name per key per request
		}
		seen[k] = true
		keys = append(keys, k)
		names = append(names, op.Names[i])
		s.noteRemote(op.Node, k)
	}
	if len(keys) == 0 {
		s.rep.Class("empty-op")
		return nil
	}
	before := s.live.clone()
	err := s.do(op, func(w channel.Writer) error { return w.RenameMany(s.ctx, keys, names, op.AllowInternal) })
	if op.AllowInternal {
		s.rep.Class("rename-allow-internal")
	}
	s.cause = "rename"
	if err != nil {
		s.rep.Class("rename-failed")
		return s.afterFailure(step, before, op.NoTx)
	}
	s.rep.Class("rename-ok")
	want := before.clone()
	var renamed []channel.Key
	for i, k := range keys {
		if m, ok := want[k]; ok {
			if m.Name != names[i] {
				s.gone = append(s.gone, m.Name)
			}
			m.Name = names[i]
			want[k] = m
			renamed = append(renamed, k)
		}
	}
	got, err := s.authoritative()
	if err != nil {
		return &discard{"retrieve-error"}
	}
	if err := s.compare(step, "rename", want, got); err != nil {
		return err
	}
	if _, err := s.adopt(step, before, got, nil); err != nil {
		return err
	}
	if err := s.checkNames(step, "rename", s.live, renamed, nil); err != nil {
		return err
	}
	return s.afterSuccess(step, nil)
}

func (s *sim) delete(step int, op Op) error {
	before := s.live.clone()
	want := before.clone()
	var err error
	kinds := map[string]bool{}
	if op.Kind == "delete" {
		keys := s.targets(op)
		if len(keys) == 0 {
			s.rep.Class("empty-op")
			return nil
		}
		for _, k := range keys {
			if m, ok := want[k]; ok {
				kinds[m.kind()] = true
				s.noteRemote(op.Node, k)
				delete(want, k)
			}
		}
		if len(keys) == 1 {
			err = s.do(op, func(w channel.Writer) error { return w.Delete(s.ctx, keys[0], false) })
		} else {
			err = s.do(op, func(w channel.Writer) error { return w.DeleteMany(s.ctx, keys, false) })
		}
	} else {
		if len(op.Names) == 0 {
			s.rep.Class("empty-op")
			return nil
		}
		names := map[string]bool{}
		for _, n := range op.Names {
			names[n] = true
		}
		for _, k := range before.keys() {
			if names[before[k].Name] {
				kinds[before[k].kind()] = true
				s.noteRemote(op.Node, k)
				delete(want, k)
			}
		}
		err = s.do(op, func(w channel.Writer) error { return w.DeleteManyByNames(s.ctx, op.Names, false) })
	}
	s.cause = "delete"
	if err != nil {
		s.rep.Class("delete-failed")
		return s.afterFailure(step, before, op.NoTx)
	}
	s.rep.Class("delete-ok")
	if len(kinds) >= 2 {
		s.mixedDel = true
		s.rep.Class("mixed-delete")
	}
	for k := range kinds {
		s.rep.Class("delete-" + k)
	}
	got, err := s.authoritative()
	if err != nil {
		return &discard{"retrieve-error"}
	}
	// a deleted channel must be gone from the metadata
	for _, k := range before.keys() {
		if _, expectGone := want[k]; !expectGone {
			if _, still := got[k]; still {
				return s.violation("deleted-channel-retrievable", "step %d: %s returned success but channel %v is still in the cluster metadata", step, op.Kind, before[k])
			}
		}
	}
	if err := s.compare(step, "delete", want, got); err != nil {
		return err
	}
	vanished, err := s.adopt(step, before, got, nil)
	if err != nil {
		return err
	}
	return s.afterSuccess(step, vanished)
}

// settle waits for quiescence and turns a stale leaseholder index into a violation.
func (s *sim) settle(step int) error {
	err := s.quiesce(s.live)
	if st, ok := err.(*staleIndex); ok {
		if err := s.violation("name-index-stale-on-leaseholder", "step %d: %s", step, st.msg); err != nil {
			return err
		}
		// by-name operations (delete by name, the create options, name validation) no longer
		// behave as the model predicts: end the case here
		return &stop{}
	}
	return err
}

func (s *sim) afterSuccess(step int, vanished []channel.Key) error {
	if err := s.settle(step); err != nil {
		return err
	}
	if err := s.crossStore(step, true, false); err != nil {
		return err
	}
	return s.checkDeleted(step, vanished)
}

func (s *sim) afterFailure(step int, before table, notx bool) error {
	s.cause = "failed-request"
	got, err := s.authoritative()
	if err != nil {
		return &discard{"retrieve-error"}
	}
	if d := before.diff(got); d != "" {
		s.rep.Class("failed-request-changed-metadata")
	}
	if _, err := s.adopt(step, before, got, nil); err != nil {
		return err
	}
	if err := s.settle(step); err != nil {
		return err
	}
	return s.crossStore(step, false, notx)
}

// closeCluster closes every node's distribution layer, then every storage layer - what
// mock.Cluster.Close does, in two phases. In between it waits for the goroutine count to
// settle: aspen's cluster store flushes its state with an untracked `go FlushSync(...)`
// (x/kv.Subscriber.Flush), and such a goroutine, when it is scheduled only after the storage
// layer has been closed, panics the whole process with "pebble: closed". That shutdown race
// is outside this property; the pause keeps it from killing the test process.
func (s *sim) closeCluster() {
	if s.closed {
		return
	}
	s.closed = true
	keys := make([]int, 0, len(s.cl.Nodes))
	for k := range s.cl.Nodes {
		keys = append(keys, int(k))
	}
	sort.Ints(keys)
	for _, k := range keys {
		if err := s.cl.Nodes[node.Key(k)].Layer.Close(); err != nil {
			s.rep.Class("cluster-close-error")
		}
	}
	prev, stable := runtime.NumGoroutine(), 0
	for t := 0; t < 200 && stable < 3; t++ {
		time.Sleep(time.Millisecond)
		if cur := runtime.NumGoroutine(); cur == prev {
			stable++
		} else {
			prev, stable = cur, 0
		}
	}
	for _, k := range keys {
		if err := s.cl.Nodes[node.Key(k)].Storage.Close(); err != nil {
			s.rep.Class("cluster-close-error")
		}
	}
}

// restartEngines closes the cluster and reopens every node's time-series engine on the
// storage it left behind ("restarts of a node's services"): the restarted engine must hold
// exactly the channels it held before the restart - which crossStore has just matched against
// the metadata - with the same key, name, data type, index and virtual flag. In particular a
// channel deleted during the history must not come back.
func (s *sim) restartEngines(step int) error {
	type snap struct {
		fs     xfs.FS
		before map[channel.Key]ts.Channel
	}
	snaps := map[int]snap{}
	for i := 1; i <= s.sc.N; i++ {
		snaps[i] = snap{fs: s.nodes[i].Storage.TS.VerifFS(), before: s.engine(i)}
	}
	s.closeCluster()
	for i := 1; i <= s.sc.N; i++ {
		db, err := cesium.Open(s.ctx, "", cesium.WithFS(snaps[i].fs))
		if err != nil {
			return s.violation("engine-restart-failed", "step %d: reopening node %d's time-series engine on its storage after the history: %v", step, i, err)
		}
		after := s.engineOf(db)
		cerr := db.Close()
		for k, c := range after {
			b, ok := snaps[i].before[k]
			if !ok {
				what := "never held by this engine before the restart"
				if _, del := s.deleted[k]; del {
					what = "deleted during the history (" + s.deletedBy[k] + ")"
				}
				return s.violation("engine-restart-resurrects-channel", "step %d: after restarting node %d's time-series engine on the same storage it holds channel %d (name=%q dt=%s virtual=%v), which was %s", step, i, k, c.Name, c.DataType, c.Virtual, what)
			}
			if b.Name != c.Name || b.DataType != c.DataType || b.Index != c.Index || b.Virtual != c.Virtual || b.IsIndex != c.IsIndex {
				return s.violation("engine-restart-changes-channel", "step %d: node %d's engine holds channel %d as %+v after a restart, %+v before", step, i, k, c, b)
			}
		}
		for k, b := range snaps[i].before {
			if _, ok := after[k]; !ok {
				return s.violation("engine-restart-loses-channel", "step %d: node %d's engine no longer holds channel %d (name=%q) after a restart on the same storage", step, i, k, b.Name)
			}
		}
		if cerr != nil {
			s.rep.Class("restarted-engine-close-error")
		}
	}
	s.rep.Class("engines-restarted-on-same-storage")
	return nil
}

// ---------------------------------------------------------------- case

func execute(sc Script, rep *kit.Report) (err error) {
	setup()
	if sc.N < 1 || sc.N > 3 {
		rep.Discard("bad-script")
		return nil
	}
	ctx := context.Background()
	s := &sim{ctx: ctx, sc: sc, rep: rep, nodes: map[int]mock.Node{}, ever: map[channel.Key]bool{}, deleted: table{},
		deletedBy: map[channel.Key]string{}, slots: map[int]channel.Key{}, initMax: map[node.Key]uint32{}, exempt: map[string]bool{}}
	var cfgs []distribution.LayerConfig
	if sc.NoValidate {
		f := false
		cfgs = append(cfgs, distribution.LayerConfig{ValidateChannelNames: &f})
		rep.Class("validation-off")
	} else {
		rep.Class("validation-on")
	}
	rep.Class(fmt.Sprintf("nodes-%d", sc.N))
	s.cl = mock.NewCluster(cfgs...)
	defer s.closeCluster()
	provisioned := func() (ok bool) {
		defer func() {
			if p := recover(); p != nil {
				if msg, isStr := p.(string); isStr && strings.HasPrefix(msg, "gomega: ") {
					ok = false
					return
				}
				panic(p)
			}
		}()
		for i := 1; i <= sc.N; i++ {
			n := s.cl.Provision(ctx)
			s.nodes[int(n.Cluster.HostKey())] = n
		}
		return true
	}()
	if !provisioned || len(s.nodes) != sc.N {
		rep.Discard("provision-failed")
		return nil
	}
	for i := 1; i <= sc.N; i++ {
		if _, ok := s.nodes[i]; !ok {
			rep.Discard("provision-keys")
			return nil
		}
	}
	fail := func(e error) error {
		if d, ok := e.(*discard); ok {
			rep.Discard(d.reason)
			return nil
		}
		if _, ok := e.(*stop); ok {
			rep.Class("stopped-after-known-finding")
			return nil
		}
		if st, ok := e.(*staleIndex); ok {
			return kit.Fail("name-index-stale-on-leaseholder", "before the history: %s", st.msg)
		}
		return e
	}
	// initial state: the channels the services create for themselves
	init, aerr := s.authoritative()
	if aerr != nil {
		rep.Discard("retrieve-error")
		return nil
	}
	s.live = init
	for k := range init {
		s.ever[k] = true
		if l := uint32(k) & 0xFFFFF; l > s.initMax[node.Key(k>>20)] {
			s.initMax[node.Key(k>>20)] = l
		}
	}
	if e := s.quiesce(s.live); e != nil {
		return fail(e)
	}
	if e := s.crossStore(-1, true, false); e != nil {
		return fail(e)
	}
	for step, op := range sc.Ops {
		if op.Node < 1 || op.Node > sc.N {
			rep.Class("empty-op")
			continue
		}
		s.gone = s.gone[:0]
		s.opKind = op.Kind
		var e error
		switch op.Kind {
		case "create":
			if len(op.Specs) == 0 {
				rep.Class("empty-op")
				continue
			}
			e = s.create(step, op)
		case "rename":
			e = s.rename(step, op)
		case "burst":
			if len(op.Names) == 0 {
				rep.Class("empty-op")
				continue
			}
			e = s.burst(step, op)
		case "delete", "delname":
			e = s.delete(step, op)
		}
		if os.Getenv("VERIF_C15_TRACE") != "" {
			fmt.Printf("C15TRACE after step %d (%s):\n", step, op.Kind)
			for _, k := range s.live.keys() {
				fmt.Printf("C15TRACE    %v\n", s.live[k])
			}
		}
		if e != nil {
			return fail(e)
		}
	}
	// final sweep of clause (3) over everything deleted during the history
	if e := s.checkDeleted(len(sc.Ops), s.deleted.keys()); e != nil {
		return fail(e)
	}
	if e := s.restartEngines(len(sc.Ops)); e != nil {
		return fail(e)
	}
	rep.Add("requests", int64(len(sc.Ops)))
	rep.Add("deleted_channels", int64(len(s.deleted)))
	if s.mixedDel && s.remote {
		rep.Nontrivial()
	}
	return nil
}

func TestC15(t *testing.T) {
	r := &kit.Runner[Script]{Name: "TestC15", Exec: execute}
	r.Run(t, genScript)
}
