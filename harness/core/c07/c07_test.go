// C07 — a cluster is one data space: write via any node, read via any node.
package verif_c07_test

import (
	"testing"

	kit "github.com/synnaxlabs/synnax/internal/verifkit"
)

func TestC07(t *testing.T) {
	r := &kit.Runner[Script]{Name: "TestC07", Exec: execute}
	r.Run(t, genScript)
}
