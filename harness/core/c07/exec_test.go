// C07 — executor: runs a script against a fresh in-memory cluster and the M-TS model.
package verif_c07_test

import (
	"bytes"
	"context"
	"encoding/json"
	"fmt"
	"os"
	"runtime"
	"runtime/pprof"
	"sort"
	"strings"
	"sync"
	"time"

	"github.com/onsi/gomega"
	"github.com/synnaxlabs/cesium"
	"github.com/synnaxlabs/synnax/internal/verif/tsm"
	kit "github.com/synnaxlabs/synnax/internal/verifkit"
	"github.com/synnaxlabs/synnax/pkg/distribution/channel"
	"github.com/synnaxlabs/synnax/pkg/distribution/framer/frame"
	"github.com/synnaxlabs/synnax/pkg/distribution/framer/iterator"
	"github.com/synnaxlabs/synnax/pkg/distribution/framer/writer"
	"github.com/synnaxlabs/synnax/pkg/distribution/mock"
	"github.com/synnaxlabs/synnax/pkg/distribution/node"
	xcontrol "github.com/synnaxlabs/x/control"
	"github.com/synnaxlabs/x/telem"
)

var gomegaOnce sync.Once

// gomegaPanic is what the registered gomega fail handler panics with (the mock cluster
// uses gomega.Eventually / Expect internally): provisioning recovers it.
type gomegaPanic struct{ msg string }

func setupGomega() {
	gomegaOnce.Do(func() {
		gomega.RegisterFailHandler(func(msg string, _ ...int) { panic(gomegaPanic{msg}) })
		gomega.SetDefaultEventuallyTimeout(20 * time.Second)
		gomega.SetDefaultEventuallyPollingInterval(2 * time.Millisecond)
	})
}

const (
	propagationTimeout = 15 * time.Second
	caseTimeout        = 90 * time.Second
)

// env is the real system under one script.
type env struct {
	ctx     context.Context
	sc      Script
	rep     *kit.Report
	cluster *mock.Cluster
	nodes   map[int]mock.Node
	keys    map[uint32]channel.Key // script id -> cluster key
	st      *State
	writers map[int]*writer.Writer
	auths   map[int][]int
	// non-triviality bookkeeping
	spanCommitted map[uint32]int // channel -> gateway of a committed multi-leaseholder writer with gateway != some leaseholder
	nontrivial    bool
}

func short(v [][]byte) string {
	s := fmt.Sprintf("%d samples[", len(v))
	for i, x := range v {
		if i >= 10 {
			s += " ..."
			break
		}
		s += fmt.Sprintf(" %x", x)
	}
	return s + " ]"
}

func sameSamples(a, b [][]byte) bool {
	if len(a) != len(b) {
		return false
	}
	for i := range a {
		if !bytes.Equal(a[i], b[i]) {
			return false
		}
	}
	return true
}

func errText(err error) string {
	s := err.Error()
	s = strings.ReplaceAll(s, "\n", " ")
	if len(s) > 70 {
		s = s[:70]
	}
	return s
}

// provision builds the cluster node by node; a gomega timeout inside the mock is
// inconclusive (discard), never a violation.
func (e *env) provision() (ok bool) {
	setupGomega()
	e.cluster = mock.NewCluster()
	e.nodes = map[int]mock.Node{}
	defer func() {
		if p := recover(); p != nil {
			if gp, is := p.(gomegaPanic); is {
				e.rep.Discard("provision-timeout")
				e.rep.Add("discard:provision:"+errText(fmt.Errorf("%s", gp.msg)), 1)
				ok = false
				return
			}
			panic(p)
		}
	}()
	for i := 1; i <= e.sc.N; i++ {
		n := e.cluster.Provision(e.ctx)
		if int(n.Cluster.HostKey()) != i {
			e.rep.Discard("unexpected-node-key")
			return false
		}
		e.nodes[i] = n
	}
	return true
}

// waitVisible polls every node until it resolves all the given keys.
func (e *env) waitVisible(keys channel.Keys) bool {
	deadline := time.Now().Add(propagationTimeout)
	for i := 1; i <= e.sc.N; i++ {
		for {
			var chs []channel.Channel
			err := e.nodes[i].Channel.NewRetrieve().Entries(&chs).Where(channel.MatchKeys(keys...)).Exec(e.ctx, nil)
			if err == nil && len(chs) == len(keys) {
				break
			}
			if time.Now().After(deadline) {
				return false
			}
			time.Sleep(time.Millisecond)
		}
	}
	return true
}

func chName(id uint32) string { return fmt.Sprintf("verif_ch_%d", id) }

// createChannels issues two CreateMany calls (index + free channels, then data channels)
// through the generated nodes and waits for the metadata to reach every node.
func (e *env) createChannels() error {
	e.keys = map[uint32]channel.Key{}
	localKey := map[uint32]channel.LocalKey{}
	for pass := 0; pass < 2; pass++ {
		var chs []channel.Channel
		for _, c := range e.sc.Channels {
			first := c.IsIndex || c.Lease == 0
			if first != (pass == 0) {
				continue
			}
			ch := channel.Channel{Name: chName(c.ID), DataType: telem.DataType(c.DT), IsIndex: c.IsIndex}
			if c.Lease == 0 {
				ch.Leaseholder = node.KeyFree
				ch.Virtual = true
			} else {
				ch.Leaseholder = node.Key(c.Lease)
				if !c.IsIndex {
					ch.LocalIndex = localKey[c.Index]
				}
			}
			chs = append(chs, ch)
		}
		if len(chs) == 0 {
			continue
		}
		want := len(chs)
		if err := e.nodes[e.sc.CreateVia[pass]].Channel.NewWriter(nil).CreateMany(e.ctx, &chs); err != nil {
			e.rep.Discard("create-error")
			e.rep.Add("discard:create:"+errText(err), 1)
			return nil
		}
		if len(chs) != want {
			return kit.Fail("create-count", "CreateMany returned %d channels for %d requested", len(chs), want)
		}
		var keys channel.Keys
		for _, ch := range chs {
			var id uint32
			if _, err := fmt.Sscanf(ch.Name, "verif_ch_%d", &id); err != nil {
				return kit.Fail("create-name", "CreateMany returned a channel named %q", ch.Name)
			}
			spec := e.st.Chans[id]
			wantLease := node.Key(spec.Lease)
			if spec.Lease == 0 {
				wantLease = node.KeyFree
			}
			if ch.Key().Leaseholder() != wantLease {
				return kit.Fail("key-lease-mismatch", "channel %d requested on leaseholder %d got key %d (leaseholder %d)", id, wantLease, ch.Key(), ch.Key().Leaseholder())
			}
			e.keys[id] = ch.Key()
			localKey[id] = ch.LocalKey
			keys = append(keys, ch.Key())
		}
		if !e.waitVisible(keys) {
			e.rep.Discard("propagation-timeout")
			return nil
		}
	}
	if len(e.keys) != len(e.sc.Channels) {
		return kit.Fail("create-count", "created %d channels, script has %d", len(e.keys), len(e.sc.Channels))
	}
	seen := map[channel.Key]uint32{}
	for id, k := range e.keys {
		if o, dup := seen[k]; dup {
			return kit.Fail("duplicate-key", "channels %d and %d both got key %d", o, id, k)
		}
		seen[k] = id
	}
	return nil
}

func (e *env) clusterKeys(ids []uint32) channel.Keys {
	out := make(channel.Keys, len(ids))
	for i, id := range ids {
		out[i] = e.keys[id]
	}
	return out
}

func (e *env) buildFrame(w *WState, op Op) frame.Frame {
	keys := make([]channel.Key, 0, len(w.Channels))
	series := make([]telem.Series, 0, len(w.Channels))
	var masked []channel.Key
	defer func() { _ = masked }()
	for _, id := range w.Channels {
		c := e.st.Chans[id]
		if unit := id; op.skips(unit) || (c.Lease != 0 && op.skips(e.st.group(id))) {
			if !op.Masked {
				continue
			}
			masked = append(masked, e.keys[id])
		}
		sp := spec(c)
		smp := make([][]byte, len(op.TS))
		for i, t := range op.TS {
			if c.IsIndex {
				smp[i] = tsm.TSBytes(t)
			} else {
				smp[i] = tsm.Payload(sp, t, op.Seed)
			}
		}
		keys = append(keys, e.keys[id])
		series = append(series, telem.Series{DataType: telem.DataType(c.DT), Data: tsm.Encode(c.DT, smp)})
	}
	fr := frame.NewMulti(keys, series)
	if len(masked) > 0 {
		e.rep.Class("masked-frame")
		fr = fr.ExcludeKeys(masked)
	}
	return fr
}

// readResult is what one iterator pass returned.
type readResult struct {
	seek    bool
	acks    []bool              // result of each Next call
	lenient map[uint32][][]byte // every data frame received, whatever the acknowledgements said
	strict  map[uint32][][]byte // what the documented loop `if SeekFirst { for Next(max) { Value } }` yields
}

// readVia opens an iterator for the script channels on the given gateway over [a,b) and
// runs one pass. Frames are collected twice: the way a caller following the documented
// loop sees them (gated by the acknowledgements) and ungated.
func (e *env) readVia(via int, ids []uint32, a, b int64) (*readResult, error) {
	keys := e.clusterKeys(ids)
	byKey := map[channel.Key]uint32{}
	for _, id := range ids {
		byKey[e.keys[id]] = id
	}
	it, err := e.nodes[via].Framer.OpenIterator(e.ctx, iterator.Config{Keys: keys,
		Bounds: telem.TimeRange{Start: telem.TimeStamp(a), End: telem.TimeStamp(b)}})
	if err != nil {
		return nil, fmt.Errorf("OpenIterator: %w", err)
	}
	res := &readResult{lenient: map[uint32][][]byte{}, strict: map[uint32][][]byte{}}
	collect := func(dst map[uint32][][]byte, fr frame.Frame) error {
		for k, s := range fr.Entries() {
			id, ok := byKey[k]
			if !ok {
				return fmt.Errorf("iterator returned a series for key %d which was not requested", k)
			}
			smp, ok := tsm.Decode(e.st.Chans[id].DT, s.Data)
			if !ok {
				return fmt.Errorf("series of channel %d has a malformed layout (%d bytes)", id, len(s.Data))
			}
			dst[id] = append(dst[id], smp...)
		}
		return nil
	}
	res.seek = it.SeekFirst()
	gate := res.seek
	var cerr error
	for guard := 0; guard < 8; guard++ {
		ok := it.Next(telem.TimeSpanMax)
		res.acks = append(res.acks, ok)
		fr := it.Value()
		if cerr = collect(res.lenient, fr); cerr != nil {
			break
		}
		gate = gate && ok
		if gate {
			_ = collect(res.strict, fr)
		}
		if !ok {
			break
		}
	}
	ierr := it.Error()
	if clerr := it.Close(); clerr != nil && cerr == nil {
		cerr = fmt.Errorf("iterator close: %w", clerr)
	}
	if cerr == nil && ierr != nil {
		cerr = fmt.Errorf("iterator error: %w", ierr)
	}
	return res, cerr
}

// checkRead compares one iterator pass through a gateway with the model. kind names the
// signature used for a data mismatch.
func (e *env) checkRead(via int, ids []uint32, a, b int64, where, kind string) error {
	res, err := e.readVia(via, ids, a, b)
	if err != nil {
		return kit.Fail("read-error-via-gateway", "%s: iterator on node %d over channels %v [%d,%d): %v", where, via, e.describe(ids), a, b, err)
	}
	any := false
	for _, id := range ids {
		_, want := e.st.M.Chans[id].Read(a, b)
		if len(want) > 0 {
			any = true
		}
		if got := res.lenient[id]; !sameSamples(got, want) {
			ts, _ := e.st.M.Chans[id].Read(a, b)
			if len(ts) > 10 {
				ts = ts[:10]
			}
			return kit.Fail(kind, "%s: iterator on node %d over %v [%d,%d): channel %d (%s, leaseholder %d) returned %s, single-node model expects %s (timestamps %v)",
				where, via, e.describe(ids), a, b, id, e.st.Chans[id].DT, e.st.Chans[id].Lease, short(got), short(want), ts)
		}
	}
	// acknowledgements: a single-node store answers SeekFirst with true iff some channel
	// holds data inside the bounds, and the documented loop then yields every sample.
	for _, id := range ids {
		_, want := e.st.M.Chans[id].Read(a, b)
		if !sameSamples(res.strict[id], want) {
			const sig = "iterator-ack-loses-samples"
			if e.rep.Known(sig) {
				// listed finding: the data itself was right; keep checking the rest of the case
				e.rep.Class("known:" + sig)
				break
			}
			return kit.Fail(sig, "%s: iterator on node %d over %v [%d,%d): all samples were transmitted, but SeekFirst returned %v and Next returned %v, so the documented loop `if SeekFirst { for Next(max) { Value } }` yields %s for channel %d where a single-node store yields %s",
				where, via, e.describe(ids), a, b, res.seek, res.acks, short(res.strict[id]), id, short(want))
		}
	}
	if res.seek && !any {
		e.rep.Class("seek-true-without-samples-in-bounds")
	}
	lh := e.st.Leaseholders(ids)
	switch {
	case len(lh) >= 2:
		e.rep.Class("read-spans-leaseholders")
	case lh[0] == via:
		e.rep.Class("read-gateway==leaseholder")
	default:
		e.rep.Class("read-remote-only")
	}
	return nil
}

func (e *env) describe(ids []uint32) string {
	var parts []string
	for _, id := range ids {
		parts = append(parts, fmt.Sprintf("%d@n%d", id, e.st.Chans[id].Lease))
	}
	return "[" + strings.Join(parts, " ") + "]"
}

// readEngine reads one channel straight from a node's cesium engine.
func readEngine(db *cesium.DB, key channel.Key, dt string) ([][]byte, error) {
	it, err := db.OpenIterator(cesium.IteratorConfig{Channels: []cesium.ChannelKey{cesium.ChannelKey(key)}, Bounds: telem.TimeRangeMax})
	if err != nil {
		return nil, err
	}
	var fr cesium.Frame
	if it.SeekFirst() {
		for it.Next(telem.TimeSpanMax) {
			fr = fr.Extend(it.Value())
		}
	}
	if ierr := it.Error(); ierr != nil {
		_ = it.Close()
		return nil, ierr
	}
	if err := it.Close(); err != nil {
		return nil, err
	}
	var out [][]byte
	for _, s := range fr.Entries() {
		smp, ok := tsm.Decode(dt, s.Data)
		if !ok {
			return nil, fmt.Errorf("malformed series (%d bytes)", len(s.Data))
		}
		out = append(out, smp...)
	}
	return out, nil
}

// checkPlacement verifies the "stored by the leaseholder" clause on the engines.
func (e *env) checkPlacement(where string) error {
	for _, c := range e.sc.Channels {
		key := e.keys[c.ID]
		for i := 1; i <= e.sc.N; i++ {
			db := e.nodes[i].Storage.TS
			if c.Lease == i {
				_, want := e.st.M.Chans[c.ID].Read(0, tsInf)
				got, err := readEngine(db, key, c.DT)
				if err != nil {
					return kit.Fail("missing-on-leaseholder", "%s: channel %d (key %d) cannot be read from the engine of its leaseholder node %d: %v", where, c.ID, key, i, err)
				}
				if !sameSamples(got, want) {
					return kit.Fail("missing-on-leaseholder", "%s: engine of leaseholder node %d holds %s for channel %d (key %d), model expects %s", where, i, short(got), c.ID, key, short(want))
				}
				continue
			}
			if _, err := db.RetrieveChannel(e.ctx, cesium.ChannelKey(key)); err != nil {
				continue // absent, as it should be
			}
			e.rep.Class("channel-defined-on-non-leaseholder")
			if c.Lease == 0 {
				continue // virtual channels hold no samples
			}
			got, err := readEngine(db, key, c.DT)
			if err == nil && len(got) > 0 {
				return kit.Fail("stored-on-wrong-node", "%s: engine of node %d holds %s for channel %d (key %d) leased to node %d", where, i, short(got), c.ID, key, c.Lease)
			}
		}
	}
	return nil
}

// barrier waits until asynchronous auto-committing writers have processed their queue
// (a Commit is always acknowledged and is a no-op for them).
func (e *env) barrier() (discard bool) {
	for _, id := range sortedIDs(e.st.Writers) {
		ws := e.st.Writers[id]
		if !ws.AutoCommit || ws.Sync || ws.Overrun {
			continue
		}
		if _, err := e.writers[id].Commit(); err != nil {
			e.rep.Discard("async-write-error")
			e.rep.Add("discard:async:"+errText(err), 1)
			return true
		}
	}
	return false
}

func (e *env) classifyWriter(ws *WState) (spans bool) {
	lh := e.st.Leaseholders(ws.Leased)
	local, remote := false, false
	for _, l := range lh {
		if l == ws.Via {
			local = true
		} else {
			remote = true
		}
	}
	switch {
	case local && remote:
		e.rep.Class("writer-mixed")
	case local:
		e.rep.Class("writer-all-local")
	default:
		e.rep.Class("writer-all-remote")
	}
	if len(ws.Leased) != len(ws.Channels) {
		e.rep.Class("writer-with-free-channel")
	}
	if len(lh) >= 2 {
		e.rep.Class(fmt.Sprintf("writer-spans-%d-leaseholders", len(lh)))
	}
	if ws.DataOnly {
		e.rep.Class("writer-data-only")
	}
	return len(lh) >= 2 && remote
}

// noteRead marks the case non-trivial when a read through a node other than the writer's
// gateway covers a channel committed by a leaseholder-spanning writer.
func (e *env) noteRead(via int, ids []uint32) {
	for _, id := range ids {
		if gw, ok := e.spanCommitted[id]; ok && gw != via {
			e.nontrivial = true
		}
	}
}

func (e *env) run() error {
	sc := e.sc
	for i, op := range sc.Ops {
		where := fmt.Sprintf("op %d (%s)", i, op.Kind)
		switch op.Kind {
		case "open":
			cfg := writer.Config{Keys: e.clusterKeys(op.Channels), Start: telem.TimeStamp(op.Start),
				EnableAutoCommit: &op.AutoCommit, Sync: &op.Sync}
			for _, a := range op.Auth {
				cfg.Authorities = append(cfg.Authorities, xcontrol.Authority(a))
			}
			if len(op.Auth) > 1 {
				e.rep.Class("writer-with-per-channel-authorities")
			}
			w, err := e.nodes[op.Via].Framer.OpenWriter(e.ctx, cfg)
			if err != nil {
				e.rep.Discard("open-writer-error")
				e.rep.Add("discard:open:"+errText(err), 1)
				return nil
			}
			e.writers[op.W] = w
			e.auths[op.W] = op.Auth
			ws := e.st.ApplyOpen(op)
			e.classifyWriter(ws)
		case "write":
			ws, ok := e.st.Writers[op.W]
			if !ok {
				return kit.Fail("script-bug", "write on unknown writer %d", op.W)
			}
			if ws.DataOnly {
				if ws.Wrote+len(op.TS) > len(ws.Avail) || !sameTS(ws.Avail[ws.Wrote:ws.Wrote+len(op.TS)], op.TS) {
					e.rep.Discard("model-divergence")
					return nil
				}
			}
			auth, err := e.writers[op.W].Write(e.buildFrame(ws, op))
			if err == nil && !auth && ws.Sync {
				// the only other writers a script opens on these channels are intruders with a
				// strictly lower authority, so this writer holds control of all its channels
				return kit.Fail("write-unauthorized-without-higher-authority", "%s: Write of writer %d (gateway node %d, channels %v, authorities %v) reported unauthorized although no writer with an equal or higher authority was ever opened on its channels", where, op.W, ws.Via, e.describe(ws.Channels), e.auths[op.W])
			}
			if err != nil || !auth {
				e.rep.Discard("write-error")
				e.rep.Add("discard:write:"+errText(fmt.Errorf("%v auth=%v", err, auth)), 1)
				return nil
			}
			if len(op.Skip) > 0 {
				e.rep.Class("partial-frame")
				all := e.st.Leaseholders(ws.Channels)
				var kept []uint32
				for _, id := range ws.Channels {
					c := e.st.Chans[id]
					if op.skips(id) || (c.Lease != 0 && op.skips(e.st.group(id))) {
						continue
					}
					kept = append(kept, id)
				}
				if len(e.st.Leaseholders(kept)) < len(all) {
					e.rep.Class("partial-frame-leaves-out-a-leaseholder")
				}
			}
			e.st.ApplyWrite(op)
			if ws.AutoCommit && e.classifyWriter(ws) {
				for _, id := range ws.Leased {
					e.spanCommitted[id] = ws.Via
				}
			}
		case "commit":
			ws := e.st.Writers[op.W]
			if ws.Overrun {
				return e.refusedCommit(op, ws, where)
			}
			hadPending := len(ws.PendTS) > 0
			if _, err := e.writers[op.W].Commit(); err != nil {
				if os.Getenv("VERIF_C07_DEBUG") != "" {
					fmt.Printf("C07DEBUG %s: Commit returned %v\n", where, err)
				}
				e.rep.Discard("commit-error")
				e.rep.Add("discard:commit:"+errText(err), 1)
				return nil
			}
			e.st.ApplyCommit(op.W)
			if ws.Wrote > 0 {
				spans := e.classifyWriter(ws)
				if spans {
					for _, id := range ws.Leased {
						e.spanCommitted[id] = ws.Via
					}
				}
			}
			// a read issued after the acknowledged commit, through any node, sees the
			// committed samples of every leaseholder involved
			if e.barrier() {
				return nil
			}
			kind := "read-mismatch-via-gateway"
			if hadPending {
				kind = "commit-acked-but-not-visible"
			}
			for _, id := range ws.Leased {
				if err := e.checkRead(op.Via, []uint32{id}, 0, tsInf, where+" post-commit", kind); err != nil {
					return err
				}
			}
			if len(ws.Leased) > 1 {
				if err := e.checkRead(op.Via, ws.Leased, 0, tsInf, where+" post-commit", kind); err != nil {
					return err
				}
			}
			e.noteRead(op.Via, ws.Leased)
			e.rep.Class("post-commit-read")
		case "intrude":
			ws := e.st.Writers[op.W]
			// OpenWriter returns once the open request has been sent to the remote leaseholders,
			// not once they hold control; a writer opened right afterwards can reach a
			// leaseholder first, be in control there for a moment, and leave its samples in the
			// domain the first writer then commits. Which writer a leaseholder sees first is
			// not part of C07, so the intruder is only opened after a synchronous round trip of
			// the first writer (an acknowledged write, or a commit of nothing) has shown that
			// every leaseholder has opened it.
			if len(ws.PendTS) == 0 {
				if _, err := e.writers[op.W].Commit(); err != nil {
					e.rep.Discard("commit-error")
					e.rep.Add("discard:barrier-commit:"+errText(err), 1)
					return nil
				}
			} else if !ws.Sync {
				e.rep.Class("intruder-not-opened:first-writer-not-acknowledged-yet")
				break
			}
			sync := true
			b, err := e.nodes[op.Via].Framer.OpenWriter(e.ctx, writer.Config{Keys: e.clusterKeys(op.Channels), Start: telem.TimeStamp(ws.Start),
				Authorities: []xcontrol.Authority{xcontrol.Authority(op.Auth[0])}, Sync: &sync})
			if err != nil {
				e.rep.Class("intruder-open-refused")
				e.rep.Add("intruder-open:"+errText(err), 1)
				break
			}
			auth, werr := b.Write(e.buildFrame(&WState{Channels: op.Channels}, Op{TS: op.TS, Seed: op.Seed}))
			_, cmErr := b.Commit()
			clErr := b.Close()
			if os.Getenv("VERIF_C07_DEBUG") != "" {
				fmt.Printf("C07DEBUG %s intruder: auth=%v werr=%v commit=%v close=%v\n", where, auth, werr, cmErr, clErr)
			}
			hasLeased := false
			for _, id := range op.Channels {
				hasLeased = hasLeased || e.st.Chans[id].Lease != 0
			}
			if !hasLeased {
				// free virtual channels are not stored and every write to them is acknowledged
				e.rep.Class("intruder-on-free-channels-only")
			} else if werr == nil && auth {
				return kit.Fail("lower-authority-writer-authorized", "%s: a second writer opened through node %d on %v with authority %d reports its write as authorized although writer %d (gateway node %d, authorities %v on %v) is open with a higher authority on every one of these channels (commit: %v, close: %v)",
					where, op.Via, e.describe(op.Channels), op.Auth[0], op.W, ws.Via, e.auths[op.W], e.describe(ws.Channels), cmErr, clErr)
			}
			e.rep.Class("intruder-with-lower-authority")
			if len(e.auths[op.W]) > 1 {
				e.rep.Class("intruder-against-per-channel-authorities")
			}
		case "close":
			ws := e.st.Writers[op.W]
			if len(ws.PendTS) > 0 {
				e.rep.Class("close-with-uncommitted-tail")
			}
			if ws.AutoCommit && ws.Wrote > 0 {
				if e.classifyWriter(ws) {
					for _, id := range ws.Leased {
						e.spanCommitted[id] = ws.Via
					}
				}
			}
			err := e.writers[op.W].Close()
			delete(e.writers, op.W)
			if err != nil {
				e.rep.Discard("close-error")
				e.rep.Add("discard:close:"+errText(err), 1)
				return nil
			}
			e.st.ApplyClose(op.W)
		case "read":
			if e.barrier() {
				return nil
			}
			if err := e.checkRead(op.Via, op.Channels, op.A, op.B, where, "read-mismatch-via-gateway"); err != nil {
				return err
			}
			if seen := map[uint32]bool{}; true {
				for _, id := range op.Channels {
					if seen[id] {
						e.rep.Class("iterator-key-named-twice")
					}
					seen[id] = true
				}
			}
			e.noteRead(op.Via, op.Channels)
		case "unknown":
			if err := e.openUnknown(op, where); err != nil {
				return err
			}
		default:
			return kit.Fail("script-bug", "unknown op %q", op.Kind)
		}
	}
	return e.finalSweep()
}

func sameTS(a, b []int64) bool {
	if len(a) != len(b) {
		return false
	}
	for i := range a {
		if a[i] != b[i] {
			return false
		}
	}
	return true
}

// refusedCommit handles the commit after an overrun write: every leaseholder holding a
// channel whose committed domain was run into must refuse, so the commit as a whole must
// not be acknowledged. If it is acknowledged, the written samples must be readable on every
// leaseholder involved.
func (e *env) refusedCommit(op Op, ws *WState, where string) error {
	refuse, accept := e.st.RefusingLeaseholders(ws)
	if len(accept) > 0 {
		e.rep.Class("overrun-commit-partial")
	} else {
		e.rep.Class("overrun-commit-total")
	}
	_, err := e.writers[op.W].Commit()
	cerr := e.writers[op.W].Close()
	delete(e.writers, op.W)
	if err != nil {
		e.rep.Class("overrun-commit-refused")
		e.st.ApplyClose(op.W)
		return e.sweepExcept(ws.Leased)
	}
	// acknowledged: are the samples there? Per channel, the pending samples that lie before
	// the domain the write ran into are unambiguous: a commit puts them into [first, limit).
	for _, id := range ws.Leased {
		c := e.st.Chans[id]
		limit := min(ws.ChanBound[id], ws.Last+1)
		var want [][]byte
		for i, t := range ws.PendTSk[id] {
			if t < limit {
				want = append(want, ws.PendVals[id][i])
			}
		}
		if len(want) == 0 {
			continue
		}
		res, rerr := e.readVia(op.Via, []uint32{id}, ws.PendTSk[id][0], limit)
		if rerr != nil {
			return kit.Fail("read-error-via-gateway", "%s: read of channel %d after acknowledged commit: %v", where, id, rerr)
		}
		if !sameSamples(res.lenient[id], want) {
			return kit.Fail("commit-acked-but-not-visible",
				"%s: Commit of writer %d (gateway node %d, channels %v, start %d, uncommitted timestamps %v) returned success (Close returned %v) although leaseholder(s) %v must refuse it (the write runs into a domain committed earlier; participant(s) %v can commit, 0 = the free-channel writer); a read through node %d over [%d,%d) of channel %d (leaseholder %d) returns %s instead of the %s just committed",
				where, op.W, ws.Via, e.describe(ws.Channels), ws.Start, ws.PendTS, cerr, refuse, accept, op.Via, ws.PendTS[0], limit, id, c.Lease, short(res.lenient[id]), short(want))
		}
	}
	e.rep.Class("overrun-commit-accepted-and-visible")
	e.st.ApplyClose(op.W)
	return nil
}

// openUnknown opens a writer or an iterator on keys of which at least one was never created.
func (e *env) openUnknown(op Op, where string) error {
	var unk channel.Keys
	for _, u := range op.Unknown {
		l := node.Key(u.Lease)
		if u.Lease == 0 {
			l = node.KeyFree
		}
		unk = append(unk, channel.NewKey(l, channel.LocalKey(u.Local)))
	}
	existing := e.clusterKeys(op.Channels)
	pos := min(op.Pos, len(unk))
	keys := append(channel.Keys{}, unk[:pos]...)
	keys = append(keys, existing...)
	keys = append(keys, unk[pos:]...)
	if len(existing) > 0 {
		e.rep.Class("unknown-mixed-with-existing")
	}
	switch op.Target {
	case "writer":
		sync := true
		w, err := e.nodes[op.Via].Framer.OpenWriter(e.ctx, writer.Config{Keys: keys, Start: telem.TimeStamp(op.Start), Sync: &sync})
		if err == nil {
			_ = w.Close()
			return kit.Fail("unknown-key-accepted", "%s: OpenWriter on node %d with keys %v succeeded although %v were never created", where, op.Via, keys, unk)
		}
		e.rep.Class("unknown-key-writer")
	default:
		it, err := e.nodes[op.Via].Framer.OpenIterator(e.ctx, iterator.Config{Keys: keys, Bounds: telem.TimeRangeMax})
		if err == nil {
			_ = it.Close()
			return kit.Fail("unknown-key-accepted", "%s: OpenIterator on node %d with keys %v succeeded although %v were never created", where, op.Via, keys, unk)
		}
		e.rep.Class("unknown-key-iterator")
	}
	return nil
}

// finalSweep reads everything through every node and inspects the engines.
func (e *env) finalSweep() error { return e.sweepExcept(nil) }

func (e *env) sweepExcept(skip []uint32) error {
	if e.barrier() {
		return nil
	}
	skipped := map[uint32]bool{}
	for _, id := range skip {
		skipped[id] = true
	}
	var ids []uint32
	for _, id := range e.st.M.Order {
		if !skipped[id] {
			ids = append(ids, id)
		}
	}
	if len(ids) == 0 {
		return nil
	}
	for via := 1; via <= e.sc.N; via++ {
		for _, id := range ids {
			if err := e.checkRead(via, []uint32{id}, 0, tsInf, "at end", "read-mismatch-via-gateway"); err != nil {
				return err
			}
			// one range with both bounds inside the data
			ks := e.st.M.Chans[id].Keys()
			if n := len(ks); n >= 3 {
				if err := e.checkRead(via, []uint32{id}, ks[n/3], ks[2*n/3]+1, "at end", "read-mismatch-via-gateway"); err != nil {
					return err
				}
			}
		}
		if len(ids) > 1 {
			if err := e.checkRead(via, ids, 0, tsInf, "at end", "read-mismatch-via-gateway"); err != nil {
				return err
			}
		}
	}
	if len(skip) > 0 {
		return nil // the engines of a refused multi-leaseholder commit are unspecified
	}
	return e.checkPlacement("at end")
}

func (e *env) close() {
	for _, id := range sortedWriterIDs(e.writers) {
		_ = e.writers[id].Close()
	}
	if e.cluster != nil {
		// Two phases, as in the C15 harness: every distribution layer first, then - once the
		// goroutine count has settled - the storage layers. aspen's cluster store persists its
		// state from untracked goroutines (x/kv.Subscriber.Flush: `go FlushSync`); one that is
		// scheduled after its storage layer was closed panics the whole process with
		// "pebble: closed". That shutdown race is outside this property.
		keys := make([]int, 0, len(e.cluster.Nodes))
		for k := range e.cluster.Nodes {
			keys = append(keys, int(k))
		}
		sort.Ints(keys)
		for _, k := range keys {
			if err := e.cluster.Nodes[node.Key(k)].Layer.Close(); err != nil {
				e.rep.Class("cluster-close-error")
				e.rep.Add("close-error:"+errText(err), 1)
			}
		}
		prev, stable := runtime.NumGoroutine(), 0
		for t := 0; t < 200 && stable < 3; t++ {
			time.Sleep(time.Millisecond)
			if cur := runtime.NumGoroutine(); cur == prev {
				stable++
			} else {
				prev, stable = cur, 0
			}
		}
		for _, k := range keys {
			if err := e.cluster.Nodes[node.Key(k)].Storage.Close(); err != nil {
				e.rep.Class("cluster-close-error")
				e.rep.Add("close-error:"+errText(err), 1)
			}
		}
	}
}

func sortedWriterIDs(m map[int]*writer.Writer) []int {
	ids := make([]int, 0, len(m))
	for id := range m {
		ids = append(ids, id)
	}
	sort.Ints(ids)
	return ids
}

var caseCounter int

// execute runs one case. A case that does not finish within caseTimeout (expected: tens of
// milliseconds) is run a second time on a fresh cluster; only when the second run does not
// finish either is it reported, as a stall of the operation the goroutine dump shows (declared
// exception to "a time budget is never a violation", as for C09/C20: a write, commit or close
// that never returns stores nothing, which is not what a single-node store does).
func execute(sc Script, rep *kit.Report) error {
	err, timedOut := executeOnce(sc, rep)
	if !timedOut {
		return err
	}
	rep2 := &kit.Report{}
	if _, again := executeOnce(sc, rep2); !again {
		rep.Discard("case-timeout-not-reproduced")
		return nil
	}
	var sb strings.Builder
	_ = pprof.Lookup("goroutine").WriteTo(&sb, 1)
	dump := sb.String()
	where := "unknown"
	for _, fn := range []string{"writer.(*Writer).Write", "writer.(*Writer).Commit", "writer.(*Writer).Close", "writer.(*Writer).SetAuthority", "iterator.(*Iterator)", "framer.(*Service).OpenWriter", "framer.(*Service).OpenIterator"} {
		if strings.Contains(dump, "framer/"+fn) {
			where = fn
			break
		}
	}
	if len(dump) > 12000 {
		dump = dump[:12000]
	}
	return kit.Fail("stall:"+where, "the case did not finish within %s twice in a row on fresh clusters (expected: well under a second); blocked in %s; goroutines:\n%s", caseTimeout, where, dump)
}

func executeOnce(sc Script, rep *kit.Report) (error, bool) {
	caseCounter++
	if os.Getenv("VERIF_C07_LEAKS") != "" && caseCounter%250 == 0 {
		runtime.GC()
		var ms runtime.MemStats
		runtime.ReadMemStats(&ms)
		fmt.Printf("LEAKCHECK case=%d goroutines=%d heap=%dMiB\n", caseCounter, runtime.NumGoroutine(), ms.HeapAlloc>>20)
	}
	if sc.N < 1 || sc.N > 3 {
		return kit.Fail("script-bug", "n=%d", sc.N), false
	}
	type outcome struct {
		err error
		pan any
	}
	done := make(chan outcome, 1)
	e := &env{ctx: context.Background(), sc: sc, rep: rep, st: NewState(sc.Channels),
		writers: map[int]*writer.Writer{}, auths: map[int][]int{}, spanCommitted: map[uint32]int{}}
	go func() {
		var out outcome
		defer func() {
			if p := recover(); p != nil {
				out.pan = p
			}
			func() {
				defer func() {
					if p := recover(); p != nil && out.pan == nil && out.err == nil {
						rep.Class("cluster-close-panic")
					}
				}()
				e.close()
			}()
			done <- out
		}()
		if !e.provision() {
			return
		}
		if out.err = e.createChannels(); out.err != nil || rep.Has("__discarded") {
			return
		}
		out.err = e.run()
	}()
	var out outcome
	select {
	case out = <-done:
	case <-time.After(caseTimeout):
		// inconclusive: something blocked (the goroutine and its cluster are abandoned)
		if os.Getenv("VERIF_C07_HANGS") != "" {
			b, _ := json.Marshal(sc)
			fmt.Printf("HANG-SCRIPT %s\n", b)
			var sb strings.Builder
			_ = pprof.Lookup("goroutine").WriteTo(&sb, 1)
			for _, blk := range strings.Split(sb.String(), "\n\n") {
				if strings.Contains(blk, "c07_test.(*env).run") {
					fmt.Printf("HANG-STACK %s\n", blk)
				}
			}
		}
		return nil, true
	}
	if out.pan != nil {
		panic(out.pan)
	}
	if out.err != nil {
		return out.err, false
	}
	rep.Class(fmt.Sprintf("n=%d", sc.N))
	if e.nontrivial {
		rep.Nontrivial()
	}
	if os.Getenv("VERIF_DEBUG_DISCARD") != "" && rep.Has("__discarded") {
		fmt.Printf("DISCARDED: %+v\n", sc)
	}
	return nil, false
}
