// C07 — script vocabulary, model-side bookkeeping and generator.
//
// A script is plain data: cluster size, channel placement, and a list of operations
// (open/write/commit/close of distributed writers through generated gateway nodes, reads
// through generated gateway nodes, opens on keys that do not exist). Channels are named by
// small script ids; the real channel keys (which embed the leaseholder) are assigned by
// the cluster at run time.
package verif_c07_test

import (
	"sort"

	"github.com/synnaxlabs/synnax/internal/verif/tsm"
	"pgregory.net/rapid"
)

// Chan is one channel of a script.
type Chan struct {
	ID      uint32 `json:"id"`
	Index   uint32 `json:"index,omitempty"` // script id of the index channel (0 for index and free channels)
	IsIndex bool   `json:"is_index,omitempty"`
	DT      string `json:"dt"`
	Lease   int    `json:"lease"` // 1..N = leaseholder node; 0 = free virtual channel
}

// Unknown describes a channel key that was never created.
type Unknown struct {
	Lease int    `json:"lease"` // 1..N existing node, N+1.. non-existent node, 0 = free
	Local uint32 `json:"local"`
}

// Op is one script step; all arguments are explicit so a script replays without rapid.
type Op struct {
	Kind string `json:"kind"` // open write commit close read unknown intrude
	W    int    `json:"w,omitempty"`
	// Via is the gateway node (1..N) through which a writer/iterator is opened; for commit
	// it is the node through which the post-commit visibility read is issued.
	Via int `json:"via,omitempty"`
	// open / read / unknown: script channel ids
	Channels   []uint32 `json:"channels,omitempty"`
	Start      int64    `json:"start,omitempty"`
	AutoCommit bool     `json:"auto_commit,omitempty"`
	Sync       bool     `json:"sync,omitempty"`
	DataOnly   bool     `json:"data_only,omitempty"`
	// write
	TS   []int64 `json:"ts,omitempty"`
	Seed uint64  `json:"seed,omitempty"`
	// Overrun marks a write whose timestamps run into an already committed domain of at
	// least one channel of the writer: the following commit must be refused.
	Overrun bool `json:"overrun,omitempty"`
	// Skip lists index groups (index channel id) and free channels (own id) of the writer
	// that this frame leaves out: a writer may send frames that carry only some of its
	// channels, and so only reach some of its leaseholders.
	Skip []uint32 `json:"skip,omitempty"`
	// Masked: the left-out groups are physically in the frame and excluded with
	// Frame.ExcludeKeys (a frame filtered by its producer) instead of not being in it.
	Masked bool `json:"masked,omitempty"`
	// read
	A int64 `json:"a,omitempty"`
	B int64 `json:"b,omitempty"`
	// open: control authorities (empty = the default, absolute; one = shared by all channels;
	// otherwise one per channel, in the order of Channels). intrude: the single authority of a
	// second writer opened on Channels (a subset of writer W's channels) while W is open; it
	// is lower than every authority of W, so W keeps control and nothing the intruder writes
	// may be stored.
	Auth []int `json:"auth,omitempty"`
	// unknown
	Target  string    `json:"target,omitempty"` // writer | iterator
	Unknown []Unknown `json:"unknown,omitempty"`
	// Pos is the position at which the existing channels are spliced into the unknown keys.
	Pos int `json:"pos,omitempty"`
}

func (o Op) skips(g uint32) bool {
	for _, x := range o.Skip {
		if x == g {
			return true
		}
	}
	return false
}

// Script is a complete case.
type Script struct {
	N         int    `json:"n"`
	CreateVia [2]int `json:"create_via"` // nodes through which the two CreateMany calls are issued
	Channels  []Chan `json:"channels"`
	Ops       []Op   `json:"ops"`
}

const tsInf = int64(1) << 62

// WState is the generator/executor-side view of an open writer.
type WState struct {
	ID         int
	Via        int
	Channels   []uint32 // all channels incl. free ones, in frame order
	Leased     []uint32 // channels that are stored (non-free)
	DataOnly   bool
	Start      int64
	Last       int64
	Bound      int64
	AutoCommit bool
	Sync       bool
	MinAuth    int // lowest control authority the writer holds on any of its channels
	PendTS     []int64
	PendVals   map[uint32][][]byte
	// PendTSk holds, per leased channel, the timestamps of its uncommitted samples; a write
	// may leave out whole groups (Op.Skip), so channels of one writer can differ. LastG is the
	// last timestamp written per index group since the writer was opened.
	PendTSk map[uint32][]int64
	LastG   map[uint32]int64
	Avail      []int64
	Wrote      int
	Overrun    bool
	// ChanBound is, per leased channel, the start of the first committed domain after
	// Start at the time the writer was opened (tsInf if none).
	ChanBound map[uint32]int64
}

// State tracks the reference model during generation and execution.
type State struct {
	Chans   map[uint32]Chan
	M       *tsm.Model // leased channels only
	Writers map[int]*WState
	NextW   int
}

func spec(c Chan) tsm.ChannelSpec {
	return tsm.ChannelSpec{Key: c.ID, Index: c.Index, IsIndex: c.IsIndex, DataType: c.DT}
}

func NewState(chans []Chan) *State {
	s := &State{Chans: map[uint32]Chan{}, M: tsm.New(nil), Writers: map[int]*WState{}}
	for _, c := range chans {
		s.Chans[c.ID] = c
		if c.Lease != 0 {
			s.M.Add(spec(c))
		}
	}
	return s
}

// group returns the index id of the group a leased channel belongs to.
func (s *State) group(id uint32) uint32 {
	c := s.Chans[id]
	if c.IsIndex {
		return c.ID
	}
	return c.Index
}

func (s *State) groupBusy(idx uint32) bool {
	for _, w := range s.Writers {
		for _, k := range w.Leased {
			if s.group(k) == idx {
				return true
			}
		}
	}
	return false
}

func (s *State) freeBusy(id uint32) bool {
	for _, w := range s.Writers {
		for _, k := range w.Channels {
			if k == id {
				return true
			}
		}
	}
	return false
}

// Leaseholders returns the distinct leaseholders (0 = free) of a channel list.
func (s *State) Leaseholders(ids []uint32) []int {
	seen := map[int]bool{}
	var out []int
	for _, k := range ids {
		l := s.Chans[k].Lease
		if !seen[l] {
			seen[l] = true
			out = append(out, l)
		}
	}
	sort.Ints(out)
	return out
}

func (s *State) ApplyOpen(op Op) *WState {
	w := &WState{ID: op.W, Via: op.Via, Channels: op.Channels, Start: op.Start, Last: op.Start - 1, Bound: tsInf,
		AutoCommit: op.AutoCommit, Sync: op.Sync, DataOnly: op.DataOnly, PendVals: map[uint32][][]byte{}, ChanBound: map[uint32]int64{}, PendTSk: map[uint32][]int64{}, LastG: map[uint32]int64{}}
	for _, k := range op.Channels {
		if s.Chans[k].Lease == 0 {
			continue
		}
		w.Leased = append(w.Leased, k)
		w.ChanBound[k] = tsInf
		if nb, ok := s.M.Chans[k].NextCoverStart(op.Start); ok {
			w.ChanBound[k] = nb
			if nb < w.Bound {
				w.Bound = nb
			}
		}
	}
	if op.DataOnly && len(w.Leased) > 0 {
		idx := s.M.Chans[s.group(w.Leased[0])]
		var end int64 = -1
		for _, iv := range idx.Cover {
			if op.Start >= iv.S && op.Start < iv.E {
				end = iv.E
			}
		}
		for _, t := range idx.Keys() {
			if t >= op.Start && t < end && t < w.Bound {
				w.Avail = append(w.Avail, t)
			}
		}
	}
	w.MinAuth = 255
	for _, a := range op.Auth {
		if a < w.MinAuth {
			w.MinAuth = a
		}
	}
	s.Writers[op.W] = w
	if op.W >= s.NextW {
		s.NextW = op.W + 1
	}
	return w
}

func (s *State) ApplyWrite(op Op) {
	w := s.Writers[op.W]
	for _, k := range w.Leased {
		if op.skips(s.group(k)) {
			continue
		}
		w.LastG[s.group(k)] = op.TS[len(op.TS)-1]
		w.PendTSk[k] = append(w.PendTSk[k], op.TS...)
		sp := s.M.Chans[k].Spec
		for _, t := range op.TS {
			var v []byte
			if sp.IsIndex {
				v = tsm.TSBytes(t)
			} else {
				v = tsm.Payload(sp, t, op.Seed)
			}
			w.PendVals[k] = append(w.PendVals[k], v)
		}
	}
	w.PendTS = append(w.PendTS, op.TS...)
	w.Last = op.TS[len(op.TS)-1]
	w.Wrote += len(op.TS)
	if op.Overrun {
		w.Overrun = true
	}
	if w.AutoCommit {
		s.ApplyCommit(op.W)
	}
}

func (s *State) ApplyCommit(id int) {
	w := s.Writers[id]
	if w.Wrote == 0 {
		return
	}
	for _, k := range w.Leased {
		last, wrote := w.LastG[s.group(k)]
		if !wrote {
			continue // nothing was ever written to this group through this writer: no domain
		}
		s.M.Chans[k].Commit(w.Start, last+1, w.PendTSk[k], w.PendVals[k])
		w.PendVals[k] = nil
		w.PendTSk[k] = nil
	}
	w.PendTS = nil
}

// writerUnits lists what a frame of the writer can leave out as a whole: its index groups
// (by index channel id) and its free channels (by their own id), in channel order.
func writerUnits(s *State, w *WState) []uint32 {
	var out []uint32
	seen := map[uint32]bool{}
	for _, k := range w.Channels {
		u := k
		if s.Chans[k].Lease != 0 {
			u = s.group(k)
		}
		if !seen[u] {
			seen[u] = true
			out = append(out, u)
		}
	}
	return out
}

func (s *State) ApplyClose(id int) { delete(s.Writers, id) }

// RefusingLeaseholders returns, for a writer that overran its bound, the leaseholders on
// which the commit must be refused (a channel there has a committed domain starting at or
// before the last written timestamp) and the participants on which it can succeed (0 stands
// for the gateway's free-channel writer).
func (s *State) RefusingLeaseholders(w *WState) (refuse, accept []int) {
	bad := map[int]bool{}
	all := map[int]bool{}
	for _, k := range w.Leased {
		l := s.Chans[k].Lease
		all[l] = true
		if w.ChanBound[k] <= w.Last {
			bad[l] = true
		}
	}
	for l := range all {
		if bad[l] {
			refuse = append(refuse, l)
		} else {
			accept = append(accept, l)
		}
	}
	if len(w.Leased) != len(w.Channels) {
		accept = append(accept, 0) // the free-channel writer takes part in the acknowledgement and never refuses
	}
	sort.Ints(refuse)
	sort.Ints(accept)
	return
}

// ---------------------------------------------------------------- generator

var fixedTypes = []string{"uint8", "int16", "int32", "int64", "float32", "float64", "uuid", "timestamp", "uint16", "uint64"}
var varTypes = []string{"string", "bytes", "json"}

func genChannels(t *rapid.T, n int) []Chan {
	var out []Chan
	groups := rapid.SampledFrom([]int{1, 2, 2, 3, 3, 3}).Draw(t, "groups")
	id := uint32(1)
	for g := 0; g < groups; g++ {
		// spread the groups over the nodes most of the time
		lease := g%n + 1
		if rapid.IntRange(0, 2).Draw(t, "lease-free-choice") == 0 {
			lease = rapid.IntRange(1, n).Draw(t, "lease")
		}
		idx := id
		out = append(out, Chan{ID: idx, IsIndex: true, DT: "timestamp", Lease: lease})
		id++
		nd := rapid.IntRange(0, 2).Draw(t, "ndata")
		for d := 0; d < nd; d++ {
			var dt string
			if rapid.IntRange(0, 9).Draw(t, "var") < 3 {
				dt = rapid.SampledFrom(varTypes).Draw(t, "dt")
			} else {
				dt = rapid.SampledFrom(fixedTypes).Draw(t, "dt")
			}
			out = append(out, Chan{ID: id, Index: idx, DT: dt, Lease: lease})
			id++
		}
	}
	nf := rapid.SampledFrom([]int{0, 0, 1, 1, 2}).Draw(t, "nfree")
	for f := 0; f < nf; f++ {
		out = append(out, Chan{ID: id, DT: rapid.SampledFrom(fixedTypes).Draw(t, "fdt"), Lease: 0})
		id++
	}
	return out
}

func genSpacing(t *rapid.T) func() int64 {
	mode := rapid.IntRange(0, 3).Draw(t, "spacing")
	return func() int64 {
		switch mode {
		case 0:
			return 1
		case 1:
			return int64(rapid.IntRange(2, 10).Draw(t, "dt"))
		case 2:
			return int64(rapid.SampledFrom([]int{1, 1, 2, 3, 7, 50}).Draw(t, "dt"))
		default:
			return int64(rapid.IntRange(20, 200).Draw(t, "dt"))
		}
	}
}

func genBound(t *rapid.T, m *tsm.Model, label string) int64 {
	var pts []int64
	for _, k := range m.Order {
		c := m.Chans[k]
		if !c.Spec.IsIndex {
			continue
		}
		pts = append(pts, c.Keys()...)
		for _, iv := range c.Cover {
			pts = append(pts, iv.S, iv.E)
		}
	}
	if len(pts) == 0 || rapid.IntRange(0, 9).Draw(t, label+"-free") == 0 {
		return int64(rapid.IntRange(-5, 3000).Draw(t, label))
	}
	p := rapid.SampledFrom(pts).Draw(t, label+"-pt")
	return p + int64(rapid.SampledFrom([]int{0, 0, 0, 1, -1, 2, -3, 13}).Draw(t, label+"-off"))
}

func sortedIDs(m map[int]*WState) []int {
	ids := make([]int, 0, len(m))
	for id := range m {
		ids = append(ids, id)
	}
	sort.Ints(ids)
	return ids
}

func pickWriter(t *rapid.T, st *State) int {
	return rapid.SampledFrom(sortedIDs(st.Writers)).Draw(t, "writer")
}

func genScript(t *rapid.T) Script {
	n := rapid.SampledFrom([]int{1, 2, 2, 2, 3, 3, 3, 3}).Draw(t, "n")
	sc := Script{N: n}
	sc.CreateVia = [2]int{rapid.IntRange(1, n).Draw(t, "create-via-0"), rapid.IntRange(1, n).Draw(t, "create-via-1")}
	sc.Channels = genChannels(t, n)
	st := NewState(sc.Channels)
	var indexes, frees, leased []uint32
	for _, c := range sc.Channels {
		switch {
		case c.Lease == 0:
			frees = append(frees, c.ID)
		case c.IsIndex:
			indexes = append(indexes, c.ID)
			leased = append(leased, c.ID)
		default:
			leased = append(leased, c.ID)
		}
	}
	nops := rapid.IntRange(7, 15).Draw(t, "nops")
	spacing := genSpacing(t)
	via := func(label string) int { return rapid.IntRange(1, n).Draw(t, label) }
	ended := false
	for len(sc.Ops) < nops && !ended {
		var choices []string
		if len(st.Writers) < 2 {
			choices = append(choices, "open", "open", "open")
		}
		if len(st.Writers) > 0 {
			choices = append(choices, "write", "write", "write", "commit", "commit", "close", "close")
		}
		choices = append(choices, "read")
		if len(st.Writers) > 0 {
			choices = append(choices, "intrude")
		}
		if rapid.IntRange(0, 3).Draw(t, "allow-unknown") == 0 {
			choices = append(choices, "unknown")
		}
		kind := rapid.SampledFrom(choices).Draw(t, "kind")
		// a writer opened in a gap with explicit commits is steered towards overrunning it
		target := -1
		for _, id := range sortedIDs(st.Writers) {
			if w := st.Writers[id]; (!w.AutoCommit || !w.Sync) && !w.DataOnly && w.Bound < tsInf {
				target = id
			}
		}
		if target >= 0 && rapid.IntRange(0, 3).Draw(t, "steer") > 0 {
			kind = "write"
		} else {
			target = -1
		}
		switch kind {
		case "open":
			if op, ok := genOpen(t, st, indexes, frees, n); ok {
				switch rapid.IntRange(0, 3).Draw(t, "authorities") {
				case 0: // one authority per channel
					for range op.Channels {
						op.Auth = append(op.Auth, rapid.IntRange(2, 255).Draw(t, "auth"))
					}
				case 1:
					op.Auth = []int{rapid.IntRange(2, 255).Draw(t, "auth-shared")}
				}
				st.ApplyOpen(op)
				sc.Ops = append(sc.Ops, op)
			}
		case "write":
			var w *WState
			if target >= 0 {
				w = st.Writers[target]
			} else {
				w = st.Writers[pickWriter(t, st)]
			}
			op := Op{Kind: "write", W: w.ID, Seed: uint64(rapid.IntRange(0, 1<<30).Draw(t, "seed"))}
			k := rapid.IntRange(1, 12).Draw(t, "k")
			if rapid.IntRange(0, 2).Draw(t, "small") > 0 {
				k = rapid.IntRange(1, 4).Draw(t, "k-small")
			}
			if w.DataOnly {
				if w.Wrote+1 > len(w.Avail) {
					continue
				}
				if w.Wrote+k > len(w.Avail) {
					k = len(w.Avail) - w.Wrote
				}
				op.TS = append(op.TS, w.Avail[w.Wrote:w.Wrote+k]...)
			} else {
				// explicit commits, or auto-commit without acknowledgements: the write itself is
				// accepted and the refusal has to surface at the commit that follows (with
				// acknowledged auto-commit writes the write call itself fails: a discard)
				overrun := (!w.AutoCommit || !w.Sync) && w.Bound < tsInf && rapid.Bool().Draw(t, "overrun")
				ts := w.Last
				for i := 0; i < k; i++ {
					nx := ts + spacing()
					if i == 0 && w.Wrote == 0 {
						nx = w.Start + int64(rapid.SampledFrom([]int{0, 0, 0, 1, 3}).Draw(t, "first-off"))
					}
					if nx >= w.Bound && !overrun {
						break
					}
					ts = nx
					op.TS = append(op.TS, ts)
				}
				if overrun {
					// make sure the last timestamp reaches into the next committed domain
					if ts < w.Bound {
						ts = w.Bound + int64(rapid.SampledFrom([]int{0, 0, 1, 5}).Draw(t, "over-off"))
						op.TS = append(op.TS, ts)
					}
					op.Overrun = true
				}
				if len(op.TS) == 0 {
					continue
				}
				// one write in three of a writer with several groups / free channels
				// carries only some of them
				if units := writerUnits(st, w); !overrun && len(units) > 1 && rapid.IntRange(0, 2).Draw(t, "partial-frame") == 0 {
					keep := rapid.IntRange(0, len(units)-1).Draw(t, "keep-unit")
					for i, u := range units {
						if i != keep && rapid.Bool().Draw(t, "skip-unit") {
							op.Skip = append(op.Skip, u)
						}
					}
					op.Masked = len(op.Skip) > 0 && rapid.IntRange(0, 2).Draw(t, "masked") == 0
				}
			}
			st.ApplyWrite(op)
			sc.Ops = append(sc.Ops, op)
			if op.Overrun {
				// the refused commit ends the script (what a refused multi-leaseholder commit
				// leaves behind is not specified: there are no distributed transactions)
				sc.Ops = append(sc.Ops, Op{Kind: "commit", W: w.ID, Via: via("commit-via")})
				ended = true
			}
		case "commit":
			id := pickWriter(t, st)
			st.ApplyCommit(id)
			sc.Ops = append(sc.Ops, Op{Kind: "commit", W: id, Via: via("commit-via")})
		case "intrude":
			w := st.Writers[pickWriter(t, st)]
			op := Op{Kind: "intrude", W: w.ID, Via: via("intrude-via"), Auth: []int{rapid.IntRange(1, w.MinAuth-1).Draw(t, "intruder-auth")},
				Seed: uint64(rapid.IntRange(0, 1<<30).Draw(t, "seed"))}
			switch rapid.IntRange(0, 2).Draw(t, "intrude-on") {
			case 0: // everything the writer has
				op.Channels = append([]uint32{}, w.Channels...)
			case 1: // a single channel
				op.Channels = []uint32{rapid.SampledFrom(w.Channels).Draw(t, "intrude-chan")}
			default: // one index group of the writer (or one free channel)
				pick := rapid.SampledFrom(w.Channels).Draw(t, "intrude-group")
				for _, id := range w.Channels {
					if id == pick || (st.Chans[id].Lease != 0 && st.Chans[pick].Lease != 0 && st.group(id) == st.group(pick)) {
						op.Channels = append(op.Channels, id)
					}
				}
			}
			for i, k := 0, rapid.IntRange(1, 3).Draw(t, "intrude-k"); i < k; i++ {
				op.TS = append(op.TS, w.Last+1+int64(i))
			}
			sc.Ops = append(sc.Ops, op)
		case "close":
			id := pickWriter(t, st)
			st.ApplyClose(id)
			sc.Ops = append(sc.Ops, Op{Kind: "close", W: id})
		case "read":
			a := genBound(t, st.M, "a")
			b := genBound(t, st.M, "b")
			if b < a {
				a, b = b, a
			}
			if rapid.IntRange(0, 3).Draw(t, "read-all") == 0 {
				a, b = 0, tsInf
			}
			op := Op{Kind: "read", Via: via("read-via"), A: a, B: b}
			for _, k := range leased {
				if rapid.IntRange(0, 2).Draw(t, "rsel") > 0 {
					op.Channels = append(op.Channels, k)
				}
			}
			if len(op.Channels) == 0 {
				op.Channels = []uint32{rapid.SampledFrom(leased).Draw(t, "rsel-one")}
			}
			op.Channels = genRepeats(t, op.Channels)
			sc.Ops = append(sc.Ops, op)
		case "unknown":
			op := Op{Kind: "unknown", Via: via("unk-via"), Target: rapid.SampledFrom([]string{"writer", "iterator"}).Draw(t, "target")}
			nu := rapid.IntRange(1, 2).Draw(t, "nunk")
			for i := 0; i < nu; i++ {
				lease := rapid.SampledFrom([]int{1, 1, 2, 3, 4, 0}).Draw(t, "unk-lease")
				if op.Target == "iterator" && lease == 0 {
					lease = 1 // iterators refuse free channels for a different reason
				}
				op.Unknown = append(op.Unknown, Unknown{Lease: lease, Local: uint32(900000 + rapid.IntRange(0, 50).Draw(t, "unk-local"))})
			}
			// mix with existing channels whose group is not being written (a successful open
			// would otherwise contend with an open writer)
			for _, k := range leased {
				if !st.groupBusy(st.group(k)) && rapid.IntRange(0, 3).Draw(t, "unk-mix") == 0 {
					op.Channels = append(op.Channels, k)
				}
			}
			op.Pos = rapid.IntRange(0, len(op.Unknown)).Draw(t, "unk-pos")
			op.Start = int64(rapid.IntRange(1, 3000).Draw(t, "unk-start"))
			sc.Ops = append(sc.Ops, op)
		}
	}
	if !ended {
		for _, id := range sortedIDs(st.Writers) {
			if rapid.Bool().Draw(t, "final-commit") {
				st.ApplyCommit(id)
				sc.Ops = append(sc.Ops, Op{Kind: "commit", W: id, Via: via("commit-via")})
			}
			st.ApplyClose(id)
			sc.Ops = append(sc.Ops, Op{Kind: "close", W: id})
		}
		// always finish with a generated read so every script has one after its last commit
		op := Op{Kind: "read", Via: via("read-via"), A: 0, B: tsInf}
		for _, k := range leased {
			if rapid.IntRange(0, 3).Draw(t, "rsel-final") > 0 {
				op.Channels = append(op.Channels, k)
			}
		}
		if len(op.Channels) == 0 {
			op.Channels = append([]uint32{}, leased...)
		}
		op.Channels = genRepeats(t, op.Channels)
		sc.Ops = append(sc.Ops, op)
	}
	return sc
}

// genRepeats names some of an iterator's channels more than once (a key list assembled from
// several sources): the iterator must still return every channel's samples exactly once.
func genRepeats(t *rapid.T, ids []uint32) []uint32 {
	if rapid.IntRange(0, 3).Draw(t, "repeat-keys") != 0 {
		return ids
	}
	out := append([]uint32{}, ids...)
	for i, n := 0, rapid.IntRange(1, 2).Draw(t, "nrepeat"); i < n; i++ {
		k := rapid.SampledFrom(ids).Draw(t, "repeat")
		pos := rapid.IntRange(0, len(out)).Draw(t, "repeat-pos")
		out = append(out[:pos], append([]uint32{k}, out[pos:]...)...)
	}
	return out
}

func genOpen(t *rapid.T, st *State, indexes, frees []uint32, n int) (Op, bool) {
	var free []uint32
	for _, i := range indexes {
		if !st.groupBusy(i) {
			free = append(free, i)
		}
	}
	if len(free) == 0 {
		return Op{}, false
	}
	op := Op{Kind: "open", W: st.NextW, Via: rapid.IntRange(1, n).Draw(t, "open-via"),
		AutoCommit: rapid.IntRange(0, 2).Draw(t, "auto_commit") == 0,
		Sync:       rapid.IntRange(0, 3).Draw(t, "sync") > 0,
	}
	addFrees := func() {
		for _, f := range frees {
			if !st.freeBusy(f) && rapid.IntRange(0, 2).Draw(t, "fsel") == 0 {
				op.Channels = append(op.Channels, f)
			}
		}
	}
	// data-only writer on one group: starts on an existing index sample that the chosen
	// data channels do not cover yet
	type doCand struct {
		idx  uint32
		deps []uint32
	}
	var doCands []doCand
	for _, idx := range free {
		ic := st.M.Chans[idx]
		var open []uint32
		for _, d := range st.M.Dependants(idx) {
			for _, ts := range ic.Keys() {
				if !st.M.Chans[d].Covered(ts) {
					open = append(open, d)
					break
				}
			}
		}
		if len(open) > 0 {
			doCands = append(doCands, doCand{idx, open})
		}
	}
	if len(doCands) > 0 && rapid.IntRange(0, 2).Draw(t, "data_only") > 0 {
		c := doCands[rapid.IntRange(0, len(doCands)-1).Draw(t, "do-group")]
		ic := st.M.Chans[c.idx]
		var sub []uint32
		for _, d := range c.deps {
			if rapid.IntRange(0, 3).Draw(t, "dsel") > 0 {
				sub = append(sub, d)
			}
		}
		if len(sub) == 0 {
			sub = []uint32{c.deps[0]}
		}
		var cands []int64
		for _, ts := range ic.Keys() {
			ok := true
			for _, d := range sub {
				if st.M.Chans[d].Covered(ts) {
					ok = false
				}
			}
			if ok {
				cands = append(cands, ts)
			}
		}
		if len(cands) > 0 {
			op.Channels = sub
			op.Start = rapid.SampledFrom(cands).Draw(t, "start-on-sample")
			op.DataOnly = true
			addFrees()
			return op, true
		}
	}
	// targeted shape: a writer over a group X that starts in a gap before one of X's
	// committed domains, together with a group Y on another leaseholder that has nothing
	// committed after that start. Overrunning X's gap then yields a commit that X's
	// leaseholder must refuse while Y's can accept it.
	if op2, ok := genOpenPartial(t, st, free, op); ok {
		op = op2
		addFrees()
		return op, true
	}
	// choose the groups: biased towards every free group (frames spanning leaseholders)
	var sel []uint32
	if rapid.IntRange(0, 2).Draw(t, "all-groups") == 0 {
		sel = free
	} else {
		for _, g := range free {
			if rapid.Bool().Draw(t, "gsel") {
				sel = append(sel, g)
			}
		}
		if len(sel) == 0 {
			sel = []uint32{rapid.SampledFrom(free).Draw(t, "gsel-one")}
		}
	}
	for _, g := range sel {
		op.Channels = append(op.Channels, g)
		for _, d := range st.M.Dependants(g) {
			if rapid.IntRange(0, 3).Draw(t, "dsel") > 0 {
				op.Channels = append(op.Channels, d)
			}
		}
	}
	// start in a gap of the union of the selected channels' coverage
	type gap struct{ s, e int64 }
	var union []tsm.Interval
	for _, k := range op.Channels {
		union = append(union, st.M.Chans[k].Cover...)
	}
	sort.Slice(union, func(i, j int) bool { return union[i].S < union[j].S })
	var gaps []gap
	prev := int64(1) // timestamp 0 is unusable as a start: a zero Start means "unset"
	for _, iv := range union {
		if iv.S > prev {
			gaps = append(gaps, gap{prev, iv.S})
		}
		if iv.E > prev {
			prev = iv.E
		}
	}
	gaps = append(gaps, gap{prev, tsInf})
	g := gaps[len(gaps)-1]
	inner := false
	if len(gaps) > 1 && rapid.IntRange(0, 2).Draw(t, "inner-gap") > 0 {
		g = rapid.SampledFrom(gaps[:len(gaps)-1]).Draw(t, "gap")
		inner = true
	}
	if inner && rapid.Bool().Draw(t, "inner-explicit-commit") {
		op.AutoCommit = false
	}
	pos := rapid.IntRange(0, 3).Draw(t, "start-pos")
	if len(union) == 0 && pos < 2 && rapid.Bool().Draw(t, "leave-room") {
		pos = 2 // leave room before the first domain for later out-of-order writers
	}
	switch pos {
	case 0:
		op.Start = g.s
	case 1:
		op.Start = g.s + 1
	default:
		room := g.e - g.s
		if room > 400 {
			room = 400
		}
		op.Start = g.s + rapid.Int64Range(0, room-1).Draw(t, "start-off")
	}
	if op.Start >= g.e || op.Start < g.s {
		return Op{}, false
	}
	addFrees()
	if rapid.IntRange(0, 3).Draw(t, "shuffle") == 0 {
		op.Channels = rapid.Permutation(op.Channels).Draw(t, "chan-order")
	}
	return op, true
}

func genOpenPartial(t *rapid.T, st *State, free []uint32, base Op) (Op, bool) {
	type cand struct {
		x, y  uint32
		start int64
	}
	groupChans := func(g uint32) []uint32 { return append([]uint32{g}, st.M.Dependants(g)...) }
	var cands []cand
	for _, x := range free {
		var cover []tsm.Interval
		for _, k := range groupChans(x) {
			cover = append(cover, st.M.Chans[k].Cover...)
		}
		sort.Slice(cover, func(i, j int) bool { return cover[i].S < cover[j].S })
		prev := int64(1)
		for _, iv := range cover {
			if iv.S > prev {
				// gap [prev, iv.S) of X
				for _, y := range free {
					if y == x || st.Chans[y].Lease == st.Chans[x].Lease {
						continue
					}
					end := int64(1)
					for _, k := range groupChans(y) {
						for _, c := range st.M.Chans[k].Cover {
							if c.E > end {
								end = c.E
							}
						}
					}
					if start := max(prev, end); start < iv.S {
						cands = append(cands, cand{x, y, start})
					}
				}
			}
			if iv.E > prev {
				prev = iv.E
			}
		}
	}
	if len(cands) == 0 || rapid.IntRange(0, 2).Draw(t, "partial-shape") == 0 {
		return Op{}, false
	}
	c := cands[rapid.IntRange(0, len(cands)-1).Draw(t, "partial-cand")]
	op := base
	op.AutoCommit = false
	op.Start = c.start
	for _, g := range []uint32{c.x, c.y} {
		op.Channels = append(op.Channels, g)
		for _, d := range st.M.Dependants(g) {
			if rapid.IntRange(0, 3).Draw(t, "dsel") > 0 {
				op.Channels = append(op.Channels, d)
			}
		}
	}
	if rapid.Bool().Draw(t, "partial-order") {
		op.Channels = rapid.Permutation(op.Channels).Draw(t, "chan-order")
	}
	return op, true
}
