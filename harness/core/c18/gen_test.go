package verif_c18_test

import (
	"sort"

	"pgregory.net/rapid"
)

// builtinApprox is what the generator believes about the provisioned roles, restricted to
// typePool. It only steers request generation (covered / uncovered objects); the executor's
// oracle reads the real provisioned state from the service.
func builtinApprox() *state {
	st := newState()
	all := func() []Obj {
		var o []Obj
		for _, t := range typePool {
			o = append(o, Obj{T: t})
		}
		return o
	}
	add := func(role, pol string, acts []string, objs []Obj) {
		st.roles["B:"+role] = true
		st.pols["bp:"+pol] = &polDef{acts: acts, objs: objs}
		st.attachTo("B:"+role, "bp:"+pol)
	}
	add("Owner", "owner", actionPool, all())
	add("Viewer", "viewer", []string{"retrieve"}, all())
	add("Engineer", "engineer", actionPool, all())
	add("Operator", "operator-edit", actionPool, []Obj{{T: "range"}})
	add("Operator", "operator-view", []string{"retrieve"}, all())
	add("Host", "host-edit", actionPool, []Obj{{T: "range"}})
	add("Host", "host-channel", []string{"retrieve"}, []Obj{{T: "channel"}})
	return st
}

type gen struct {
	t         *rapid.T
	sc        Script
	types     []string
	nr, np    int
	committed *state
	tx        *state
}

func (g *gen) cur() *state {
	if g.tx != nil {
		return g.tx
	}
	return g.committed
}

func (g *gen) obj(typeLevelPct int) Obj {
	o := Obj{T: rapid.SampledFrom(g.types).Draw(g.t, "type")}
	if rapid.IntRange(0, 99).Draw(g.t, "tl") >= typeLevelPct {
		o.K = rapid.SampledFrom(keyPool).Draw(g.t, "key")
	}
	return o
}

func (g *gen) roleRef(op *Op, needExisting bool) {
	if rapid.IntRange(0, 9).Draw(g.t, "builtin") == 0 {
		op.B = rapid.SampledFrom(builtinNames).Draw(g.t, "bname")
		return
	}
	if needExisting {
		var ex []int
		for i := 0; i < g.nr; i++ {
			if g.cur().roles[roleSlot(i)] {
				ex = append(ex, i)
			}
		}
		if len(ex) > 0 {
			op.R = rapid.SampledFrom(ex).Draw(g.t, "role")
			return
		}
	}
	op.R = rapid.IntRange(0, g.nr-1).Draw(g.t, "role")
}

func (g *gen) polRef(needExisting bool) int {
	if needExisting {
		var ex []int
		for i := 0; i < g.np; i++ {
			if g.cur().pols[polSlot(i)] != nil {
				ex = append(ex, i)
			}
		}
		if len(ex) > 0 {
			return rapid.SampledFrom(ex).Draw(g.t, "pol")
		}
	}
	return rapid.IntRange(0, g.np-1).Draw(g.t, "pol")
}

// mutation draws one mutation that is legal in the current view (or returns false).
func (g *gen) mutation() (Op, bool) {
	for try := 0; try < 6; try++ {
		var op Op
		switch rapid.IntRange(0, 19).Draw(g.t, "mkind") {
		case 0, 1:
			op.Kind = "mkrole"
			op.R = rapid.IntRange(0, g.nr-1).Draw(g.t, "role")
		case 2, 3, 4, 5:
			op.Kind = "mkpol"
			// prefer an empty slot three times out of four; otherwise overwrite
			op.P = g.polRef(rapid.IntRange(0, 3).Draw(g.t, "overwrite") == 0)
			for _, a := range actionPool {
				if rapid.IntRange(0, 9).Draw(g.t, "act") < 5 {
					op.Acts = append(op.Acts, a)
				}
			}
			n := rapid.IntRange(0, 3).Draw(g.t, "nobj")
			for i := 0; i < n; i++ {
				op.Objs = append(op.Objs, g.obj(35))
			}
		case 6, 7, 8, 9:
			op.Kind = "attach"
			g.roleRef(&op, true)
			op.B = "" // built-in roles keep their provisioned policies
			op.P = g.polRef(true)
		case 10, 11, 12, 13:
			op.Kind = "assign"
			op.S = rapid.IntRange(0, len(g.sc.Subjects)-1).Draw(g.t, "subj")
			g.roleRef(&op, true)
		case 14, 15, 16:
			op.Kind = "unassign"
			// prefer an existing assignment
			var pairs [][2]string
			for s, set := range g.cur().assign {
				for r := range set {
					pairs = append(pairs, [2]string{s, r})
				}
			}
			sort.Slice(pairs, func(i, j int) bool { return pairs[i][0]+pairs[i][1] < pairs[j][0]+pairs[j][1] })
			if len(pairs) > 0 && rapid.IntRange(0, 4).Draw(g.t, "existing") > 0 {
				pr := rapid.SampledFrom(pairs).Draw(g.t, "pair")
				for i := range g.sc.Subjects {
					if subjID(i) == pr[0] {
						op.S = i
					}
				}
				if len(pr[1]) > 2 && pr[1][:2] == "B:" {
					op.B = pr[1][2:]
				} else {
					for i := 0; i < g.nr; i++ {
						if roleSlot(i) == pr[1] {
							op.R = i
						}
					}
				}
			} else {
				op.S = rapid.IntRange(0, len(g.sc.Subjects)-1).Draw(g.t, "subj")
				g.roleRef(&op, true)
			}
		case 17, 18:
			op.Kind = "rmrole"
			// one in ten names a built-in role: the unprivileged writer refuses that
			// deletion, and the role must keep granting afterwards
			g.roleRef(&op, true)
		default:
			op.Kind = "rmpol"
			op.P = g.polRef(true)
		}
		if legal(g.cur(), g.sc, op) {
			return op, true
		}
	}
	return Op{}, false
}

// check draws a request for the given view, steering towards covered objects, near misses
// (same key other type, colliding key same type) and exactly-one-uncovered mixes.
func (g *gen) check(view *state, focus int) Op {
	op := Op{Kind: "check"}
	if focus >= 0 && rapid.IntRange(0, 9).Draw(g.t, "focus") < 6 {
		op.S = focus
	} else {
		// prefer a subject that currently reaches some policy
		var holders []int
		for i := range g.sc.Subjects {
			if len(view.policiesOf(subjID(i))) > 0 {
				holders = append(holders, i)
			}
		}
		if len(holders) > 0 && rapid.IntRange(0, 9).Draw(g.t, "holder") < 6 {
			op.S = rapid.SampledFrom(holders).Draw(g.t, "subj")
		} else {
			op.S = rapid.IntRange(0, len(g.sc.Subjects)-1).Draw(g.t, "subj")
		}
	}
	sid := subjID(op.S)
	// prefer an action some reachable policy grants
	var granted []string
	for _, a := range actionPool {
		for _, d := range view.policiesOf(sid) {
			if d != nil && d.grants(a) && len(d.objs) > 0 {
				granted = append(granted, a)
				break
			}
		}
	}
	if len(granted) > 0 && rapid.IntRange(0, 3).Draw(g.t, "grantedAct") > 0 {
		op.Act = rapid.SampledFrom(granted).Draw(g.t, "act")
	} else {
		op.Act = rapid.SampledFrom(actionPool).Draw(g.t, "act")
	}
	var coverable []Obj
	ps := view.policiesOf(sid)
	ids := make([]string, 0, len(ps))
	for id := range ps {
		ids = append(ids, id)
	}
	sort.Strings(ids)
	for _, id := range ids {
		if d := ps[id]; d != nil && d.grants(op.Act) {
			for _, o := range d.objs {
				if o.T != "" {
					coverable = append(coverable, o)
				}
			}
		}
	}
	isCovered := func(o Obj) bool { ok, _ := view.allowed(sid, op.Act, []Obj{o}); return ok }
	covered := func() Obj {
		if len(coverable) == 0 {
			return g.obj(10)
		}
		po := rapid.SampledFrom(coverable).Draw(g.t, "cov")
		if po.K == "" && rapid.IntRange(0, 5).Draw(g.t, "inst") > 0 {
			po.K = rapid.SampledFrom(keyPool).Draw(g.t, "key")
		}
		return po
	}
	uncovered := func() Obj {
		for try := 0; try < 6; try++ {
			var o Obj
			if len(coverable) > 0 && rapid.IntRange(0, 2).Draw(g.t, "near") > 0 {
				o = rapid.SampledFrom(coverable).Draw(g.t, "nearOf")
				if rapid.Bool().Draw(g.t, "otherType") {
					o.T = rapid.SampledFrom(typePool).Draw(g.t, "type")
					if o.K == "" {
						o.K = rapid.SampledFrom(keyPool).Draw(g.t, "key")
					}
				} else {
					o.K = rapid.SampledFrom(keyPool).Draw(g.t, "key")
				}
			} else {
				o = g.obj(8)
			}
			if !isCovered(o) {
				return o
			}
		}
		return Obj{T: "verif-unlisted", K: "1"} // a type nobody grants (not even Owner)
	}
	n := rapid.SampledFrom([]int{0, 1, 1, 1, 2, 2, 2, 2, 3, 3, 4}).Draw(g.t, "nreq")
	mode := rapid.IntRange(0, 9).Draw(g.t, "mode") // 0-3 all covered, 4-7 exactly one uncovered, 8-9 free mix
	hole := -1
	if n > 0 {
		hole = rapid.IntRange(0, n-1).Draw(g.t, "hole")
	}
	for i := 0; i < n; i++ {
		switch {
		case mode <= 3:
			op.Objs = append(op.Objs, covered())
		case mode <= 7:
			if i == hole {
				op.Objs = append(op.Objs, uncovered())
			} else {
				op.Objs = append(op.Objs, covered())
			}
		default:
			if rapid.Bool().Draw(g.t, "c") {
				op.Objs = append(op.Objs, covered())
			} else {
				op.Objs = append(op.Objs, g.obj(10))
			}
		}
	}
	return op
}

func (g *gen) probes(focus int) {
	n := rapid.IntRange(1, 2).Draw(g.t, "nprobe")
	for i := 0; i < n; i++ {
		view := g.cur()
		db := false
		if g.tx != nil && rapid.IntRange(0, 3).Draw(g.t, "db") == 0 {
			view, db = g.committed, true
		}
		op := g.check(view, focus)
		op.DB = db
		g.sc.Ops = append(g.sc.Ops, op)
	}
	if rapid.IntRange(0, 2).Draw(g.t, "pol") == 0 {
		op := Op{Kind: "policies", S: focus}
		if focus < 0 || rapid.IntRange(0, 3).Draw(g.t, "otherSubj") == 0 {
			op.S = rapid.IntRange(0, len(g.sc.Subjects)-1).Draw(g.t, "subj")
		}
		if g.tx != nil && rapid.IntRange(0, 3).Draw(g.t, "db") == 0 {
			op.DB = true
		}
		g.sc.Ops = append(g.sc.Ops, op)
	}
}

func genScript(t *rapid.T) Script {
	g := &gen{t: t}
	// subject 0 is never given a role; subject 1 is unknown to the user service
	nsub := rapid.IntRange(2, 4).Draw(t, "nsubjects")
	g.sc.Subjects = []string{
		rapid.SampledFrom([]string{"user", "user", "bare", "ghost"}).Draw(t, "kind0"),
		rapid.SampledFrom([]string{"bare", "bare", "ghost"}).Draw(t, "kind1"),
	}
	hasRoot := false
	for i := 2; i < nsub; i++ {
		// the root user is rare: its fixture costs two bcrypt hashes (~0.2 s)
		k := rapid.SampledFrom([]string{"user", "user", "user", "user", "user", "user", "user", "user", "user", "user", "user", "user", "bare", "bare", "bare", "bare", "root"}).Draw(t, "kind")
		if k == "root" {
			if hasRoot {
				k = "user"
			}
			hasRoot = true
		}
		g.sc.Subjects = append(g.sc.Subjects, k)
	}
	g.sc.NoRole = 0
	nt := rapid.IntRange(2, 3).Draw(t, "ntypes")
	g.types = append([]string(nil), typePool...)
	if nt == 2 {
		drop := rapid.IntRange(0, 2).Draw(t, "dropType")
		g.types = append(g.types[:drop:drop], g.types[drop+1:]...)
	}
	g.nr = rapid.IntRange(2, maxRoles).Draw(t, "nroles")
	g.np = rapid.IntRange(2, maxPols).Draw(t, "npols")
	g.committed = builtinApprox()
	for i, k := range g.sc.Subjects {
		if k == "root" {
			g.committed.assignTo(subjID(i), "B:Owner")
		}
	}
	// Most histories start from a small configuration (role, non-empty policy, attached,
	// assigned) so that revocations and mixed requests have something to act on.
	if rapid.IntRange(0, 9).Draw(t, "preamble") < 7 {
		holder := rapid.IntRange(1, nsub-1).Draw(t, "holder")
		pre := []Op{
			{Kind: "mkrole", R: 0},
			{Kind: "mkpol", P: 0, Acts: []string{rapid.SampledFrom(actionPool).Draw(t, "act"), "retrieve"}, Objs: []Obj{g.obj(0), g.obj(100)}},
			{Kind: "attach", R: 0, P: 0},
			{Kind: "assign", S: holder, R: 0},
		}
		for _, op := range pre {
			if !(op.Kind == "assign" && g.sc.Subjects[op.S] == "ghost") {
				g.committed.mutate(op)
			}
			g.sc.Ops = append(g.sc.Ops, op)
		}
	}
	g.sc.FailRelIndex = rapid.IntRange(0, 5).Draw(t, "fail-rel-index") == 0
	nops := rapid.IntRange(3, 30).Draw(t, "nops")
	for k := 0; k < nops; k++ {
		switch c := rapid.IntRange(0, 19).Draw(t, "kind"); {
		case c == 0 && g.tx == nil:
			g.sc.Ops = append(g.sc.Ops, Op{Kind: "begin"})
			g.tx = g.committed.clone()
		case c == 1 && g.tx != nil:
			g.sc.Ops = append(g.sc.Ops, Op{Kind: "commit"})
			g.committed, g.tx = g.tx, nil
			g.probes(-1)
		case c == 2 && g.tx != nil:
			kind := "rollback"
			if rapid.IntRange(0, 2).Draw(t, "commit-refused") == 0 {
				kind = "commitfail" // the commit is refused by the storage engine: same outcome
			}
			g.sc.Ops = append(g.sc.Ops, Op{Kind: kind})
			g.tx = nil
			g.probes(-1)
		case c <= 4:
			g.probes(-1)
		default:
			op, ok := g.mutation()
			if !ok {
				continue
			}
			focus := -1
			switch op.Kind {
			case "assign", "unassign":
				focus = op.S
			default:
				// a subject that (before the mutation) holds the affected role / a role
				// with the affected policy
				var cands []int
				for i := range g.sc.Subjects {
					for r := range g.cur().assign[subjID(i)] {
						if r == op.roleID() || g.cur().attach[r][polSlot(op.P)] {
							cands = append(cands, i)
							break
						}
					}
				}
				if len(cands) > 0 {
					focus = rapid.SampledFrom(cands).Draw(t, "focusSubj")
				}
			}
			if op.Kind == "assign" && g.sc.Subjects[op.S] == "ghost" {
				// the executor decides whether the edge exists; the generator assumes rejection
			} else {
				g.cur().mutate(op)
			}
			g.sc.Ops = append(g.sc.Ops, op)
			g.probes(focus)
		}
	}
	if g.tx != nil {
		if rapid.Bool().Draw(t, "endCommit") {
			g.sc.Ops = append(g.sc.Ops, Op{Kind: "commit"})
			g.committed = g.tx
		} else {
			g.sc.Ops = append(g.sc.Ops, Op{Kind: "rollback"})
		}
		g.tx = nil
		g.probes(-1)
	}
	return g.sc
}
