// C18 — access is granted exactly when a role's policy covers every requested object.
//
// Generated histories of role / policy / assignment mutations (committed and inside an open
// transaction) are executed against a fresh rbac.Service built like the repository's rbac
// test suite builds it; every Enforce / RetrievePoliciesForSubject result is compared with
// a set-based reference model (M-RBAC, see model.go).
package verif_c18_test

import (
	"context"
	stderrors "errors"
	"fmt"
	"runtime"
	"sort"
	"strings"
	"sync/atomic"
	"testing"

	"github.com/google/uuid"
	kit "github.com/synnaxlabs/synnax/internal/verifkit"
	"github.com/synnaxlabs/synnax/pkg/distribution/group"
	"github.com/synnaxlabs/synnax/pkg/distribution/ontology"
	"github.com/synnaxlabs/synnax/pkg/distribution/search"
	"github.com/synnaxlabs/synnax/pkg/service/access"
	"github.com/synnaxlabs/synnax/pkg/service/access/rbac"
	"github.com/synnaxlabs/synnax/pkg/service/access/rbac/policy"
	"github.com/synnaxlabs/synnax/pkg/service/access/rbac/role"
	"github.com/synnaxlabs/synnax/pkg/service/auth"
	"github.com/synnaxlabs/synnax/pkg/service/user"
	xerrors "github.com/synnaxlabs/x/errors"
	"github.com/synnaxlabs/x/gorp"
	"github.com/synnaxlabs/x/kv"
	"github.com/synnaxlabs/x/kv/memkv"
)

// ---------------------------------------------------------------- fixture

// fixture is the rbac suite's BeforeSuite (rbac_suite_test.go) in plain Go, built fresh for
// every case: gorp on memkv, ontology, search, group, auth, user, rbac.OpenService (which
// provisions the built-in roles and policies).
// refuseCommitDB wraps the key-value store: while armed, the Commit of a transaction opened on
// it returns an error and persists nothing.
type refuseCommitDB struct {
	kv.DB
	armed atomic.Bool
}

var errCommitRefused = stderrors.New("verif: commit refused by the key-value store")

func (d *refuseCommitDB) OpenTx() kv.Tx { return &refuseCommitTx{Tx: d.DB.OpenTx(), db: d} }

type refuseCommitTx struct {
	kv.Tx
	db *refuseCommitDB
}

func (t *refuseCommitTx) Commit(ctx context.Context, opts ...any) error {
	if t.db.armed.Load() {
		return errCommitRefused
	}
	return t.Tx.Commit(ctx, opts...)
}

// failRelPopulateDB refuses, once, the first iterator opened directly on the store over the
// ontology's relationship table: that is the scan that populates the relationship indexes when
// the table is opened. The indexes then report gorp.ErrIndexInvalid for good and every lookup
// that would use them has to fall back to scanning the table (in the caller's transaction).
type failRelPopulateDB struct {
	kv.DB
	armed atomic.Bool
	fired atomic.Bool
}

var errPopulate = stderrors.New("verif: populate scan refused")

func (f *failRelPopulateDB) OpenIterator(opts kv.IteratorOptions) (kv.Iterator, error) {
	if f.armed.Load() && strings.Contains(string(opts.LowerBound), "Relationship") && calledFrom("runPopulate") && f.armed.CompareAndSwap(true, false) {
		f.fired.Store(true)
		return nil, errPopulate
	}
	return f.DB.OpenIterator(opts)
}

// calledFrom reports whether a function whose name contains fn is on the calling goroutine's stack.
func calledFrom(fn string) bool {
	pc := make([]uintptr, 48)
	frames := runtime.CallersFrames(pc[:runtime.Callers(2, pc)])
	for {
		fr, more := frames.Next()
		if strings.Contains(fr.Function, fn) {
			return true
		}
		if !more {
			return false
		}
	}
}

type fixture struct {
	failPop *failRelPopulateDB
	refuse  *refuseCommitDB
	db      *gorp.DB
	otg     *ontology.Ontology
	search  *search.Index
	group   *group.Service
	auth    *auth.Service
	user    *user.Service
	rbac    *rbac.Service
	closers []func() error
}

const rootUsername = "verif-root"

func openFixture(ctx context.Context, withRoot, failRelIndex bool) (fx *fixture, err error) {
	fx = &fixture{}
	opened := fx
	defer func() {
		if err != nil {
			opened.close()
		}
	}()
	fx.failPop = &failRelPopulateDB{DB: memkv.New()}
	fx.failPop.armed.Store(failRelIndex)
	fx.refuse = &refuseCommitDB{DB: fx.failPop}
	fx.db = gorp.Wrap(fx.refuse)
	fx.closers = append(fx.closers, fx.db.Close)
	if fx.otg, err = ontology.Open(ctx, ontology.Config{DB: fx.db}); err != nil {
		return nil, fmt.Errorf("ontology.Open: %w", err)
	}
	fx.closers = append(fx.closers, fx.otg.Close)
	if fx.search, err = search.Open(); err != nil {
		return nil, fmt.Errorf("search.Open: %w", err)
	}
	fx.closers = append(fx.closers, fx.search.Close)
	if fx.group, err = group.OpenService(ctx, group.ServiceConfig{DB: fx.db, Ontology: fx.otg, Search: fx.search}); err != nil {
		return nil, fmt.Errorf("group.OpenService: %w", err)
	}
	fx.closers = append(fx.closers, fx.group.Close)
	if fx.auth, err = auth.OpenService(ctx, auth.ServiceConfig{DB: fx.db}); err != nil {
		return nil, fmt.Errorf("auth.OpenService: %w", err)
	}
	fx.closers = append(fx.closers, fx.auth.Close)
	ucfg := user.ServiceConfig{DB: fx.db, Ontology: fx.otg, Group: fx.group, Search: fx.search, Auth: fx.auth}
	if withRoot {
		ucfg.RootCredentials = auth.Credentials{Username: rootUsername, Password: "p"}
	}
	if fx.user, err = user.OpenService(ctx, ucfg); err != nil {
		return nil, fmt.Errorf("user.OpenService: %w", err)
	}
	fx.closers = append(fx.closers, fx.user.Close)
	if fx.rbac, err = rbac.OpenService(ctx, rbac.ServiceConfig{DB: fx.db, Ontology: fx.otg, Group: fx.group, Search: fx.search, User: fx.user}); err != nil {
		return nil, fmt.Errorf("rbac.OpenService: %w", err)
	}
	fx.closers = append(fx.closers, fx.rbac.Close)
	return fx, nil
}

func (fx *fixture) close() {
	for i := len(fx.closers) - 1; i >= 0; i-- {
		_ = fx.closers[i]()
	}
	fx.closers = nil
}

// ---------------------------------------------------------------- executor

var ns = uuid.MustParse("c18c18c1-8c18-4c18-8c18-c18c18c18c18")

func slotKey(kind string, i int) uuid.UUID {
	return uuid.NewSHA1(ns, []byte(fmt.Sprintf("%s-%d", kind, i)))
}

type sut struct {
	ctx context.Context
	fx  *fixture
	tx  gorp.Tx // open transaction, nil if none
	// model id -> real key
	roleKey map[string]uuid.UUID
	polKey  map[string]uuid.UUID
	polID   map[uuid.UUID]string
	subject []ontology.ID
}

// inView runs f in the current transactional view: the open transaction if there is one,
// otherwise a fresh transaction that is committed when f succeeds (as the API layer does).
func (s *sut) inView(f func(tx gorp.Tx) error) error {
	if s.tx != nil {
		return f(s.tx)
	}
	return s.fx.db.WithTx(s.ctx, f)
}

func toIDs(objs []Obj) []ontology.ID {
	out := make([]ontology.ID, len(objs))
	for i, o := range objs {
		out[i] = ontology.ID{Type: ontology.ResourceType(o.T), Key: o.K}
	}
	return out
}

func isDenied(err error) bool {
	return stderrors.Is(err, access.ErrDenied) || xerrors.Is(err, access.ErrDenied)
}

// readInitial loads everything Provision / migrations / root reconciliation created into the
// model: roles, policies, role->policy and role->subject edges.
func (s *sut) readInitial(sc Script) (*state, error) {
	st := newState()
	var roles []role.Role
	if err := s.fx.rbac.Role.NewRetrieve().Entries(&roles).Exec(s.ctx, nil); err != nil && !xerrors.Is(err, errNotFound) {
		return nil, fmt.Errorf("retrieve roles: %w", err)
	}
	var pols []policy.Policy
	if err := s.fx.rbac.Policy.NewRetrieve().Entries(&pols).Exec(s.ctx, nil); err != nil && !xerrors.Is(err, errNotFound) {
		return nil, fmt.Errorf("retrieve policies: %w", err)
	}
	for _, p := range pols {
		id := "bp:" + p.Key.String()
		s.polKey[id] = p.Key
		s.polID[p.Key] = id
		st.pols[id] = defOf(p)
	}
	for _, r := range roles {
		id := "B:" + r.Name
		if _, dup := s.roleKey[id]; dup {
			return nil, fmt.Errorf("two provisioned roles named %q", r.Name)
		}
		s.roleKey[id] = r.Key
		st.roles[id] = true
		var children []ontology.Resource
		if err := s.fx.otg.NewRetrieve().WhereIDs(role.OntologyID(r.Key)).ExcludeFieldData(true).
			TraverseTo(ontology.ChildrenTraverser).WhereTypes(ontology.ResourceTypePolicy).ExcludeFieldData(true).
			Entries(&children).Exec(s.ctx, nil); err != nil {
			return nil, fmt.Errorf("children of role %s: %w", r.Name, err)
		}
		for _, c := range children {
			k, err := uuid.Parse(c.ID.Key)
			if err != nil {
				return nil, err
			}
			pid, ok := s.polID[k]
			if !ok {
				return nil, fmt.Errorf("provisioned role %s has a policy edge to %s which is not in the policy table", r.Name, k)
			}
			st.attachTo(id, pid)
		}
	}
	byKey := map[string]string{}
	for id, k := range s.roleKey {
		byKey[k.String()] = id
	}
	for i, subj := range s.subject {
		if sc.Subjects[i] == "ghost" {
			continue
		}
		var parents []ontology.Resource
		if err := s.fx.otg.NewRetrieve().WhereIDs(subj).ExcludeFieldData(true).
			TraverseTo(ontology.ParentsTraverser).WhereTypes(ontology.ResourceTypeRole).ExcludeFieldData(true).
			Entries(&parents).Exec(s.ctx, nil); err != nil {
			return nil, fmt.Errorf("parents of subject %d: %w", i, err)
		}
		for _, p := range parents {
			rid, ok := byKey[p.ID.Key]
			if !ok {
				return nil, fmt.Errorf("subject %d is assigned an unknown role %s", i, p.ID.Key)
			}
			st.assignTo(subjID(i), rid)
		}
	}
	return st, nil
}

func defOf(p policy.Policy) *polDef {
	d := &polDef{}
	for _, a := range p.Actions {
		d.acts = append(d.acts, string(a))
	}
	for _, o := range p.Objects {
		d.objs = append(d.objs, Obj{T: string(o.Type), K: o.Key})
	}
	return d
}

func canon(d *polDef) string {
	acts := append([]string(nil), d.acts...)
	sort.Strings(acts)
	objs := make([]string, len(d.objs))
	for i, o := range d.objs {
		objs[i] = fmt.Sprintf("%q/%q", o.T, o.K)
	}
	sort.Strings(objs)
	return strings.Join(acts, ",") + " | " + strings.Join(objs, ",")
}

func execute(sc Script, rep *kit.Report) error {
	if err := sc.validate(); err != nil {
		rep.Discard("malformed-script")
		return nil
	}
	ctx := context.Background()
	withRoot := false
	for _, k := range sc.Subjects {
		if k == "root" {
			withRoot = true
		}
	}
	fx, err := openFixture(ctx, withRoot, sc.FailRelIndex)
	if err != nil {
		return kit.Fail("setup", "%v", err)
	}
	defer fx.close()
	if sc.FailRelIndex {
		if fx.failPop.fired.Load() {
			rep.Class("relationship-index-failed-to-populate")
		} else {
			rep.Class("relationship-index-populate-scan-not-seen")
		}
	}
	s := &sut{ctx: ctx, fx: fx, roleKey: map[string]uuid.UUID{}, polKey: map[string]uuid.UUID{}, polID: map[uuid.UUID]string{}}
	defer func() {
		if s.tx != nil {
			_ = s.tx.Close()
		}
	}()
	// ---- subjects
	for i, kind := range sc.Subjects {
		key := slotKey("subject", i)
		id := user.OntologyID(key)
		switch kind {
		case "user":
			if _, err := fx.user.NewWriter(nil).Create(ctx, user.User{Key: key, Username: fmt.Sprintf("u%d", i)}); err != nil {
				return kit.Fail("setup", "create user %d: %v", i, err)
			}
		case "bare":
			// known to the ontology only (this is what the rbac suite uses as a subject)
			if err := fx.otg.NewWriter(nil).DefineResource(ctx, id); err != nil {
				return kit.Fail("setup", "define subject %d: %v", i, err)
			}
		case "ghost":
			// known to nobody
		case "root":
			var u user.User
			if err := fx.user.NewRetrieve().Where(user.MatchUsernames(rootUsername)).Entry(&u).Exec(ctx, nil); err != nil {
				return kit.Fail("setup", "retrieve root user: %v", err)
			}
			id = user.OntologyID(u.Key)
		}
		s.subject = append(s.subject, id)
		rep.Class("subject-" + kind)
	}
	for i := 0; i < maxRoles; i++ {
		s.roleKey[roleSlot(i)] = slotKey("role", i)
	}
	for i := 0; i < maxPols; i++ {
		k := slotKey("policy", i)
		s.polKey[polSlot(i)] = k
		s.polID[k] = polSlot(i)
	}
	m0, err := s.readInitial(sc)
	if err != nil {
		return kit.Fail("setup", "reading provisioned state: %v", err)
	}
	for _, b := range builtinNames {
		if !m0.roles["B:"+b] {
			return kit.Fail("setup", "built-in role %q was not provisioned", b)
		}
	}
	committed := newWorld(m0)
	var inTx *world
	cur := func() *world {
		if inTx != nil {
			return inTx
		}
		return committed
	}
	revoked := false

	for step, op := range sc.Ops {
		w := cur()
		switch op.Kind {
		case "begin":
			if s.tx != nil {
				continue
			}
			s.tx = fx.db.OpenTx()
			inTx = committed.clone()
			rep.Class("tx-opened")
			continue
		case "commit":
			if s.tx == nil {
				continue
			}
			if err := s.tx.Commit(ctx); err != nil {
				return kit.Fail("mutation-error:commit", "step %d: commit: %v", step, err)
			}
			if err := s.tx.Close(); err != nil {
				return kit.Fail("mutation-error:commit", "step %d: close after commit: %v", step, err)
			}
			s.tx, committed, inTx = nil, inTx, nil
			rep.Class("tx-committed")
			continue
		case "commitfail":
			// the storage engine refuses the commit: the transaction must report it and leave
			// the committed view exactly as it was
			if s.tx == nil {
				continue
			}
			fx.refuse.armed.Store(true)
			cerr := s.tx.Commit(ctx)
			fx.refuse.armed.Store(false)
			if cerr == nil {
				return kit.Fail("refused-commit-reported-success", "step %d: the key-value store refused the commit but Tx.Commit returned nil", step)
			}
			_ = s.tx.Close()
			s.tx, inTx = nil, nil
			rep.Class("tx-commit-refused")
			continue
		case "rollback":
			if s.tx == nil {
				continue
			}
			if err := s.tx.Close(); err != nil {
				return kit.Fail("mutation-error:rollback", "step %d: close: %v", step, err)
			}
			s.tx, inTx = nil, nil
			rep.Class("tx-rolled-back")
			continue
		case "check", "policies":
			view, tx, viewName := w, s.tx, "committed"
			if s.tx != nil {
				viewName = "tx"
				if op.DB {
					view, tx, viewName = committed, nil, "committed-while-tx-open"
				}
			}
			if op.S < 0 || op.S >= len(s.subject) {
				continue
			}
			subj := s.subject[op.S]
			rep.Class("view-" + viewName)
			label := ""
			if view.gb.dangling(subjID(op.S)) {
				label = ":dangling-policy"
			}
			if op.Kind == "policies" {
				var got []policy.Policy
				var err error
				if tx != nil {
					got, err = fx.rbac.RetrievePoliciesForSubject(ctx, subj, tx)
				} else {
					got, err = fx.rbac.RetrievePoliciesForSubject(ctx, subj, nil)
				}
				if err != nil && ghostNotFound(sc, op.S, err) && len(view.m.policiesOf(subjID(op.S))) == 0 {
					// A subject the ontology does not know has no policies; the lookup error
					// instead of an empty list is accepted and counted.
					rep.Class("ghost-policies-notfound-error")
					continue
				}
				if err != nil {
					return kit.Fail("policies-error"+label, "step %d (%s view): RetrievePoliciesForSubject(subject %d %s) failed: %v; model: %s",
						step, viewName, op.S, sc.Subjects[op.S], err, view.m.describe(subjID(op.S)))
				}
				want := view.m.policiesOf(subjID(op.S))
				gotSet := map[string]string{}
				for _, p := range got {
					id, ok := s.polID[p.Key]
					if !ok {
						id = "?:" + p.Key.String()
					}
					if _, dup := gotSet[id]; dup {
						rep.Class("policies-duplicate-entries")
					}
					gotSet[id] = canon(defOf(p))
				}
				wantSet := map[string]string{}
				for id, d := range want {
					wantSet[id] = canon(d)
				}
				if !sameMap(gotSet, wantSet) {
					sig := "policies-mismatch" + view.explain(func(g *state) bool {
						return sameMap(gotSet, canonAll(g.policiesOf(subjID(op.S))))
					})
					return kit.Fail(sig, "step %d (%s view): RetrievePoliciesForSubject(subject %d %s) = %v, model says %v",
						step, viewName, op.S, sc.Subjects[op.S], fmtMap(gotSet), fmtMap(wantSet))
				}
				rep.Class("policies-compared")
				continue
			}
			// ---- check
			req := access.Request{Subject: subj, Action: access.Action(op.Act), Objects: toIDs(op.Objs)}
			want, uncovered := view.m.allowed(subjID(op.S), op.Act, op.Objs)
			var err error
			if tx != nil {
				err = fx.rbac.NewEnforcer(tx).Enforce(ctx, req)
			} else {
				err = fx.rbac.Enforce(ctx, req)
			}
			rep.Add("checks", 1)
			if len(op.Objs) == 0 {
				rep.Class("empty-request")
			}
			if sc.Subjects[op.S] == "ghost" {
				rep.Class("check-ghost-subject")
			}
			if op.S == sc.NoRole {
				rep.Class("check-norole-subject")
			}
			if len(op.Objs) >= 2 && uncovered == 1 {
				rep.Class("one-of-many-uncovered")
				if revoked {
					rep.Class("one-of-many-uncovered-after-revocation")
					rep.Nontrivial()
				}
			}
			ctxMsg := func() string {
				return fmt.Sprintf("step %d (%s view): Enforce(subject %d %s, %s, %v)", step, viewName, op.S, sc.Subjects[op.S], op.Act, op.Objs)
			}
			switch {
			case err == nil && want:
				rep.Class("allow")
			case err == nil && !want:
				sig := "false-allow" + view.explain(func(g *state) bool {
					ok, _ := g.allowed(subjID(op.S), op.Act, op.Objs)
					return ok
				})
				return kit.Fail(sig, "%s returned nil but the model denies (%d object(s) uncovered); model: %s", ctxMsg(), uncovered, view.m.describe(subjID(op.S)))
			case isDenied(err) && !want:
				rep.Class("deny")
			case ghostNotFound(sc, op.S, err) && (!want || len(op.Objs) == 0):
				// Subject unknown to the ontology: the request fails with the ontology's
				// not-found error instead of access.ErrDenied. The statement only says such
				// a subject is denied, so this is accepted as a denial and counted; for an
				// empty object list (vacuously covered) statement and code can be read both
				// ways, also accepted.
				if len(op.Objs) == 0 {
					rep.Class("ghost-empty-request-notfound-error")
				} else {
					rep.Class("ghost-denied-by-notfound-error")
				}
			case isDenied(err) && want:
				return kit.Fail("false-deny", "%s returned %v but the model allows; model: %s", ctxMsg(), err, view.m.describe(subjID(op.S)))
			default:
				exp := "deny"
				if want {
					exp = "allow"
				}
				return kit.Fail("enforce-error"+label, "%s returned an error that is neither nil nor access.ErrDenied: %v (model says %s); model: %s", ctxMsg(), err, exp, view.m.describe(subjID(op.S)))
			}
			continue
		}
		// ---- mutations
		if !legal(w.m, sc, op) {
			rep.Add("skipped_illegal_ops", 1)
			continue
		}
		rid, pid := op.roleID(), polSlot(op.P)
		var merr error
		switch op.Kind {
		case "mkrole":
			if w.m.everHadRole[rid] {
				rep.Class("role-recreated-with-same-key")
			}
			merr = s.inView(func(tx gorp.Tx) error {
				return fx.rbac.Role.NewWriter(tx, false).Create(ctx, &role.Role{Key: s.roleKey[rid], Name: "verif-" + rid})
			})
		case "rmrole":
			if len(w.m.subjectsOf(rid)) > 0 {
				rep.Class("assigned-role-deleted")
			}
			merr = s.inView(func(tx gorp.Tx) error { return fx.rbac.Role.NewWriter(tx, false).Delete(ctx, s.roleKey[rid]) })
			if op.B != "" {
				// role.Writer.Delete "will fail if the role is builtin" for a writer opened
				// without allowInternal. The role is then still there and still assigned, so
				// the checks that follow in this view must keep honouring it.
				if merr == nil {
					rep.Discard("builtin-role-delete-accepted")
					return nil
				}
				rep.Class("builtin-role-delete-refused")
				if len(w.m.subjectsOf(rid)) > 0 {
					rep.Class("builtin-role-delete-refused-while-assigned")
				}
				continue
			}
			if merr != nil && len(w.m.subjectsOf(rid)) > 0 {
				// role.Writer.Delete is documented to "fail ... if any users are assigned to
				// the role" (the code does not): a refusal is accepted, the role then stays.
				rep.Class("assigned-role-delete-refused")
				continue
			}
			revoked = true
		case "mkpol":
			if w.m.pols[pid] != nil {
				rep.Class("policy-updated")
				revoked = true
			} else if w.gp.attachedAnywhere(pid) {
				rep.Class("policy-recreated-with-same-key-after-attached-delete")
			}
			p := policy.Policy{Key: s.polKey[pid], Name: "verif-" + pid, Objects: toIDs(op.Objs)}
			for _, a := range op.Acts {
				p.Actions = append(p.Actions, access.Action(a))
			}
			merr = s.inView(func(tx gorp.Tx) error { return fx.rbac.Policy.NewWriter(tx, false).Create(ctx, &p) })
		case "rmpol":
			if w.m.attachedAnywhere(pid) {
				rep.Class("attached-policy-deleted")
			}
			merr = s.inView(func(tx gorp.Tx) error { return fx.rbac.Policy.NewWriter(tx, false).Delete(ctx, s.polKey[pid]) })
			revoked = true
		case "attach":
			merr = s.inView(func(tx gorp.Tx) error {
				return fx.rbac.Policy.NewWriter(tx, false).SetOnRole(ctx, s.roleKey[rid], s.polKey[pid])
			})
		case "assign":
			if op.B != "" {
				rep.Class("builtin-role-assigned")
			}
			merr = s.inView(func(tx gorp.Tx) error {
				return fx.rbac.Role.NewWriter(tx, false).AssignRole(ctx, s.subject[op.S], s.roleKey[rid])
			})
			if sc.Subjects[op.S] == "ghost" {
				// A subject the ontology does not know cannot be the end of an edge; the
				// statement only requires that such a subject is denied. Both outcomes are
				// accepted: an error leaves the model unchanged, success adds the edge.
				if merr != nil {
					rep.Class("assign-ghost-rejected")
					continue
				}
				rep.Class("assign-ghost-accepted")
			}
		case "unassign":
			if w.m.assign[subjID(op.S)][rid] {
				rep.Class("revocation-unassign")
				revoked = true
			}
			merr = s.inView(func(tx gorp.Tx) error {
				return fx.rbac.Role.NewWriter(tx, false).UnassignRole(ctx, s.subject[op.S], s.roleKey[rid])
			})
		default:
			continue
		}
		if merr != nil {
			return kit.Fail("mutation-error:"+op.Kind, "step %d: %s %+v failed although it is legal in the model: %v", step, op.Kind, op, merr)
		}
		w.apply(op)
		rep.Add("mutations", 1)
	}
	return nil
}

// ghostNotFound: the subject is unknown to the ontology and err is the query layer's
// not-found error.
func ghostNotFound(sc Script, subj int, err error) bool {
	return err != nil && sc.Subjects[subj] == "ghost" && xerrors.Is(err, errNotFound)
}

func sameMap(a, b map[string]string) bool {
	if len(a) != len(b) {
		return false
	}
	for k, v := range a {
		if w, ok := b[k]; !ok || w != v {
			return false
		}
	}
	return true
}

func canonAll(m map[string]*polDef) map[string]string {
	out := map[string]string{}
	for id, d := range m {
		if d == nil {
			continue // a deleted policy is not in the policy table whatever edges remain
		}
		out[id] = canon(d)
	}
	return out
}

func fmtMap(m map[string]string) string {
	keys := make([]string, 0, len(m))
	for k := range m {
		keys = append(keys, k)
	}
	sort.Strings(keys)
	var b strings.Builder
	b.WriteString("{")
	for i, k := range keys {
		if i > 0 {
			b.WriteString("; ")
		}
		b.WriteString(k + ": " + m[k])
	}
	b.WriteString("}")
	return b.String()
}

func TestC18(t *testing.T) {
	r := &kit.Runner[Script]{Name: "TestC18", Exec: execute}
	r.Run(t, genScript)
}
