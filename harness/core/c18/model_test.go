package verif_c18_test

import (
	"fmt"
	"sort"
	"strings"

	"github.com/synnaxlabs/x/query"
)

var errNotFound = query.ErrNotFound

// ---------------------------------------------------------------- script

// Obj is an ontology ID; K == "" is a type-level ID.
type Obj struct {
	T string `json:"t"`
	K string `json:"k"`
}

func (o Obj) String() string { return o.T + ":" + o.K }

// Op is one step of a history.
//
//	begin | commit | rollback          open / commit / discard the one open transaction
//	mkrole R | rmrole R                create / delete the role in slot R
//	mkpol P acts objs | rmpol P        create (or overwrite) / delete the policy in slot P
//	attach P -> R|B                    policy.Writer.SetOnRole
//	assign S R|B | unassign S R|B      role.Writer.AssignRole / UnassignRole
//	check S act objs [db]              Enforce in the current view (db: committed view while a tx is open)
//	policies S [db]                    RetrievePoliciesForSubject
//
// Mutations run in the open transaction if there is one, otherwise in their own committed
// transaction. B names a built-in (provisioned) role and takes precedence over R.
type Op struct {
	Kind string   `json:"kind"`
	S    int      `json:"s,omitempty"`
	R    int      `json:"r,omitempty"`
	B    string   `json:"b,omitempty"`
	P    int      `json:"p,omitempty"`
	Acts []string `json:"acts,omitempty"`
	Objs []Obj    `json:"objs,omitempty"`
	Act  string   `json:"act,omitempty"`
	DB   bool     `json:"db,omitempty"`
}

type Script struct {
	// Subjects[i] is the kind of subject i:
	//   user  created through the user service
	//   bare  ontology resource only, unknown to the user service (what the rbac suite uses)
	//   ghost unknown to the user service and to the ontology
	//   root  the root user (holds the built-in Owner role after OpenService)
	Subjects []string `json:"subjects"`
	// NoRole is the subject that is never given a role (assign ops naming it are ignored).
	NoRole int  `json:"no_role"`
	Ops    []Op `json:"ops"`
	// FailRelIndex: the relationship indexes of the ontology fail to populate when the
	// services are opened (storage error on the populate scan); every parent lookup of the
	// case then goes through the table-scan fallback.
	FailRelIndex bool `json:"fail_rel_index,omitempty"`
}

const (
	maxRoles = 4
	maxPols  = 6
)

var (
	builtinNames = []string{"Owner", "Viewer", "Engineer", "Operator", "Host"}
	actionPool   = []string{"create", "delete", "retrieve", "update"}
	typePool     = []string{"channel", "range", "range-alias"}
	// textually colliding keys (prefixes of each other, with the ontology's own separator)
	keyPool = []string{"1", "10", "11", "a", "ab", "1:a"}
)

func roleSlot(i int) string { return fmt.Sprintf("r%d", i) }
func polSlot(i int) string  { return fmt.Sprintf("p%d", i) }
func subjID(i int) string   { return fmt.Sprintf("s%d", i) }

func (o Op) roleID() string {
	if o.B != "" {
		return "B:" + o.B
	}
	return roleSlot(o.R)
}

func (sc Script) validate() error {
	if len(sc.Subjects) == 0 {
		return fmt.Errorf("no subjects")
	}
	roots := 0
	for _, k := range sc.Subjects {
		switch k {
		case "user", "bare", "ghost":
		case "root":
			roots++
		default:
			return fmt.Errorf("unknown subject kind %q", k)
		}
	}
	if roots > 1 {
		return fmt.Errorf("more than one root")
	}
	for _, op := range sc.Ops {
		if op.R < 0 || op.R >= maxRoles || op.P < 0 || op.P >= maxPols {
			return fmt.Errorf("slot out of range")
		}
		if op.B != "" {
			ok := false
			for _, b := range builtinNames {
				ok = ok || b == op.B
			}
			if !ok {
				return fmt.Errorf("unknown built-in role %q", op.B)
			}
		}
	}
	return nil
}

// ---------------------------------------------------------------- M-RBAC

type polDef struct {
	acts []string
	objs []Obj
}

func (d *polDef) grants(act string) bool {
	for _, a := range d.acts {
		if a == act {
			return true
		}
	}
	return false
}

// covers: by type (type-level object of the same type) or by exact identity.
func covers(po, ro Obj) bool {
	if po.T != ro.T {
		return false
	}
	if po.T != "" && po.K == "" {
		return true
	}
	return po.K == ro.K
}

// state is one transactional view of the reference model: plain sets.
type state struct {
	roles  map[string]bool
	pols   map[string]*polDef
	attach map[string]map[string]bool // role -> policies
	assign map[string]map[string]bool // subject -> roles
	// shadow-only bookkeeping (see world)
	keepRoleEdges, keepPolEdges bool
	everHadRole                 map[string]bool
}

func newState() *state {
	return &state{roles: map[string]bool{}, pols: map[string]*polDef{}, attach: map[string]map[string]bool{},
		assign: map[string]map[string]bool{}, everHadRole: map[string]bool{}}
}

func (s *state) clone() *state {
	c := newState()
	c.keepRoleEdges, c.keepPolEdges = s.keepRoleEdges, s.keepPolEdges
	for k, v := range s.roles {
		c.roles[k] = v
	}
	for k, v := range s.everHadRole {
		c.everHadRole[k] = v
	}
	for k, v := range s.pols {
		c.pols[k] = v // definitions are immutable once stored
	}
	for k, set := range s.attach {
		c.attach[k] = map[string]bool{}
		for p := range set {
			c.attach[k][p] = true
		}
	}
	for k, set := range s.assign {
		c.assign[k] = map[string]bool{}
		for r := range set {
			c.assign[k][r] = true
		}
	}
	return c
}

func (s *state) attachTo(role, pol string) {
	if s.attach[role] == nil {
		s.attach[role] = map[string]bool{}
	}
	s.attach[role][pol] = true
}

func (s *state) assignTo(subj, role string) {
	if s.assign[subj] == nil {
		s.assign[subj] = map[string]bool{}
	}
	s.assign[subj][role] = true
}

func (s *state) subjectsOf(role string) []string {
	var out []string
	for subj, set := range s.assign {
		if set[role] {
			out = append(out, subj)
		}
	}
	sort.Strings(out)
	return out
}

func (s *state) attachedAnywhere(pol string) bool {
	for _, set := range s.attach {
		if set[pol] {
			return true
		}
	}
	return false
}

// policiesOf returns the policies attached to roles currently assigned to the subject. In
// the reference state edges of deleted roles / to deleted policies do not exist. In an
// edge-keeping shadow a deleted policy that is still reachable maps to nil.
func (s *state) policiesOf(subj string) map[string]*polDef {
	out := map[string]*polDef{}
	for r := range s.assign[subj] {
		if !s.roles[r] && !s.keepRoleEdges {
			continue
		}
		for p := range s.attach[r] {
			d := s.pols[p]
			if d == nil && !s.keepPolEdges {
				continue
			}
			out[p] = d
		}
	}
	return out
}

func (s *state) dangling(subj string) bool {
	for _, d := range s.policiesOf(subj) {
		if d == nil {
			return true
		}
	}
	return false
}

// allowed is the property: every requested object is covered by some policy that grants
// the action and is attached to a role currently assigned to the subject. It also returns
// the number of uncovered objects.
func (s *state) allowed(subj, act string, objs []Obj) (bool, int) {
	ps := s.policiesOf(subj)
	uncovered := 0
	for _, ro := range objs {
		found := false
		for _, d := range ps {
			if d == nil || !d.grants(act) {
				continue
			}
			for _, po := range d.objs {
				if covers(po, ro) {
					found = true
				}
			}
		}
		if !found {
			uncovered++
		}
	}
	return uncovered == 0, uncovered
}

func (s *state) describe(subj string) string {
	var roles []string
	for r := range s.assign[subj] {
		roles = append(roles, r)
	}
	sort.Strings(roles)
	var b strings.Builder
	fmt.Fprintf(&b, "%s has roles %v;", subj, roles)
	for _, r := range roles {
		var ps []string
		for p := range s.attach[r] {
			ps = append(ps, p)
		}
		sort.Strings(ps)
		for _, p := range ps {
			if strings.HasPrefix(p, "bp:") {
				fmt.Fprintf(&b, " %s->%s(built-in)", r, p[:11])
				continue
			}
			if d := s.pols[p]; d != nil {
				fmt.Fprintf(&b, " %s->%s{%v %v}", r, p, d.acts, d.objs)
			}
		}
	}
	return b.String()
}

// mutate applies one legal mutation.
func (s *state) mutate(op Op) {
	rid, pid, sid := op.roleID(), polSlot(op.P), subjID(op.S)
	switch op.Kind {
	case "mkrole":
		s.roles[rid] = true
		s.everHadRole[rid] = true
	case "rmrole":
		if op.B != "" {
			// refused by the unprivileged writer ("cannot delete builtin role"): nothing changes
			return
		}
		delete(s.roles, rid)
		if !s.keepRoleEdges {
			delete(s.attach, rid)
			for _, set := range s.assign {
				delete(set, rid)
			}
		}
	case "mkpol":
		s.pols[pid] = &polDef{acts: append([]string(nil), op.Acts...), objs: append([]Obj(nil), op.Objs...)}
	case "rmpol":
		delete(s.pols, pid)
		if !s.keepPolEdges {
			for _, set := range s.attach {
				delete(set, pid)
			}
		}
	case "attach":
		s.attachTo(rid, pid)
	case "assign":
		s.assignTo(sid, rid)
	case "unassign":
		delete(s.assign[sid], rid)
	}
}

// legal says whether a mutation is meaningful in the reference state: only existing roles
// and policies are attached, assigned, unassigned or deleted; the never-assigned subject is
// never assigned. Creating an existing role is a no-op and is not generated; creating an
// existing policy overwrites it.
func legal(s *state, sc Script, op Op) bool {
	rid, pid := op.roleID(), polSlot(op.P)
	switch op.Kind {
	case "mkrole":
		return op.B == "" && !s.roles[rid]
	case "rmrole":
		return s.roles[rid]
	case "mkpol":
		return true
	case "rmpol":
		return s.pols[pid] != nil
	case "attach":
		return s.roles[rid] && s.pols[pid] != nil
	case "assign":
		return op.S >= 0 && op.S < len(sc.Subjects) && op.S != sc.NoRole && s.roles[rid]
	case "unassign":
		return op.S >= 0 && op.S < len(sc.Subjects) && s.roles[rid]
	}
	return false
}

// world pairs the reference state m with shadows in which deleting a role (gr), a policy
// (gp) or either (gb) keeps the edges that pointed at it, so that re-creating it under the
// same key, or - for roles - merely holding it, revives them. The shadows never decide a
// verdict; they only refine the signature of a violation (":deleted-role-still-linked",
// ":deleted-policy-still-attached", ":stale-edges", ":dangling-policy") so that distinct
// defects get distinct signatures.
type world struct{ m, gr, gp, gb *state }

func newWorld(m *state) *world {
	w := &world{m: m, gr: m.clone(), gp: m.clone(), gb: m.clone()}
	w.gr.keepRoleEdges = true
	w.gp.keepPolEdges = true
	w.gb.keepRoleEdges, w.gb.keepPolEdges = true, true
	return w
}

func (w *world) clone() *world {
	return &world{m: w.m.clone(), gr: w.gr.clone(), gp: w.gp.clone(), gb: w.gb.clone()}
}

func (w *world) apply(op Op) {
	w.m.mutate(op)
	w.gr.mutate(op)
	w.gp.mutate(op)
	w.gb.mutate(op)
}

// explain names the shadow, if any, under which pred holds.
func (w *world) explain(pred func(*state) bool) string {
	switch {
	case pred(w.gr):
		return ":deleted-role-still-linked"
	case pred(w.gp):
		return ":deleted-policy-still-attached"
	case pred(w.gb):
		return ":stale-edges"
	}
	return ""
}
