// C16 — the ontology graph stays acyclic, exact and free of dangling edges.
//
// Generated histories of define/delete resource and define/delete relationship (single and
// one-to-many) inside committed / aborted transactions or directly against the DB, over
// identifiers whose "Type:Key" strings are prefixes / suffixes of one another, interleaved
// with traversal queries. The oracle is a plain adjacency-map model: DefineRelationship must
// succeed exactly when both endpoints exist and the edge closes no cycle (no-op when it
// already exists); after every step the raw relationship table and the raw resource table
// equal the model; every traversal equals a hop-by-hop search over the model.
package verif_c16_test

import (
	"bytes"
	"context"
	"encoding/json"
	stderrors "errors"
	"fmt"
	"io"
	"iter"
	"os"
	"os/exec"
	"path/filepath"
	"regexp"
	"runtime"
	"runtime/debug"
	"sort"
	"strings"
	"sync/atomic"
	"syscall"
	"testing"
	"time"

	kit "github.com/synnaxlabs/synnax/internal/verifkit"
	"github.com/synnaxlabs/synnax/pkg/distribution/ontology"
	"github.com/synnaxlabs/x/errors"
	"github.com/synnaxlabs/x/gorp"
	"github.com/synnaxlabs/x/kv"
	"github.com/synnaxlabs/x/kv/memkv"
	"github.com/synnaxlabs/x/observe"
	"github.com/synnaxlabs/x/query"
	"github.com/synnaxlabs/x/zyn"
	"pgregory.net/rapid"
)

// ---------------------------------------------------------------- script

type IDSpec struct {
	T string `json:"t"`
	K string `json:"k"`
}

// Op is one step of a history. A, B and Bs index Script.IDs.
//
//	begin | commit | abort           transaction control (ops outside a transaction go straight to the DB)
//	defres A | defmanyres Bs         DefineResource / DefineManyResources
//	delres A | delmanyres Bs         DeleteResource / DeleteManyResources
//	defrel A B                       DefineRelationship(A, parent, B)
//	defmany A Bs                     DefineFromOneToManyRelationships(A, parent, Bs)
//	delrel A B                       DeleteRelationship(A, parent, B)
//	delout A | delin A               Delete{Outgoing,Incoming}RelationshipsOfType(A, parent)
//	trav Bs Path Bind                WhereIDs(Bs).TraverseTo(Path[0])...; 'c' = children, 'p' = parents
type Op struct {
	Kind string `json:"kind"`
	A    int    `json:"a,omitempty"`
	B    int    `json:"b,omitempty"`
	Bs   []int  `json:"bs,omitempty"`
	Path string `json:"path,omitempty"`
	Bind bool   `json:"bind,omitempty"`
}

type Script struct {
	IDs []IDSpec `json:"ids"`
	Ops []Op     `json:"ops"`
	// FailRelIndex: the scan that populates the relationship indexes when the ontology is opened
	// is refused by the store; the indexes stay invalid and every lookup that would use them
	// falls back to scanning the relationship table.
	FailRelIndex bool `json:"fail_rel_index,omitempty"`
}

var (
	poolTypes = []string{"t", "t", "t", "t", "tt", "b"}
	poolKeys  = []string{"1", "10", "11", "100", "101", "a", "ab", "abc", "b:1"}
)

// ---------------------------------------------------------------- model

type edge [2]int

type model struct {
	res   map[int]bool
	edges map[edge]bool // relationships of type parent (the type the traversals follow)
	other map[edge]bool // relationships of a second type: they count for acyclicity, not for traversals
}

func newModel() *model {
	return &model{res: map[int]bool{}, edges: map[edge]bool{}, other: map[edge]bool{}}
}

func (m *model) clone() *model {
	c := newModel()
	for k := range m.res {
		c.res[k] = true
	}
	for k := range m.edges {
		c.edges[k] = true
	}
	for k := range m.other {
		c.other[k] = true
	}
	return c
}

// kids: successors along relationships of either type (what the cycle check looks at).
func (m *model) kids(a int) []int {
	seen := map[int]bool{}
	for e := range m.edges {
		if e[0] == a {
			seen[e[1]] = true
		}
	}
	for e := range m.other {
		if e[0] == a {
			seen[e[1]] = true
		}
	}
	var out []int
	for k := range seen {
		out = append(out, k)
	}
	sort.Ints(out)
	return out
}

func (m *model) children(a int) []int {
	var out []int
	for e := range m.edges {
		if e[0] == a {
			out = append(out, e[1])
		}
	}
	sort.Ints(out)
	return out
}

func (m *model) parents(a int) []int {
	var out []int
	for e := range m.edges {
		if e[1] == a {
			out = append(out, e[0])
		}
	}
	sort.Ints(out)
	return out
}

// reach reports whether dst is reachable from src along >= 0 edges (plain DFS).
func (m *model) reach(src, dst int) bool {
	seen := map[int]bool{}
	var dfs func(int) bool
	dfs = func(x int) bool {
		if x == dst {
			return true
		}
		if seen[x] {
			return false
		}
		seen[x] = true
		for _, c := range m.kids(x) {
			if dfs(c) {
				return true
			}
		}
		return false
	}
	return dfs(src)
}

// descendants returns every node reachable from src along >= 1 edges.
func (m *model) descendants(src int) []int {
	seen := map[int]bool{}
	var dfs func(int)
	dfs = func(x int) {
		for _, c := range m.children(x) {
			if !seen[c] {
				seen[c] = true
				dfs(c)
			}
		}
	}
	dfs(src)
	var out []int
	for k := range seen {
		out = append(out, k)
	}
	sort.Ints(out)
	return out
}

// acyclic verifies the model graph by three-colour DFS (internal consistency of the oracle).
func (m *model) acyclic() bool {
	col := map[int]int{}
	var dfs func(int) bool
	dfs = func(x int) bool {
		col[x] = 1
		for _, c := range m.kids(x) {
			if col[c] == 1 {
				return false
			}
			if col[c] == 0 && !dfs(c) {
				return false
			}
		}
		col[x] = 2
		return true
	}
	for e := range m.edges {
		if col[e[0]] == 0 && !dfs(e[0]) {
			return false
		}
	}
	for e := range m.other {
		if col[e[0]] == 0 && !dfs(e[0]) {
			return false
		}
	}
	return true
}

func (m *model) deleteResource(a int) (incident int) {
	for e := range m.edges {
		if e[0] == a || e[1] == a {
			delete(m.edges, e)
			incident++
		}
	}
	for e := range m.other {
		if e[0] == a || e[1] == a {
			delete(m.other, e)
			incident++
		}
	}
	delete(m.res, a)
	return
}

func (m *model) resList() []int {
	var out []int
	for k := range m.res {
		out = append(out, k)
	}
	sort.Ints(out)
	return out
}

func (m *model) edgeList() []edge {
	var out []edge
	for e := range m.edges {
		out = append(out, e)
	}
	sort.Slice(out, func(i, j int) bool {
		if out[i][0] != out[j][0] {
			return out[i][0] < out[j][0]
		}
		return out[i][1] < out[j][1]
	})
	return out
}

// ---------------------------------------------------------------- generator

type genState struct {
	n         int
	committed *model
	cur       *model // == committed outside a transaction
	inTx      bool
}

// rapid's integer draws are biased towards small values (and shrink towards them), so every
// choice below lists the common / simple alternative first and the rare one last.

// rare is true with probability of roughly 1/k (somewhat less, because of that bias).
func rare(t *rapid.T, label string, k int) bool {
	return rapid.IntRange(0, k-1).Draw(t, label) == k-1
}

func weighted(pairs ...any) []string {
	var out []string
	for i := 0; i < len(pairs); i += 2 {
		for k := 0; k < pairs[i+1].(int); k++ {
			out = append(out, pairs[i].(string))
		}
	}
	return out
}

var (
	kindTable = weighted("defrel", 36, "trav", 24, "defmany", 8, "delrel", 6, "tx", 9, "defres", 5, "delres", 5,
		"defmanyres", 2, "delmanyres", 2, "delout", 1, "delin", 1, "txstray", 1)
	edgeTable = weighted("acyclic", 8, "pair", 4, "close", 3, "reverse", 2, "self", 1, "again", 1, "any", 1)
)

func genScript(t *rapid.T) Script {
	var sc Script
	sc.FailRelIndex = rare(t, "fail-rel-index", 6)
	n := rapid.IntRange(3, 8).Draw(t, "nids")
	var pool []IDSpec
	for _, ty := range poolTypes {
		for _, k := range poolKeys {
			pool = append(pool, IDSpec{T: ty, K: k})
		}
	}
	seen := map[IDSpec]bool{}
	for len(sc.IDs) < n {
		i := rapid.IntRange(0, len(pool)-1).Draw(t, "id")
		for seen[pool[i]] {
			i = (i + 1) % len(pool)
		}
		seen[pool[i]] = true
		sc.IDs = append(sc.IDs, pool[i])
	}
	g := &genState{n: n, committed: newModel()}
	g.cur = g.committed
	anyID := func(label string) int { return rapid.IntRange(0, n-1).Draw(t, label) }
	existing := func(label string) int {
		l := g.cur.resList()
		if len(l) == 0 || rare(t, label+"-any", 12) {
			return anyID(label)
		}
		return rapid.SampledFrom(l).Draw(t, label)
	}
	subset := func(label string, lo, hi int, pick func(string) int) []int {
		k := rapid.IntRange(lo, hi).Draw(t, label+"-n")
		out := []int{}
		for i := 0; i < k; i++ {
			out = append(out, pick(label))
		}
		return out
	}
	emit := func(op Op) {
		sc.Ops = append(sc.Ops, op)
		g.apply(op)
	}
	if !rare(t, "no-prelude", 6) {
		// most histories start with most resources defined, so that relationship ops meet existing endpoints
		op := Op{Kind: "defmanyres", Bs: []int{}}
		for i := 0; i < n; i++ {
			if !rare(t, "prelude-skip", 6) {
				op.Bs = append(op.Bs, i)
			}
		}
		if len(op.Bs) > 0 {
			emit(op)
		}
	}
	nops := rapid.IntRange(4, 60).Draw(t, "nops")
	for k := 0; k < nops; k++ {
		var op Op
		switch rapid.SampledFrom(kindTable).Draw(t, "kind") {
		case "tx":
			switch {
			case !g.inTx:
				op.Kind = "begin"
			case rare(t, "abort", 5):
				op.Kind = "abort"
				if rare(t, "commit-refused", 3) {
					op.Kind = "commitfail" // the storage engine refuses the commit: nothing may change
				}
			default:
				op.Kind = "commit"
			}
		case "txstray":
			op.Kind = rapid.SampledFrom([]string{"begin", "commit", "abort"}).Draw(t, "txop")
		case "defres":
			op.Kind, op.A = "defres", anyID("a")
		case "defmanyres":
			op.Kind, op.Bs = "defmanyres", subset("bs", 1, 4, anyID)
		case "delres":
			op.Kind, op.A = "delres", existing("a")
		case "delmanyres":
			op.Kind, op.Bs = "delmanyres", subset("bs", 1, 3, existing)
		case "defrel":
			op.Kind = "defrel"
			op.A, op.B = genEdge(t, g, existing)
			if rare(t, "other-type", 5) {
				op.Kind = "defrelm"
			}
		case "defmany":
			op.Kind = "defmany"
			op.A = existing("a")
			op.Bs = subset("bs", 1, 4, func(label string) int {
				b := existing(label)
				if b == op.A && !rare(t, "many-self", 8) {
					b = existing(label + "-again")
				}
				return b
			})
			if rare(t, "many-empty", 20) {
				op.Bs = []int{}
			}
			if len(op.Bs) > 0 && rare(t, "many-bad", 6) {
				// make one target an ancestor of (or equal to) the source
				var anc []int
				for _, r := range g.cur.resList() {
					if r != op.A && g.cur.reach(r, op.A) {
						anc = append(anc, r)
					}
				}
				anc = append(anc, op.A)
				op.Bs[rapid.IntRange(0, len(op.Bs)-1).Draw(t, "many-bad-at")] = rapid.SampledFrom(anc).Draw(t, "many-anc")
			}
		case "delrel":
			op.Kind = "delrel"
			if len(g.cur.other) > 0 && rare(t, "delrel-other-type", 4) {
				var ol []edge
				for e := range g.cur.other {
					ol = append(ol, e)
				}
				sort.Slice(ol, func(i, j int) bool { return ol[i][0] < ol[j][0] || (ol[i][0] == ol[j][0] && ol[i][1] < ol[j][1]) })
				e := rapid.SampledFrom(ol).Draw(t, "other-edge")
				op.Kind, op.A, op.B = "delrelm", e[0], e[1]
			} else if el := g.cur.edgeList(); len(el) > 0 && !rare(t, "delrel-any", 5) {
				e := rapid.SampledFrom(el).Draw(t, "edge")
				op.A, op.B = e[0], e[1]
			} else {
				op.A, op.B = anyID("a"), anyID("b")
			}
		case "delout":
			op.Kind, op.A = "delout", existing("a")
		case "delin":
			op.Kind, op.A = "delin", existing("a")
		default:
			op.Kind = "trav"
			hops := rapid.IntRange(1, 4).Draw(t, "hops")
			mode := rapid.SampledFrom([]string{"c", "p", "mixed"}).Draw(t, "dir")
			pick := existing
			if el := g.cur.edgeList(); len(el) > 0 && !rare(t, "start-anywhere", 4) {
				pick = func(label string) int { // a node that has an edge in the first direction of travel
					e := rapid.SampledFrom(el).Draw(t, label+"-edge")
					if mode == "p" {
						return e[1]
					}
					return e[0]
				}
			}
			op.Bs = subset("starts", 1, 3, pick)
			var sb strings.Builder
			for i := 0; i < hops; i++ {
				c := byte('c')
				if mode == "p" || (mode == "mixed" && rapid.Bool().Draw(t, "p")) {
					c = 'p'
				}
				sb.WriteByte(c)
			}
			op.Path = sb.String()
			op.Bind = rare(t, "bind", 4)
		}
		emit(op)
	}
	return sc
}

// genEdge draws the endpoints of a defrel so that every oracle branch is visited.
func genEdge(t *rapid.T, g *genState, existing func(string) int) (int, int) {
	el := g.cur.edgeList()
	kind := rapid.SampledFrom(edgeTable).Draw(t, "edge-kind")
	if len(el) == 0 && (kind == "close" || kind == "reverse" || kind == "again") {
		kind = "acyclic"
	}
	switch kind {
	case "acyclic": // an edge the oracle accepts (builds chains and diamonds)
		a := existing("a")
		var cand []int
		for _, b := range g.cur.resList() {
			if b != a && !g.cur.edges[edge{a, b}] && !g.cur.reach(b, a) {
				cand = append(cand, b)
			}
		}
		if len(cand) == 0 {
			return a, existing("b")
		}
		return a, rapid.SampledFrom(cand).Draw(t, "b-acyclic")
	case "close": // descendant -> ancestor (closes a cycle, possibly a long one)
		e := rapid.SampledFrom(el).Draw(t, "edge")
		d := g.cur.descendants(e[0])
		return d[len(d)-1-rapid.IntRange(0, len(d)-1).Draw(t, "desc")], e[0]
	case "reverse":
		e := rapid.SampledFrom(el).Draw(t, "edge")
		return e[1], e[0]
	case "again":
		e := rapid.SampledFrom(el).Draw(t, "edge")
		return e[0], e[1]
	case "self":
		a := existing("a")
		return a, a
	case "any":
		return rapid.IntRange(0, g.n-1).Draw(t, "a"), rapid.IntRange(0, g.n-1).Draw(t, "b")
	default:
		return existing("a"), existing("b")
	}
}

// apply advances the generator's copy of the model (used only to bias generation).
func (g *genState) apply(op Op) {
	m := g.cur
	switch op.Kind {
	case "begin":
		if !g.inTx {
			g.inTx, g.cur = true, g.committed.clone()
		}
	case "commit":
		if g.inTx {
			g.inTx, g.committed = false, g.cur
		}
	case "abort", "commitfail":
		if g.inTx {
			g.inTx, g.cur = false, g.committed
		}
	default:
		applyModel(m, op, nil)
	}
}

// ---------------------------------------------------------------- model transition (shared by generator and oracle)

type verdict struct {
	mustFail bool   // the real call must return an error
	why      string // class of the expected outcome
}

// applyModel computes the expected outcome of a mutating op and applies it to m.
func applyModel(m *model, op Op, rep *kit.Report) verdict {
	class := func(c string) {
		if rep != nil {
			rep.Class(c)
		}
	}
	switch op.Kind {
	case "defres":
		m.res[op.A] = true
	case "defmanyres":
		for _, b := range op.Bs {
			m.res[b] = true
		}
	case "delres":
		if !m.res[op.A] {
			class("delete-missing-resource")
		}
		if m.deleteResource(op.A) > 0 {
			class("delete-resource-with-edges")
		}
	case "delmanyres":
		for _, b := range op.Bs {
			if m.deleteResource(b) > 0 {
				class("delete-resource-with-edges")
			}
		}
	case "defrel":
		e := edge{op.A, op.B}
		switch {
		case m.edges[e]:
			class("defrel-existing-noop")
			return verdict{why: "existing"}
		case !m.res[op.A] || !m.res[op.B]:
			class("defrel-missing-endpoint")
			return verdict{mustFail: true, why: "missing-endpoint"}
		case op.A == op.B:
			class("defrel-self-loop")
			return verdict{mustFail: true, why: "self-loop"}
		case m.edges[edge{op.B, op.A}]:
			class("defrel-reverse-edge")
			return verdict{mustFail: true, why: "cycle"}
		case m.reach(op.B, op.A):
			class("defrel-long-cycle")
			if len(m.other) > 0 {
				only := &model{res: m.res, edges: m.edges, other: map[edge]bool{}}
				if !only.reach(op.B, op.A) {
					class("cycle-closed-through-a-relationship-of-another-type")
				}
			}
			return verdict{mustFail: true, why: "cycle"}
		default:
			m.edges[e] = true
			class("defrel-accepted")
			return verdict{why: "acyclic"}
		}
	case "defrelm":
		e := edge{op.A, op.B}
		switch {
		case m.other[e]:
			class("defrel-other-type-existing-noop")
			return verdict{why: "existing"}
		case !m.res[op.A] || !m.res[op.B]:
			return verdict{mustFail: true, why: "missing-endpoint"}
		case op.A == op.B:
			return verdict{mustFail: true, why: "self-loop"}
		case m.reach(op.B, op.A):
			class("defrel-other-type-cycle")
			return verdict{mustFail: true, why: "cycle"}
		default:
			m.other[e] = true
			class("defrel-other-type-accepted")
			if m.edges[e] {
				class("parallel-relationships-of-two-types")
			}
			return verdict{why: "acyclic"}
		}
	case "delrelm":
		delete(m.other, edge{op.A, op.B})
	case "defmany":
		if len(op.Bs) == 0 {
			class("defmany-empty")
			return verdict{why: "empty"}
		}
		if !m.res[op.A] {
			class("defmany-missing-endpoint")
			return verdict{mustFail: true, why: "missing-endpoint"}
		}
		for _, b := range op.Bs {
			if !m.res[b] {
				class("defmany-missing-endpoint")
				return verdict{mustFail: true, why: "missing-endpoint"}
			}
		}
		allExisting := true
		for _, b := range op.Bs {
			if !m.edges[edge{op.A, b}] {
				allExisting = false
			}
		}
		for _, b := range op.Bs {
			if b == op.A {
				class("defmany-self-loop")
				return verdict{mustFail: true, why: "self-loop"}
			}
		}
		for _, b := range op.Bs {
			if m.reach(b, op.A) {
				class("defmany-cycle")
				return verdict{mustFail: true, why: "cycle"}
			}
		}
		for _, b := range op.Bs {
			m.edges[edge{op.A, b}] = true
		}
		if allExisting {
			class("defmany-existing-noop")
			return verdict{why: "existing"}
		}
		class("defmany-accepted")
		return verdict{why: "acyclic"}
	case "delrel":
		if m.edges[edge{op.A, op.B}] {
			class("delrel-existing")
		} else {
			class("delrel-missing")
		}
		delete(m.edges, edge{op.A, op.B})
	case "delout":
		for e := range m.edges {
			if e[0] == op.A {
				delete(m.edges, e)
			}
		}
	case "delin":
		for e := range m.edges {
			if e[1] == op.A {
				delete(m.edges, e)
			}
		}
	}
	return verdict{}
}

// ---------------------------------------------------------------- system under test

type sample struct{ Key string }

var sampleSchema = zyn.Object(map[string]zyn.Schema{"key": zyn.String()})

type sampleService struct {
	observe.Noop[iter.Seq[ontology.Change]]
	typ ontology.ResourceType
}

var _ ontology.Service = (*sampleService)(nil)

func (s *sampleService) Type() ontology.ResourceType { return s.typ }
func (s *sampleService) Schema() zyn.Schema          { return sampleSchema }
func (s *sampleService) RetrieveResource(_ context.Context, key string, _ gorp.Tx) (ontology.Resource, error) {
	return ontology.NewResource(sampleSchema, ontology.ID{Type: s.typ, Key: key}, "empty", sample{Key: key}), nil
}

const parentOf = ontology.RelationshipTypeParentOf

// memberOf is a second relationship type (the ontology accepts any type string; core's own
// services use several): the graph has to stay acyclic over relationships of all types.
const memberOf = ontology.RelationshipType("member")

// refuseCommitDB wraps the key-value store: while armed, the Commit of a transaction opened on
// it returns an error and persists nothing.
type refuseCommitDB struct {
	kv.DB
	armed atomic.Bool
}

var errCommitRefused = stderrors.New("verif: commit refused by the key-value store")

func (d *refuseCommitDB) OpenTx() kv.Tx { return &refuseCommitTx{Tx: d.DB.OpenTx(), db: d} }

type refuseCommitTx struct {
	kv.Tx
	db *refuseCommitDB
}

func (t *refuseCommitTx) Commit(ctx context.Context, opts ...any) error {
	if t.db.armed.Load() {
		return errCommitRefused
	}
	return t.Tx.Commit(ctx, opts...)
}

type failRelPopulateDB struct {
	kv.DB
	armed atomic.Bool
	fired atomic.Bool
}

var errPopulate = stderrors.New("verif: populate scan refused")

func (f *failRelPopulateDB) OpenIterator(opts kv.IteratorOptions) (kv.Iterator, error) {
	if f.armed.Load() && strings.Contains(string(opts.LowerBound), "Relationship") && calledFrom("runPopulate") && f.armed.CompareAndSwap(true, false) {
		f.fired.Store(true)
		return nil, errPopulate
	}
	return f.DB.OpenIterator(opts)
}

func calledFrom(fn string) bool {
	pc := make([]uintptr, 48)
	frames := runtime.CallersFrames(pc[:runtime.Callers(2, pc)])
	for {
		fr, more := frames.Next()
		if strings.Contains(fr.Function, fn) {
			return true
		}
		if !more {
			return false
		}
	}
}

type sut struct {
	refuse *refuseCommitDB
	ctx   context.Context
	db    *gorp.DB
	otg   *ontology.Ontology
	ids   []ontology.ID
	index map[ontology.ID]int
	tx    gorp.Tx // nil interface outside a transaction
}

func (s *sut) id(i int) ontology.ID { return s.ids[i] }
func (s *sut) many(is []int) []ontology.ID {
	out := make([]ontology.ID, len(is))
	for k, i := range is {
		out[k] = s.ids[i]
	}
	return out
}

// view is the transaction reads go through: the open transaction or the DB itself.
func (s *sut) view() gorp.Tx {
	if s.tx != nil {
		return s.tx
	}
	return s.db
}

func (s *sut) writer() ontology.Writer { return s.otg.NewWriter(s.tx) }

func (s *sut) name(i int) string { return s.ids[i].String() }

// checkTables compares the raw relationship and resource tables, as seen through v, to m.
func (s *sut) checkTables(step int, what string, v gorp.Tx, m *model) error {
	var rels []ontology.Relationship
	if err := gorp.NewRetrieve[string, ontology.Relationship]().Entries(&rels).Exec(s.ctx, v); err != nil {
		return kit.Fail("scan-error", "step %d (%s): relationship table scan: %v", step, what, err)
	}
	got := map[edge]int{}
	gotOther := map[edge]int{}
	for _, r := range rels {
		f, okF := s.index[r.From]
		t, okT := s.index[r.To]
		if !okF || !okT || (r.Type != parentOf && r.Type != memberOf) {
			return kit.Fail("foreign-edge", "step %d (%s): relationship table holds %s which no operation defined", step, what, r.GorpKey())
		}
		if r.Type == memberOf {
			gotOther[edge{f, t}]++
			continue
		}
		got[edge{f, t}]++
	}
	for _, e := range sortedEdges(gotOther) {
		switch {
		case gotOther[e] > 1:
			return kit.Fail("duplicate-edge", "step %d (%s): relationship %s-member->%s stored %d times", step, what, s.name(e[0]), s.name(e[1]), gotOther[e])
		case !m.res[e[0]] || !m.res[e[1]]:
			return kit.Fail("dangling-edge", "step %d (%s): relationship %s-member->%s survives although an endpoint does not exist (resources: %s)", step, what, s.name(e[0]), s.name(e[1]), s.fmtRes(m))
		case !m.other[e]:
			return kit.Fail("extra-edge", "step %d (%s): relationship table holds %s-member->%s, model edges: %s", step, what, s.name(e[0]), s.name(e[1]), s.fmtEdges(m))
		}
	}
	for e := range m.other {
		if gotOther[e] == 0 {
			return kit.Fail("lost-edge", "step %d (%s): relationship %s-member->%s is gone from the table, model edges: %s", step, what, s.name(e[0]), s.name(e[1]), s.fmtEdges(m))
		}
	}
	for e, c := range got {
		if c > 1 {
			return kit.Fail("duplicate-edge", "step %d (%s): relationship %s->%s stored %d times", step, what, s.name(e[0]), s.name(e[1]), c)
		}
	}
	// order the reports so that the signature is stable: dangling first, then extra, then lost
	for _, e := range sortedEdges(got) {
		if !m.res[e[0]] || !m.res[e[1]] {
			return kit.Fail("dangling-edge", "step %d (%s): relationship %s->%s survives although an endpoint does not exist (resources: %s)", step, what, s.name(e[0]), s.name(e[1]), s.fmtRes(m))
		}
	}
	for _, e := range sortedEdges(got) {
		if !m.edges[e] {
			return kit.Fail("extra-edge", "step %d (%s): relationship table holds %s->%s, model edges: %s", step, what, s.name(e[0]), s.name(e[1]), s.fmtEdges(m))
		}
	}
	for _, e := range m.edgeList() {
		if got[e] == 0 {
			return kit.Fail("lost-edge", "step %d (%s): relationship %s->%s is gone from the table, model edges: %s", step, what, s.name(e[0]), s.name(e[1]), s.fmtEdges(m))
		}
	}
	var ress []ontology.Resource
	if err := gorp.NewRetrieve[string, ontology.Resource]().Entries(&ress).Exec(s.ctx, v); err != nil {
		return kit.Fail("scan-error", "step %d (%s): resource table scan: %v", step, what, err)
	}
	gotR := map[int]bool{}
	for _, r := range ress {
		if r.ID == ontology.RootID {
			continue
		}
		i, ok := s.index[r.ID]
		if !ok {
			return kit.Fail("foreign-resource", "step %d (%s): resource table holds %s", step, what, r.ID)
		}
		gotR[i] = true
	}
	for i := range s.ids {
		if gotR[i] != m.res[i] {
			return kit.Fail("resource-set-mismatch", "step %d (%s): resource %s stored=%v expected=%v", step, what, s.name(i), gotR[i], m.res[i])
		}
	}
	return nil
}

func sortedEdges(m map[edge]int) []edge {
	out := make([]edge, 0, len(m))
	for e := range m {
		out = append(out, e)
	}
	sort.Slice(out, func(i, j int) bool {
		if out[i][0] != out[j][0] {
			return out[i][0] < out[j][0]
		}
		return out[i][1] < out[j][1]
	})
	return out
}

func (s *sut) fmtEdges(m *model) string {
	var p []string
	for _, e := range m.edgeList() {
		p = append(p, s.name(e[0])+"->"+s.name(e[1]))
	}
	var o []string
	for e := range m.other {
		o = append(o, s.name(e[0])+"-member->"+s.name(e[1]))
	}
	sort.Strings(o)
	p = append(p, o...)
	return "[" + strings.Join(p, " ") + "]"
}

func (s *sut) fmtRes(m *model) string {
	var p []string
	for _, r := range m.resList() {
		p = append(p, s.name(r))
	}
	return "[" + strings.Join(p, " ") + "]"
}

func (s *sut) fmtSet(set map[int]bool) string {
	var is []int
	for i := range set {
		is = append(is, i)
	}
	sort.Ints(is)
	var p []string
	for _, i := range is {
		p = append(p, s.name(i))
	}
	return "[" + strings.Join(p, " ") + "]"
}

// traverse runs one traversal query and compares it with the model's hop-by-hop search.
func (s *sut) traverse(step int, op Op, m *model, rep *kit.Report) error {
	if len(op.Bs) == 0 || len(op.Path) == 0 {
		return nil
	}
	// model
	cur := map[int]bool{}
	missingStart := false
	for _, b := range op.Bs {
		cur[b] = true
		if !m.res[b] {
			missingStart = true
		}
	}
	emptyHop, dupHop := false, false
	var hopSets []map[int]bool // hopSets[i] = the set clause i selects (clause 0 = the start set)
	for _, c := range []byte(op.Path) {
		hopSets = append(hopSets, cur)
		next := map[int]bool{}
		for x := range cur {
			var nb []int
			if c == 'p' {
				nb = m.parents(x)
			} else {
				nb = m.children(x)
			}
			for _, y := range nb {
				if next[y] {
					dupHop = true
				}
				next[y] = true
			}
		}
		cur = next
		if len(cur) == 0 {
			emptyHop = true
		}
	}
	// real
	q := s.writer().NewRetrieve().WhereIDs(s.many(op.Bs)...)
	var inter [][]ontology.Resource
	if op.Bind {
		inter = make([][]ontology.Resource, len(op.Path))
	}
	for i, c := range []byte(op.Path) {
		if op.Bind {
			q = q.Entries(&inter[i])
		}
		if c == 'p' {
			q = q.TraverseTo(ontology.ParentsTraverser)
		} else {
			q = q.TraverseTo(ontology.ChildrenTraverser)
		}
	}
	var res []ontology.Resource
	err := q.Entries(&res).Exec(s.ctx, s.tx)
	what := fmt.Sprintf("traverse %s from %v bind=%v", op.Path, s.fmtSet(setOf(op.Bs)), op.Bind)
	rep.Class("trav")
	if len(op.Path) > 1 {
		rep.Class("trav-multi-hop")
	}
	if dupHop {
		rep.Class("trav-diamond")
	}
	if len(cur) > 0 {
		rep.Class("trav-nonempty")
	}
	if err != nil {
		if errors.Is(err, query.ErrNotFound) && missingStart {
			rep.Class("trav-missing-start-notfound")
			return nil
		}
		if errors.Is(err, query.ErrNotFound) && emptyHop {
			rep.Class("trav-empty-notfound")
			return nil
		}
		return kit.Fail("traversal-error", "step %d (%s): error %v; the model expects %s; edges %s", step, what, err, s.fmtSet(cur), s.fmtEdges(m))
	}
	if missingStart {
		rep.Class("trav-missing-start-ok")
	}
	got := map[int]bool{}
	for _, r := range res {
		i, ok := s.index[r.ID]
		if !ok || !m.res[i] {
			return kit.Fail("traversal-returned-missing", "step %d (%s): returned %s which does not exist", step, what, r.ID)
		}
		got[i] = true
	}
	if op.Bind && !missingStart {
		for i := range inter {
			gotI := map[int]bool{}
			for _, r := range inter[i] {
				j, ok := s.index[r.ID]
				if !ok || !m.res[j] {
					return kit.Fail("traversal-returned-missing", "step %d (%s): clause %d returned %s which does not exist", step, what, i, r.ID)
				}
				gotI[j] = true
			}
			if !sameSet(gotI, hopSets[i]) {
				return kit.Fail("traversal-mismatch", "step %d (%s): clause %d returned %s, the model's search gives %s; resources %s edges %s", step, what, i, s.fmtSet(gotI), s.fmtSet(hopSets[i]), s.fmtRes(m), s.fmtEdges(m))
			}
		}
		rep.Class("trav-bound-intermediate")
	}
	if !sameSet(got, cur) {
		return kit.Fail("traversal-mismatch", "step %d (%s): returned %s, the model's search gives %s; resources %s edges %s", step, what, s.fmtSet(got), s.fmtSet(cur), s.fmtRes(m), s.fmtEdges(m))
	}
	return nil
}

func setOf(is []int) map[int]bool {
	m := map[int]bool{}
	for _, i := range is {
		m[i] = true
	}
	return m
}

func sameSet(a, b map[int]bool) bool {
	if len(a) != len(b) {
		return false
	}
	for k := range a {
		if !b[k] {
			return false
		}
	}
	return true
}

// ---------------------------------------------------------------- executor

func execute(sc Script, rep *kit.Report) (ret error) {
	if len(sc.IDs) == 0 {
		rep.Discard("no-ids")
		return nil
	}
	ctx := context.Background()
	s := &sut{ctx: ctx, index: map[ontology.ID]int{}}
	for _, spec := range sc.IDs {
		id := ontology.ID{Type: ontology.ResourceType(spec.T), Key: spec.K}
		if _, dup := s.index[id]; dup || id.Validate() != nil || strings.Contains(spec.T, ":") {
			rep.Discard("bad-ids")
			return nil
		}
		s.index[id] = len(s.ids)
		s.ids = append(s.ids, id)
	}
	n := len(s.ids)
	norm := func(i int) int { return ((i % n) + n) % n }
	failPop := &failRelPopulateDB{DB: memkv.New()}
	failPop.armed.Store(sc.FailRelIndex)
	s.refuse = &refuseCommitDB{DB: failPop}
	s.db = gorp.Wrap(s.refuse)
	otg, err := ontology.Open(ctx, ontology.Config{DB: s.db})
	if err != nil {
		_ = s.db.Close()
		return kit.Fail("setup", "ontology.Open: %v", err)
	}
	s.otg = otg
	if sc.FailRelIndex {
		// let the populate goroutine meet its refusal before the history starts
		for i := 0; i < 2000 && !failPop.fired.Load(); i++ {
			runtime.Gosched()
			if i > 100 {
				time.Sleep(50 * time.Microsecond)
			}
		}
		if failPop.fired.Load() {
			rep.Class("relationship-index-failed-to-populate")
		} else {
			rep.Class("relationship-index-populate-scan-not-seen")
		}
	}
	types := map[string]bool{}
	for _, spec := range sc.IDs {
		if !types[spec.T] {
			types[spec.T] = true
			otg.RegisterService(&sampleService{typ: ontology.ResourceType(spec.T)})
		}
	}
	defer func() {
		if s.tx != nil {
			_ = s.tx.Close()
		}
		e1 := otg.Close()
		e2 := s.db.Close()
		if ret == nil && (e1 != nil || e2 != nil) {
			ret = kit.Fail("close-error", "ontology close: %v, db close: %v", e1, e2)
		}
	}()

	committed := newModel()
	cur := committed
	prefixPair, cycleRejected, maxEdges := false, false, 0

	for step, op := range sc.Ops {
		op.A, op.B = norm(op.A), norm(op.B)
		bs := make([]int, len(op.Bs))
		for i, b := range op.Bs {
			bs[i] = norm(b)
		}
		op.Bs = bs
		what := s.describe(op)
		if s.tx != nil {
			rep.Class("op-in-tx")
		} else {
			rep.Class("op-direct")
		}
		switch op.Kind {
		case "begin":
			if s.tx != nil {
				continue
			}
			s.tx = s.db.OpenTx()
			cur = committed.clone()
			continue
		case "commit":
			if s.tx == nil {
				continue
			}
			err := s.tx.Commit(ctx)
			cerr := s.tx.Close()
			s.tx = nil
			if err != nil || cerr != nil {
				return kit.Fail("commit-error", "step %d: commit: %v close: %v", step, err, cerr)
			}
			committed = cur
			rep.Class("tx-commit")
			if err := s.checkTables(step, "after commit", s.db, committed); err != nil {
				return err
			}
			continue
		case "commitfail":
			if s.tx == nil {
				continue
			}
			s.refuse.armed.Store(true)
			cerr := s.tx.Commit(ctx)
			s.refuse.armed.Store(false)
			_ = s.tx.Close()
			s.tx = nil
			if cerr == nil {
				return kit.Fail("refused-commit-reported-success", "step %d: the key-value store refused the commit but Tx.Commit returned nil", step)
			}
			cur = committed
			rep.Class("tx-commit-refused")
			if err := s.checkTables(step, "after a refused commit", s.db, committed); err != nil {
				return err
			}
			continue
		case "abort":
			if s.tx == nil {
				continue
			}
			cerr := s.tx.Close()
			s.tx = nil
			if cerr != nil {
				return kit.Fail("abort-error", "step %d: close: %v", step, cerr)
			}
			if len(cur.edges) != len(committed.edges) || len(cur.res) != len(committed.res) {
				rep.Class("tx-abort-with-changes")
			}
			cur = committed
			rep.Class("tx-abort")
			if err := s.checkTables(step, "after abort", s.db, committed); err != nil {
				return err
			}
			continue
		case "trav":
			if err := s.traverse(step, op, cur, rep); err != nil {
				return err
			}
			continue
		}

		w := s.writer()
		before := cur.clone()
		v := applyModel(cur, op, rep)
		var err error
		switch op.Kind {
		case "defres":
			err = w.DefineResource(ctx, s.id(op.A))
		case "defmanyres":
			err = w.DefineManyResources(ctx, s.many(op.Bs))
		case "delres":
			err = w.DeleteResource(ctx, s.id(op.A))
		case "delmanyres":
			err = w.DeleteManyResources(ctx, s.many(op.Bs))
		case "defrel":
			err = w.DefineRelationship(ctx, s.id(op.A), parentOf, s.id(op.B))
		case "defrelm":
			err = w.DefineRelationship(ctx, s.id(op.A), memberOf, s.id(op.B))
		case "delrelm":
			err = w.DeleteRelationship(ctx, s.id(op.A), memberOf, s.id(op.B))
		case "defmany":
			err = w.DefineFromOneToManyRelationships(ctx, s.id(op.A), parentOf, s.many(op.Bs))
		case "delrel":
			err = w.DeleteRelationship(ctx, s.id(op.A), parentOf, s.id(op.B))
		case "delout":
			err = w.DeleteOutgoingRelationshipsOfType(ctx, s.id(op.A), parentOf)
		case "delin":
			err = w.DeleteIncomingRelationshipsOfType(ctx, s.id(op.A), parentOf)
		default:
			rep.Discard("unknown-op")
			return nil
		}
		state := fmt.Sprintf("resources %s edges %s", s.fmtRes(before), s.fmtEdges(before))
		switch {
		case v.why == "empty":
			// one-to-many with no targets: the statement does not say; accept either outcome, no change allowed
			if err != nil {
				rep.Class("defmany-empty-error")
			}
		case v.mustFail && err == nil:
			sig := map[string]string{"self-loop": "self-loop-accepted", "cycle": "cycle-accepted", "missing-endpoint": "missing-endpoint-accepted"}[v.why]
			return kit.Fail(sig, "step %d: %s returned nil but must be refused (%s); %s", step, what, v.why, state)
		case !v.mustFail && err != nil:
			sig := "op-error"
			if op.Kind == "defrel" || op.Kind == "defmany" || op.Kind == "defrelm" {
				sig = "refused-acyclic-edge"
				if v.why == "existing" {
					sig = "refused-existing-edge"
				}
			}
			return kit.Fail(sig, "step %d: %s returned %v but must succeed (%s); %s", step, what, err, v.why, state)
		}
		if v.why == "cycle" {
			cycleRejected = true
		}
		if !cur.acyclic() {
			return kit.Fail("harness-model-cyclic", "step %d: the reference model became cyclic (harness error)", step)
		}
		if err := s.checkTables(step, "after "+what, s.view(), cur); err != nil {
			return err
		}
		if len(cur.edges) > maxEdges {
			maxEdges = len(cur.edges)
		}
		if !prefixPair {
			prefixPair = s.hasPrefixPair(cur)
			if prefixPair {
				rep.Class("prefix-pair-both-outgoing")
			}
		}
	}
	if s.tx != nil {
		cerr := s.tx.Close()
		s.tx = nil
		if cerr != nil {
			return kit.Fail("abort-error", "final close: %v", cerr)
		}
		rep.Class("tx-left-open-aborted")
		if err := s.checkTables(len(sc.Ops), "after final abort", s.db, committed); err != nil {
			return err
		}
	}
	rep.Add("ops", int64(len(sc.Ops)))
	rep.Add("max_edges", int64(maxEdges))
	if cycleRejected {
		rep.Class("cycle-rejected")
	}
	if prefixPair && cycleRejected {
		rep.Nontrivial()
	}
	return nil
}

// hasPrefixPair: two identifiers, one "Type:Key" string a strict prefix of the other, both with outgoing edges.
func (s *sut) hasPrefixPair(m *model) bool {
	out := map[int]bool{}
	for e := range m.edges {
		out[e[0]] = true
	}
	for a := range out {
		for b := range out {
			if a != b && strings.HasPrefix(s.name(b), s.name(a)) {
				return true
			}
		}
	}
	return false
}

func (s *sut) describe(op Op) string {
	switch op.Kind {
	case "defres", "delres", "delout", "delin":
		return fmt.Sprintf("%s(%s)", op.Kind, s.name(op.A))
	case "defrel", "delrel", "defrelm", "delrelm":
		return fmt.Sprintf("%s(%s -> %s)", op.Kind, s.name(op.A), s.name(op.B))
	case "defmany":
		return fmt.Sprintf("defmany(%s -> %s)", s.name(op.A), s.fmtList(op.Bs))
	case "defmanyres", "delmanyres":
		return fmt.Sprintf("%s(%s)", op.Kind, s.fmtList(op.Bs))
	}
	return op.Kind
}

func (s *sut) fmtList(is []int) string {
	var p []string
	for _, i := range is {
		p = append(p, s.name(i))
	}
	return "[" + strings.Join(p, " ") + "]"
}

// ---------------------------------------------------------------- process supervision
//
// Unbounded recursion in the code under test ends in "fatal error: stack overflow", which
// kills the process and cannot be recovered. So that such a case still becomes a violation
// with a replay file, TestC16 re-executes the test binary as a child that records the script
// it is about to run; if the child dies, the parent reports that script through the kit.

const (
	envChild    = "VERIF_C16_CHILD"
	envInflight = "VERIF_C16_INFLIGHT"
)

type capWriter struct {
	buf bytes.Buffer
	max int
}

func (c *capWriter) Write(p []byte) (int, error) {
	if room := c.max - c.buf.Len(); room > 0 {
		if len(p) > room {
			c.buf.Write(p[:room])
		} else {
			c.buf.Write(p)
		}
	}
	return len(p), nil
}

var frameRe = regexp.MustCompile(`(?m)^github\.com/synnaxlabs/[^\s(]*ontology\.[^\s(]+`)

func supervise(t *testing.T) {
	runtime.LockOSThread() // Pdeathsig is bound to the forking thread
	defer runtime.UnlockOSThread()
	dir := os.Getenv("VERIF_OUT")
	if dir == "" {
		dir = t.TempDir()
	}
	inflight := filepath.Join(dir, fmt.Sprintf("TestC16.%s.inflight.json", os.Getenv("VERIF_SHARD")))
	_ = os.Remove(inflight)
	cmd := exec.Command(os.Args[0], os.Args[1:]...)
	cmd.Env = append(os.Environ(), envChild+"=1", envInflight+"="+inflight)
	cw := &capWriter{max: 1 << 20}
	cmd.Stdout = io.MultiWriter(os.Stdout, cw)
	cmd.Stderr = cmd.Stdout
	cmd.SysProcAttr = &syscall.SysProcAttr{Pdeathsig: syscall.SIGKILL}
	err := cmd.Run()
	if err == nil {
		_ = os.Remove(inflight)
		return
	}
	out := cw.buf.String()
	code := -1
	var ee *exec.ExitError
	if stderrors.As(err, &ee) {
		code = ee.ExitCode()
	}
	fatalAt := strings.Index(out, "fatal error: ")
	if code == 1 || fatalAt < 0 || strings.Contains(out, "test timed out") {
		// ordinary test failure (the child wrote its own statistics and replay), or inconclusive
		t.Fatalf("child process: %v", err)
	}
	b, rerr := os.ReadFile(inflight)
	var sc Script
	if rerr != nil || json.Unmarshal(b, &sc) != nil {
		t.Fatalf("child process died (%v) and no in-flight script was recorded", err)
	}
	line := out[fatalAt:]
	if i := strings.IndexByte(line, '\n'); i >= 0 {
		line = line[:i]
	}
	sig := "process-crash"
	if strings.Contains(line, "stack overflow") {
		sig = "crash-stack-overflow"
	}
	seen := map[string]bool{}
	var frames []string
	for _, f := range frameRe.FindAllString(out[fatalAt:], -1) {
		if !seen[f] && len(frames) < 6 {
			seen[f] = true
			frames = append(frames, f[strings.LastIndex(f, "/")+1:])
		}
	}
	msg := fmt.Sprintf("the process died with %q while executing the script; frames: %s", line, strings.Join(frames, " <- "))
	r := &kit.Runner[Script]{Name: "TestC16", Exec: func(Script, *kit.Report) error { return kit.Fail(sig, "%s", msg) }}
	r.RunScripts(t, []Script{sc})
}

func TestC16(t *testing.T) {
	if os.Getenv(envChild) == "" && os.Getenv("VERIF_C16_NOFORK") == "" {
		supervise(t)
		return
	}
	debug.SetMaxStack(64 << 20) // legitimate recursion here is a few frames deep; fail fast on runaway recursion
	inflight := os.Getenv(envInflight)
	r := &kit.Runner[Script]{Name: "TestC16", Exec: func(sc Script, rep *kit.Report) error {
		if inflight != "" {
			if b, err := json.Marshal(sc); err == nil {
				_ = os.WriteFile(inflight, b, 0o644)
			}
		}
		return execute(sc, rep)
	}}
	r.Run(t, genScript)
}
