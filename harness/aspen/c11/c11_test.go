// C11 — node keys are unique under concurrent joins and juror failures.
//
// Every member of the simulated cluster runs the real pledge.Arbitrate (coordinator and juror
// logic) behind harness-owned freighter transports. The cluster itself is built by real pledges
// starting from the bootstrap node (key 1), so that every juror's approval memory is the one
// production would hold. Membership views move only the way production moves them:
//
//   - a node that has just been admitted knows only itself (cluster.Open: SetHost);
//   - its first gossip exchange with a peer (cluster.gossipInitialState) gives it the peer's
//     view and gives the peer the new node; the last message of the exchange may be lost
//     (script option), in which case only the initiator learns;
//   - later `learn` steps are gossip exchanges i->j between members where i knows j;
//   - `converge` is gossip having run to a fixed point.
//
// Nothing else changes a view: in particular the coordinator of a pledge does NOT learn about
// the node it admitted (production: it learns by gossip only).
//
// TestC11 ("driven"): coordinators are started by calling a member's bound handler with
// Request{Key: 0}; every juror request blocks inside the harness transport until the script's
// scheduler picks it (deliver / deliver but lose the reply / drop; requests abandoned by the
// coordinator stay deliverable: late delivery). The quorum sample in buildQuorum is random, so
// the schedule is quasi-deterministic: the observed history is part of every violation message.
//
// TestC11Pledge ("free"): the cluster is built the same way, then k real pledge.Pledge calls
// (timers, retries, peer rotation, BlazingFastConfig) run concurrently against a transport
// that injects faults by request ordinal.
package verif_c11_test

import (
	"context"
	"errors"
	"fmt"
	"os"
	"path/filepath"
	"runtime"
	"sort"
	"strconv"
	"strings"
	"sync"
	"testing"
	"time"

	"github.com/google/uuid"
	"github.com/synnaxlabs/aspen/internal/cluster/pledge"
	"github.com/synnaxlabs/aspen/internal/node"
	kit "github.com/synnaxlabs/aspen/internal/verifkit"
	"github.com/synnaxlabs/freighter"
	"github.com/synnaxlabs/x/address"
	"pgregory.net/rapid"
)

// ---------------------------------------------------------------- script

type Op struct {
	Kind string `json:"kind"` // start | step | learn | converge | run
	Via  int    `json:"via,omitempty"`
	Peer int    `json:"peer,omitempty"`
	Lost bool   `json:"lost,omitempty"`
	Pick int    `json:"pick,omitempty"`
	Act  string `json:"act,omitempty"` // deliver | lose | drop
	I    int    `json:"i,omitempty"`
	J    int    `json:"j,omitempty"`
}

type PSpec struct {
	Peers    []int `json:"peers"`
	JoinPeer int   `json:"join_peer,omitempty"`
	Lost     bool  `json:"lost,omitempty"`
}

type Script struct {
	MaxProposals int  `json:"max_proposals"`
	LoseAck2     bool `json:"lose_ack2,omitempty"`  // gossip exchanges may lose their last message
	DeferJoin    bool `json:"defer_join,omitempty"` // a new node's first gossip is a generated step, not immediate
	Ops          []Op `json:"ops"`
	// free (pledge.Pledge) variant only
	Pledges []PSpec  `json:"pledges,omitempty"`
	JFaults []string `json:"jfaults,omitempty"` // per juror request ordinal: "", drop, hang, lose, late
	CFaults []string `json:"cfaults,omitempty"` // per coordinator request ordinal: "", unreachable, lose
}

var genStarted bool

func genHeader(t *rapid.T) Script {
	genStarted = true
	sc := Script{
		MaxProposals: rapid.SampledFrom([]int{10, 1, 2, 3, 4, 6}).Draw(t, "max_proposals"),
		LoseAck2:     rapid.IntRange(0, 3).Draw(t, "lose_ack2") == 3,
		DeferJoin:    rapid.IntRange(0, 5).Draw(t, "defer_join") == 5,
	}
	// C11_RELAX restricts which departures from prompt, lossless gossip are generated:
	// none = views lag only; lost = additionally lost last gossip messages; default: all.
	switch os.Getenv("C11_RELAX") {
	case "none":
		sc.LoseAck2, sc.DeferJoin = false, false
	case "lost":
		sc.DeferJoin = false
	}
	return sc
}

func genLearn(t *rapid.T) Op {
	return Op{Kind: "learn", I: rapid.IntRange(0, 7).Draw(t, "i"), J: rapid.IntRange(0, 7).Draw(t, "j"),
		Lost: rapid.IntRange(0, 2).Draw(t, "lost") == 2}
}

func genStart(t *rapid.T, hi int) Op {
	return Op{Kind: "start", Via: rapid.IntRange(0, hi).Draw(t, "via"), Peer: rapid.IntRange(0, hi).Draw(t, "peer"),
		Lost: rapid.IntRange(0, 2).Draw(t, "lost") == 2}
}

// genSetup grows the cluster to (at most) m members by sequential fault-free pledges with
// generated gossip in between.
func genSetup(t *rapid.T, m int) []Op {
	var ops []Op
	for i := 1; i < m; i++ {
		ops = append(ops, genStart(t, i-1), Op{Kind: "run"})
		switch rapid.IntRange(0, 5).Draw(t, "after") {
		case 0, 1:
			ops = append(ops, Op{Kind: "converge"})
		case 2:
			ops = append(ops, genLearn(t))
		case 3:
			ops = append(ops, Op{Kind: "learn", I: i, J: rapid.IntRange(0, i).Draw(t, "j")})
		case 4:
			ops = append(ops, genLearn(t), genLearn(t))
		}
	}
	return ops
}

func genScript(t *rapid.T) Script {
	sc := genHeader(t)
	m := rapid.IntRange(1, 5).Draw(t, "m")
	sc.Ops = genSetup(t, m)
	rounds := rapid.IntRange(1, 2).Draw(t, "rounds")
	for r := 0; r < rounds; r++ {
		k := rapid.IntRange(1, 4).Draw(t, "k")
		first := rapid.IntRange(1, k).Draw(t, "first")
		for i := 0; i < first; i++ {
			sc.Ops = append(sc.Ops, genStart(t, 7))
		}
		started := first
		n := rapid.IntRange(0, 30).Draw(t, "nsteps")
		for i := 0; i < n; i++ {
			x := rapid.IntRange(0, 11).Draw(t, "kind")
			switch {
			case x == 0 && started < k:
				sc.Ops = append(sc.Ops, genStart(t, 7))
				started++
			case x <= 8:
				sc.Ops = append(sc.Ops, Op{Kind: "step", Pick: rapid.IntRange(0, 7).Draw(t, "pick"),
					Act: rapid.SampledFrom([]string{"deliver", "deliver", "deliver", "deliver", "deliver", "drop", "lose", "drop"}).Draw(t, "act")})
			case x <= 10:
				sc.Ops = append(sc.Ops, genLearn(t))
			default:
				sc.Ops = append(sc.Ops, Op{Kind: "converge"})
			}
		}
		for ; started < k; started++ {
			sc.Ops = append(sc.Ops, genStart(t, 7))
		}
		if r+1 < rounds {
			sc.Ops = append(sc.Ops, Op{Kind: "run"})
			if rapid.Bool().Draw(t, "conv") {
				sc.Ops = append(sc.Ops, Op{Kind: "converge"})
			}
		}
	}
	return sc
}

func genPledgeScript(t *rapid.T) Script {
	sc := genHeader(t)
	m := rapid.IntRange(1, 4).Draw(t, "m")
	sc.Ops = genSetup(t, m)
	k := rapid.IntRange(1, 3).Draw(t, "k")
	for i := 0; i < k; i++ {
		sc.Pledges = append(sc.Pledges, PSpec{
			Peers:    rapid.SliceOfN(rapid.IntRange(0, 5), 1, 3).Draw(t, "peers"),
			JoinPeer: rapid.IntRange(0, 5).Draw(t, "join_peer"),
			Lost:     rapid.IntRange(0, 2).Draw(t, "lost") == 2,
		})
	}
	sc.MaxProposals = 10 // the default; small values livelock pledge.Pledge once keys are burnt (liveness, not C11)
	sc.JFaults = rapid.SliceOfN(rapid.SampledFrom([]string{"", "", "", "drop", "hang", "lose", "late"}), 0, 12).Draw(t, "jfaults")
	sc.CFaults = rapid.SliceOfN(rapid.SampledFrom([]string{"", "", "unreachable", "lose"}), 0, 4).Draw(t, "cfaults")
	return sc
}

// ---------------------------------------------------------------- simulation

type handlerFn = func(context.Context, pledge.Request) (pledge.Response, error)

var (
	errLost    = errors.New("verif: request or reply lost")
	errTimeout = errors.New("verif: watchdog")
)

type member struct {
	idx      int
	key      node.Key
	label    string
	addr     address.Address
	view     map[node.Key]bool
	handler  handlerFn
	admitted bool
	approved map[node.Key]int
}

type proposal struct {
	key       node.Key
	view      []node.Key
	approvers map[int]bool
}

// call is one coordinator invocation (one Request{Key: 0} handled by a member).
type call struct {
	id        int
	pledger   int
	coord     *member
	peer      int
	lost      bool
	startEv   int
	endEv     int
	done      bool
	processed bool
	res       pledge.Response
	err       error
	seq       int // number of candidate refreshes (= proposals begun)
	seenSeq   int
	viewAt    []node.Key
	regd      int // juror requests registered since the last refresh
	cur       *proposal
	props     []*proposal
	awaitNext bool
	awaitSeq  int
	awaitDone bool
}

type item struct {
	id       int
	c        *call
	prop     *proposal
	to       *member
	key      node.Key
	attached bool
	reply    chan error
}

type callKey struct{}

type sim struct {
	sc         Script
	rep        *kit.Report
	mu         sync.Mutex
	notify     chan struct{}
	ver        int64
	clusterKey uuid.UUID
	members    []*member
	byAddr     map[address.Address]*member
	holder     map[node.Key]*member   // first member admitted with a key
	grantOf    map[node.Key]*proposal // the approved proposal behind each admitted key
	calls      []*call
	gid2call   map[uint64]*call
	items      []*item
	nextItem   int
	events     []string
	violation  *kit.Violation
	free       bool
	nJur       int
	nCoord     int
	named      map[[2]int][]*call // (juror idx, key) -> calls whose proposal of that key reached the juror
	lastCall   map[int]*call      // free variant: pledger -> call whose grant it received
	usedLost   bool
	nonPrefix  bool // some member's view was, at some point, not a prefix of the admission order (+ itself)
	usedDefer  bool
	rootCtx    context.Context
	cancel     context.CancelFunc
	wg         sync.WaitGroup
	deadline   time.Time
}

func goid() uint64 {
	var buf [64]byte
	n := runtime.Stack(buf[:], false)
	f := strings.Fields(string(buf[:n]))
	if len(f) < 2 {
		return 0
	}
	id, _ := strconv.ParseUint(f[1], 10, 64)
	return id
}

func sortedKeys(v map[node.Key]bool) []node.Key {
	out := make([]node.Key, 0, len(v))
	for k := range v {
		out = append(out, k)
	}
	sort.Slice(out, func(i, j int) bool { return out[i] < out[j] })
	return out
}

func (s *sim) bump() {
	s.ver++
	select {
	case s.notify <- struct{}{}:
	default:
	}
}

// event appends to the history; caller holds s.mu.
func (s *sim) event(format string, args ...any) int {
	s.events = append(s.events, fmt.Sprintf(format, args...))
	return len(s.events) - 1
}

func (s *sim) history() string {
	var b strings.Builder
	for i, e := range s.events {
		fmt.Fprintf(&b, "%3d %s\n", i, e)
	}
	return b.String()
}

// fail records the first violation; caller holds s.mu.
func (s *sim) fail(sig, format string, args ...any) *kit.Violation {
	if s.violation == nil {
		s.violation = kit.Fail(sig, format, args...)
	}
	return s.violation
}

func (s *sim) relaxations() string {
	r := "lag-only"
	switch {
	case s.usedDefer:
		r = "deferred-join"
	case s.usedLost:
		r = "lost-ack2"
	}
	if !s.nonPrefix {
		r += "+prefix-views"
	}
	return r
}

// checkPrefix notes whether every view is still a prefix of the admission order plus the
// member itself; caller holds s.mu.
func (s *sim) checkPrefix() {
	for _, m := range s.members {
		gap := false
		for _, o := range s.members {
			if o == m || s.holder[o.key] != o {
				continue
			}
			if !m.view[o.key] {
				gap = true
			} else if gap {
				s.nonPrefix = true
				return
			}
		}
	}
}

// ---- transports

type server struct {
	freighter.Reporter
	m *member
}

func (sv *server) Use(...freighter.Middleware) {}
func (sv *server) BindHandler(h handlerFn)     { sv.m.handler = h }

type client struct {
	freighter.Reporter
	s       *sim
	pledger int // >= 0: client of a pledging node (free variant)
}

func (c *client) Use(...freighter.Middleware) {}
func (c *client) Send(ctx context.Context, target address.Address, req pledge.Request) (pledge.Response, error) {
	if req.Key == 0 {
		return c.s.sendPledge(ctx, c.pledger, target, req)
	}
	return c.s.sendJuror(ctx, target, req)
}

// candidates is Config.Candidates of member m. A call from the goroutine that runs a
// coordinator on m is responsible.refreshCandidates: the returned group is that proposal's view.
func (s *sim) candidates(m *member) node.Group {
	gid := goid()
	s.mu.Lock()
	defer s.mu.Unlock()
	g := node.Group{}
	for k := range m.view {
		g[k] = node.Node{Key: k, Address: s.holder[k].addr, State: node.StateHealthy}
	}
	if c := s.gid2call[gid]; c != nil && c.coord == m && !c.done {
		c.seq++
		c.viewAt = sortedKeys(m.view)
		c.regd = 0
		s.bump()
	}
	return g
}

func (s *sim) newMember(key node.Key) *member {
	m := &member{idx: len(s.members), key: key, view: map[node.Key]bool{}, approved: map[node.Key]int{}}
	m.addr = address.Address(fmt.Sprintf("a%d", m.idx))
	m.label = fmt.Sprintf("n%d", key)
	return m
}

func (s *sim) config(m *member, pledger int) pledge.Config {
	return pledge.Config{
		TransportClient: &client{s: s, pledger: pledger},
		TransportServer: &server{m: m},
		Candidates:      func() node.Group { return s.candidates(m) },
		MaxProposals:    s.sc.MaxProposals,
		RequestTimeout:  time.Hour,
		ClusterKey:      s.clusterKey,
	}
}

// install makes an admitted node a member; caller holds s.mu.
func (s *sim) install(m *member, key node.Key) {
	m.key = key
	m.label = fmt.Sprintf("n%d", key)
	if _, dup := s.holder[key]; dup {
		m.label += "'"
	} else {
		s.holder[key] = m
	}
	m.idx = len(s.members)
	m.view[key] = true
	m.admitted = true
	s.members = append(s.members, m)
	s.byAddr[m.addr] = m
}

func joined(m *member) bool { return m.idx == 0 || len(m.view) > 1 }

// gossip models one exchange initiated by i with j; caller holds s.mu.
func (s *sim) gossip(i, j *member, lost bool) {
	for k := range j.view {
		i.view[k] = true
	}
	tag := ""
	if lost {
		tag = " (last message lost)"
		s.usedLost = true
		s.rep.Class("lost-ack2")
	} else {
		for k := range i.view {
			j.view[k] = true
		}
	}
	s.checkPrefix()
	s.event("gossip %s->%s%s: %s=%v %s=%v", i.label, j.label, tag, i.label, sortedKeys(i.view), j.label, sortedKeys(j.view))
}

// admit runs the oracle on a successful pledge and installs the node; caller holds s.mu.
func (s *sim) admit(c *call, m *member, peer int, lost bool) *kit.Violation {
	key := c.res.Key
	if c.res.ClusterKey != s.clusterKey {
		return s.fail("wrong-cluster-key", "pledge through %s returned cluster key %v, the coordinator's is %v\nhistory:\n%s",
			c.coord.label, c.res.ClusterKey, s.clusterKey, s.history())
	}
	if other, dup := s.holder[key]; dup {
		if s.nonPrefix && os.Getenv("C11_ONLYPREFIX") != "" {
			s.rep.Class("violation-skipped-non-prefix-views")
			return nil // investigation aid: look only for violations in which all views were prefixes
		}
		s.event("admit %s' key=%d (c%d via %s) -- DUPLICATE", "n"+strconv.Itoa(int(key)), key, c.id, c.coord.label)
		kind, q1, q2 := "existing-member", "(none: bootstrap)", s.approverLabels(s.propOf(c))
		if g := s.grantOf[key]; g != nil {
			kind, q1 = "disjoint-quorums", s.approverLabels(g)
			for idx := range g.approvers {
				if p := s.propOf(c); p != nil && p.approvers[idx] {
					kind = "shared-juror"
				}
			}
		}
		return s.fail("duplicate-key:"+kind+":"+s.relaxations(),
			"key %d was handed out twice: call c%d through %s granted it although member %s (address %s) already holds it.\n"+
				"first grant approved by %s, second by %s (%s)\nconditions used: %s; max_proposals=%d\nhistory:\n%s",
			key, c.id, c.coord.label, other.label, other.addr, q1, q2, kind, s.relaxations(), s.sc.MaxProposals, s.history())
	}
	if key == 0 {
		return s.fail("zero-key", "pledge through %s succeeded with key 0\nhistory:\n%s", c.coord.label, s.history())
	}
	s.install(m, key)
	s.grantOf[key] = s.propOf(c)
	s.event("admit %s (c%d via %s)", m.label, c.id, c.coord.label)
	if !s.sc.DeferJoin && len(s.members) > 1 {
		p := s.members[peer%(len(s.members)-1)]
		s.gossip(m, p, lost && s.sc.LoseAck2)
	}
	return nil
}

func (s *sim) propOf(c *call) *proposal {
	for _, p := range c.props {
		if p.key == c.res.Key {
			return p
		}
	}
	return nil
}

func (s *sim) approverLabels(p *proposal) string {
	if p == nil {
		return "(unknown)"
	}
	var ls []string
	for _, m := range s.members {
		if p.approvers[m.idx] {
			ls = append(ls, m.label)
		}
	}
	return fmt.Sprintf("%v of view %v", ls, p.view)
}

// granted checks oracle (2) for a call that returned success; caller holds s.mu.
func (s *sim) granted(c *call) *kit.Violation {
	var prop *proposal
	for _, p := range c.props {
		if p.key == c.res.Key {
			prop = p
		}
	}
	if prop == nil {
		return s.fail("granted-without-quorum", "call c%d through %s granted key %d which it never proposed to any juror\nhistory:\n%s",
			c.id, c.coord.label, c.res.Key, s.history())
	}
	inView := map[node.Key]bool{}
	for _, k := range prop.view {
		inView[k] = true
	}
	n := 0
	for idx := range prop.approvers {
		if inView[s.members[idx].key] {
			n++
		}
	}
	if need := len(prop.view)/2 + 1; n < need {
		return s.fail("granted-without-quorum", "call c%d through %s granted key %d with %d approvals from its view %v; a majority is %d\nhistory:\n%s",
			c.id, c.coord.label, c.res.Key, n, prop.view, need, s.history())
	}
	return nil
}

// noteSend attributes a juror request to the current proposal of c; caller holds s.mu.
func (s *sim) noteSend(c *call, key node.Key) *proposal {
	if c.seenSeq != c.seq || c.cur == nil {
		c.seenSeq = c.seq
		c.cur = &proposal{key: key, view: c.viewAt, approvers: map[int]bool{}}
		c.props = append(c.props, c.cur)
		s.event("c%d proposes k=%d view=%v", c.id, key, c.viewAt)
		if len(c.props) > 1 {
			s.rep.Class("retry")
		}
		if len(c.viewAt) < len(s.members) {
			s.rep.Class("stale-coordinator-view")
		}
	}
	c.regd++
	return c.cur
}

// deliver invokes the juror's handler. Never called with s.mu held.
func (s *sim) deliver(ctx context.Context, it *item, how string) error {
	_, err := it.to.handler(ctx, pledge.Request{Key: it.key})
	s.mu.Lock()
	defer s.mu.Unlock()
	verdict := "approve"
	if err != nil {
		verdict = "reject"
		if !errors.Is(err, context.Canceled) && !errors.Is(err, context.DeadlineExceeded) {
			s.rep.Class("juror-reject")
		} else {
			verdict = "ctx-error"
		}
	}
	s.event("%s c%d k=%d @%s: %s", how, it.c.id, it.key, it.to.label, verdict)
	nk := [2]int{it.to.idx, int(it.key)}
	s.named[nk] = append(s.named[nk], it.c)
	if err == nil {
		it.to.approved[it.key]++
		it.prop.approvers[it.to.idx] = true
		if it.to.approved[it.key] > 1 {
			s.fail("juror-approved-twice", "juror %s approved key %d twice\nhistory:\n%s", it.to.label, it.key, s.history())
		}
	}
	return err
}

// ---- driven variant

func (s *sim) sendJuror(ctx context.Context, target address.Address, req pledge.Request) (pledge.Response, error) {
	c, _ := ctx.Value(callKey{}).(*call)
	s.mu.Lock()
	to := s.byAddr[target]
	if c == nil || to == nil {
		s.fail("harness", "juror request without call or to an unknown address %q", target)
		s.mu.Unlock()
		return pledge.Response{}, errLost
	}
	if s.free {
		s.mu.Unlock()
		return s.sendJurorFree(ctx, c, to, req)
	}
	it := &item{id: s.nextItem, c: c, to: to, key: req.Key, attached: true, reply: make(chan error, 1)}
	s.nextItem++
	it.prop = s.noteSend(c, req.Key)
	s.items = append(s.items, it)
	s.bump()
	s.mu.Unlock()
	select {
	case err := <-it.reply:
		return pledge.Response{}, err
	case <-ctx.Done():
		s.mu.Lock()
		it.attached = false
		s.bump()
		s.mu.Unlock()
		return pledge.Response{}, ctx.Err()
	}
}

func (s *sim) startCall(op Op) {
	s.mu.Lock()
	inflight := 0
	for _, c := range s.calls {
		if !c.done {
			inflight++
		}
	}
	if inflight >= 4 || len(s.members)+inflight >= 9 {
		s.mu.Unlock()
		return
	}
	coord := s.members[op.Via%len(s.members)]
	c := &call{id: len(s.calls), pledger: len(s.calls), coord: coord, peer: op.Peer, lost: op.Lost}
	s.calls = append(s.calls, c)
	c.startEv = s.event("start c%d via %s view=%v", c.id, coord.label, sortedKeys(coord.view))
	if !joined(coord) {
		s.usedDefer = true
		s.rep.Class("coordinator-before-first-gossip")
	}
	if inflight > 0 {
		s.rep.Class("concurrent-pledges")
	}
	s.mu.Unlock()
	s.wg.Add(1)
	go func() {
		defer s.wg.Done()
		gid := goid()
		s.mu.Lock()
		s.gid2call[gid] = c
		s.mu.Unlock()
		res, err := coord.handler(context.WithValue(s.rootCtx, callKey{}, c), pledge.Request{Key: 0})
		s.mu.Lock()
		delete(s.gid2call, gid)
		c.done, c.res, c.err = true, res, err
		if err == nil {
			c.endEv = s.event("c%d returns key=%d", c.id, res.Key)
		} else {
			c.endEv = s.event("c%d fails: %v", c.id, err)
		}
		s.bump()
		s.mu.Unlock()
	}()
}

// stable reports whether every coordinator in flight is blocked on registered juror requests
// (assuming the documented quorum size); caller holds s.mu.
func (s *sim) stable() bool {
	for _, c := range s.calls {
		if c.done {
			continue
		}
		if c.seq == 0 {
			return false
		}
		if c.awaitDone {
			if c.seq <= c.awaitSeq {
				return false
			}
			c.awaitDone = false
		}
		if c.awaitNext {
			if c.seq <= c.awaitSeq {
				return false
			}
			c.awaitNext = false
		}
		if c.regd < len(c.viewAt)/2+1 {
			return false
		}
	}
	return true
}

const settle = 40 * time.Millisecond

// waitStable waits for stability; after `settle` without any change it proceeds anyway (acting
// on a partially registered proposal is a legal schedule). Returns errTimeout at the case deadline.
func (s *sim) waitStable() error {
	last := int64(-1)
	var quietSince time.Time
	for {
		s.mu.Lock()
		ok, ver := s.stable(), s.ver
		s.mu.Unlock()
		if ok {
			return nil
		}
		now := time.Now()
		if now.After(s.deadline) {
			return errTimeout
		}
		if ver != last {
			last, quietSince = ver, now
		} else if now.Sub(quietSince) > settle {
			s.rep.Class("acted-before-stable")
			return nil
		}
		select {
		case <-s.notify:
		case <-time.After(5 * time.Millisecond):
		}
	}
}

// processDone admits the nodes of calls that returned successfully.
func (s *sim) processDone() *kit.Violation {
	s.mu.Lock()
	defer s.mu.Unlock()
	if s.violation != nil {
		return s.violation
	}
	for _, c := range s.calls {
		if !c.done || c.processed {
			continue
		}
		c.processed = true
		if c.err != nil {
			s.rep.Class("pledge-failed")
			continue
		}
		if v := s.granted(c); v != nil {
			return v
		}
		m := s.newMember(c.res.Key)
		m.addr = address.Address(fmt.Sprintf("a%d", len(s.members)))
		s.mu.Unlock()
		err := pledge.Arbitrate(s.config(m, -1))
		s.mu.Lock()
		if err != nil {
			return s.fail("harness", "Arbitrate: %v", err)
		}
		if v := s.admit(c, m, c.peer, c.lost); v != nil {
			return v
		}
	}
	return nil
}

func (s *sim) sortedItems() []*item {
	out := append([]*item(nil), s.items...)
	sort.SliceStable(out, func(a, b int) bool {
		x, y := out[a], out[b]
		if x.c.id != y.c.id {
			return x.c.id < y.c.id
		}
		if x.key != y.key {
			return x.key < y.key
		}
		return x.to.idx < y.to.idx
	})
	return out
}

func (s *sim) remove(it *item) {
	for i, x := range s.items {
		if x == it {
			s.items = append(s.items[:i], s.items[i+1:]...)
			return
		}
	}
}

// step applies one scheduler decision. pick < 0: first request a coordinator is waiting for.
func (s *sim) step(pick int, act string) {
	s.mu.Lock()
	items := s.sortedItems()
	var it *item
	if pick < 0 {
		for _, x := range items {
			if x.attached {
				it = x
				break
			}
		}
	} else if len(items) > 0 {
		it = items[pick%len(items)]
	}
	if it == nil {
		s.mu.Unlock()
		return
	}
	s.remove(it)
	attached := it.attached
	it.attached = false
	s.mu.Unlock()

	var err error
	switch {
	case act == "drop":
		s.mu.Lock()
		if attached {
			s.event("drop c%d k=%d ->%s", it.c.id, it.key, it.to.label)
			s.rep.Class("fault-drop")
		} else {
			s.event("discard abandoned c%d k=%d ->%s", it.c.id, it.key, it.to.label)
		}
		s.mu.Unlock()
		err = errLost
	case !attached:
		s.rep.Class("late-delivery")
		_ = s.deliver(context.Background(), it, "late-deliver")
		return
	case act == "lose":
		s.rep.Class("fault-lost-reply")
		_ = s.deliver(context.Background(), it, "deliver(reply lost)")
		err = errLost
	default:
		err = s.deliver(context.Background(), it, "deliver")
	}
	if !attached {
		return
	}
	s.mu.Lock()
	c := it.c
	if err != nil {
		c.awaitNext, c.awaitSeq = true, c.seq
	} else {
		left := 0
		for _, x := range s.items {
			if x.c == c && x.attached {
				left++
			}
		}
		if left == 0 && c.regd >= len(c.viewAt)/2+1 {
			c.awaitDone, c.awaitSeq = true, c.seq
		}
	}
	s.mu.Unlock()
	it.reply <- err
}

func (s *sim) allDone() bool {
	s.mu.Lock()
	defer s.mu.Unlock()
	for _, c := range s.calls {
		if !c.done {
			return false
		}
	}
	return true
}

// run delivers faithfully until no coordinator is in flight.
func (s *sim) run() (*kit.Violation, error) {
	for {
		if err := s.waitStable(); err != nil {
			return nil, err
		}
		if v := s.processDone(); v != nil {
			return v, nil
		}
		if s.allDone() {
			return nil, nil
		}
		s.step(-1, "deliver")
	}
}

func (s *sim) learn(op Op) {
	s.mu.Lock()
	defer s.mu.Unlock()
	n := len(s.members)
	i, j := s.members[op.I%n], s.members[op.J%n]
	if i == j {
		return
	}
	first := !joined(i)
	if !i.view[j.key] && !(first && j.idx < i.idx) {
		return // i does not know j's address
	}
	if s.holder[j.key] != j {
		return
	}
	s.gossip(i, j, op.Lost && s.sc.LoseAck2)
}

func (s *sim) converge() {
	s.mu.Lock()
	defer s.mu.Unlock()
	all := map[node.Key]bool{}
	for _, m := range s.members {
		if joined(m) {
			for k := range m.view {
				all[k] = true
			}
		}
	}
	// fixed point: a joined member that is known reaches everybody who knows it and vice versa.
	for _, m := range s.members {
		if joined(m) {
			for k := range all {
				m.view[k] = true
			}
		}
	}
	s.checkPrefix()
	s.event("converge: %v", sortedKeys(all))
}

func newSim(sc Script, rep *kit.Report) (*sim, error) {
	s := &sim{sc: sc, rep: rep, notify: make(chan struct{}, 1), clusterKey: uuid.New(),
		byAddr: map[address.Address]*member{}, holder: map[node.Key]*member{}, grantOf: map[node.Key]*proposal{}, gid2call: map[uint64]*call{},
		named: map[[2]int][]*call{}, lastCall: map[int]*call{}, deadline: time.Now().Add(20 * time.Second)}
	s.rootCtx, s.cancel = context.WithCancel(context.Background())
	boot := s.newMember(1)
	if err := pledge.Arbitrate(s.config(boot, -1)); err != nil {
		return nil, err
	}
	s.install(boot, 1) // cluster.Open bootstrap: SetHost{Key: 1}, Arbitrate
	return s, nil
}

// shutdown cancels everything and joins all goroutines.
func (s *sim) shutdown() bool {
	s.cancel()
	done := make(chan struct{})
	go func() { s.wg.Wait(); close(done) }()
	select {
	case <-done:
		return true
	case <-time.After(20 * time.Second):
		return false
	}
}

func (s *sim) runOps(ops []Op) (*kit.Violation, error) {
	for _, op := range ops {
		if err := s.waitStable(); err != nil {
			return nil, err
		}
		if v := s.processDone(); v != nil {
			return v, nil
		}
		switch op.Kind {
		case "start":
			s.startCall(op)
		case "step":
			s.step(op.Pick, op.Act)
		case "learn":
			s.learn(op)
		case "converge":
			s.converge()
		case "run":
			if v, err := s.run(); v != nil || err != nil {
				return v, err
			}
		}
	}
	return s.run()
}

// classify records the non-trivial rule and size classes at the end of a case.
func (s *sim) classify() {
	s.mu.Lock()
	defer s.mu.Unlock()
	s.rep.Class(fmt.Sprintf("members=%d", len(s.members)))
	contended := false
	for _, cs := range s.named {
		for a := 0; a < len(cs) && !contended; a++ {
			for b := a + 1; b < len(cs); b++ {
				x, y := cs[a], cs[b]
				if x.pledger != y.pledger && x.startEv < y.endEv && y.startEv < x.endEv {
					contended = true
					break
				}
			}
		}
	}
	if contended {
		s.rep.Class("same-key-contention")
		s.rep.NontrivialKey(strings.Join(s.events, "\n"))
	}
}

func finish(s *sim, rep *kit.Report, v *kit.Violation, err error) error {
	joinedAll := s.shutdown()
	if v != nil {
		writeHistory(s, v)
		return v
	}
	s.mu.Lock()
	v = s.violation
	s.mu.Unlock()
	if v != nil {
		writeHistory(s, v)
		return v
	}
	if err != nil {
		if os.Getenv("C11_DEBUG") != "" {
			s.mu.Lock()
			h := s.history()
			s.mu.Unlock()
			if len(h) > 6000 {
				h = h[:3000] + "\n...\n" + h[len(h)-3000:]
			}
			fmt.Fprintf(os.Stderr, "TIMEOUT case:\n%s\n", h)
		}
		rep.Discard("timeout")
		return nil
	}
	if !joinedAll {
		rep.Discard("timeout-join")
		return nil
	}
	s.classify()
	return nil
}

func writeHistory(s *sim, v *kit.Violation) {
	dir := os.Getenv("VERIF_OUT")
	if dir == "" {
		return
	}
	s.mu.Lock()
	defer s.mu.Unlock()
	_ = os.WriteFile(filepath.Join(dir, fmt.Sprintf("C11.%s.history.txt", os.Getenv("VERIF_SHARD"))), []byte(v.Error()), 0o644)
}

func executeDriven(sc Script, rep *kit.Report) error {
	if sc.MaxProposals < 1 {
		rep.Discard("bad-script")
		return nil
	}
	s, err := newSim(sc, rep)
	if err != nil {
		return kit.Fail("harness", "setup: %v", err)
	}
	v, rerr := s.runOps(sc.Ops)
	return finish(s, rep, v, rerr)
}

// ---- free variant (pledge.Pledge)

func (s *sim) sendJurorFree(ctx context.Context, c *call, to *member, req pledge.Request) (pledge.Response, error) {
	s.mu.Lock()
	it := &item{c: c, to: to, key: req.Key}
	it.prop = s.noteSend(c, req.Key)
	fault := ""
	if s.nJur < len(s.sc.JFaults) {
		fault = s.sc.JFaults[s.nJur]
	}
	s.nJur++
	s.mu.Unlock()
	switch fault {
	case "drop":
		s.rep.Class("fault-drop")
		s.mu.Lock()
		s.event("drop c%d k=%d ->%s", c.id, req.Key, to.label)
		s.mu.Unlock()
		return pledge.Response{}, errLost
	case "hang":
		s.rep.Class("fault-timeout")
		<-ctx.Done()
		s.mu.Lock()
		s.event("timeout c%d k=%d ->%s (never delivered)", c.id, req.Key, to.label)
		s.mu.Unlock()
		return pledge.Response{}, ctx.Err()
	case "lose":
		s.rep.Class("fault-lost-reply")
		_ = s.deliver(ctx, it, "deliver(reply lost)")
		return pledge.Response{}, errLost
	case "late":
		s.rep.Class("late-delivery")
		<-ctx.Done()
		_ = s.deliver(context.Background(), it, "late-deliver")
		return pledge.Response{}, ctx.Err()
	}
	return pledge.Response{}, s.deliver(ctx, it, "deliver")
}

func (s *sim) sendPledge(ctx context.Context, pledger int, target address.Address, req pledge.Request) (pledge.Response, error) {
	gid := goid()
	s.mu.Lock()
	to := s.byAddr[target]
	fault := ""
	if s.nCoord < len(s.sc.CFaults) {
		fault = s.sc.CFaults[s.nCoord]
	}
	s.nCoord++
	if to == nil || pledger < 0 {
		s.fail("harness", "pledge request from %d to unknown address %q", pledger, target)
		s.mu.Unlock()
		return pledge.Response{}, errLost
	}
	if fault == "unreachable" {
		s.event("pledger %d: %s unreachable", pledger, to.label)
		s.mu.Unlock()
		s.rep.Class("peer-unreachable")
		return pledge.Response{}, errLost
	}
	c := &call{id: len(s.calls), pledger: pledger, coord: to}
	s.calls = append(s.calls, c)
	c.startEv = s.event("start c%d (pledger %d) via %s view=%v", c.id, pledger, to.label, sortedKeys(to.view))
	s.gid2call[gid] = c
	for _, o := range s.calls {
		if !o.done && o.pledger != pledger {
			s.rep.Class("concurrent-pledges")
		}
	}
	if !joined(to) {
		s.usedDefer = true
		s.rep.Class("coordinator-before-first-gossip")
	}
	s.mu.Unlock()
	res, err := to.handler(context.WithValue(ctx, callKey{}, c), req)
	s.mu.Lock()
	defer s.mu.Unlock()
	delete(s.gid2call, gid)
	c.done, c.res, c.err = true, res, err
	if err != nil {
		c.endEv = s.event("c%d fails: %v", c.id, err)
		s.rep.Class("coordinator-call-failed")
		return res, err
	}
	c.endEv = s.event("c%d returns key=%d", c.id, res.Key)
	s.granted(c)
	if fault == "lose" {
		s.event("reply of c%d lost", c.id)
		s.rep.Class("grant-reply-lost")
		return pledge.Response{}, errLost
	}
	s.lastCall[pledger] = c
	return res, nil
}

func executeFree(sc Script, rep *kit.Report) error {
	if sc.MaxProposals < 1 {
		rep.Discard("bad-script")
		return nil
	}
	s, err := newSim(sc, rep)
	if err != nil {
		return kit.Fail("harness", "setup: %v", err)
	}
	v, rerr := s.runOps(sc.Ops)
	if v != nil || rerr != nil {
		return finish(s, rep, v, rerr)
	}
	s.mu.Lock()
	s.free = true
	s.event("--- free-running pledge.Pledge burst")
	base := append([]*member(nil), s.members...)
	s.mu.Unlock()
	ctx, cancel := context.WithTimeout(s.rootCtx, 2*time.Second)
	defer cancel()
	timedOut := false
	var tmu sync.Mutex
	for i, spec := range sc.Pledges {
		var peers []address.Address
		for _, p := range spec.Peers {
			peers = append(peers, base[p%len(base)].addr)
		}
		m := &member{view: map[node.Key]bool{}, approved: map[node.Key]int{}, label: fmt.Sprintf("pledger%d", i)}
		m.addr = address.Address(fmt.Sprintf("p%d", i))
		s.wg.Add(1)
		go func(i int, spec PSpec) {
			defer s.wg.Done()
			cfg := s.config(m, i)
			cfg.RequestTimeout, cfg.MaxProposals = 0, 0
			cfg.Peers = peers
			// a joining node does not know the cluster key (cluster.Open passes none): it
			// learns it from the response, and its own arbitrator must hand it on
			cfg.ClusterKey = uuid.Nil
			res, err := pledge.Pledge(ctx, cfg, pledge.BlazingFastConfig)
			if err != nil {
				tmu.Lock()
				timedOut = true
				tmu.Unlock()
				return
			}
			s.mu.Lock()
			defer s.mu.Unlock()
			c := s.lastCall[i]
			if c == nil || c.res.Key != res.Key {
				s.fail("harness", "pledger %d got key %d that no coordinator call returned to it", i, res.Key)
				return
			}
			c.res = res
			s.admit(c, m, spec.JoinPeer, spec.Lost)
		}(i, spec)
	}
	joinedAll := s.shutdownWait()
	if !joinedAll {
		return finish(s, rep, nil, errTimeout)
	}
	tmu.Lock()
	to := timedOut
	tmu.Unlock()
	if to {
		s.mu.Lock()
		v := s.violation
		s.mu.Unlock()
		return finish(s, rep, v, errTimeout)
	}
	// ---- chained join: one more node pledges through a node that itself joined by
	// pledging during the burst (its arbitrator was started by pledge.Pledge, not by the
	// harness). The response must carry the cluster's key and a fresh node key.
	s.mu.Lock()
	var via *member
	for _, m := range s.members {
		if m.admitted && m.handler != nil && strings.HasPrefix(string(m.addr), "p") {
			via = m
			break
		}
	}
	noViolation := s.violation == nil
	s.mu.Unlock()
	if via != nil && noViolation {
		i := len(sc.Pledges)
		m := &member{view: map[node.Key]bool{}, approved: map[node.Key]int{}, label: "chained-pledger"}
		m.addr = address.Address("p-chained")
		cctx, ccancel := context.WithTimeout(s.rootCtx, 2*time.Second)
		cfg := s.config(m, i)
		cfg.RequestTimeout, cfg.MaxProposals = 0, 0
		cfg.Peers = []address.Address{via.addr}
		cfg.ClusterKey = uuid.Nil
		res, perr := pledge.Pledge(cctx, cfg, pledge.BlazingFastConfig)
		ccancel()
		s.mu.Lock()
		if perr != nil {
			s.event("chained pledge through %s failed: %v", via.label, perr)
			s.rep.Class("chained-join-failed")
		} else if c := s.lastCall[i]; c != nil && c.res.Key == res.Key {
			c.res = res
			s.event("chained pledge through %s (which joined by pledging) returns key=%d", via.label, res.Key)
			s.rep.Class("chained-join")
			s.admit(c, m, 0, false)
		}
		s.mu.Unlock()
	}
	return finish(s, rep, nil, nil)
}

// shutdownWait joins the pledger goroutines without cancelling them first.
func (s *sim) shutdownWait() bool {
	done := make(chan struct{})
	go func() { s.wg.Wait(); close(done) }()
	select {
	case <-done:
		return true
	case <-time.After(15 * time.Second):
		return false
	}
}

// ---------------------------------------------------------------- quasi-determinism wrapper

var (
	memoMu         sync.Mutex
	memo           = map[uint64]*kit.Violation{}
	sawViolation   bool
	firstViolation time.Time
)

const shrinkBudget = 25 * time.Second

// attempt runs a script; a violation is remembered per script so that rapid's re-runs of the
// same script are consistent, and after the first violation (shrinking) or when replaying a
// file the script is tried several times, because the quorum sample is random.
func attempt(once func(Script, *kit.Report) error) func(Script, *kit.Report) error {
	return func(sc Script, rep *kit.Report) error {
		h := kit.HashOf(sc)
		memoMu.Lock()
		v, saw := memo[h], sawViolation
		memoMu.Unlock()
		if v != nil {
			return v
		}
		n := 1
		if os.Getenv("VERIF_REPLAY") != "" || !genStarted {
			n = 300
		} else if saw {
			// shrinking: rapid's own time limit is only checked between passes, so bound it here
			if time.Since(firstViolation) > shrinkBudget {
				return nil
			}
			n = 5
		}
		for i := 0; i < n; i++ {
			err := once(sc, rep)
			if err != nil {
				if kv, ok := err.(*kit.Violation); ok {
					memoMu.Lock()
					if !sawViolation {
						firstViolation = time.Now()
					}
					memo[h], sawViolation = kv, true
					memoMu.Unlock()
				}
				return err
			}
		}
		return nil
	}
}

func TestC11(t *testing.T) {
	r := &kit.Runner[Script]{Name: "TestC11", Exec: attempt(executeDriven)}
	r.Run(t, genScript)
}

func TestC11Pledge(t *testing.T) {
	r := &kit.Runner[Script]{Name: "TestC11Pledge", Exec: attempt(executeFree)}
	r.Run(t, genPledgeScript)
}
