// C12 — membership gossip only moves views forward and converges.
package verif_c12_test

import (
	"context"
	"errors"
	"fmt"
	"sort"
	"testing"

	"github.com/synnaxlabs/alamos"
	"github.com/synnaxlabs/aspen/internal/cluster/gossip"
	"github.com/synnaxlabs/aspen/internal/cluster/store"
	"github.com/synnaxlabs/aspen/internal/node"
	kit "github.com/synnaxlabs/aspen/internal/verifkit"
	"github.com/synnaxlabs/freighter"
	"github.com/synnaxlabs/x/address"
	"github.com/synnaxlabs/x/version"
	"pgregory.net/rapid"
)

// ---------------------------------------------------------------- script

type Op struct {
	Kind  string `json:"kind"` // exchange | tick | state | restart | fair | replay
	I     int    `json:"i"`
	J     int    `json:"j,omitempty"`
	State uint32 `json:"state,omitempty"`
	Drop  string `json:"drop,omitempty"` // "", sync, ack, ack2
	Stale bool   `json:"stale,omitempty"`
	Perm  []int  `json:"perm,omitempty"` // fair: order of pairs; negative = reversed direction
	K     int    `json:"k,omitempty"`    // replay: index (mod number captured) of the ack2 message to redeliver
	// exchange: Nest > 0 - while the initiator's sync is in flight (the peer has answered, the
	// answer has not reached the initiator yet), node Nest-1 completes an exchange of its own
	// with the initiator; what the initiator learns there must survive its own exchange.
	Nest int `json:"nest,omitempty"`
}

type Ghost struct {
	Key     int    `json:"key"`
	Gen     uint32 `json:"gen"`
	Ver     uint32 `json:"ver"`
	KnownBy []int  `json:"known_by"`
	// Older copies (same generation, lower version) known by other nodes.
	OlderBy []int `json:"older_by,omitempty"`
}

type Script struct {
	N      int     `json:"n"`
	Know   [][]int `json:"know"` // Know[i] = indexes of nodes whose initial record i holds
	Ghosts []Ghost `json:"ghosts,omitempty"`
	Ops    []Op    `json:"ops"`
}

func genScript(t *rapid.T) Script {
	n := rapid.IntRange(2, 4).Draw(t, "n")
	s := Script{N: n}
	for i := 0; i < n; i++ {
		var k []int
		for j := 0; j < n; j++ {
			if j != i && rapid.IntRange(0, 2).Draw(t, "knows") > 0 {
				k = append(k, j)
			}
		}
		s.Know = append(s.Know, k)
	}
	ng := rapid.IntRange(0, 2).Draw(t, "ghosts")
	for g := 0; g < ng; g++ {
		gh := Ghost{Key: 10 + g, Gen: uint32(rapid.IntRange(0, 2).Draw(t, "ggen")), Ver: uint32(rapid.IntRange(1, 5).Draw(t, "gver"))}
		for i := 0; i < n; i++ {
			switch rapid.IntRange(0, 3).Draw(t, "gk") {
			case 1:
				gh.KnownBy = append(gh.KnownBy, i)
			case 2:
				gh.OlderBy = append(gh.OlderBy, i)
			}
		}
		if len(gh.KnownBy) == 0 {
			gh.KnownBy = []int{rapid.IntRange(0, n-1).Draw(t, "gk0")}
			var ob []int
			for _, o := range gh.OlderBy {
				if o != gh.KnownBy[0] {
					ob = append(ob, o)
				}
			}
			gh.OlderBy = ob
		}
		s.Ghosts = append(s.Ghosts, gh)
	}
	nops := rapid.IntRange(1, 25).Draw(t, "nops")
	for k := 0; k < nops; k++ {
		var op Op
		switch rapid.IntRange(-1, 9).Draw(t, "kind") {
		case -1:
			op.Kind = "replay"
			op.K = rapid.IntRange(0, 40).Draw(t, "k")
		case 0, 1, 2, 3:
			op.Kind = "exchange"
			op.I = rapid.IntRange(0, n-1).Draw(t, "i")
			op.J = rapid.IntRange(0, n-2).Draw(t, "j")
			if op.J >= op.I {
				op.J++
			}
			op.Drop = rapid.SampledFrom([]string{"", "", "", "", "sync", "ack", "ack2"}).Draw(t, "drop")
			if n >= 3 && op.Drop == "" && rapid.IntRange(0, 3).Draw(t, "nest") == 0 {
				k := rapid.IntRange(0, n-1).Draw(t, "nest-k")
				if k != op.I && k != op.J {
					op.Nest = k + 1
				}
			}
		case 4, 5:
			op.Kind = "tick"
			op.I = rapid.IntRange(0, n-1).Draw(t, "i")
		case 6:
			op.Kind = "state"
			op.I = rapid.IntRange(0, n-1).Draw(t, "i")
			op.State = uint32(rapid.IntRange(0, 3).Draw(t, "state"))
		case 7:
			op.Kind = "restart"
			op.I = rapid.IntRange(0, n-1).Draw(t, "i")
			op.Stale = rapid.Bool().Draw(t, "stale")
		default:
			op.Kind = "fair"
			op.Perm = genFair(t, n)
		}
		s.Ops = append(s.Ops, op)
	}
	// Always end with a fair round so that convergence is checked in every case.
	s.Ops = append(s.Ops, Op{Kind: "fair", Perm: genFair(t, n)})
	return s
}

// genFair draws an order and direction for all unordered pairs.
func genFair(t *rapid.T, n int) []int {
	np := n * (n - 1) / 2
	perm := rapid.Permutation(seq(np)).Draw(t, "perm")
	out := make([]int, np)
	for i, p := range perm {
		if rapid.Bool().Draw(t, "rev") {
			out[i] = -(p + 1)
		} else {
			out[i] = p + 1
		}
	}
	return out
}

func seq(n int) []int {
	s := make([]int, n)
	for i := range s {
		s[i] = i
	}
	return s
}

func pairs(n int) [][2]int {
	var ps [][2]int
	for i := 0; i < n; i++ {
		for j := i + 1; j < n; j++ {
			ps = append(ps, [2]int{i, j})
		}
	}
	return ps
}

// ---------------------------------------------------------------- harness network

var errDropped = errors.New("verif: message dropped")

type net struct {
	handlers map[address.Address]func(context.Context, gossip.Message) (gossip.Message, error)
	drop     string
	// captured: every ack2 message (member records only) that was put on the wire, with its
	// target; a replay op redelivers an old one later (a delayed or duplicated datagram)
	captured []capturedMsg
	// inFlight, if set, runs once while a sync's answer is on its way back to the initiator
	inFlight func()
}

type capturedMsg struct {
	target address.Address
	msg    gossip.Message
}

type server struct {
	freighter.Reporter
	net  *net
	addr address.Address
}

func (s *server) Use(...freighter.Middleware) {}
func (s *server) BindHandler(h func(context.Context, gossip.Message) (gossip.Message, error)) {
	s.net.handlers[s.addr] = h
}

type client struct {
	freighter.Reporter
	net *net
}

func (c *client) Use(...freighter.Middleware) {}
func (c *client) Send(ctx context.Context, target address.Address, req gossip.Message) (gossip.Message, error) {
	h, ok := c.net.handlers[target]
	if !ok {
		return gossip.Message{}, errors.New("verif: no such address")
	}
	isSync := len(req.Nodes) == 0 && len(req.Digests) != 0
	if isSync && c.net.drop == "sync" {
		return gossip.Message{}, errDropped
	}
	if !isSync {
		cp := gossip.Message{Nodes: req.Nodes.Copy()}
		c.net.captured = append(c.net.captured, capturedMsg{target, cp})
	}
	if !isSync && c.net.drop == "ack2" {
		return gossip.Message{}, errDropped
	}
	res, err := h(ctx, req)
	if isSync && c.net.inFlight != nil {
		f := c.net.inFlight
		c.net.inFlight = nil
		f()
	}
	if isSync && c.net.drop == "ack" {
		return gossip.Message{}, errDropped
	}
	return res, err
}

// ---------------------------------------------------------------- executor

type hbKey struct {
	m        node.Key
	gen, ver uint32
}

func less(a, b version.Heartbeat) bool { // own comparison, independent of the SUT's helpers
	if a.Generation != b.Generation {
		return a.Generation < b.Generation
	}
	return a.Version < b.Version
}

type sim struct {
	ctx       context.Context
	n         int
	net       *net
	stores    []store.Store
	gossips   []*gossip.Gossip
	published map[hbKey]node.Node
	persisted []store.State
}

func addrOf(i int) address.Address { return address.Address(fmt.Sprintf("n%d", i)) }
func keyOf(i int) node.Key         { return node.Key(i + 1) }

func (s *sim) publish(n node.Node) {
	s.published[hbKey{n.Key, n.Heartbeat.Generation, n.Heartbeat.Version}] = n
}

func (s *sim) open(i int, st store.Store) error {
	g, err := gossip.New(gossip.Config{
		Store:           st,
		TransportClient: &client{net: s.net},
		TransportServer: &server{net: s.net, addr: addrOf(i)},
		Instrumentation: alamos.Instrumentation{},
	})
	if err != nil {
		return err
	}
	s.stores[i] = st
	s.gossips[i] = g
	return nil
}

func (s *sim) views() []node.Group {
	out := make([]node.Group, s.n)
	for i := range s.stores {
		out[i] = s.stores[i].CopyState().Nodes
	}
	return out
}

// checkForward verifies the monotonicity and integrity clauses between two snapshots.
func (s *sim) checkForward(step int, what string, before, after []node.Group, skip int) error {
	for i := 0; i < s.n; i++ {
		if i == skip {
			continue
		}
		for k, b := range before[i] {
			a, ok := after[i][k]
			if !ok {
				return kit.Fail("member-dropped", "step %d (%s): node %d lost member %d", step, what, i, k)
			}
			if less(a.Heartbeat, b.Heartbeat) {
				return kit.Fail("heartbeat-regressed", "step %d (%s): node %d's view of member %d went from %+v to %+v", step, what, i, k, b.Heartbeat, a.Heartbeat)
			}
			if a != b && !less(b.Heartbeat, a.Heartbeat) {
				return kit.Fail("replaced-without-newer-heartbeat", "step %d (%s): node %d's record of member %d changed from %+v to %+v without a newer heartbeat", step, what, i, k, b, a)
			}
		}
		for k, a := range after[i] {
			p, ok := s.published[hbKey{k, a.Heartbeat.Generation, a.Heartbeat.Version}]
			if !ok || p != a {
				return kit.Fail("record-not-as-published", "step %d (%s): node %d holds %+v for member %d, which that member never published at this heartbeat (published: %+v, %v)", step, what, i, a, k, p, ok)
			}
		}
	}
	return nil
}

func execute(sc Script, rep *kit.Report) error {
	ctx := context.Background()
	s := &sim{ctx: ctx, n: sc.N, net: &net{handlers: map[address.Address]func(context.Context, gossip.Message) (gossip.Message, error){}},
		stores: make([]store.Store, sc.N), gossips: make([]*gossip.Gossip, sc.N), published: map[hbKey]node.Node{},
		persisted: make([]store.State, sc.N)}
	initial := make([]node.Node, sc.N)
	for i := 0; i < sc.N; i++ {
		initial[i] = node.Node{Key: keyOf(i), Address: addrOf(i)}
		s.publish(initial[i])
	}
	allMembers := map[node.Key]bool{}
	for i := 0; i < sc.N; i++ {
		st := store.New(ctx)
		st.SetHost(ctx, initial[i])
		for _, j := range sc.Know[i] {
			st.SetNode(ctx, initial[j])
		}
		allMembers[keyOf(i)] = true
		if err := s.open(i, st); err != nil {
			return kit.Fail("setup", "gossip.New: %v", err)
		}
	}
	for _, g := range sc.Ghosts {
		rec := node.Node{Key: node.Key(g.Key), Address: address.Address(fmt.Sprintf("ghost%d", g.Key)), Heartbeat: version.Heartbeat{Generation: g.Gen, Version: g.Ver}, State: node.StateDead}
		old := rec
		old.Heartbeat.Version--
		old.State = node.StateHealthy
		s.publish(rec)
		s.publish(old)
		for _, i := range g.KnownBy {
			s.stores[i].SetNode(ctx, rec)
		}
		for _, i := range g.OlderBy {
			s.stores[i].SetNode(ctx, old)
		}
		allMembers[rec.Key] = true
		rep.Class("ghost-member")
	}
	for i := 0; i < sc.N; i++ {
		s.persisted[i] = s.stores[i].CopyState()
	}
	disjoint := false
	for i := 0; i < sc.N; i++ {
		for j := i + 1; j < sc.N; j++ {
			if !contains(sc.Know[i], j) && !contains(sc.Know[j], i) {
				disjoint = true
			}
		}
	}
	if disjoint {
		rep.Class("disjoint-knowledge")
	}
	var exchange func(step int, i, j int, drop string) error
	nested := func(step int, op Op) error {
		var mid []node.Group
		var ierr error
		k := op.Nest - 1
		s.net.inFlight = func() {
			ierr = s.gossips[k].GossipOnceWith(ctx, addrOf(op.I))
			mid = s.views()
		}
		if err := exchange(step, op.I, op.J, ""); err != nil {
			return err
		}
		s.net.inFlight = nil
		if mid == nil {
			return nil // the outer exchange sent no sync
		}
		if ierr != nil {
			return kit.Fail("exchange-error", "step %d: lossless exchange %d->%d (inside %d->%d) failed: %v", step, k, op.I, op.I, op.J, ierr)
		}
		rep.Class("exchange-completed-while-another-was-in-flight")
		return s.checkForward(step, fmt.Sprintf("exchange %d->%d, during which %d->%d completed", op.I, op.J, k, op.I), mid, s.views(), -1)
	}
	exchange = func(step int, i, j int, drop string) error {
		before := s.views()
		// non-triviality: both sides ahead on different members
		aheadI, aheadJ := false, false
		for k := range allMembers {
			a, okA := before[i][k]
			b, okB := before[j][k]
			if okA && (!okB || less(b.Heartbeat, a.Heartbeat)) {
				aheadI = true
			}
			if okB && (!okA || less(a.Heartbeat, b.Heartbeat)) {
				aheadJ = true
			}
		}
		if aheadI && aheadJ {
			rep.Nontrivial()
			rep.Class("both-ahead")
		}
		s.net.drop = drop
		err := s.gossips[i].GossipOnceWith(ctx, addrOf(j))
		s.net.drop = ""
		if drop == "" && err != nil {
			return kit.Fail("exchange-error", "step %d: lossless exchange %d->%d failed: %v", step, i, j, err)
		}
		if drop != "" {
			rep.Class("drop-" + drop)
		}
		after := s.views()
		return s.checkForward(step, fmt.Sprintf("exchange %d->%d drop=%q", i, j, drop), before, after, -1)
	}
	for step, op := range sc.Ops {
		switch op.Kind {
		case "exchange":
			if op.Nest > 0 && op.Nest-1 < sc.N && op.Nest-1 != op.I && op.Nest-1 != op.J && op.Drop == "" {
				if err := nested(step, op); err != nil {
					return err
				}
				continue
			}
			if err := exchange(step, op.I, op.J, op.Drop); err != nil {
				return err
			}
		case "replay":
			if len(s.net.captured) == 0 {
				continue
			}
			cm := s.net.captured[op.K%len(s.net.captured)]
			h, ok := s.net.handlers[cm.target]
			if !ok {
				continue
			}
			before := s.views()
			if _, herr := h(ctx, gossip.Message{Nodes: cm.msg.Nodes.Copy()}); herr != nil {
				return kit.Fail("replay-error", "step %d: redelivering an old ack2 failed: %v", step, herr)
			}
			rep.Class("stale-ack2-redelivered")
			if err := s.checkForward(step, fmt.Sprintf("redelivery of captured ack2 #%d to %s", op.K%len(s.net.captured), cm.target), before, s.views(), -1); err != nil {
				return err
			}
		case "tick":
			h := s.stores[op.I].GetHost()
			h.Heartbeat.Version++
			s.publish(h)
			s.stores[op.I].SetNode(ctx, h)
		case "state":
			h := s.stores[op.I].GetHost()
			h.Heartbeat.Version++
			h.State = node.State(op.State)
			s.publish(h)
			s.stores[op.I].SetNode(ctx, h)
			rep.Class("state-change")
		case "restart":
			// cluster.Open on persisted state: reload, Heartbeat.Restart() on the host record.
			var st0 store.State
			if op.Stale {
				st0 = s.persisted[op.I]
				rep.Class("restart-stale")
			} else {
				st0 = s.stores[op.I].CopyState()
				rep.Class("restart")
			}
			st := store.New(ctx)
			st.SetState(ctx, st0)
			h := st.GetHost()
			// new generation must exceed anything this node ever published: production persists
			// the state on shutdown; the stale variant models a lagging flush of *other* members'
			// records, so the host's own generation is taken from the live store.
			live := s.stores[op.I].GetHost()
			h.Heartbeat = version.Heartbeat{Generation: live.Heartbeat.Generation + 1}
			h.State = live.State
			s.publish(h)
			st.SetNode(ctx, h)
			if err := s.open(op.I, st); err != nil {
				return kit.Fail("setup", "gossip.New on restart: %v", err)
			}
		case "fair":
			ps := pairs(sc.N)
			for _, p := range op.Perm {
				idx, rev := p, false
				if p < 0 {
					idx, rev = -p, true
				}
				pr := ps[idx-1]
				i, j := pr[0], pr[1]
				if rev {
					i, j = j, i
				}
				if err := exchange(step, i, j, ""); err != nil {
					return err
				}
			}
			vs := s.views()
			for i := 0; i < sc.N; i++ {
				for k := range allMembers {
					if _, ok := vs[i][k]; !ok {
						return kit.Fail("not-converged-missing", "step %d: after a fair round node %d does not know member %d", step, i, k)
					}
				}
				if len(vs[i]) != len(allMembers) {
					return kit.Fail("not-converged-extra", "step %d: node %d knows %d members, expected %d", step, i, len(vs[i]), len(allMembers))
				}
				for k, a := range vs[i] {
					if b := vs[0][k]; a != b {
						return kit.Fail("not-converged-differ", "step %d: after a fair round node %d holds %+v for member %d but node 0 holds %+v", step, i, a, k, b)
					}
				}
			}
			// every running member's record is the one it holds itself (latest generation wins)
			for i := 0; i < sc.N; i++ {
				own := s.stores[i].GetHost()
				for j := 0; j < sc.N; j++ {
					if got := vs[j][own.Key]; got != own {
						return kit.Fail("not-converged-own", "step %d: node %d holds %+v for member %d whose own record is %+v", step, j, got, own.Key, own)
					}
				}
			}
			rep.Class("fair-round")
		}
		if op.Kind != "restart" {
			// persisted snapshot lags: refresh it only sometimes (deterministically by step parity)
			if step%3 == 0 {
				for i := 0; i < sc.N; i++ {
					s.persisted[i] = s.stores[i].CopyState()
				}
			}
		}
	}
	return nil
}

func contains(s []int, v int) bool {
	i := sort.SearchInts(s, v)
	return i < len(s) && s[i] == v
}

func TestC12(t *testing.T) {
	r := &kit.Runner[Script]{Name: "TestC12", Exec: execute}
	r.Run(t, genScript)
}
