// C12, cluster level: "State from a restarted node's new generation supersedes everything from
// its previous run." TestC12 drives gossip and store directly and models a restart by
// Heartbeat.Restart() on a fresh store; this test goes through cluster.Open (the anchored
// cluster.go): nodes persist their state to a key-value store, are stopped gracefully or die
// (writes after the crash instant are dropped, including the final flush of Close) and are
// reopened on what the store holds.
//
// Oracle (no timing involved): the host heartbeat a node starts a run with must be more advanced
// (x/version calls that OlderThan) than every heartbeat of that node that anyone - its own earlier runs, or a peer's view -
// has ever held. Gossip is real (2 ms interval) and only used to let peers learn heartbeats
// between restarts; how much they learn is sampled, never waited for beyond a short bound.
package verif_c12_test

import (
	"context"
	"os"
	"fmt"
	"sync"
	"testing"
	"time"

	"github.com/synnaxlabs/aspen/internal/cluster"
	"github.com/synnaxlabs/aspen/internal/cluster/gossip"
	"github.com/synnaxlabs/aspen/internal/cluster/pledge"
	"github.com/synnaxlabs/aspen/internal/cluster/store"
	"github.com/synnaxlabs/aspen/internal/node"
	kit "github.com/synnaxlabs/aspen/internal/verifkit"
	"github.com/synnaxlabs/freighter/mock"
	"github.com/synnaxlabs/x/address"
	"github.com/synnaxlabs/x/encoding/msgpack"
	xkv "github.com/synnaxlabs/x/kv"
	"github.com/synnaxlabs/x/kv/memkv"
	"github.com/synnaxlabs/x/version"
	"pgregory.net/rapid"
)

type COp struct {
	Kind  string `json:"kind"` // restart | crash | settle
	N     int    `json:"n,omitempty"`
	Micro int    `json:"micro,omitempty"` // settle: how long gossip may run
}

type CScript struct {
	N   int   `json:"n"`
	Ops []COp `json:"ops"`
}

func genCScript(t *rapid.T) CScript {
	sc := CScript{N: rapid.IntRange(1, 3).Draw(t, "n")}
	for i, n := 0, rapid.IntRange(1, 8).Draw(t, "nops"); i < n; i++ {
		switch rapid.IntRange(0, 4).Draw(t, "kind") {
		case 0, 1:
			sc.Ops = append(sc.Ops, COp{Kind: "crash", N: rapid.IntRange(0, sc.N-1).Draw(t, "node")})
		case 2:
			sc.Ops = append(sc.Ops, COp{Kind: "restart", N: rapid.IntRange(0, sc.N-1).Draw(t, "node")})
		default:
			sc.Ops = append(sc.Ops, COp{Kind: "settle", Micro: rapid.SampledFrom([]int{200, 3000, 15000}).Draw(t, "micro")})
		}
	}
	return sc
}

// mortalKV is a node's storage: once dead, writes are dropped (the process is gone; whatever
// Close flushes never reaches the disk).
type mortalKV struct {
	xkv.DB
	// mu makes "is the process still alive" and the write one step: a write that has passed the
	// check completes before the crash instant (kill takes the write lock). Without it a flush
	// goroutine of the dead run that was descheduled between the check and the write could
	// overwrite, much later, what the next run has persisted - something a dead process cannot do
	// (seen once on a heavily loaded machine: a run came back with its predecessor's generation).
	mu   sync.RWMutex
	dead bool
}

func (m *mortalKV) kill() {
	m.mu.Lock()
	m.dead = true
	m.mu.Unlock()
}

func (m *mortalKV) Set(ctx context.Context, key, value []byte, opts ...any) error {
	m.mu.RLock()
	defer m.mu.RUnlock()
	if os.Getenv("VERIF_C12_DEBUG") != "" {
		var st store.State
		_ = msgpack.Codec.Decode(ctx, value, &st)
		fmt.Printf("C12DEBUG   kv.Set via wrapper %p dead=%v host=%d hb=%+v\n", m, m.dead, st.HostKey, st.Nodes[st.HostKey].Heartbeat)
	}
	if m.dead {
		return nil
	}
	return m.DB.Set(ctx, key, value, opts...)
}

func (m *mortalKV) Delete(ctx context.Context, key []byte, opts ...any) error {
	m.mu.RLock()
	defer m.mu.RUnlock()
	if m.dead {
		return nil
	}
	return m.DB.Delete(ctx, key, opts...)
}

func (m *mortalKV) OpenTx() xkv.Tx { return &mortalTx{Tx: m.DB.OpenTx(), m: m} }

type mortalTx struct {
	xkv.Tx
	m *mortalKV
}

func (t *mortalTx) Commit(ctx context.Context, opts ...any) error {
	t.m.mu.RLock()
	defer t.m.mu.RUnlock()
	if t.m.dead {
		return nil
	}
	return t.Tx.Commit(ctx, opts...)
}

type cnode struct {
	store xkv.DB
	kv    *mortalKV
	cl    *cluster.Cluster
	key   node.Key
	// most advanced heartbeat of this node that anybody has held so far
	seen    version.Heartbeat
	hasSeen bool
	runs    int
}

func executeCluster(sc CScript, rep *kit.Report) error {
	if sc.N < 1 || sc.N > 3 {
		rep.Discard("bad-script")
		return nil
	}
	ctx, cancel := context.WithTimeout(context.Background(), 60*time.Second)
	defer cancel()
	gossipNet := mock.NewNetwork[gossip.Message, gossip.Message]()
	pledgeNet := mock.NewNetwork[pledge.Request, pledge.Response]()
	nodes := make([]*cnode, sc.N)
	peers := func(except int) []address.Address {
		var out []address.Address
		for i, n := range nodes {
			if i != except && n != nil && n.cl != nil {
				out = append(out, n.cl.Host().Address)
			}
		}
		return out
	}
	open := func(i int) error {
		n := nodes[i]
		n.kv = &mortalKV{DB: n.store}
		gs := gossipNet.UnaryServer("")
		ps := pledgeNet.UnaryServer(gs.Address)
		cl, err := cluster.Open(ctx, cluster.Config{
			HostAddress: gs.Address,
			Pledge: pledge.BlazingFastConfig.Override(pledge.Config{
				Peers: peers(i), TransportClient: pledgeNet.UnaryClient(), TransportServer: ps,
			}),
			Gossip: gossip.Config{
				TransportClient: gossipNet.UnaryClient(), TransportServer: gs, Interval: 2 * time.Millisecond,
			},
			StorageKey: []byte("verif-c12"), Storage: n.kv, StorageFlushInterval: cluster.FlushOnEvery, Codec: msgpack.Codec,
		})
		if err != nil {
			return err
		}
		n.cl = cl
		n.runs++
		return nil
	}
	defer func() {
		for _, n := range nodes {
			if n != nil && n.cl != nil {
				_ = n.cl.Close()
			}
		}
	}()
	// learn records every heartbeat of every node that is currently held anywhere
	learn := func() {
		for _, holder := range nodes {
			if holder == nil || holder.cl == nil {
				continue
			}
			for _, about := range nodes {
				if about == nil || about.key == 0 {
					continue
				}
				if rec, err := holder.cl.Node(about.key); err == nil {
					if !about.hasSeen || rec.Heartbeat.OlderThan(about.seen) { // x/version: OlderThan == more advanced
						about.seen, about.hasSeen = rec.Heartbeat, true
					}
				}
			}
		}
	}
	for i := range nodes {
		nodes[i] = &cnode{store: memkv.New()}
		if err := open(i); err != nil {
			if ctx.Err() != nil {
				rep.Discard("setup-timeout")
				return nil
			}
			return kit.Fail("harness", "opening node %d: %v", i, err)
		}
		nodes[i].key = nodes[i].cl.Host().Key
	}
	learn()
	for step, op := range sc.Ops {
		switch op.Kind {
		case "settle":
			time.Sleep(time.Duration(op.Micro) * time.Microsecond)
			learn()
			rep.Class("settle")
		case "restart", "crash":
			n := nodes[op.N%sc.N]
			learn()
			if op.Kind == "crash" {
				n.kv.kill() // nothing written from now on reaches the store
				rep.Class("crash")
			} else {
				rep.Class("graceful-restart")
			}
			if err := n.cl.Close(); err != nil {
				rep.Class("close-error")
			}
			// the process is gone once Close has returned: the cluster store flushes from
			// untracked goroutines (x/kv.Subscriber.Flush), and one of the finished run that is
			// scheduled late must not write into the store the next run has already opened
			n.kv.kill()
			n.cl = nil
			if os.Getenv("VERIF_C12_DEBUG") != "" {
				var st store.State
				if b, closer, gerr := n.store.Get(ctx, []byte("verif-c12")); gerr == nil {
					_ = msgpack.Codec.Decode(ctx, b, &st)
					_ = closer.Close()
					fmt.Printf("C12DEBUG step %d %s node %d: stored state after the run: host %d nodes:", step, op.Kind, op.N%sc.N, st.HostKey)
					for k, nd := range st.Nodes {
						fmt.Printf(" %d:%+v", k, nd.Heartbeat)
					}
					fmt.Println()
				}
			}
			if err := open(op.N % sc.N); err != nil {
				if ctx.Err() != nil {
					rep.Discard("restart-timeout")
					return nil
				}
				return kit.Fail("restart-failed", "step %d: %s of node %d (key %d): cluster.Open on its stored state failed: %v", step, op.Kind, op.N%sc.N, n.key, err)
			}
			host := n.cl.Host()
			if os.Getenv("VERIF_C12_DEBUG") != "" {
				fmt.Printf("C12DEBUG step %d %s node %d run %d: host heartbeat %+v, most advanced seen before %+v\n", step, op.Kind, op.N%sc.N, n.runs, host.Heartbeat, n.seen)
			}
			if host.Key != n.key {
				return kit.Fail("restart-changed-node-key", "step %d: node %d came back from its stored state with key %d (was %d)", step, op.N%sc.N, host.Key, n.key)
			}
			if n.hasSeen && !host.Heartbeat.OlderThan(n.seen) { // must be strictly more advanced
				return kit.Fail("restart-does-not-supersede-previous-run", "step %d: node %d (key %d) starts run %d after a %s with heartbeat %+v; heartbeat %+v of an earlier run is still held somewhere (own record or a peer's view), so the new run does not supersede it", step, op.N%sc.N, n.key, n.runs, op.Kind, host.Heartbeat, n.seen)
			}
			learn()
			if n.runs >= 3 {
				rep.Nontrivial()
			}
		}
	}
	rep.Class(fmt.Sprintf("nodes=%d", sc.N))
	return nil
}

func TestC12Cluster(t *testing.T) {
	r := &kit.Runner[CScript]{Name: "TestC12Cluster", Exec: executeCluster, ReplayRepeat: 150}
	r.Run(t, genCScript)
}
