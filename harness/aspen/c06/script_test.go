// Scripts (plain data) and their rapid generators.
package verif_c06_test

import (
	"os"

	"pgregory.net/rapid"
)

type SubOp struct {
	K   int  `json:"k"`
	Del bool `json:"del,omitempty"`
	// Again (local transactions of the convergence check only): the transaction touches this
	// key a second time, e.g. delete then set; the last operation on a key is the one that counts.
	Again bool `json:"again,omitempty"`
}

// Op is one scripted step of the cluster simulation.
//
//	tx        local transaction on node N with Subs (1-3 distinct keys; set or delete)
//	inject    operations of synthetic leaseholder L (version gap Gap) gossiped to node N
//	gossip    one exchange N->M with fault flags
//	fb        act on a held feedback message: Pick-th, Act = deliver | drop | dup
//	redeliver captured request Idx replayed to node N (Mode full|first|second|rev|merge|twice)
//	stop/start/restart  node N (restart = stop + start); Order = recovery commit order of peers
//	partition Mask (bit i set: node i on side B) / heal
//	sub       attach a subscriber of Kind to node N in the middle of traffic (C13)
type Op struct {
	Kind     string  `json:"kind"`
	N        int     `json:"n,omitempty"`
	M        int     `json:"m,omitempty"`
	Subs     []SubOp `json:"subs,omitempty"`
	L        int     `json:"l,omitempty"`
	Gap      int     `json:"gap,omitempty"`
	DropReq  bool    `json:"drop_req,omitempty"`
	DropAck  bool    `json:"drop_ack,omitempty"`
	AckEarly bool    `json:"ack_early,omitempty"`
	FbReq    string  `json:"fb_req,omitempty"` // "", drop, dup, hold
	FbAck    string  `json:"fb_ack,omitempty"`
	Pick     int     `json:"pick,omitempty"`
	Act      string  `json:"act,omitempty"`
	Idx      int     `json:"idx,omitempty"`
	Idx2     int     `json:"idx2,omitempty"`
	Mode     string  `json:"mode,omitempty"`
	Order    []int   `json:"order,omitempty"`
	// start / restart: BreakAfter > 0 makes the first recovery stream of this start that has
	// more than BreakAfter-1 responses fail with a transport error after handing out
	// BreakAfter-1 of them
	BreakAfter int `json:"break_after,omitempty"`
	Mask     int     `json:"mask,omitempty"`
	SubKind  int     `json:"sub_kind,omitempty"`
	// ReadFault (redeliver): digest reads at the node fail while the request is processed
	// (applied only when every operation of the request is stale for the node)
	ReadFault bool `json:"read_fault,omitempty"`
}

type Script struct {
	N        int   `json:"n"`
	Keys     int   `json:"keys"`
	Thr      int   `json:"thr"`            // kv.Config.RecoveryThreshold
	Subs     []int `json:"subs,omitempty"` // subscriber kinds attached to every node at (re)start (C13)
	DropHeld bool  `json:"drop_held,omitempty"`
	Ops      []Op  `json:"ops"`
}

func genSubs(t *rapid.T, keys int) []SubOp {
	n := rapid.SampledFrom([]int{1, 1, 1, 2, 3}).Draw(t, "nsub")
	var out []SubOp
	for i := 0; i < n; i++ {
		out = append(out, SubOp{K: rapid.IntRange(0, keys-1).Draw(t, "k"), Del: rapid.IntRange(0, 4).Draw(t, "del") == 0})
	}
	return out
}

func genBreak(t *rapid.T) int {
	if rapid.IntRange(0, 3).Draw(t, "break-recovery") != 0 {
		return 0
	}
	return rapid.IntRange(1, 3).Draw(t, "break-after")
}

var fbModes = []string{"", "", "", "", "drop", "dup", "hold", "hold"}

// genOps draws the body of a cluster script. The generator keeps a tiny model (which nodes
// are up, whether the cluster is partitioned) so that at most one node is down at a time:
// a node cannot start while a peer is unreachable (kv.Open fails on the recovery stream).
func genOps(t *rapid.T, n, keys int, c13 bool) []Op {
	nops := rapid.IntRange(1, 28).Draw(t, "nops")
	down := -1
	cut := false
	var ops []Op
	node := func(label string) int { return rapid.IntRange(0, n-1).Draw(t, label) }
	other := func(i int, label string) int {
		j := rapid.IntRange(0, n-2).Draw(t, label)
		if j >= i {
			j++
		}
		return j
	}
	norestart := os.Getenv("C06_NORESTART") != ""
	// cumulative weights: tx, inject, gossip, fb, redeliver, stop/start, partition, sub
	w := [8]int{24, 32, 62, 70, 80, 90, 95, 100}
	if c13 {
		w = [8]int{20, 30, 58, 63, 83, 89, 93, 100}
	}
	for len(ops) < nops {
		x := rapid.IntRange(0, 99).Draw(t, "kind")
		switch {
		case x < w[0]:
			kind := "tx"
			if rapid.IntRange(0, 7).Draw(t, "txfail") == 0 {
				kind = "txfail" // the leaseholder's storage engine refuses the commit
			}
			subs := genSubs(t, keys)
			if !c13 && kind == "tx" && rapid.IntRange(0, 3).Draw(t, "same-key-twice") == 0 {
				first := subs[rapid.IntRange(0, len(subs)-1).Draw(t, "again-of")]
				subs = append(subs, SubOp{K: first.K, Del: !first.Del && rapid.Bool().Draw(t, "again-del"), Again: true})
			}
			ops = append(ops, Op{Kind: kind, N: node("n"), Subs: subs})
		case x < w[1]:
			ops = append(ops, Op{Kind: "inject", N: node("n"), L: rapid.IntRange(0, 1).Draw(t, "l"),
				Gap: rapid.SampledFrom([]int{1, 1, 1, 2, 5}).Draw(t, "gap"), Subs: genSubs(t, keys)})
		case x < w[2]:
			a := node("a")
			ops = append(ops, Op{Kind: "gossip", N: a, M: other(a, "b"),
				DropReq:  rapid.IntRange(0, 9).Draw(t, "drop_req") == 0,
				DropAck:  rapid.IntRange(0, 7).Draw(t, "drop_ack") == 0,
				AckEarly: rapid.IntRange(0, 3).Draw(t, "ack_early") == 0,
				FbReq:    rapid.SampledFrom(fbModes).Draw(t, "fb_req"),
				FbAck:    rapid.SampledFrom(fbModes).Draw(t, "fb_ack")})
		case x < w[3]:
			ops = append(ops, Op{Kind: "fb", Pick: rapid.IntRange(0, 5).Draw(t, "pick"),
				Act: rapid.SampledFrom([]string{"deliver", "deliver", "dup", "drop"}).Draw(t, "act")})
		case x < w[4]:
			ops = append(ops, Op{Kind: "redeliver", N: node("n"), Idx: rapid.IntRange(0, 40).Draw(t, "idx"), Idx2: rapid.IntRange(0, 40).Draw(t, "idx2"),
				Mode:  rapid.SampledFrom([]string{"full", "full", "first", "second", "rev", "merge", "twice"}).Draw(t, "mode"),
				FbReq: rapid.SampledFrom(fbModes).Draw(t, "fb_req"), ReadFault: rapid.IntRange(0, 4).Draw(t, "read_fault") == 0})
		case x < w[5]:
			if norestart {
				continue
			}
			switch {
			case down >= 0:
				ops = append(ops, Op{Kind: "start", N: down, Order: rapid.Permutation(seq(n)).Draw(t, "order"), BreakAfter: genBreak(t)})
				down = -1
			case cut:
				continue
			case rapid.Bool().Draw(t, "restart"):
				ops = append(ops, Op{Kind: "restart", N: node("n"), Order: rapid.Permutation(seq(n)).Draw(t, "order"), BreakAfter: genBreak(t)})
			default:
				down = node("n")
				ops = append(ops, Op{Kind: "stop", N: down})
			}
		case x < w[6]:
			if cut {
				ops = append(ops, Op{Kind: "heal"})
				cut = false
			} else if down < 0 {
				ops = append(ops, Op{Kind: "partition", Mask: rapid.IntRange(1, (1<<n)-2).Draw(t, "mask")})
				cut = true
			}
		default:
			if c13 {
				ops = append(ops, Op{Kind: "sub", N: node("n"), SubKind: rapid.IntRange(0, 2).Draw(t, "sub_kind")})
			}
		}
	}
	return ops
}

func seq(n int) []int {
	s := make([]int, n)
	for i := range s {
		s[i] = i
	}
	return s
}

func genCluster(t *rapid.T) Script {
	sc := Script{
		N:        rapid.IntRange(2, 4).Draw(t, "n"),
		Keys:     rapid.IntRange(1, 5).Draw(t, "keys"),
		Thr:      rapid.SampledFrom([]int{1, 1, 1, 2}).Draw(t, "thr"),
		DropHeld: rapid.IntRange(0, 3).Draw(t, "drop_held") == 0,
	}
	sc.Ops = genOps(t, sc.N, sc.Keys, false)
	return sc
}

func genObservers(t *rapid.T) Script {
	sc := Script{
		N:    rapid.IntRange(2, 3).Draw(t, "n"),
		Keys: rapid.IntRange(1, 4).Draw(t, "keys"),
		Thr:  1,
		Subs: rapid.SampledFrom([][]int{{0, 2}, {1, 2}, {0, 1, 2}, {2, 0}, {0, 2, 2}}).Draw(t, "subs"),
	}
	sc.Ops = genOps(t, sc.N, sc.Keys, true)
	return sc
}

// ---------------------------------------------------------------- order-independence script

// SynOp is an operation of a synthetic leaseholder; the version is the leaseholder's own
// counter (each (LH, Ver) exists once).
type SynOp struct {
	K   int   `json:"k"`
	LH  int   `json:"lh"`
	Ver int64 `json:"ver"`
	Del bool  `json:"del,omitempty"`
}

// Plan is one way of delivering the whole operation set to a fresh node: a list of batches,
// each a list of indexes into Ops (repeats allowed).
type Plan struct {
	Batches [][]int `json:"batches"`
}

type OrderScript struct {
	Keys  int     `json:"keys"`
	Ops   []SynOp `json:"ops"`
	Plans []Plan  `json:"plans"`
}

func genOrder(t *rapid.T) OrderScript {
	sc := OrderScript{Keys: rapid.IntRange(1, 4).Draw(t, "keys")}
	nlh := rapid.IntRange(1, 4).Draw(t, "nlh")
	ctr := make([]int64, nlh)
	nops := rapid.IntRange(2, 10).Draw(t, "nops")
	for i := 0; i < nops; i++ {
		l := rapid.IntRange(0, nlh-1).Draw(t, "lh")
		ctr[l] += int64(rapid.SampledFrom([]int{1, 1, 1, 2, 3}).Draw(t, "gap"))
		sc.Ops = append(sc.Ops, SynOp{K: rapid.IntRange(0, sc.Keys-1).Draw(t, "k"), LH: 2 + l, Ver: ctr[l],
			Del: rapid.IntRange(0, 4).Draw(t, "del") == 0})
	}
	nplans := rapid.IntRange(2, 4).Draw(t, "nplans")
	for p := 0; p < nplans; p++ {
		perm := rapid.Permutation(seq(nops)).Draw(t, "perm")
		// duplicates: re-insert some indexes at generated positions
		ndup := rapid.IntRange(0, 4).Draw(t, "ndup")
		for d := 0; d < ndup; d++ {
			v := rapid.IntRange(0, nops-1).Draw(t, "dup")
			at := rapid.IntRange(0, len(perm)).Draw(t, "at")
			perm = append(perm[:at], append([]int{v}, perm[at:]...)...)
		}
		var pl Plan
		for len(perm) > 0 {
			sz := rapid.IntRange(1, 4).Draw(t, "batch")
			if sz > len(perm) {
				sz = len(perm)
			}
			pl.Batches = append(pl.Batches, append([]int(nil), perm[:sz]...))
			perm = perm[sz:]
		}
		sc.Plans = append(sc.Plans, pl)
	}
	return sc
}
