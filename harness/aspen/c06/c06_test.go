// C06 — aspen replicas converge: same operations, any order, same state.
// C13 — key-value observers see each applied change once, never a stale one.
//
// Every simulated node is a real kv.Open on a memkv engine with a cluster handle (a
// cluster.Cluster value around a real cluster store holding the members; no membership
// gossip runs). All four kv transports are harness implementations (net_test.go):
// BindHandler captures the node's handlers, Send/Stream from production code land in the
// simulation. GossipInterval is ten hours, so the production emitter never fires; a gossip
// exchange a->b is produced by the harness from real state: a's infected set is the reply of
// a's own operation handler to an empty request; it is delivered to b's handler; b's infected
// set (read the same way, before or after b applied the request) is delivered back into a's
// handler, which feeds the same ingress segment as the production ack path. Feedback that
// production code sends for rejected operations is delivered, duplicated, dropped or held back
// by the script.
//
// Node pipelines are asynchronous. After every delivery the harness passes a *barrier*: a
// request holding one fresh marker operation (version 1) followed by an older copy of it
// (version 0) goes through the same ingress; the first is accepted (-> gossip store,
// observers), the second rejected (-> feedback sender); all stages are FIFO, so when the marker
// is visible at all ends everything before it has taken effect. The feedback path has its own
// barrier (enough feedback for an infected marker to cross the recovery threshold, then wait
// until it has left the infected set). Marker keys are private ("~m<n>", leaseholder 99), never
// leave the node through the harness and are ignored by every comparison. Waiting is bounded
// by 20 s and a timeout discards the case; if only the rejected copy fails to show up the case
// goes on (state and notifications are settled, the oracles decide) but is never a pass.
//
// Violation signatures
//
//	order-dependent-state[:detail]          TestC06Order: plans disagree / differ from LWW
//	state-not-lww:<detail>:<phase>          a node does not hold the LWW fold of what it was given
//	digest-regressed:<phase>:<tie|older-version|digest-removed>
//	quiescent-divergence:<cause>[+<cause>]  causes: displaced-by-feedback, infected-set-lost-on-restart,
//	                                        recovery-skipped, overwritten-by-recovery,
//	                                        overwritten-by-forwarded-write, sir-early-removal, unexplained
//	notified-twice, stale-notification, phantom-notification, missed-notification,
//	filter-mismatch:host-led-visible, filter-mismatch:remote-hidden            (C13)
//
// phase = local-write | gossip | feedback | recovery | stop | idle. Each divergence cause is
// matched against known_findings.json separately as "quiescent-divergence:<cause>".
package verif_c06_test

import (
	"errors"
	"fmt"
	"strings"
	"testing"

	"github.com/synnaxlabs/aspen/internal/node"
	kit "github.com/synnaxlabs/aspen/internal/verifkit"
)

func validScript(sc Script) bool {
	return sc.N >= 1 && sc.N <= 6 && sc.Keys >= 1 && sc.Keys <= 8 && sc.Thr >= 1 && sc.Thr <= 4
}

// runOps executes the scripted steps; shared by both properties.
func (s *sim) runOps() error {
	n := len(s.nodes)
	for i, op := range s.sc.Ops {
		step := fmt.Sprintf("step %d (%s)", i, op.Kind)
		a := s.nodes[((op.N%n)+n)%n]
		switch op.Kind {
		case "tx", "txfail":
			if err := s.localTx(a, op.Subs, i, op.Kind == "txfail"); err != nil {
				return err
			}
		case "inject":
			if err := s.inject(a, op, i); err != nil {
				return err
			}
		case "gossip":
			b := s.nodes[((op.M%n)+n)%n]
			if a == b || !a.up {
				continue
			}
			if err := s.gossip(a, b, op, fmt.Sprintf("step %d: gossip %s->%s", i, a.label(), b.label())); err != nil {
				return err
			}
		case "fb":
			if len(s.held) == 0 {
				continue
			}
			k := op.Pick % len(s.held)
			m := s.held[k]
			if op.Act != "dup" {
				s.held = append(s.held[:k:k], s.held[k+1:]...)
			}
			if op.Act == "drop" {
				s.event("step %d: held %s dropped", i, m)
				continue
			}
			s.rep.Class("late-feedback")
			if err := s.deliverFeedback(m, fmt.Sprintf("step %d: late", i)); err != nil {
				return err
			}
		case "redeliver":
			if err := s.redeliver(a, op, i); err != nil {
				return err
			}
		case "stop":
			if err := s.stop(a, step); err != nil {
				return err
			}
		case "start":
			if err := s.start(a, op.Order, step, op.BreakAfter); err != nil {
				return err
			}
			s.rep.Class("restart")
		case "restart":
			if !a.up {
				continue
			}
			if err := s.stop(a, step); err != nil {
				return err
			}
			if err := s.start(a, op.Order, step, op.BreakAfter); err != nil {
				return err
			}
			s.rep.Class("restart")
		case "partition":
			for x := 0; x < n; x++ {
				for y := 0; y < n; y++ {
					s.cut[x][y] = (op.Mask>>x)&1 != (op.Mask>>y)&1
				}
			}
			s.event("step %d: partition mask=%b", i, op.Mask)
			s.rep.Class("partition")
		case "heal":
			s.healAll()
			s.event("step %d: heal", i)
		case "sub":
			s.attach(a, op.SubKind%3, true)
			if a.up && s.mode == "c13" {
				s.rep.Class("subscriber-mid-traffic")
			}
		}
		if err := s.checkAll(step, phaseOf[op.Kind]); err != nil {
			return err
		}
	}
	return nil
}

var phaseOf = map[string]string{"txfail": "local-write", "tx": "local-write", "inject": "gossip", "gossip": "gossip", "redeliver": "gossip", "fb": "feedback",
	"stop": "stop", "start": "recovery", "restart": "recovery", "partition": "idle", "heal": "idle", "sub": "idle"}

func (s *sim) healAll() {
	for x := range s.cut {
		for y := range s.cut[x] {
			s.cut[x][y] = false
		}
	}
}

func finish(s *sim, rep *kit.Report, err error) error {
	closed := s.close()
	if err != nil {
		var v *kit.Violation
		if errors.As(err, &v) {
			return v
		}
		if errors.Is(err, errTimeout) {
			what := err.Error()
			if i := strings.Index(what, ": "); i >= 0 {
				what = what[i+2:]
			}
			if j := strings.IndexAny(what, "0123456789"); j > 0 {
				what = strings.TrimSpace(what[:j])
			}
			rep.Discard("timeout:" + what)
			noteOutcome(true)
			return nil
		}
		return kit.Fail("harness", "%v\nhistory:\n%s", err, s.history())
	}
	noteOutcome(!closed)
	if !closed {
		rep.Discard("timeout:close")
	} else if s.softBarrier {
		rep.Discard("barrier-without-feedback")
	}
	return nil
}

func (s *sim) classify() {
	s.rep.Class(fmt.Sprintf("nodes=%d", len(s.nodes)))
	if s.dupDeliveries > 0 {
		s.rep.Class("duplicate-delivery")
	}
	if s.staleDeliveries > 0 {
		s.rep.Class("stale-delivery")
	}
	if s.conflicts > 0 {
		s.rep.Class("conflicting-versions")
	}
	for _, m := range s.allOps {
		byVer := map[int64]map[int]bool{}
		del, set := false, false
		for id, o := range m {
			if byVer[id.Ver] == nil {
				byVer[id.Ver] = map[int]bool{}
			}
			byVer[id.Ver][id.LH] = true
			if o.Del {
				del = true
			} else {
				set = true
			}
		}
		for _, l := range byVer {
			if len(l) > 1 {
				s.rep.Class("equal-version-different-leaseholder")
			}
		}
		if del && set {
			s.rep.Class("delete-vs-set")
		}
	}
	s.rep.Add("deliveries", int64(len(s.captured)))
}

// ---------------------------------------------------------------- C06 cluster

func executeCluster(sc Script, rep *kit.Report) error {
	if !validScript(sc) {
		rep.Discard("bad-script")
		return nil
	}
	s, err := newSim(sc, rep, "c06")
	if err != nil {
		return finish(s, rep, err)
	}
	if err = s.runOps(); err != nil {
		return finish(s, rep, err)
	}
	// ---- quiescent convergence
	s.healAll()
	s.event("final: heal")
	for _, n := range s.nodes {
		if !n.up {
			if err = s.start(n, nil, "final", 0); err != nil {
				return finish(s, rep, err)
			}
			if err = s.checkAll("final start of "+n.label(), "recovery"); err != nil {
				return finish(s, rep, err)
			}
			if !n.up {
				rep.Discard("node-cannot-start")
				return finish(s, rep, nil)
			}
		}
	}
	held := s.held
	s.held = nil
	for _, m := range held {
		if sc.DropHeld {
			s.event("final: held %s dropped", m)
			continue
		}
		rep.Class("late-feedback")
		if err = s.deliverFeedback(m, "final: late"); err != nil {
			return finish(s, rep, err)
		}
	}
	if err = s.checkAll("final: late feedback", "feedback"); err != nil {
		return finish(s, rep, err)
	}
	quiet, err := s.quiesce()
	if err != nil {
		return finish(s, rep, err)
	}
	if !quiet {
		rep.Discard("no-quiescence-within-bound")
		return finish(s, rep, nil)
	}
	s.event("final: quiescent")
	if err = s.checkConverged(); err != nil {
		return finish(s, rep, err)
	}
	s.classify()
	if s.conflicts > 0 && s.dupDeliveries+s.staleDeliveries > 0 {
		rep.Nontrivial()
	}
	return finish(s, rep, nil)
}

// ---------------------------------------------------------------- C13

func executeObservers(sc Script, rep *kit.Report) error {
	if !validScript(sc) {
		rep.Discard("bad-script")
		return nil
	}
	for _, k := range sc.Subs {
		if k < 0 || k > 2 {
			rep.Discard("bad-script")
			return nil
		}
	}
	s, err := newSim(sc, rep, "c13")
	if err != nil {
		return finish(s, rep, err)
	}
	for _, n := range s.nodes {
		s.attachInitialSubscribers(n)
	}
	if err = s.runOps(); err != nil {
		return finish(s, rep, err)
	}
	for _, n := range s.nodes {
		if !n.up {
			continue
		}
		if err = s.barrier(n); err != nil {
			return finish(s, rep, err)
		}
		if err = s.judgeSubscribers(n, "end of script"); err != nil {
			return finish(s, rep, err)
		}
	}
	s.classify()
	rep.Add("subscribers", int64(len(s.allSubs)))
	var notified int64
	for _, sb := range s.allSubs {
		sb.mu.Lock()
		for _, k := range sb.got {
			notified += int64(k)
		}
		sb.mu.Unlock()
	}
	rep.Add("notifications", notified)
	if s.dupDeliveries > 0 && s.staleDeliveries > 0 {
		rep.Nontrivial()
	}
	return finish(s, rep, nil)
}

// ---------------------------------------------------------------- C06 order independence

func executeOrder(sc OrderScript, rep *kit.Report) error {
	if sc.Keys < 1 || sc.Keys > 8 || len(sc.Ops) == 0 || len(sc.Plans) < 1 {
		rep.Discard("bad-script")
		return nil
	}
	ops := make([]opRec, len(sc.Ops))
	lww := map[string]opRec{}
	seen := map[[2]int64]bool{}
	for i, so := range sc.Ops {
		if so.LH < 2 || so.LH > 60 || so.Ver < 1 || so.K < 0 || seen[[2]int64{int64(so.LH), so.Ver}] {
			rep.Discard("bad-script")
			return nil
		}
		seen[[2]int64{int64(so.LH), so.Ver}] = true
		o := opRec{ID: opID{Key: keyName(so.K % sc.Keys), Ver: so.Ver, LH: so.LH}, Del: so.Del}
		if !so.Del {
			o.Val = fmt.Sprintf("v%d", i)
		}
		ops[i] = o
		if w, ok := lww[o.ID.Key]; !ok || newer(o.ID, w.ID) {
			lww[o.ID.Key] = o
		}
	}
	for _, pl := range sc.Plans {
		cover := map[int]bool{}
		for _, b := range pl.Batches {
			for _, i := range b {
				if i < 0 || i >= len(ops) {
					rep.Discard("bad-script")
					return nil
				}
				cover[i] = true
			}
		}
		if len(cover) != len(ops) {
			rep.Discard("bad-script")
			return nil
		}
	}
	var states []string
	var hist []string
	dup, reorder := false, false
	for pi, pl := range sc.Plans {
		s, err := newSim(Script{N: 1, Keys: sc.Keys, Thr: 1}, rep, "c06")
		if err != nil {
			return finish(s, rep, err)
		}
		n := s.nodes[0]
		count := map[int]int{}
		last := -1
		for _, b := range pl.Batches {
			var batch []opRec
			for _, i := range b {
				batch = append(batch, ops[i])
				count[i]++
				if count[i] > 1 {
					dup = true
				}
				if i < last {
					reorder = true
				}
				last = i
			}
			req := opRecsToRequest(node.Key(ops[b[0]].ID.LH), batch)
			for _, o := range batch {
				s.receive(n, o)
			}
			if _, err := s.opH(n)(s.ctx, req); err != nil {
				return finish(s, rep, err)
			}
		}
		if err := s.barrier(n); err != nil {
			return finish(s, rep, err)
		}
		var parts []string
		for _, k := range s.keys {
			st, err := readStored(s.ctx, n.engine, k)
			if err != nil {
				return finish(s, rep, err)
			}
			parts = append(parts, k+": "+st.String())
		}
		state := strings.Join(parts, "; ")
		states = append(states, state)
		hist = append(hist, fmt.Sprintf("plan %d %v -> %s", pi, pl.Batches, state))
		// against the reference
		if err := s.checkNode(n, fmt.Sprintf("plan %d %v", pi, pl.Batches), "gossip"); err != nil {
			var v *kit.Violation
			if errors.As(err, &v) {
				v.Sig = "order-dependent-state:" + strings.TrimSuffix(strings.TrimPrefix(v.Sig, "state-not-lww:"), ":gossip")
				v.Msg = describeOps(ops) + "\n" + v.Msg
			}
			return finish(s, rep, err)
		}
		if e := finish(s, rep, nil); e != nil {
			return e
		}
		if rep.Has("__discarded") {
			return nil
		}
	}
	for i := 1; i < len(states); i++ {
		if states[i] != states[0] {
			return kit.Fail("order-dependent-state", "%s\nthe same operation set delivered in different orders gives different states:\n%s",
				describeOps(ops), strings.Join(hist, "\n"))
		}
	}
	// classes
	byKey := map[string][]opRec{}
	for _, o := range ops {
		byKey[o.ID.Key] = append(byKey[o.ID.Key], o)
	}
	conflict := false
	for _, l := range byKey {
		if len(l) > 1 {
			conflict = true
		}
		vers := map[int64]int{}
		del, set := false, false
		for _, o := range l {
			vers[o.ID.Ver]++
			if o.Del {
				del = true
			} else {
				set = true
			}
		}
		for _, c := range vers {
			if c > 1 {
				rep.Class("equal-version-different-leaseholder")
			}
		}
		if del && set {
			rep.Class("delete-vs-set")
		}
	}
	if dup {
		rep.Class("duplicate-delivery")
	}
	if reorder {
		rep.Class("reordered-delivery")
	}
	if conflict {
		rep.Class("conflicting-versions")
	}
	rep.Add("plans", int64(len(sc.Plans)))
	if conflict && (dup || reorder) {
		rep.Nontrivial()
	}
	return nil
}

func describeOps(ops []opRec) string {
	var l []string
	for i, o := range ops {
		l = append(l, fmt.Sprintf("%d:%s", i, o))
	}
	return "operations: " + strings.Join(l, ", ")
}

// ---------------------------------------------------------------- tests

func TestC06Order(t *testing.T) {
	r := &kit.Runner[OrderScript]{Name: "TestC06Order", Exec: executeOrder}
	r.Run(t, genOrder)
}

func TestC06Cluster(t *testing.T) {
	r := &kit.Runner[Script]{Name: "TestC06Cluster", Exec: executeCluster}
	r.Run(t, genCluster)
}

func TestC13(t *testing.T) {
	r := &kit.Runner[Script]{Name: "TestC13", Exec: executeObservers}
	r.Run(t, genObservers)
}
