// Harness-owned freighter transports for aspen/internal/kv: operation gossip, feedback,
// lease forwarding and the recovery stream. BindHandler captures the node's real handlers;
// every Send/Stream issued by production code lands in the simulation.
package verif_c06_test

import (
	"context"
	"errors"
	"go/types"
	"sync"

	"github.com/synnaxlabs/aspen/internal/kv"
	"github.com/synnaxlabs/freighter"
	"github.com/synnaxlabs/x/address"
)

var (
	errUnreachable = errors.New("verif: target unreachable")
	errNoEmitter   = errors.New("verif: production gossip emitter is disabled in this harness")
)

type (
	opHandler    = func(context.Context, kv.TxRequest) (kv.TxRequest, error)
	fbHandler    = func(context.Context, kv.FeedbackMessage) (types.Nil, error)
	leaseHandler = func(context.Context, kv.TxRequest) (types.Nil, error)
	recHandler   = func(context.Context, kv.RecoveryTransportServerStream) error
)

// handlers is the set of handlers one kv.Open bound; a restart installs a fresh set.
type handlers struct {
	mu    sync.Mutex
	op    opHandler
	fb    fbHandler
	lease leaseHandler
	rec   recHandler
}

type transport struct{ freighter.Reporter }

func (transport) Use(...freighter.Middleware) {}

// ---- servers

type opServer struct {
	transport
	h *handlers
}

func (s *opServer) BindHandler(f opHandler) { s.h.mu.Lock(); s.h.op = f; s.h.mu.Unlock() }

type fbServer struct {
	transport
	h *handlers
}

func (s *fbServer) BindHandler(f fbHandler) { s.h.mu.Lock(); s.h.fb = f; s.h.mu.Unlock() }

type leaseServer struct {
	transport
	h *handlers
}

func (s *leaseServer) BindHandler(f leaseHandler) { s.h.mu.Lock(); s.h.lease = f; s.h.mu.Unlock() }

type recServer struct {
	transport
	h *handlers
}

func (s *recServer) BindHandler(f recHandler) { s.h.mu.Lock(); s.h.rec = f; s.h.mu.Unlock() }

// ---- clients

// opClient is only reachable from the production emitter, which never fires (GossipInterval
// is hours): gossip rounds are produced by the harness.
type opClient struct {
	transport
	s *sim
}

func (c *opClient) Send(context.Context, address.Address, kv.TxRequest) (kv.TxRequest, error) {
	c.s.noteUnexpected("operation client Send")
	return kv.TxRequest{}, errNoEmitter
}

type fbClient struct {
	transport
	s    *sim
	from *nodeSim
}

func (c *fbClient) Send(_ context.Context, target address.Address, msg kv.FeedbackMessage) (types.Nil, error) {
	c.s.onFeedbackSend(c.from, target, msg)
	return types.Nil{}, nil
}

type leaseClient struct {
	transport
	s    *sim
	from *nodeSim
}

func (c *leaseClient) Send(_ context.Context, target address.Address, req kv.TxRequest) (types.Nil, error) {
	return types.Nil{}, c.s.onLeaseSend(c.from, target, req)
}

type recClient struct {
	transport
	s    *sim
	from *nodeSim
}

func (c *recClient) Stream(ctx context.Context, target address.Address) (kv.RecoveryTransportClientStream, error) {
	return c.s.onRecoveryStream(ctx, c.from, target)
}

// recStream is the client half of a recovery stream. The server handler runs to completion
// on the first Receive; responses are then handed out one by one, EOF last. The EOF of each
// peer is released in the order the script chose (see sim.recoveryGate).
type recStream struct {
	s       *sim
	from    *nodeSim
	peer    *nodeSim
	ctx     context.Context
	req     kv.RecoveryRequest
	sent    bool
	ran     bool
	resp    []kv.RecoveryResponse
	err     error
	eofSent bool
	handed  int
}

var errStreamBroken = errors.New("verif: recovery stream broken (injected transport error)")

func (r *recStream) Send(req kv.RecoveryRequest) error {
	r.req, r.sent = req, true
	return nil
}

func (r *recStream) CloseSend() error { return nil }

func (r *recStream) Receive() (kv.RecoveryResponse, error) {
	if !r.ran {
		r.ran = true
		r.resp, r.err = r.s.runRecoveryServer(r)
	}
	if len(r.resp) > 0 {
		if r.s.cutStream(r) {
			return kv.RecoveryResponse{}, errStreamBroken
		}
		out := r.resp[0]
		r.resp = r.resp[1:]
		r.handed++
		return out, nil
	}
	if r.err != nil {
		return kv.RecoveryResponse{}, r.err
	}
	if !r.eofSent {
		r.eofSent = true
		r.s.recoveryGate(r)
	}
	return kv.RecoveryResponse{}, freighter.EOF
}

// recServerStream is the server half handed to recoveryServer.recoverPeer.
type recServerStream struct {
	r    *recStream
	got  bool
	resp []kv.RecoveryResponse
}

func (s *recServerStream) Receive() (kv.RecoveryRequest, error) {
	if s.got || !s.r.sent {
		return kv.RecoveryRequest{}, freighter.EOF
	}
	s.got = true
	return s.r.req, nil
}

func (s *recServerStream) Send(res kv.RecoveryResponse) error {
	cp := kv.RecoveryResponse{Operations: make([]kv.Operation, len(res.Operations))}
	for i, op := range res.Operations {
		cp.Operations[i] = cloneOp(op)
	}
	s.resp = append(s.resp, cp)
	return nil
}
