// Simulation core shared by the C06 and C13 checks: real kv.Open nodes on memkv engines,
// harness-owned transports, a barrier that makes the asynchronous node pipelines observable,
// an independent last-writer-wins model and the oracles.
package verif_c06_test

import (
	"bytes"
	"context"
	"errors"
	"fmt"
	"io"
	"os"
	"sort"
	"strings"
	"sync"
	"sync/atomic"
	"time"

	"github.com/synnaxlabs/aspen/internal/cluster"
	clusterstore "github.com/synnaxlabs/aspen/internal/cluster/store"
	"github.com/synnaxlabs/aspen/internal/kv"
	"github.com/synnaxlabs/aspen/internal/node"
	kit "github.com/synnaxlabs/aspen/internal/verifkit"
	"github.com/synnaxlabs/x/address"
	"github.com/synnaxlabs/x/change"
	"github.com/synnaxlabs/x/encoding"
	"github.com/synnaxlabs/x/encoding/gob"
	"github.com/synnaxlabs/x/encoding/msgpack"
	xkv "github.com/synnaxlabs/x/kv"
	"github.com/synnaxlabs/x/kv/memkv"
	"github.com/synnaxlabs/x/query"
	"github.com/synnaxlabs/x/version"
)

const (
	markerLH     node.Key = 99 // leaseholder of barrier markers (never a member)
	markerPrefix          = "~m"
	synBase               = 7 // node keys of synthetic remote leaseholders: 7, 8
	digestPrefix          = "--dig/"
)

// waitTimeout bounds every wait on a node pipeline; a timeout discards the case. After three
// consecutive cases that timed out it drops to 2 s until a case completes (a broken build
// would otherwise burn 20 s per case).
var (
	waitTimeout    = 20 * time.Second
	timeoutsInARow int
)

func noteOutcome(timedOut bool) {
	if timedOut {
		timeoutsInARow++
		if timeoutsInARow >= 3 {
			waitTimeout = 2 * time.Second
		}
		return
	}
	timeoutsInARow, waitTimeout = 0, 20*time.Second
}

var (
	errTimeout = errors.New("verif: timeout")
	digCodec   = encoding.NewDecodeFallbackCodec(msgpack.Codec, gob.Codec)
)

// ---------------------------------------------------------------- model types

// opID identifies an operation: versions are issued once per leaseholder.
type opID struct {
	Key string
	Ver int64
	LH  int
}

func (a opID) String() string { return fmt.Sprintf("%s@%d/n%d", a.Key, a.Ver, a.LH) }

// newer is the harness's own statement of the resolution rule: higher version wins; equal
// versions go to the higher leaseholder.
func newer(a, b opID) bool {
	if a.Ver != b.Ver {
		return a.Ver > b.Ver
	}
	return a.LH > b.LH
}

type opRec struct {
	ID  opID
	Del bool
	Val string
}

func (o opRec) String() string {
	if o.Del {
		return o.ID.String() + " del"
	}
	return o.ID.String() + "=" + o.Val
}

func recOf(op kv.Operation) opRec {
	return opRec{ID: opID{Key: string(op.Key), Ver: int64(op.Version), LH: int(op.Leaseholder)},
		Del: op.Variant == change.VariantDelete, Val: string(op.Value)}
}

func (o opRec) operation() kv.Operation {
	op := kv.Operation{Version: version.Counter(o.ID.Ver), Leaseholder: node.Key(o.ID.LH)}
	op.Key = []byte(o.ID.Key)
	if o.Del {
		op.Variant = change.VariantDelete
	} else {
		op.Variant = change.VariantSet
		op.Value = []byte(o.Val)
	}
	return op
}

func opRecsToRequest(sender node.Key, ops []opRec) kv.TxRequest {
	req := kv.TxRequest{Sender: sender}
	for _, o := range ops {
		req.Operations = append(req.Operations, o.operation())
	}
	return req
}

func cloneOp(op kv.Operation) kv.Operation {
	out := kv.Operation{Version: op.Version, Leaseholder: op.Leaseholder}
	out.Key = bytes.Clone(op.Key)
	out.Value = bytes.Clone(op.Value)
	out.Variant = op.Variant
	return out
}

// stored is what a node's engine holds for one key.
type stored struct {
	HasDig bool
	ID     opID
	Del    bool
	HasVal bool
	Val    string
}

func (s stored) String() string {
	if !s.HasDig {
		if s.HasVal {
			return "(no digest, value " + s.Val + ")"
		}
		return "(nothing)"
	}
	d := s.ID.String()
	if s.Del {
		d += " del"
	}
	if s.HasVal {
		return d + " value=" + s.Val
	}
	return d + " no-value"
}

func readStored(ctx context.Context, e xkv.DB, key string) (stored, error) {
	var st stored
	st.ID.Key = key
	dk := append([]byte(digestPrefix), key...)
	b, c, err := e.Get(ctx, dk)
	if err == nil {
		var d kv.Digest
		derr := digCodec.Decode(ctx, b, &d)
		_ = c.Close()
		if derr != nil {
			return st, derr
		}
		st.HasDig = true
		st.ID = opID{Key: key, Ver: int64(d.Version), LH: int(d.Leaseholder)}
		st.Del = d.Variant == change.VariantDelete
	} else if !errors.Is(err, query.ErrNotFound) {
		return st, err
	}
	v, c, err := e.Get(ctx, []byte(key))
	if err == nil {
		st.HasVal, st.Val = true, string(v)
		_ = c.Close()
	} else if !errors.Is(err, query.ErrNotFound) {
		return st, err
	}
	return st, nil
}

// ---------------------------------------------------------------- subscribers

type chg struct {
	Key string
	Del bool
	Val string
}

func (c chg) String() string {
	if c.Del {
		return c.Key + " del"
	}
	return c.Key + "=" + c.Val
}

type subscriber struct {
	id       int
	kind     int // 0 DB.OnChange, 1 NewObservable().OnChange, 2 NewObservable(IgnoreHostLeaseholder).OnChange
	mid      bool
	node     *nodeSim
	mu       sync.Mutex
	got      map[chg]int
	gotLog   []string
	markers  map[string]bool
	expected map[chg]int
	disc     func()
}

func (sb *subscriber) filtered() bool { return sb.kind == 2 }

func (sb *subscriber) handle(_ context.Context, r xkv.TxReader) {
	var cs []chg
	for c := range r {
		cs = append(cs, chg{Key: string(c.Key), Del: c.Variant == change.VariantDelete, Val: string(c.Value)})
	}
	sb.mu.Lock()
	defer sb.mu.Unlock()
	var parts []string
	for _, c := range cs {
		if strings.HasPrefix(c.Key, markerPrefix) {
			sb.markers[c.Key] = true
			continue
		}
		sb.got[c]++
		parts = append(parts, c.String())
	}
	if len(parts) > 0 {
		sb.gotLog = append(sb.gotLog, "["+strings.Join(parts, ", ")+"]")
	}
}

func (sb *subscriber) sawMarker(k string) bool {
	sb.mu.Lock()
	defer sb.mu.Unlock()
	return sb.markers[k]
}

// ---------------------------------------------------------------- simulation state

type nodeSim struct {
	idx        int
	key        node.Key
	addr       address.Address
	engine     xkv.DB
	cluster    *cluster.Cluster
	db         *kv.DB
	h          *handlers
	up         bool
	issued     int64             // highest version learned from this leaseholder
	best       map[string]opRec  // LWW over everything this node received, per key
	have       map[string]bool   // whether best[key] exists
	last       map[string]stored // last observed engine state, per key
	cur        map[string]stored // model of the stored state between observations (C13 history of stored digests)
	taint      map[string]bool   // keys excluded after a known finding
	subs       []*subscriber
	lostAtStop []opID   // operations that were infected here when the node last stopped
	markers    []string // marker keys currently infected in the node's gossip store
	// C13 bookkeeping: which changes reached the node on which path
	localChg    map[chg]int
	rejectedChg map[chg]bool
}

func (n *nodeSim) label() string { return fmt.Sprintf("n%d", n.key) }

type fbMsg struct {
	from    *nodeSim
	to      address.Address
	digests []kv.Digest
}

func (m *fbMsg) String() string {
	var ds []string
	for _, d := range m.digests {
		ds = append(ds, fmt.Sprintf("%s@%d/n%d", d.Key, d.Version, d.Leaseholder))
	}
	return fmt.Sprintf("feedback %s->%s [%s]", m.from.label(), m.to, strings.Join(ds, " "))
}

type capReq struct {
	sender node.Key
	ops    []opRec
}

type fwd struct {
	to   *nodeSim
	keys []string
	err  error
}

type recCtl struct {
	node     *nodeSim
	order    []*nodeSim
	turn     int
	prev     []kv.Operation
	hasPrev  bool
	streamed map[int][]kv.Operation
	hw       map[int]int64
}

type sim struct {
	sc    Script
	rep   *kit.Report
	mode  string // "c06" | "c13"
	ctx   context.Context
	nodes []*nodeSim
	keys  []string
	byAdr map[address.Address]*nodeSim
	cut   [][]bool

	mu         sync.Mutex
	fresh      []*fbMsg // feedback sent by production code since the last collect
	markerFb   map[string]bool
	unexpected []string
	curFwd     []fwd
	rec        *recCtl
	lastRec    *recCtl

	held       []*fbMsg
	captured   []capReq
	allOps     map[string]map[opID]opRec // every operation that exists, per key
	opEvents   map[opID]map[string]bool  // lifecycle notes used to explain a divergence
	skipped    map[opID]map[int]bool     // recovery of node idx skipped this op
	breakAfter int                       // > 0: armed for the node that is starting (see Op.BreakAfter)
	cutRec     *cutInfo                  // the stream that was cut during the current start
	failedRec  *recCtl                   // recovery bookkeeping of the last start that failed
	synCtr     [2]int64
	nextMarker int
	nextVal    int
	nextSub    int
	events     []string
	exclude    map[string]bool
	allSubs    []*subscriber

	dupDeliveries, staleDeliveries, conflicts int
	softBarrier                               bool
}

func (s *sim) event(format string, args ...any) {
	s.events = append(s.events, fmt.Sprintf(format, args...))
}

func (s *sim) history() string {
	var b strings.Builder
	ev := s.events
	if len(ev) > 400 {
		ev = ev[len(ev)-400:]
		b.WriteString("  ... (truncated)\n")
	}
	for i, e := range ev {
		fmt.Fprintf(&b, "%3d %s\n", i, e)
	}
	return b.String()
}

// violate reports a violation unless its signature is a listed known finding or locally
// excluded (C06_EXCLUDE, investigation aid); returns nil when the case may continue.
func (s *sim) violate(sig, format string, args ...any) error {
	if s.mode == "c13" && !c13Sig(sig) {
		// a C06 matter (state divergence): not this property's business
		s.rep.Class("c06-matter:" + sig)
		return nil
	}
	if s.rep.Known(sig) {
		s.rep.Class("known:" + sig)
		return nil
	}
	for e := range s.exclude {
		if sig == e || strings.HasPrefix(sig, e+":") {
			s.rep.Class("excluded:" + sig)
			return nil
		}
	}
	return kit.Fail(sig, format+"\nhistory:\n%s", append(args, s.history())...)
}

func c13Sig(sig string) bool {
	for _, p := range []string{"notified-twice", "stale-notification", "phantom-notification", "missed-notification", "filter-mismatch", "harness"} {
		if strings.HasPrefix(sig, p) {
			return true
		}
	}
	return false
}

func (s *sim) noteUnexpected(what string) {
	s.mu.Lock()
	s.unexpected = append(s.unexpected, what)
	s.mu.Unlock()
}

func keyName(i int) string { return fmt.Sprintf("k%d", i) }

func newSim(sc Script, rep *kit.Report, mode string) (*sim, error) {
	s := &sim{sc: sc, rep: rep, mode: mode, ctx: context.Background(),
		byAdr: map[address.Address]*nodeSim{}, markerFb: map[string]bool{},
		allOps: map[string]map[opID]opRec{}, opEvents: map[opID]map[string]bool{},
		skipped: map[opID]map[int]bool{}, exclude: map[string]bool{}}
	for _, e := range strings.Split(os.Getenv("C06_EXCLUDE"), ",") {
		if e != "" {
			s.exclude[e] = true
		}
	}
	for i := 0; i < sc.Keys; i++ {
		s.keys = append(s.keys, keyName(i))
	}
	s.cut = make([][]bool, sc.N)
	for i := range s.cut {
		s.cut[i] = make([]bool, sc.N)
	}
	for i := 0; i < sc.N; i++ {
		n := &nodeSim{idx: i, key: node.Key(i + 1), addr: address.Address(fmt.Sprintf("addr%d", i+1)),
			best: map[string]opRec{}, have: map[string]bool{}, last: map[string]stored{}, cur: map[string]stored{}, taint: map[string]bool{},
			localChg: map[chg]int{}, rejectedChg: map[chg]bool{}}
		s.nodes = append(s.nodes, n)
		s.byAdr[n.addr] = n
	}
	// The cluster grows one member at a time: a node opens knowing the members before it,
	// and the earlier members then learn about it (what membership gossip would do). Engines
	// are empty, so start-up recovery has nothing to move.
	for i, n := range s.nodes {
		n.engine = &refuseCommitDB{DB: memkv.New()}
		st := clusterstore.New(s.ctx)
		for _, o := range s.nodes[:i] {
			st.SetNode(s.ctx, node.Node{Key: o.key, Address: o.addr})
		}
		st.SetHost(s.ctx, node.Node{Key: n.key, Address: n.addr})
		n.cluster = &cluster.Cluster{Store: st}
		if err := s.openNode(n, nil); err != nil {
			return s, fmt.Errorf("kv.Open %s: %w", n.label(), err)
		}
		for _, o := range s.nodes[:i] {
			o.cluster.SetNode(s.ctx, node.Node{Key: n.key, Address: n.addr})
		}
	}
	return s, nil
}

func (s *sim) close() bool {
	done := make(chan struct{})
	go func() {
		for _, n := range s.nodes {
			if n.db != nil {
				_ = n.db.Close()
				n.db = nil
			}
		}
		for _, n := range s.nodes {
			if n.engine != nil {
				_ = n.engine.Close()
			}
		}
		close(done)
	}()
	select {
	case <-done:
		return true
	case <-time.After(waitTimeout):
		return false
	}
}

func (s *sim) reachable(a, b *nodeSim) bool { return b.up && !s.cut[a.idx][b.idx] }

// ---------------------------------------------------------------- node lifecycle

func (s *sim) openNode(n *nodeSim, order []int) error {
	h := &handlers{}
	thr := s.sc.Thr
	if thr < 1 {
		thr = 1
	}
	cfg := kv.Config{
		BatchTransportClient:    &opClient{s: s},
		BatchTransportServer:    &opServer{h: h},
		FeedbackTransportClient: &fbClient{s: s, from: n},
		FeedbackTransportServer: &fbServer{h: h},
		LeaseTransportClient:    &leaseClient{s: s, from: n},
		LeaseTransportServer:    &leaseServer{h: h},
		RecoveryTransportClient: &recClient{s: s, from: n},
		RecoveryTransportServer: &recServer{h: h},
		Engine:                  n.engine,
		Cluster:                 n.cluster,
		GossipInterval:          10 * time.Hour,
		RecoveryThreshold:       thr,
	}
	ctl := &recCtl{node: n, streamed: map[int][]kv.Operation{}, hw: map[int]int64{}}
	seen := map[int]bool{n.idx: true}
	for _, o := range order {
		if o >= 0 && o < len(s.nodes) && !seen[o] {
			seen[o] = true
			ctl.order = append(ctl.order, s.nodes[o])
		}
	}
	for _, o := range s.nodes {
		if !seen[o.idx] {
			ctl.order = append(ctl.order, o)
		}
	}
	s.mu.Lock()
	s.rec = ctl
	s.mu.Unlock()
	type res struct {
		db  *kv.DB
		err error
	}
	ch := make(chan res, 1)
	go func() {
		db, err := kv.Open(s.ctx, cfg)
		ch <- res{db, err}
	}()
	var r res
	select {
	case r = <-ch:
	case <-time.After(waitTimeout):
		return errTimeout
	}
	s.mu.Lock()
	s.rec = nil
	s.mu.Unlock()
	if r.err != nil {
		if r.db != nil {
			_ = r.db.Close()
		}
		s.failedRec = ctl
		return r.err
	}
	n.db, n.h, n.up = r.db, h, true
	s.lastRec = ctl
	n.markers = nil
	// what the recovery streams carried has been received by n
	for _, p := range ctl.order {
		for _, op := range ctl.streamed[p.idx] {
			if strings.HasPrefix(string(op.Key), markerPrefix) {
				continue
			}
			s.receive(n, recOf(op))
		}
	}
	return nil
}

// receive adds an operation to the set node n has been given.
func (s *sim) receive(n *nodeSim, o opRec) {
	if !n.have[o.ID.Key] || newer(o.ID, n.best[o.ID.Key].ID) {
		n.best[o.ID.Key], n.have[o.ID.Key] = o, true
	}
	m := s.allOps[o.ID.Key]
	if m == nil {
		m = map[opID]opRec{}
		s.allOps[o.ID.Key] = m
	}
	m[o.ID] = o
}

func (s *sim) note(id opID, what string) {
	m := s.opEvents[id]
	if m == nil {
		m = map[string]bool{}
		s.opEvents[id] = m
	}
	m[what] = true
}

// ---------------------------------------------------------------- transport callbacks

func isMarkerDigests(ds kv.Digests) (string, bool) {
	if len(ds) == 0 {
		return "", false
	}
	for _, d := range ds {
		if !strings.HasPrefix(string(d.Key), markerPrefix) {
			return "", false
		}
	}
	return string(ds[0].Key), true
}

func (s *sim) onFeedbackSend(from *nodeSim, target address.Address, msg kv.FeedbackMessage) {
	s.mu.Lock()
	defer s.mu.Unlock()
	if k, ok := isMarkerDigests(msg.Digests); ok {
		s.markerFb[k] = true
		return
	}
	m := &fbMsg{from: from, to: target}
	for _, d := range msg.Digests {
		if strings.HasPrefix(string(d.Key), markerPrefix) {
			continue
		}
		m.digests = append(m.digests, kv.Digest{Key: bytes.Clone(d.Key), Version: d.Version, Leaseholder: d.Leaseholder, Variant: d.Variant})
	}
	s.fresh = append(s.fresh, m)
}

func (s *sim) onLeaseSend(from *nodeSim, target address.Address, req kv.TxRequest) error {
	to := s.byAdr[target]
	f := fwd{to: to}
	for _, op := range req.Operations {
		f.keys = append(f.keys, string(op.Key))
	}
	var h leaseHandler
	if to != nil && s.reachable(from, to) {
		to.h.mu.Lock()
		h = to.h.lease
		to.h.mu.Unlock()
	}
	if h == nil {
		f.err = errUnreachable
	} else {
		wire := kv.TxRequest{Context: context.Background(), Leaseholder: req.Leaseholder, Sender: req.Sender}
		for _, op := range req.Operations {
			wire.Operations = append(wire.Operations, cloneOp(op))
		}
		_, f.err = h(context.Background(), wire)
	}
	s.mu.Lock()
	s.curFwd = append(s.curFwd, f)
	s.mu.Unlock()
	return f.err
}

type cutInfo struct {
	peer      *nodeSim
	delivered []kv.Operation
	withheld  []kv.Operation
}

// cutStream decides, before a response of r is handed out, whether the stream breaks here.
func (s *sim) cutStream(r *recStream) bool {
	s.mu.Lock()
	defer s.mu.Unlock()
	if s.breakAfter <= 0 || s.cutRec != nil || s.rec == nil || s.rec.node != r.from || r.handed < s.breakAfter-1 {
		return false
	}
	c := &cutInfo{peer: r.peer}
	all := s.rec.streamed[r.peer.idx]
	n := 0
	for _, resp := range r.resp {
		n += len(resp.Operations)
	}
	if n > len(all) {
		n = len(all)
	}
	c.delivered, c.withheld = all[:len(all)-n], all[len(all)-n:]
	s.cutRec = c
	return true
}

func (s *sim) onRecoveryStream(ctx context.Context, from *nodeSim, target address.Address) (kv.RecoveryTransportClientStream, error) {
	peer := s.byAdr[target]
	if peer == nil || !s.reachable(from, peer) {
		return nil, errUnreachable
	}
	return &recStream{s: s, from: from, peer: peer, ctx: ctx}, nil
}

func (s *sim) runRecoveryServer(r *recStream) ([]kv.RecoveryResponse, error) {
	r.peer.h.mu.Lock()
	h := r.peer.h.rec
	r.peer.h.mu.Unlock()
	if h == nil {
		return nil, errUnreachable
	}
	ss := &recServerStream{r: r}
	err := h(r.ctx, ss)
	s.mu.Lock()
	if ctl := s.rec; ctl != nil && ctl.node == r.from {
		var ops []kv.Operation
		for _, resp := range ss.resp {
			ops = append(ops, resp.Operations...)
		}
		ctl.streamed[r.peer.idx] = ops
		ctl.hw[r.peer.idx] = int64(r.req.HighWater)
	}
	s.mu.Unlock()
	return ss.resp, err
}

// recoveryGate releases the end-of-stream of the peers in the order the script chose; before
// a peer is released the previous peer's operations must be visible in the engine (its
// transaction committed), so that the commit order is the scripted one.
func (s *sim) recoveryGate(r *recStream) {
	deadline := time.Now().Add(3 * time.Second)
	for {
		s.mu.Lock()
		ctl := s.rec
		if ctl == nil || ctl.node != r.from || ctl.turn >= len(ctl.order) {
			s.mu.Unlock()
			return
		}
		// skip peers that cannot take part
		for ctl.turn < len(ctl.order) && !s.reachable(r.from, ctl.order[ctl.turn]) {
			ctl.turn++
		}
		mine := ctl.turn < len(ctl.order) && ctl.order[ctl.turn] == r.peer
		late := time.Now().After(deadline) || r.ctx.Err() != nil
		if mine || late {
			prev, has := ctl.prev, ctl.hasPrev
			s.mu.Unlock()
			if has && !late {
				s.waitReflected(r.from, prev, deadline)
			}
			s.mu.Lock()
			if mine {
				ctl.turn++
			}
			ctl.prev, ctl.hasPrev = ctl.streamed[r.peer.idx], true
			s.mu.Unlock()
			return
		}
		s.mu.Unlock()
		time.Sleep(100 * time.Microsecond)
	}
}

func (s *sim) waitReflected(n *nodeSim, ops []kv.Operation, deadline time.Time) {
	for {
		ok := true
		for _, op := range ops {
			st, err := readStored(s.ctx, n.engine, string(op.Key))
			id := recOf(op).ID
			if err != nil || !st.HasDig || (st.ID != id && !newer(st.ID, id)) {
				ok = false
				break
			}
		}
		if ok || time.Now().After(deadline) {
			return
		}
		time.Sleep(100 * time.Microsecond)
	}
}

// ---------------------------------------------------------------- probes and barriers

func (s *sim) opH(n *nodeSim) opHandler {
	n.h.mu.Lock()
	defer n.h.mu.Unlock()
	return n.h.op
}

// probe reads the node's infected set: the reply of its operation handler to an empty request.
func (s *sim) probe(n *nodeSim) (map[string]opRec, map[string]bool, error) {
	res, err := s.opH(n)(s.ctx, kv.TxRequest{})
	if err != nil {
		return nil, nil, err
	}
	ops, markers := map[string]opRec{}, map[string]bool{}
	for _, op := range res.Operations {
		k := string(op.Key)
		if strings.HasPrefix(k, markerPrefix) {
			markers[k] = true
			continue
		}
		ops[k] = recOf(op)
	}
	return ops, markers, nil
}

func (s *sim) poll(what string, cond func() (bool, error)) error {
	deadline := time.Now().Add(waitTimeout)
	sleep := 20 * time.Microsecond
	for {
		ok, err := cond()
		if err != nil {
			return err
		}
		if ok {
			return nil
		}
		if time.Now().After(deadline) {
			return fmt.Errorf("%w: %s", errTimeout, what)
		}
		time.Sleep(sleep)
		if sleep < 2*time.Millisecond {
			sleep *= 2
		}
	}
}

// barrier pushes a marker request through the node's gossip ingress. The request holds the
// same fresh marker operation twice: the first copy is accepted (persist splitter -> gossip
// store and observers), the second is rejected (feedback sender). Every stage is FIFO, so once
// the marker is visible at all three ends, everything delivered before it has taken effect.
func (s *sim) barrier(n *nodeSim) error {
	s.nextMarker++
	mk := fmt.Sprintf("%s%d", markerPrefix, s.nextMarker)
	op := kv.Operation{Version: 1, Leaseholder: markerLH}
	op.Key, op.Value, op.Variant = []byte(mk), []byte("m"), change.VariantSet
	older := cloneOp(op)
	older.Version = 0
	req := kv.TxRequest{Sender: n.key, Operations: []kv.Operation{op, older}}
	if _, err := s.opH(n)(s.ctx, req); err != nil {
		return err
	}
	if err := s.poll("barrier observers "+n.label(), func() (bool, error) {
		for _, sb := range n.subs {
			if !sb.sawMarker(mk) {
				return false, nil
			}
		}
		return true, nil
	}); err != nil {
		return err
	}
	if err := s.poll("barrier gossip store "+n.label(), func() (bool, error) {
		_, ms, err := s.probe(n)
		return ms[mk], err
	}); err != nil {
		return err
	}
	n.markers = append(n.markers, mk)
	// The feedback leg depends on the node rejecting the older copy. If that does not
	// happen within a second after the accepted copy went all the way through, the ingress
	// rule itself is broken: go on (engine state and notifications are settled, the oracles
	// decide), but never call such a case a pass.
	soft := time.Now().Add(time.Second)
	err := s.poll("barrier feedback "+n.label(), func() (bool, error) {
		s.mu.Lock()
		fb := s.markerFb[mk]
		s.mu.Unlock()
		if !fb && time.Now().After(soft) {
			s.softBarrier = true
			return true, nil
		}
		return fb, nil
	})
	return err
}

// fbBarrier orders the harness after everything the node's feedback path has been given: it
// sends enough feedback for an infected marker to cross the recovery threshold and waits
// until the marker has left the infected set.
func (s *sim) fbBarrier(n *nodeSim) error {
	if len(n.markers) == 0 {
		if err := s.barrier(n); err != nil {
			return err
		}
	}
	mk := n.markers[len(n.markers)-1]
	n.markers = n.markers[:len(n.markers)-1]
	var ds kv.Digests
	for i := 0; i < s.sc.Thr+3; i++ {
		ds = append(ds, kv.Digest{Key: []byte(mk), Version: 1, Leaseholder: markerLH, Variant: change.VariantSet})
	}
	n.h.mu.Lock()
	h := n.h.fb
	n.h.mu.Unlock()
	if _, err := h(s.ctx, kv.FeedbackMessage{Sender: n.key, Digests: ds}); err != nil {
		return err
	}
	return s.poll("feedback barrier "+n.label(), func() (bool, error) {
		_, ms, err := s.probe(n)
		return !ms[mk], err
	})
}

func (s *sim) collectFresh() []*fbMsg {
	s.mu.Lock()
	defer s.mu.Unlock()
	out := s.fresh
	s.fresh = nil
	return out
}

// ---------------------------------------------------------------- per-node oracle

// checkNode compares the engine of n with the LWW of everything n received (C06, first
// clause) and with its previous state (monotonicity).
func (s *sim) checkNode(n *nodeSim, step, phase string) error {
	for _, k := range s.keys {
		real, err := readStored(s.ctx, n.engine, k)
		if err != nil {
			return kit.Fail("harness", "reading %s on %s: %v", k, n.label(), err)
		}
		prev, hadPrev := n.last[k]
		n.last[k] = real
		n.cur[k] = real
		// monotonicity is judged against the previous observation at every step; the LWW
		// comparison is suspended for a key after a reported/known deviation until the node
		// holds the LWW result again
		if hadPrev && prev.HasDig && (!real.HasDig || newer(prev.ID, real.ID)) {
			n.taint[k] = true
			s.note(prev.ID, "overwritten:"+phase)
			kind := "older-version"
			if !real.HasDig {
				kind = "digest-removed"
			} else if real.ID.Ver == prev.ID.Ver {
				kind = "tie"
			}
			if err := s.violate("digest-regressed:"+phase+":"+kind, "%s: on %s the stored digest of %s moved backwards from %s to %s",
				step, n.label(), k, prev, real); err != nil {
				return err
			}
			continue
		}
		if !n.have[k] {
			if (real.HasDig || real.HasVal) && !n.taint[k] {
				n.taint[k] = true
				if err := s.violate("state-not-lww:unknown-op:"+phase, "%s: %s holds %s for %s but was never given an operation on it", step, n.label(), real, k); err != nil {
					return err
				}
			}
			continue
		}
		exp := n.best[k]
		if n.taint[k] {
			if real.HasDig && real.ID == exp.ID && real.Del == exp.Del && real.HasVal == !exp.Del && (exp.Del || real.Val == exp.Val) {
				n.taint[k] = false
			}
			continue
		}
		sig := ""
		switch {
		case !real.HasDig:
			sig = "state-not-lww:missing-digest"
		case real.ID != exp.ID && newer(exp.ID, real.ID):
			sig = "state-not-lww:older-op-stored"
		case real.ID != exp.ID:
			sig = "state-not-lww:unknown-op"
		case real.Del != exp.Del || real.HasVal == exp.Del || (!exp.Del && real.Val != exp.Val):
			sig = "state-not-lww:value-mismatch"
		}
		if sig != "" {
			n.taint[k] = true
			s.note(exp.ID, "overwritten:"+phase)
			if err := s.violate(sig+":"+phase, "%s: %s holds %s for %s; the last-writer-wins result of the operations it received is %s",
				step, n.label(), real, k, exp); err != nil {
				return err
			}
		}
	}
	return nil
}

func (s *sim) checkAll(step, phase string) error {
	for _, n := range s.nodes {
		if err := s.checkNode(n, step, phase); err != nil {
			return err
		}
	}
	s.mu.Lock()
	un := s.unexpected
	s.mu.Unlock()
	if len(un) > 0 {
		return kit.Fail("harness", "unexpected production call: %v", un)
	}
	return nil
}

// ---------------------------------------------------------------- deliveries

// expectAccept replays the ingress rule on the model to tell which operations of a request
// change the node's state (in request order), and updates the received set.
func (s *sim) expectAccept(n *nodeSim, ops []opRec) (accepted, rejected []opRec) {
	for _, o := range ops {
		k := o.ID.Key
		cur := n.cur[k] // what the node's engine held when last observed (paced: still current)
		if !cur.HasDig || newer(o.ID, cur.ID) {
			if cur.HasDig {
				s.conflicts++
			}
			accepted = append(accepted, o)
			n.cur[k] = stored{HasDig: true, ID: o.ID, Del: o.Del, HasVal: !o.Del, Val: o.Val}
		} else {
			if o.ID == cur.ID {
				s.dupDeliveries++
			} else {
				s.staleDeliveries++
			}
			rejected = append(rejected, o)
		}
		s.receive(n, o)
	}
	return
}

func changeOf(o opRec) chg {
	if o.Del {
		return chg{Key: o.ID.Key, Del: true}
	}
	return chg{Key: o.ID.Key, Val: o.Val}
}

func (s *sim) expectNotify(n *nodeSim, ops []opRec, local bool) {
	if len(ops) == 0 {
		return
	}
	for _, sb := range n.subs {
		if local && sb.filtered() {
			continue
		}
		for _, o := range ops {
			sb.expected[changeOf(o)]++
		}
	}
	if local {
		for _, o := range ops {
			n.localChg[changeOf(o)]++
		}
	}
}

// deliver hands a request to the node's operation handler, waits for the pipeline, and
// returns the feedback messages the node sent while processing it.
func (s *sim) deliver(to *nodeSim, sender node.Key, ops []opRec, what string) ([]*fbMsg, error) {
	req := kv.TxRequest{Sender: sender}
	for _, o := range ops {
		req.Operations = append(req.Operations, o.operation())
	}
	s.captured = append(s.captured, capReq{sender: sender, ops: append([]opRec(nil), ops...)})
	acc, rej := s.expectAccept(to, ops)
	s.expectNotify(to, acc, false)
	for _, o := range rej {
		to.rejectedChg[changeOf(o)] = true
	}
	var os []string
	for _, o := range ops {
		os = append(os, o.String())
	}
	s.event("%s: deliver to %s (sender n%d) [%s]; model: %d accepted, %d rejected", what, to.label(), sender, strings.Join(os, ", "), len(acc), len(rej))
	if _, err := s.opH(to)(s.ctx, req); err != nil {
		return nil, err
	}
	if err := s.barrier(to); err != nil {
		return nil, err
	}
	fbs := s.collectFresh()
	for _, m := range fbs {
		s.event("   %s", m)
	}
	return fbs, nil
}

// deliverFeedback hands a feedback message to its addressee and records what it did to the
// addressee's infected set.
func (s *sim) deliverFeedback(m *fbMsg, what string) error {
	to := s.byAdr[m.to]
	if to == nil || !to.up || s.cut[m.from.idx][to.idx] {
		s.event("%s: %s not deliverable (dropped)", what, m)
		return nil
	}
	before, _, err := s.probe(to)
	if err != nil {
		return err
	}
	to.h.mu.Lock()
	h := to.h.fb
	to.h.mu.Unlock()
	msg := kv.FeedbackMessage{Sender: m.from.key}
	for _, d := range m.digests {
		msg.Digests = append(msg.Digests, kv.Digest{Key: bytes.Clone(d.Key), Version: d.Version, Leaseholder: d.Leaseholder, Variant: d.Variant})
	}
	if _, err := h(s.ctx, msg); err != nil {
		return err
	}
	if err := s.fbBarrier(to); err != nil {
		return err
	}
	after, _, err := s.probe(to)
	if err != nil {
		return err
	}
	s.event("%s: deliver %s", what, m)
	for k, w := range before {
		if a, ok := after[k]; ok && a.ID == w.ID {
			continue
		}
		exact := false
		for _, d := range m.digests {
			if string(d.Key) == k && int64(d.Version) == w.ID.Ver {
				exact = true
			}
		}
		if exact {
			s.note(w.ID, "sir-removed")
			s.event("   %s: %s no longer infected (removed by feedback for it)", to.label(), w.ID)
		} else {
			s.note(w.ID, "displaced-by-feedback")
			s.rep.Class("infected-op-displaced-by-feedback-for-other-version")
			s.event("   %s: %s no longer infected although the feedback named another version of %s", to.label(), w.ID, k)
		}
	}
	return nil
}

func (s *sim) handleFeedback(fbs []*fbMsg, mode, what string) error {
	for _, m := range fbs {
		switch mode {
		case "drop":
			s.event("%s: drop %s", what, m)
			s.rep.Class("feedback-dropped")
		case "hold":
			s.event("%s: hold %s", what, m)
			s.held = append(s.held, m)
			s.rep.Class("feedback-held")
		case "dup":
			s.rep.Class("feedback-duplicated")
			if err := s.deliverFeedback(m, what); err != nil {
				return err
			}
			if err := s.deliverFeedback(m, what+" (duplicate)"); err != nil {
				return err
			}
		default:
			if err := s.deliverFeedback(m, what); err != nil {
				return err
			}
		}
	}
	return nil
}

func hasPrefixKey(m map[string]bool, p string) bool {
	for k := range m {
		if strings.HasPrefix(k, p) {
			return true
		}
	}
	return false
}

func sortedOps(m map[string]opRec) []opRec {
	out := make([]opRec, 0, len(m))
	for _, o := range m {
		out = append(out, o)
	}
	sort.Slice(out, func(i, j int) bool { return out[i].ID.Key < out[j].ID.Key })
	return out
}

// gossip produces one exchange a->b from real state.
func (s *sim) gossip(a, b *nodeSim, op Op, what string) error {
	if !a.up {
		return nil
	}
	inf, _, err := s.probe(a)
	if err != nil {
		return err
	}
	if len(inf) == 0 {
		return nil // production sends nothing when nothing is infected
	}
	if op.DropReq || !s.reachable(a, b) {
		s.event("%s: request %s->%s lost", what, a.label(), b.label())
		s.rep.Class("gossip-request-lost")
		return nil
	}
	var early map[string]opRec
	if op.AckEarly {
		if early, _, err = s.probe(b); err != nil {
			return err
		}
		s.rep.Class("ack-computed-before-request-applied")
	}
	fbs, err := s.deliver(b, a.key, sortedOps(inf), what+" request")
	if err != nil {
		return err
	}
	if err := s.handleFeedback(fbs, op.FbReq, what); err != nil {
		return err
	}
	ack := early
	if ack == nil {
		if ack, _, err = s.probe(b); err != nil {
			return err
		}
	}
	if op.DropAck || !s.reachable(b, a) {
		s.event("%s: ack %s->%s lost", what, b.label(), a.label())
		s.rep.Class("gossip-ack-lost")
		return nil
	}
	if len(ack) == 0 {
		return nil
	}
	fbs, err = s.deliver(a, b.key, sortedOps(ack), what+" ack")
	if err != nil {
		return err
	}
	return s.handleFeedback(fbs, op.FbAck, what)
}

// ---------------------------------------------------------------- local writes

// refuseCommitDB wraps a node's engine: while armed, the Commit of a transaction opened on
// it returns an error and persists nothing (a storage failure at the leaseholder).
type refuseCommitDB struct {
	xkv.DB
	armed atomic.Bool
	hits  atomic.Int64
	// failDig: reads of digest entries (other than the harness's barrier markers) inside
	// transactions fail (a transient storage read error at the gossip ingress)
	failDig  atomic.Bool
	digFails atomic.Int64
}

var errReadFault = errors.New("verif: transient storage read error")

func (t *refuseCommitTx) Get(ctx context.Context, key []byte, opts ...any) ([]byte, io.Closer, error) {
	if t.db.failDig.Load() && bytes.HasPrefix(key, []byte("--dig/")) && !bytes.Contains(key, []byte(markerPrefix)) {
		t.db.digFails.Add(1)
		return nil, nil, errReadFault
	}
	return t.Tx.Get(ctx, key, opts...)
}

var errCommitRefused = errors.New("verif: commit refused by the storage engine")

func (d *refuseCommitDB) OpenTx() xkv.Tx { return &refuseCommitTx{Tx: d.DB.OpenTx(), db: d} }

type refuseCommitTx struct {
	xkv.Tx
	db *refuseCommitDB
}

func (t *refuseCommitTx) Commit(ctx context.Context, opts ...any) error {
	if t.db.armed.Load() {
		t.db.hits.Add(1)
		return errCommitRefused
	}
	return t.Tx.Commit(ctx, opts...)
}

func (s *sim) localTx(n *nodeSim, subs []SubOp, step int, refuse bool) error {
	if !n.up {
		return nil
	}
	type want struct {
		key string
		del bool
		val string
		at  *nodeSim
	}
	var wants []want
	seen := map[string]bool{}
	tx := n.db.OpenTx()
	var desc []string
	for _, so := range subs {
		k := keyName(so.K % s.sc.Keys)
		if seen[k] && !so.Again {
			continue
		}
		if seen[k] {
			// the transaction touches the key again: the earlier operation is superseded
			// inside the transaction and only this one is expected to surface
			kept := wants[:0]
			for _, w := range wants {
				if w.key != k {
					kept = append(kept, w)
				}
			}
			wants = kept
			s.rep.Class("tx-touches-a-key-twice")
		}
		seen[k] = true
		st, err := readStored(s.ctx, n.engine, k)
		if err != nil {
			_ = tx.Close()
			return err
		}
		w := want{key: k, del: so.Del}
		switch {
		case !st.HasDig || st.ID.LH == int(n.key):
			w.at = n
		case st.ID.LH >= 1 && st.ID.LH <= len(s.nodes):
			w.at = s.nodes[st.ID.LH-1]
		}
		if so.Del {
			err = tx.Delete(s.ctx, []byte(k))
			desc = append(desc, "del "+k)
		} else {
			s.nextVal++
			w.val = fmt.Sprintf("v%d", s.nextVal)
			err = tx.Set(s.ctx, []byte(k), []byte(w.val))
			desc = append(desc, k+"="+w.val)
		}
		if err != nil {
			_ = tx.Close()
			s.event("step %d: tx on %s [%s] refused: %v", step, n.label(), strings.Join(desc, ", "), err)
			s.rep.Class("tx-refused")
			return nil
		}
		wants = append(wants, w)
	}
	if refuse {
		// only writes the node leads itself: the storage failure is injected at this node
		for _, w := range wants {
			if w.at != n {
				refuse = false
			}
		}
	}
	rdb, _ := n.engine.(*refuseCommitDB)
	if refuse && rdb != nil && len(wants) > 0 {
		before := map[string]stored{}
		for _, w := range wants {
			st, err := readStored(s.ctx, n.engine, w.key)
			if err != nil {
				_ = tx.Close()
				return err
			}
			before[w.key] = st
		}
		h0 := rdb.hits.Load()
		rdb.armed.Store(true)
		cerr := tx.Commit(s.ctx)
		rdb.armed.Store(false)
		_ = tx.Close()
		s.event("step %d: tx on %s [%s] with the storage engine refusing commits -> %v", step, n.label(), strings.Join(desc, ", "), cerr)
		if rdb.hits.Load() == h0 {
			s.rep.Class("refused-commit-not-reached")
			return s.violate("harness-refused-commit-not-reached", "step %d: the local write never committed to the engine while it was armed (err %v)", step, cerr)
		}
		s.rep.Class("tx-commit-refused-by-engine")
		if cerr == nil {
			return s.violate("refused-commit-reported-success", "step %d: the storage engine of %s refused the commit of [%s] but the transaction reported success", step, n.label(), strings.Join(desc, ", "))
		}
		if err := s.barrier(n); err != nil {
			return err
		}
		for _, w := range wants {
			st, err := readStored(s.ctx, n.engine, w.key)
			if err != nil {
				return err
			}
			if st != before[w.key] {
				return s.violate("refused-commit-changed-state", "step %d: after the refused commit %s holds %s for %s (before: %s)", step, n.label(), st, w.key, before[w.key])
			}
		}
		// nothing was stored, so nothing may be notified or gossiped: subscribers are judged
		// against unchanged expectations (phantom-notification), and an operation that turns
		// up in the infected set is a write that does not exist in the leaseholder's store
		inf, _, err := s.probe(n)
		if err != nil {
			return err
		}
		for _, w := range wants {
			if o, ok := inf[w.key]; ok && o.ID.LH == int(n.key) && o.ID.Ver > n.issued {
				return s.violate("refused-commit-gossiped", "step %d: %s gossips %s although the commit that would have stored it was refused", step, n.label(), o)
			}
		}
		s.collectFresh()
		return nil
	}
	s.mu.Lock()
	s.curFwd = nil
	s.mu.Unlock()
	cerr := tx.Commit(s.ctx)
	_ = tx.Close()
	s.mu.Lock()
	fwds := s.curFwd
	s.curFwd = nil
	s.mu.Unlock()
	failed := map[string]bool{}
	for _, f := range fwds {
		if f.err != nil {
			for _, k := range f.keys {
				failed[k] = true
			}
		}
	}
	s.event("step %d: tx on %s [%s] -> %v", step, n.label(), strings.Join(desc, ", "), cerr)
	if cerr != nil {
		s.rep.Class("tx-error")
	}
	// learn the operations the leaseholders created
	byNode := map[*nodeSim][]opRec{}
	var order []*nodeSim
	for _, w := range wants {
		if w.at == nil || failed[w.key] || (w.at != n && !s.forwarded(fwds, w.at, w.key)) {
			continue
		}
		at := w.at
		var got opRec
		err := s.poll(fmt.Sprintf("local write of %s at %s to become infected", w.key, at.label()), func() (bool, error) {
			inf, _, err := s.probe(at)
			if err != nil {
				return false, err
			}
			o, ok := inf[w.key]
			if ok && o.ID.LH == int(at.key) && o.ID.Ver > at.issued && o.Del == w.del && (w.del || o.Val == w.val) {
				got = o
				return true, nil
			}
			return false, nil
		})
		if err != nil && errors.Is(err, errTimeout) && cerr == nil {
			// The commit reported success and the operation never showed up as a new one. What
			// the leaseholder's engine holds is no matter of timing: if the write is there under
			// a version that does not exceed one this leaseholder issued before, the leaseholder
			// numbered it at or below its own earlier operations - its gossip store and every
			// peer drop it as stale and the replicas diverge.
			st, rerr := readStored(s.ctx, at.engine, w.key)
			if rerr == nil && st.HasDig && st.ID.LH == int(at.key) &&
				st.ID.Ver <= at.issued && st.Del == w.del && (w.del || (st.HasVal && st.Val == w.val)) {
				return s.violate("leaseholder-issued-non-increasing-version", "step %d: the committed write of %s on %s is stored as %s although %s had already issued version %d: versions issued by one leaseholder must increase (the operation never became a new one in its gossip store)", step, w.key, at.label(), st, at.label(), at.issued)
			}
			// ... or the engine holds the write while the leaseholder's own gossip store holds a
			// newer operation of the same leaseholder on that key: the engine is behind what the
			// node tells its peers (operations of one transaction numbered against their order)
			if inf, _, perr := s.probe(at); perr == nil && rerr == nil && st.HasDig && st.ID.LH == int(at.key) {
				if o, ok := inf[w.key]; ok && o.ID.LH == int(at.key) && o.ID.Ver > st.ID.Ver {
					return s.violate("leaseholder-engine-behind-its-own-gossip-store", "step %d: after the committed transaction %s holds %s for %s in its engine but gossips %s, a newer operation of its own on that key", step, at.label(), st, w.key, o)
				}
			}
		}
		if err != nil {
			return err
		}
		if _, ok := byNode[at]; !ok {
			order = append(order, at)
		}
		byNode[at] = append(byNode[at], got)
	}
	for _, at := range order {
		ops := byNode[at]
		for _, o := range ops {
			if o.ID.Ver > at.issued {
				at.issued = o.ID.Ver
			}
			if at.have[o.ID.Key] && at.best[o.ID.Key].ID.LH != o.ID.LH {
				s.conflicts++
			}
			s.receive(at, o)
			s.event("   created %s at %s", o, at.label())
		}
		s.expectNotify(at, ops, true)
		if at != n {
			s.rep.Class("write-forwarded-to-leaseholder")
		}
		if err := s.barrier(at); err != nil {
			return err
		}
	}
	if len(wants) > 1 {
		s.rep.Class("multi-key-tx")
	}
	s.collectFresh()
	return nil
}

func (s *sim) forwarded(fwds []fwd, to *nodeSim, key string) bool {
	for _, f := range fwds {
		if f.to == to && f.err == nil {
			for _, k := range f.keys {
				if k == key {
					return true
				}
			}
		}
	}
	return false
}

// inject delivers operations of a synthetic remote leaseholder (own monotonic counter).
func (s *sim) inject(to *nodeSim, op Op, step int) error {
	if !to.up {
		return nil
	}
	l := op.L % 2
	var ops []opRec
	seen := map[string]bool{}
	for i, so := range op.Subs {
		k := keyName(so.K % s.sc.Keys)
		if seen[k] {
			continue
		}
		seen[k] = true
		gap := int64(1)
		if i == 0 && op.Gap > 1 {
			gap = int64(op.Gap)
		}
		s.synCtr[l] += gap
		o := opRec{ID: opID{Key: k, Ver: s.synCtr[l], LH: synBase + l}, Del: so.Del}
		if !so.Del {
			s.nextVal++
			o.Val = fmt.Sprintf("v%d", s.nextVal)
		}
		ops = append(ops, o)
	}
	if len(ops) == 0 {
		return nil
	}
	s.rep.Class("synthetic-leaseholder-op")
	_, err := s.deliver(to, node.Key(synBase+l), ops, fmt.Sprintf("step %d: inject", step))
	return err
}

// redeliver replays a captured request (whole, split, reversed or merged with another).
func (s *sim) redeliver(to *nodeSim, op Op, step int) error {
	if !to.up || len(s.captured) == 0 {
		return nil
	}
	c := s.captured[op.Idx%len(s.captured)]
	ops := append([]opRec(nil), c.ops...)
	switch op.Mode {
	case "first":
		ops = ops[:(len(ops)+1)/2]
	case "second":
		ops = ops[len(ops)/2:]
	case "rev":
		for i, j := 0, len(ops)-1; i < j; i, j = i+1, j-1 {
			ops[i], ops[j] = ops[j], ops[i]
		}
	case "merge":
		ops = append(ops, s.captured[op.Idx2%len(s.captured)].ops...)
	case "twice":
		ops = append(ops, c.ops...)
	}
	if len(ops) == 0 {
		return nil
	}
	s.rep.Class("redelivery-" + op.Mode)
	// Redelivery under a transient read fault: only when every operation of the request is a
	// duplicate of, or older than, what the node stores - whatever the ingress does with a
	// digest it cannot read, it must not apply such an operation or tell observers about it.
	what := fmt.Sprintf("step %d: redeliver(%s)", step, op.Mode)
	if rdb, ok := to.engine.(*refuseCommitDB); ok && op.ReadFault {
		stale := true
		for _, o := range ops {
			if !to.have[o.ID.Key] || newer(o.ID, to.best[o.ID.Key].ID) {
				stale = false
			}
		}
		if stale {
			rdb.failDig.Store(true)
			defer rdb.failDig.Store(false)
			s.rep.Class("redelivery-under-digest-read-fault")
			what += " with digest reads failing"
		}
	}
	fbs, err := s.deliver(to, c.sender, ops, what)
	if err != nil {
		return err
	}
	return s.handleFeedback(fbs, op.FbReq, fmt.Sprintf("step %d", step))
}

// ---------------------------------------------------------------- stop / start

func (s *sim) stop(n *nodeSim, step string) error {
	if !n.up {
		return nil
	}
	if err := s.barrier(n); err != nil {
		return err
	}
	if err := s.judgeSubscribers(n, step); err != nil {
		return err
	}
	inf, _, err := s.probe(n)
	if err != nil {
		return err
	}
	for _, w := range inf {
		s.note(w.ID, "lost@"+n.label())
		n.lostAtStop = append(n.lostAtStop, w.ID)
		s.event("%s: %s stops while %s is still infected there", step, n.label(), w.ID)
		s.rep.Class("stop-with-infected-ops")
	}
	done := make(chan error, 1)
	go func() { done <- n.db.Close() }()
	select {
	case <-done:
	case <-time.After(waitTimeout):
		return fmt.Errorf("%w: closing %s", errTimeout, n.label())
	}
	n.db, n.up, n.subs = nil, false, nil
	s.collectFresh()
	s.event("%s: %s stopped", step, n.label())
	return nil
}

func (s *sim) start(n *nodeSim, order []int, step string, breakAfter int) error {
	if n.up {
		return nil
	}
	before := map[string]stored{}
	for _, k := range s.keys {
		st, err := readStored(s.ctx, n.engine, k)
		if err != nil {
			return err
		}
		before[k] = st
	}
	// what the peers hold at this moment
	peerHas := map[int]map[string]stored{}
	for _, p := range s.nodes {
		if p == n || !s.reachable(n, p) {
			continue
		}
		peerHas[p.idx] = map[string]stored{}
		for _, k := range s.keys {
			st, err := readStored(s.ctx, p.engine, k)
			if err != nil {
				return err
			}
			peerHas[p.idx][k] = st
		}
	}
	s.mu.Lock()
	s.breakAfter, s.cutRec = breakAfter, nil
	s.mu.Unlock()
	oerr := s.openNode(n, order)
	s.mu.Lock()
	cut := s.cutRec
	s.breakAfter, s.cutRec = 0, nil
	s.mu.Unlock()
	if cut != nil {
		if oerr != nil && !errors.Is(oerr, errTimeout) {
			// the start was refused: nothing of the broken stream may have been applied; the
			// node is started again, this time with healthy streams
			s.event("%s: %s refused to start on a recovery stream from %s that broke after %d operations (%d withheld): %v", step, n.label(), cut.peer.label(), len(cut.delivered), len(cut.withheld), oerr)
			s.rep.Class("start-refused:recovery-stream-broke")
			// peers are recovered one after the other, each in a transaction of its own: what a
			// complete stream of another peer carried may be in the engine already
			if fr := s.failedRec; fr != nil && fr.node == n {
				for _, ops := range fr.streamed {
					for _, op := range ops {
						if strings.HasPrefix(string(op.Key), markerPrefix) {
							continue
						}
						if st, err := readStored(s.ctx, n.engine, string(op.Key)); err == nil && st.HasDig && st.ID == recOf(op).ID {
							s.receive(n, recOf(op))
							s.event("   %s was applied before the start was refused", recOf(op))
						}
					}
				}
			}
			oerr = s.openNode(n, order)
		} else if oerr == nil {
			// started although the stream broke: is a part of it applied, with the withheld
			// rest now below what the node will ask for next time?
			var top int64
			for _, op := range cut.delivered {
				if st, err := readStored(s.ctx, n.engine, string(op.Key)); err == nil && st.HasDig && st.ID == recOf(op).ID && int64(op.Version) > top {
					top = int64(op.Version)
				}
			}
			for _, op := range cut.withheld {
				if strings.HasPrefix(string(op.Key), markerPrefix) {
					continue
				}
				st, err := readStored(s.ctx, n.engine, string(op.Key))
				id := recOf(op).ID
				if err == nil && (!st.HasDig || newer(id, st.ID)) && int64(op.Version) < top {
					return kit.Fail("recovery-applied-truncated-stream", "%s: the recovery stream from %s to %s broke with a transport error after %d of %d operations; %s started nevertheless, holds operations of that stream up to version %d and lacks %s, which it will not ask for again (below its new recovery mark)", step, cut.peer.label(), n.label(), len(cut.delivered), len(cut.delivered)+len(cut.withheld), n.label(), top, recOf(op))
				}
			}
			s.rep.Class("started-on-broken-recovery-stream")
		}
	}
	if err := oerr; err != nil {
		if errors.Is(err, errTimeout) {
			return err
		}
		s.event("%s: %s failed to start: %v", step, n.label(), err)
		s.rep.Class("start-failed")
		return nil
	}
	ctl := s.lastRec
	var hw int64
	for _, h := range ctl.hw {
		hw = h
	}
	s.event("%s: %s started (recovery high-water %d)", step, n.label(), hw)
	for _, p := range ctl.order {
		ops := ctl.streamed[p.idx]
		var os []string
		got := map[opID]bool{}
		for _, op := range ops {
			if strings.HasPrefix(string(op.Key), markerPrefix) {
				continue
			}
			os = append(os, recOf(op).String())
			got[recOf(op).ID] = true
		}
		if _, ok := peerHas[p.idx]; !ok {
			continue
		}
		s.event("   recovery stream from %s: [%s]", p.label(), strings.Join(os, ", "))
		for _, k := range s.keys {
			ph := peerHas[p.idx][k]
			if !ph.HasDig || got[ph.ID] {
				continue
			}
			b := before[k]
			if !b.HasDig || newer(ph.ID, b.ID) {
				if reqHW, ok := ctl.hw[p.idx]; ok && ph.ID.Ver >= reqHW {
					// stated mechanism (recovery.go): every digest at or above the requester's
					// high-water mark is streamed. Only operations below the mark may be left out
					// (the listed cross-leaseholder limitation).
					return kit.Fail("recovery-omitted-op-at-or-above-high-water", "%s: %s restarted with recovery high-water mark %d; %s holds %s (version %d >= mark), newer than %s's %s, and did not stream it", step, n.label(), reqHW, p.label(), ph, ph.ID.Ver, n.label(), b)
				}
				m := s.skipped[ph.ID]
				if m == nil {
					m = map[int]bool{}
					s.skipped[ph.ID] = m
				}
				m[n.idx] = true
				s.rep.Class("recovery-skipped-newer-op")
				s.event("   %s holds %s, newer than %s's %s, but did not stream it (below the high-water mark)", p.label(), ph, n.label(), b)
			}
		}
		if len(os) > 0 {
			s.rep.Class("recovery-moved-ops")
		}
	}
	// operations that were infected here at the stop and are infected again after the start
	// (a tree that restores the gossip store) were not lost
	inf, _, err := s.probe(n)
	if err != nil {
		return err
	}
	for _, id := range n.lostAtStop {
		if o, ok := inf[id.Key]; ok && o.ID == id {
			delete(s.opEvents[id], "lost@"+n.label())
		}
	}
	n.lostAtStop = nil
	s.attachInitialSubscribers(n)
	return nil
}

// ---------------------------------------------------------------- subscribers

func (s *sim) attach(n *nodeSim, kind int, mid bool) {
	if s.mode != "c13" || !n.up {
		return
	}
	s.nextSub++
	sb := &subscriber{id: s.nextSub, kind: kind, mid: mid, node: n, got: map[chg]int{}, markers: map[string]bool{}, expected: map[chg]int{}}
	switch kind {
	case 0:
		sb.disc = n.db.OnChange(sb.handle)
	case 1:
		sb.disc = n.db.NewObservable().OnChange(sb.handle)
	default:
		sb.disc = n.db.NewObservable(kv.IgnoreHostLeaseholder).OnChange(sb.handle)
	}
	n.subs = append(n.subs, sb)
	s.allSubs = append(s.allSubs, sb)
}

func (s *sim) attachInitialSubscribers(n *nodeSim) {
	for _, k := range s.sc.Subs {
		s.attach(n, k, false)
	}
}

// judgeSubscribers evaluates the C13 oracle for every subscriber of n; the caller has just
// passed a barrier on n, so every notification due has been made.
func (s *sim) judgeSubscribers(n *nodeSim, step string) error {
	for _, sb := range n.subs {
		sb.mu.Lock()
		got := map[chg]int{}
		for c, k := range sb.got {
			got[c] = k
		}
		log := strings.Join(sb.gotLog, " ")
		sb.mu.Unlock()
		who := fmt.Sprintf("subscriber %d on %s (kind %d, filtered=%v, mid-traffic=%v)", sb.id, n.label(), sb.kind, sb.filtered(), sb.mid)
		var cs []chg
		for c := range got {
			cs = append(cs, c)
		}
		for c := range sb.expected {
			if _, ok := got[c]; !ok {
				cs = append(cs, c)
			}
		}
		sort.Slice(cs, func(i, j int) bool { return cs[i].String() < cs[j].String() })
		for _, c := range cs {
			g, e := got[c], sb.expected[c]
			if g == e {
				continue
			}
			var sig, why string
			switch {
			case g > e && sb.filtered() && n.localChg[c] > 0 && g-e <= n.localChg[c]:
				sig, why = "filter-mismatch:host-led-visible", "a change led by the host reached the filtered subscriber"
			case g > e && e > 0:
				sig, why = "notified-twice", fmt.Sprintf("notified %d times, %d operation(s) changed the stored state", g, e)
			case g > e && (n.rejectedChg[c] || c.Del):
				sig, why = "stale-notification", "notified of an operation that did not supersede what was stored"
				if g > 1 && !c.Del {
					sig = "notified-twice"
				}
			case g > e:
				sig, why = "phantom-notification", "notified of a change no delivered operation carries"
			case g < e && sb.filtered():
				// does an unfiltered subscriber of the same lifetime have it?
				sig, why = "missed-notification", fmt.Sprintf("notified %d times, %d operation(s) changed the stored state", g, e)
				for _, o := range n.subs {
					if !o.filtered() && o.id < sb.id+100 {
						o.mu.Lock()
						og := o.got[c]
						o.mu.Unlock()
						if og >= e && o.expected[c] >= e {
							sig, why = "filter-mismatch:remote-hidden", "a change not led by the host was hidden from the filtered subscriber"
						}
					}
				}
			default:
				sig, why = "missed-notification", fmt.Sprintf("notified %d times, %d operation(s) changed the stored state", g, e)
			}
			if err := s.violate(sig, "%s: %s, change %s: %s\nnotifications received: %s", step, who, c, why, log); err != nil {
				return err
			}
		}
	}
	return nil
}

// ---------------------------------------------------------------- quiescent convergence

func (s *sim) quiesce() (bool, error) {
	bound := 6 * (s.sc.Thr + 3)
	for sweep := 0; sweep < bound; sweep++ {
		for _, a := range s.nodes {
			for _, b := range s.nodes {
				if a == b {
					continue
				}
				if err := s.gossip(a, b, Op{}, fmt.Sprintf("final sweep %d %s->%s", sweep, a.label(), b.label())); err != nil {
					return false, err
				}
				if err := s.checkAll(fmt.Sprintf("final sweep %d %s->%s", sweep, a.label(), b.label()), "gossip"); err != nil {
					return false, err
				}
			}
		}
		quiet := true
		for _, n := range s.nodes {
			inf, _, err := s.probe(n)
			if err != nil {
				return false, err
			}
			if len(inf) > 0 {
				quiet = false
			}
		}
		if quiet {
			s.rep.Add("final_sweeps", int64(sweep+1))
			return true, nil
		}
	}
	return false, nil
}

func (s *sim) checkConverged() error {
	causes := map[string]bool{}
	var lines []string
	for _, k := range s.keys {
		var win opRec
		has := false
		for _, o := range s.allOps[k] {
			if !has || newer(o.ID, win.ID) {
				win, has = o, true
			}
		}
		if !has {
			continue
		}
		for _, n := range s.nodes {
			real, err := readStored(s.ctx, n.engine, k)
			if err != nil {
				return err
			}
			ok := real.HasDig && real.ID == win.ID && real.Del == win.Del && real.HasVal == !win.Del && (win.Del || real.Val == win.Val)
			if ok {
				continue
			}
			ev := s.opEvents[win.ID]
			// one sufficient explanation per line, most specific first
			cause := "unexplained"
			switch {
			case ev["overwritten:recovery"]:
				cause = "overwritten-by-recovery"
			case ev["overwritten:local-write"]:
				cause = "overwritten-by-forwarded-write"
			case ev["overwritten:gossip"] || ev["overwritten:feedback"] || ev["overwritten:idle"] || ev["overwritten:stop"]:
				cause = "overwritten"
			case ev["displaced-by-feedback"]:
				cause = "displaced-by-feedback"
			case hasPrefixKey(ev, "lost@"):
				cause = "infected-set-lost-on-restart"
			case s.skipped[win.ID][n.idx]:
				cause = "recovery-skipped"
			case ev["sir-removed"]:
				cause = "sir-early-removal"
			}
			causes[cause] = true
			lines = append(lines, fmt.Sprintf("%s holds %s for %s; the latest write is %s (%s)", n.label(), real, k, win, cause))
		}
	}
	if len(lines) == 0 {
		return nil
	}
	// every cause is its own finding class: listed known findings (and C06_EXCLUDE) remove
	// exactly their class, whatever remains is reported
	var cs []string
	for c := range causes {
		one := "quiescent-divergence:" + c
		if s.rep.Known(one) {
			s.rep.Class("known:" + one)
			continue
		}
		if s.exclude[c] || s.exclude[one] {
			s.rep.Class("excluded:" + one)
			continue
		}
		cs = append(cs, c)
	}
	if len(cs) == 0 {
		return nil
	}
	sort.Strings(cs)
	sig := "quiescent-divergence:" + strings.Join(cs, "+")
	return s.violate(sig, "gossip has quiesced on the healed cluster (every infected set empty, no message queued) but the nodes differ:\n  %s",
		strings.Join(lines, "\n  "))
}
