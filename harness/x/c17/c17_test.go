// C17 — indexed queries equal full scans; uncommitted writes stay private, aborts vanish.
//
// Real code: x/go/gorp (OpenTable with two LookupIndexes and one SortedIndex) on memkv.
// Oracles: (differential) every query built from idx.Filter / MatchKeys / Match under
// And/Or/Not must return the same rows as one gorp.Match full scan of the same predicate;
// (model) an in-memory table with one overlay per open transaction defines what each
// reader may see; direct Index.Get must agree with that model for every reader, and after
// a transaction ends the committed index state must equal the committed model exactly.
package verif_c17_test

import (
	"context"
	"fmt"
	"sort"
	"strings"
	"sync/atomic"
	"testing"

	"github.com/synnaxlabs/x/errors"
	"github.com/synnaxlabs/x/gorp"
	kit "github.com/synnaxlabs/x/internal/verifkit"
	"github.com/synnaxlabs/x/kv"
	"github.com/synnaxlabs/x/kv/memkv"
	"github.com/synnaxlabs/x/observe"
	"github.com/synnaxlabs/x/query"
	"pgregory.net/rapid"
)

// ---------------------------------------------------------------- entry type

type Row struct {
	ID int32  `json:"id" msgpack:"id"`
	A  string `json:"a" msgpack:"a"` // LookupIndex "a"
	B  string `json:"b" msgpack:"b"` // LookupIndex "b" (same value domain as A)
	S  int64  `json:"s" msgpack:"s"` // SortedIndex "s"
	P  int64  `json:"p" msgpack:"p"` // not indexed, used by predicate leaves
}

func (r Row) GorpKey() int32    { return r.ID }
func (r Row) SetOptions() []any { return nil }

// ---------------------------------------------------------------- script

// FNode is one node of a filter tree.
//
//	a | b   indexed equality on A / B, value in V (any of)
//	s       indexed equality on S, value in SV
//	keys    primary key in Keys
//	p       predicate P < PV (never indexed)
//	and | or | not
type FNode struct {
	K    string   `json:"k"`
	V    []string `json:"v,omitempty"`
	SV   []int64  `json:"sv,omitempty"`
	Keys []int32  `json:"keys,omitempty"`
	PV   int64    `json:"pv,omitempty"`
	Kids []*FNode `json:"kids,omitempty"`
}

type ReplStep struct {
	Del bool  `json:"del,omitempty"`
	Key int32 `json:"key,omitempty"`
	Row Row   `json:"row"`
}

// Op kinds:
//
//	open/commit/abort   transaction slot Tx (1..3)
//	create              table.NewCreate().Entries(Rows) on handle Tx (0 = the DB itself)
//	update              table.NewUpdate().Where(MatchKeys(Keys)).Change(Field=Val/IVal)
//	updw                table.NewUpdate().Where(<indexed form of F>).Change(...)
//	delete              table.NewDelete().Where(MatchKeys(Keys))
//	delw                table.NewDelete().Where(<indexed form of F>)
//	repl                writes that bypass the table and reach the indexes only through the
//	                    change observer (simulated replication): Steps applied in one kv batch
//	query               retrieve F in indexed form and as full scan on handle Tx; Exec, Count, Exists, Limit/Offset
//	get                 Index.Get(handle, values) on index Idx
//	page                ordered walk over the SortedIndex (Desc, Limit) with cursor pagination, optional post-filter F
//	reopen              close the table and open a new one (fresh indexes, bulk populate); only with no tx open
type Op struct {
	Kind   string     `json:"kind"`
	Tx     int        `json:"tx,omitempty"`
	Rows   []Row      `json:"rows,omitempty"`
	Keys   []int32    `json:"keys,omitempty"`
	Field  string     `json:"field,omitempty"`
	Val    string     `json:"val,omitempty"`
	IVal   int64      `json:"ival,omitempty"`
	F      *FNode     `json:"f,omitempty"`
	Limit  int        `json:"limit,omitempty"`
	Offset int        `json:"offset,omitempty"`
	Desc   bool       `json:"desc,omitempty"`
	Idx    string     `json:"idx,omitempty"`
	V      []string   `json:"v,omitempty"`
	SV     []int64    `json:"sv,omitempty"`
	Steps  []ReplStep `json:"steps,omitempty"`
	NoWait bool       `json:"nowait,omitempty"`
	Chain  bool       `json:"chain,omitempty"` // query: a root And is written as chained Where calls
}

type Script struct {
	// Mode "self": gorp.Wrap(memkv.New()); the index observer listens to the DB itself, so a
	// local commit reaches the indexes twice (observer, then delta flush).
	// Mode "ext": gorp.WithIndexObservable(harness observer) as in the distribution layer
	// (aspen.IgnoreHostLeaseholder): local commits reach the indexes only by the delta flush,
	// replicated writes only by the observer.
	Mode   string `json:"mode"`
	NK     int    `json:"nk"`   // keys are 1..NK
	Dom    int    `json:"dom"`  // A/B values are the first Dom of u,v,w,x
	SDom   int    `json:"sdom"` // S values are 0..SDom-1
	Pre    []Row  `json:"pre,omitempty"`
	NoWait bool   `json:"nowait,omitempty"` // do not WaitForIndexes after the first OpenTable
	// FailPopulate: the first bulk populate fails (the DB refuses the populate scan's iterator
	// once). Documented contract: Index.Get returns ErrIndexInvalid, idx.Filter falls back to a
	// sequential scan and keeps returning correct results. Ends with the first reopen.
	FailPopulate bool `json:"failpopulate,omitempty"`
	// DupVals: indexed equality leaves may name the same value twice (idx.Filter("u", "u")).
	// Generated only by TestC17DupValues so that the main search is not stopped by that class.
	DupVals bool `json:"dupvals,omitempty"`
	Ops     []Op `json:"ops"`
}

// strDom[0] is the zero value of the field type on purpose: a staged delete is recorded with
// the zero value of V, so an index must not confuse "deleted" with "set to the zero value".
// (The SortedIndex domain 0..SDom-1 contains its zero value 0 as well.)
var strDom = []string{"", "u", "v", "w"}

const outsideVal = "z"

// ---------------------------------------------------------------- generator

type genState struct {
	open  [4]bool
	dirty [4]bool
}

func (g *genState) openSlots() []int {
	var o []int
	for i := 1; i <= 3; i++ {
		if g.open[i] {
			o = append(o, i)
		}
	}
	return o
}

func genRow(t *rapid.T, sc *Script) Row {
	return Row{
		ID: int32(rapid.IntRange(1, sc.NK).Draw(t, "id")),
		A:  strDom[rapid.IntRange(0, sc.Dom-1).Draw(t, "a")],
		B:  strDom[rapid.IntRange(0, sc.Dom-1).Draw(t, "b")],
		S:  int64(rapid.IntRange(0, sc.SDom-1).Draw(t, "s")),
		P:  int64(rapid.IntRange(0, 3).Draw(t, "p")),
	}
}

// zeroed returns r with some (at least one) indexed field set to the zero value of its type.
func zeroed(t *rapid.T, r Row) Row {
	m := rapid.IntRange(1, 7).Draw(t, "zeromask")
	if m&1 != 0 {
		r.A = ""
	}
	if m&2 != 0 {
		r.B = ""
	}
	if m&4 != 0 {
		r.S = 0
	}
	return r
}

func genStrVals(t *rapid.T, sc *Script) []string {
	n := rapid.SampledFrom([]int{1, 1, 1, 1, 2, 2, 3, 0}).Draw(t, "nv")
	var out []string
	for i := 0; i < n; i++ {
		k := rapid.IntRange(0, sc.Dom*4).Draw(t, "v")
		if k >= sc.Dom*4 {
			out = append(out, outsideVal)
		} else {
			out = append(out, strDom[k%sc.Dom])
		}
	}
	if !sc.DupVals {
		return distinctStrs(out)
	}
	return out
}

func genIntVals(t *rapid.T, sc *Script) []int64 {
	n := rapid.SampledFrom([]int{1, 1, 1, 2, 2, 3, 0}).Draw(t, "nsv")
	var out []int64
	for i := 0; i < n; i++ {
		out = append(out, int64(rapid.IntRange(0, sc.SDom).Draw(t, "sv"))) // SDom itself is outside
	}
	if !sc.DupVals {
		return distinctInts(out)
	}
	return out
}

func genKeys(t *rapid.T, sc *Script, min, max int) []int32 {
	n := rapid.IntRange(min, max).Draw(t, "nkeys")
	seen := map[int32]bool{}
	var out []int32
	for i := 0; i < n; i++ {
		k := int32(rapid.IntRange(1, sc.NK+1).Draw(t, "key")) // NK+1 never exists
		if !seen[k] {
			seen[k] = true
			out = append(out, k)
		}
	}
	return out
}

func genLeaf(t *rapid.T, sc *Script) *FNode {
	switch rapid.IntRange(0, 9).Draw(t, "leaf") {
	case 0, 1, 2:
		return &FNode{K: "a", V: genStrVals(t, sc)}
	case 3, 4:
		return &FNode{K: "b", V: genStrVals(t, sc)}
	case 5, 6:
		return &FNode{K: "s", SV: genIntVals(t, sc)}
	case 7, 8:
		return &FNode{K: "keys", Keys: genKeys(t, sc, 0, 4)}
	default:
		return &FNode{K: "p", PV: int64(rapid.IntRange(0, 4).Draw(t, "pv"))}
	}
}

func genFilter(t *rapid.T, sc *Script, depth int) *FNode {
	if depth <= 0 || rapid.IntRange(0, 3).Draw(t, "stop") == 0 {
		return genLeaf(t, sc)
	}
	switch rapid.IntRange(0, 4).Draw(t, "inner") {
	case 0, 1:
		n := &FNode{K: "and"}
		for i, c := 0, rapid.IntRange(1, 3).Draw(t, "nkids"); i < c; i++ {
			n.Kids = append(n.Kids, genFilter(t, sc, depth-1))
		}
		return n
	case 2, 3:
		n := &FNode{K: "or"}
		for i, c := 0, rapid.IntRange(1, 3).Draw(t, "nkids"); i < c; i++ {
			n.Kids = append(n.Kids, genFilter(t, sc, depth-1))
		}
		return n
	default:
		return &FNode{K: "not", Kids: []*FNode{genFilter(t, sc, depth-1)}}
	}
}

func genChange(t *rapid.T, sc *Script, op *Op) {
	op.Field = rapid.SampledFrom([]string{"a", "a", "b", "s", "s", "p"}).Draw(t, "field")
	switch op.Field {
	case "a", "b":
		op.Val = strDom[rapid.IntRange(0, sc.Dom-1).Draw(t, "val")]
	case "s":
		op.IVal = int64(rapid.IntRange(0, sc.SDom-1).Draw(t, "ival"))
	default:
		op.IVal = int64(rapid.IntRange(0, 3).Draw(t, "ival"))
	}
}

func genScript(t *rapid.T) Script { return genScriptWith(t, false) }

func genScriptDup(t *rapid.T) Script { return genScriptWith(t, true) }

func genScriptWith(t *rapid.T, dup bool) Script {
	sc := Script{
		DupVals: dup,
		Mode:    rapid.SampledFrom([]string{"self", "ext"}).Draw(t, "mode"),
		NK:      rapid.SampledFrom([]int{3, 4, 6, 6, 8, 12}).Draw(t, "nk"),
		Dom:     rapid.SampledFrom([]int{3, 3, 4}).Draw(t, "dom"),
		SDom:    rapid.SampledFrom([]int{3, 4, 4, 16}).Draw(t, "sdom"),
	}
	for i, n := 0, rapid.IntRange(0, sc.NK).Draw(t, "npre"); i < n; i++ {
		sc.Pre = append(sc.Pre, genRow(t, &sc))
	}
	sc.NoWait = rapid.IntRange(0, 7).Draw(t, "nowait") == 0
	if !sc.NoWait && len(sc.Pre) > 0 {
		sc.FailPopulate = rapid.IntRange(0, 11).Draw(t, "failpop") == 0
	}
	g := &genState{}
	known := append([]Row(nil), sc.Pre...) // rows written so far (any handle), for "same value as before"
	nops := rapid.IntRange(3, 28).Draw(t, "nops")
	handle := func(writer bool) int {
		o := g.openSlots()
		if len(o) == 0 || rapid.IntRange(0, 9).Draw(t, "ondb") < 2 {
			return 0
		}
		h := o[rapid.IntRange(0, len(o)-1).Draw(t, "slot")]
		if writer {
			g.dirty[h] = true
		}
		return h
	}
	for len(sc.Ops) < nops {
		w := rapid.IntRange(0, 99).Draw(t, "kind")
		switch {
		case w < 10: // open
			var closed []int
			for i := 1; i <= 3; i++ {
				if !g.open[i] {
					closed = append(closed, i)
				}
			}
			if len(closed) == 0 {
				continue
			}
			s := closed[rapid.IntRange(0, len(closed)-1).Draw(t, "slot")]
			g.open[s], g.dirty[s] = true, false
			sc.Ops = append(sc.Ops, Op{Kind: "open", Tx: s})
		case w < 21: // commit / abort
			o := g.openSlots()
			if len(o) == 0 {
				continue
			}
			s := o[rapid.IntRange(0, len(o)-1).Draw(t, "slot")]
			g.open[s] = false
			kind := "commit"
			switch a := rapid.IntRange(0, 10).Draw(t, "abort"); {
			case a < 3:
				kind = "abort"
			case a == 10:
				kind = "commitfail" // the key-value store refuses the commit
			}
			sc.Ops = append(sc.Ops, Op{Kind: kind, Tx: s})
		case w < 35: // create
			op := Op{Kind: "create", Tx: handle(true)}
			for i, n := 0, rapid.SampledFrom([]int{1, 1, 2, 3}).Draw(t, "nrows"); i < n; i++ {
				op.Rows = append(op.Rows, genRow(t, &sc))
			}
			known = append(known, op.Rows...)
			sc.Ops = append(sc.Ops, op)
		case w < 41: // delete -> re-create of one key inside one handle (optionally set -> delete -> set)
			h := handle(true)
			if o := g.openSlots(); h == 0 && len(o) > 0 && rapid.IntRange(0, 3).Draw(t, "forcetx") != 0 {
				h = o[rapid.IntRange(0, len(o)-1).Draw(t, "slot")] // mostly inside a real transaction
				g.dirty[h] = true
			}
			r1 := genRow(t, &sc)
			if len(known) > 0 && rapid.Bool().Draw(t, "knownrow") {
				r1 = known[rapid.IntRange(0, len(known)-1).Draw(t, "known")] // a row written earlier: likely the visible one
			}
			if rapid.IntRange(0, 2).Draw(t, "zero1") == 0 {
				r1 = zeroed(t, r1)
			}
			var r2 Row
			switch rapid.IntRange(0, 5).Draw(t, "recreate") {
			case 0, 1: // same indexed values as before the delete
				r2 = r1
				r2.P = int64(rapid.IntRange(0, 3).Draw(t, "p"))
			case 2, 3: // zero value in at least one indexed field
				r2 = zeroed(t, genRow(t, &sc))
			default:
				r2 = genRow(t, &sc)
			}
			r2.ID = r1.ID
			var seq []Op
			if rapid.IntRange(0, 2).Draw(t, "setfirst") != 0 {
				seq = append(seq, Op{Kind: "create", Tx: h, Rows: []Row{r1}})
			}
			seq = append(seq, Op{Kind: "delete", Tx: h, Keys: []int32{r1.ID}})
			if rapid.IntRange(0, 3).Draw(t, "qbetween") == 0 {
				seq = append(seq, Op{Kind: "query", Tx: h, F: genFilter(t, &sc, 1)})
			}
			switch rapid.IntRange(0, 7).Draw(t, "how") {
			case 0: // update by key of a row deleted in this handle: not found, nothing written
				up := Op{Kind: "update", Tx: h, Keys: []int32{r1.ID}}
				genChange(t, &sc, &up)
				seq = append(seq, up, Op{Kind: "create", Tx: h, Rows: []Row{r2}})
			default:
				seq = append(seq, Op{Kind: "create", Tx: h, Rows: []Row{r2}})
			}
			// look at the re-created row through every index right away, positively and negated
			leaf := []*FNode{{K: "a", V: []string{r2.A}}, {K: "b", V: []string{r2.B}}, {K: "s", SV: []int64{r2.S}}}[rapid.IntRange(0, 2).Draw(t, "lookat")]
			if rapid.Bool().Draw(t, "negated") {
				leaf = &FNode{K: "not", Kids: []*FNode{leaf}}
			}
			seq = append(seq, Op{Kind: "query", Tx: h, F: leaf})
			known = append(known, r2)
			sc.Ops = append(sc.Ops, seq...)
		case w < 45: // update by key
			op := Op{Kind: "update", Tx: handle(true), Keys: genKeys(t, &sc, 1, 2)}
			genChange(t, &sc, &op)
			sc.Ops = append(sc.Ops, op)
		case w < 50: // update where
			op := Op{Kind: "updw", Tx: handle(true), F: genFilter(t, &sc, 2)}
			genChange(t, &sc, &op)
			sc.Ops = append(sc.Ops, op)
		case w < 56: // delete by key
			sc.Ops = append(sc.Ops, Op{Kind: "delete", Tx: handle(true), Keys: genKeys(t, &sc, 1, 3)})
		case w < 60: // delete where
			sc.Ops = append(sc.Ops, Op{Kind: "delw", Tx: handle(true), F: genFilter(t, &sc, 2)})
		case w < 66: // replicated batch
			op := Op{Kind: "repl"}
			for i, n := 0, rapid.IntRange(1, 4).Draw(t, "nsteps"); i < n; i++ {
				if rapid.IntRange(0, 2).Draw(t, "del") == 0 {
					op.Steps = append(op.Steps, ReplStep{Del: true, Key: int32(rapid.IntRange(1, sc.NK).Draw(t, "key"))})
				} else {
					op.Steps = append(op.Steps, ReplStep{Row: genRow(t, &sc)})
				}
			}
			sc.Ops = append(sc.Ops, op)
		case w < 86: // query
			op := Op{Kind: "query", Tx: handle(false), F: genFilter(t, &sc, 3)}
			op.Chain = op.F.K == "and" && rapid.Bool().Draw(t, "chain")
			if rapid.IntRange(0, 2).Draw(t, "lim") == 0 {
				op.Limit = rapid.IntRange(0, 3).Draw(t, "limit")
				op.Offset = rapid.IntRange(0, 3).Draw(t, "offset")
			}
			sc.Ops = append(sc.Ops, op)
		case w < 91: // direct Get
			op := Op{Kind: "get", Tx: handle(false), Idx: rapid.SampledFrom([]string{"a", "b", "s"}).Draw(t, "idx")}
			if op.Idx == "s" {
				op.SV = distinctInts(genIntVals(t, &sc))
			} else {
				op.V = distinctStrs(genStrVals(t, &sc))
			}
			sc.Ops = append(sc.Ops, op)
		case w < 97: // ordered walk + pagination (only on readers without staged writes)
			h := 0
			var clean []int
			for _, s := range g.openSlots() {
				if !g.dirty[s] {
					clean = append(clean, s)
				}
			}
			if len(clean) > 0 && rapid.Bool().Draw(t, "intx") {
				h = clean[rapid.IntRange(0, len(clean)-1).Draw(t, "slot")]
			}
			op := Op{Kind: "page", Tx: h, Desc: rapid.Bool().Draw(t, "desc"), Limit: rapid.IntRange(1, 4).Draw(t, "limit")}
			if rapid.IntRange(0, 2).Draw(t, "pf") == 0 {
				op.F = genFilter(t, &sc, 2)
			}
			sc.Ops = append(sc.Ops, op)
		default: // reopen
			if len(g.openSlots()) != 0 {
				continue
			}
			sc.Ops = append(sc.Ops, Op{Kind: "reopen", NoWait: rapid.IntRange(0, 3).Draw(t, "nowait") == 0})
		}
	}
	// End the transactions that are still open, in a generated order; the executor aborts
	// whatever is left.
	for _, h := range rapid.Permutation(g.openSlots()).Draw(t, "endorder") {
		switch rapid.IntRange(0, 9).Draw(t, "end") {
		case 0, 1, 2, 3, 4, 5:
			sc.Ops = append(sc.Ops, Op{Kind: "commit", Tx: h})
			g.open[h] = false
		case 6, 7, 8:
			sc.Ops = append(sc.Ops, Op{Kind: "abort", Tx: h})
			g.open[h] = false
		}
		if rapid.IntRange(0, 2).Draw(t, "qafter") == 0 {
			sc.Ops = append(sc.Ops, Op{Kind: "query", Tx: handle(false), F: genFilter(t, &sc, 2)})
		}
	}
	return sc
}

func distinctStrs(in []string) []string {
	seen := map[string]bool{}
	var out []string
	for _, v := range in {
		if !seen[v] {
			seen[v] = true
			out = append(out, v)
		}
	}
	return out
}

func distinctInts(in []int64) []int64 {
	seen := map[int64]bool{}
	var out []int64
	for _, v := range in {
		if !seen[v] {
			seen[v] = true
			out = append(out, v)
		}
	}
	return out
}

// ---------------------------------------------------------------- model

type overlay map[int32]*Row // nil value = deleted in this transaction

type model struct {
	committed map[int32]Row
	tx        [4]overlay // nil = slot closed
	touched   [4]map[string]bool
	gone      [4]map[int32]Row // row that was visible when the transaction staged its delete of the key
}

func (m *model) view(h int) map[int32]Row {
	v := make(map[int32]Row, len(m.committed))
	for k, r := range m.committed {
		v[k] = r
	}
	if h != 0 {
		for k, r := range m.tx[h] {
			if r == nil {
				delete(v, k)
			} else {
				v[k] = *r
			}
		}
	}
	return v
}

func (m *model) set(h int, r Row) {
	if h == 0 {
		m.committed[r.ID] = r
		return
	}
	c := r
	m.tx[h][r.ID] = &c
}

func (m *model) del(h int, k int32) {
	if h == 0 {
		delete(m.committed, k)
		return
	}
	m.tx[h][k] = nil
}

func evalF(n *FNode, r Row) bool {
	switch n.K {
	case "a":
		return containsStr(n.V, r.A)
	case "b":
		return containsStr(n.V, r.B)
	case "s":
		for _, v := range n.SV {
			if v == r.S {
				return true
			}
		}
		return false
	case "keys":
		for _, k := range n.Keys {
			if k == r.ID {
				return true
			}
		}
		return false
	case "p":
		return r.P < n.PV
	case "and":
		for _, c := range n.Kids {
			if !evalF(c, r) {
				return false
			}
		}
		return true
	case "or":
		for _, c := range n.Kids {
			if evalF(c, r) {
				return true
			}
		}
		return false
	case "not":
		return !evalF(n.Kids[0], r)
	}
	panic("verif: unknown filter node " + n.K)
}

func containsStr(s []string, v string) bool {
	for _, x := range s {
		if x == v {
			return true
		}
	}
	return false
}

func hasIndexedLeaf(n *FNode) bool {
	switch n.K {
	case "a", "b", "s":
		return true
	}
	for _, c := range n.Kids {
		if hasIndexedLeaf(c) {
			return true
		}
	}
	return false
}

// notOrOverIndexed reports whether the tree contains a Not or Or whose subtree has an
// indexed leaf.
func notOrOverIndexed(n *FNode) bool {
	if (n.K == "not" || n.K == "or") && hasIndexedLeaf(n) {
		return true
	}
	for _, c := range n.Kids {
		if notOrOverIndexed(c) {
			return true
		}
	}
	return false
}

// repeatsValue reports whether an indexed equality leaf names one value more than once.
func repeatsValue(n *FNode) bool {
	if len(distinctStrs(n.V)) != len(n.V) || len(distinctInts(n.SV)) != len(n.SV) {
		return true
	}
	for _, c := range n.Kids {
		if repeatsValue(c) {
			return true
		}
	}
	return false
}

// keysOnly reports whether the tree is built from key leaves under And/Or only. gorp gives
// such filters the "bare keys" contract (missing keys => ErrNotFound, Exists = all exist),
// which is outside this property.
func keysOnly(n *FNode) bool {
	switch n.K {
	case "keys":
		return true
	case "and", "or":
		for _, c := range n.Kids {
			if !keysOnly(c) {
				return false
			}
		}
		return true
	}
	return false
}

func (n *FNode) String() string {
	switch n.K {
	case "a", "b":
		return fmt.Sprintf("%s in %q", n.K, n.V)
	case "s":
		return fmt.Sprintf("s in %v", n.SV)
	case "keys":
		return fmt.Sprintf("key in %v", n.Keys)
	case "p":
		return fmt.Sprintf("p<%d", n.PV)
	}
	var parts []string
	for _, c := range n.Kids {
		parts = append(parts, c.String())
	}
	return n.K + "(" + strings.Join(parts, ", ") + ")"
}

// ---------------------------------------------------------------- system under test

type sut struct {
	refuse *refuseCommitDB
	ctx    context.Context
	sc     *Script
	db     *gorp.DB
	obs    observe.Observer[kv.TxReader] // ext mode only
	table  *gorp.Table[int32, Row]
	idxA   *gorp.LookupIndex[int32, Row, string]
	idxB   *gorp.LookupIndex[int32, Row, string]
	idxS   *gorp.SortedIndex[int32, Row, int64]
	txs    [4]gorp.Tx
	m      *model
	rep    *kit.Report
	final  bool // end-of-history checks: do not count towards the script's classes
	// popFailed: the current indexes failed to populate (FailPopulate until the first reopen)
	popFailed bool
}

// failOnceDB refuses the first iterator opened directly on the DB (the populate scan);
// iterators opened through transactions (migrations) are not affected.
// refuseCommitDB wraps the key-value store: while armed, the Commit of a transaction opened
// on it returns an error and persists nothing.
type refuseCommitDB struct {
	kv.DB
	armed atomic.Bool
}

var errCommitRefused = errors.New("verif: commit refused by the key-value store")

func (d *refuseCommitDB) OpenTx() kv.Tx { return &refuseCommitTx{Tx: d.DB.OpenTx(), db: d} }

type refuseCommitTx struct {
	kv.Tx
	db *refuseCommitDB
}

func (t *refuseCommitTx) Commit(ctx context.Context, opts ...any) error {
	if t.db.armed.Load() {
		return errCommitRefused
	}
	return t.Tx.Commit(ctx, opts...)
}

type failOnceDB struct {
	kv.DB
	armed bool
}

var errPopulate = errors.New("verif: populate scan refused")

func (f *failOnceDB) OpenIterator(opts kv.IteratorOptions) (kv.Iterator, error) {
	if f.armed {
		f.armed = false
		return nil, errPopulate
	}
	return f.DB.OpenIterator(opts)
}

func (s *sut) openTable(wait bool) error {
	s.idxA = gorp.NewLookupIndex[int32, Row, string]("a", func(e *Row) string { return e.A })
	s.idxB = gorp.NewLookupIndex[int32, Row, string]("b", func(e *Row) string { return e.B })
	s.idxS = gorp.NewSortedIndex[int32, Row, int64]("s", func(e *Row) int64 { return e.S })
	t, err := gorp.OpenTable(s.ctx, gorp.TableConfig[int32, Row]{
		DB:      s.db,
		Indexes: []gorp.Index[int32, Row]{s.idxA, s.idxB, s.idxS},
	})
	if err != nil {
		return kit.Fail("setup", "OpenTable: %v", err)
	}
	s.table = t
	if wait {
		err := t.WaitForIndexes(s.ctx)
		if s.popFailed {
			if !errors.Is(err, errPopulate) {
				return kit.Fail("populate-error", "WaitForIndexes after a refused populate scan returned %v", err)
			}
		} else if err != nil {
			return kit.Fail("populate-error", "WaitForIndexes: %v", err)
		}
	}
	return nil
}

// handle returns the gorp.Tx for a script handle; ok=false when the slot is not open (the
// op is skipped: shrinking may have removed the "open").
func (s *sut) handle(h int) (gorp.Tx, bool) {
	if h == 0 {
		return s.db, true
	}
	if h < 0 || h > 3 || s.txs[h] == nil {
		return nil, false
	}
	return s.txs[h], true
}

func (s *sut) build(n *FNode) gorp.Filter[int32, Row] {
	switch n.K {
	case "a":
		return s.idxA.Filter(n.V...)
	case "b":
		return s.idxB.Filter(n.V...)
	case "s":
		return s.idxS.Filter(n.SV...)
	case "keys":
		return gorp.MatchKeys[int32, Row](n.Keys...)
	case "p":
		pv := n.PV
		return gorp.Match[int32, Row](func(_ gorp.Context, e *Row) (bool, error) { return e.P < pv, nil })
	case "not":
		return gorp.Not(s.build(n.Kids[0]))
	}
	kids := make([]gorp.Filter[int32, Row], len(n.Kids))
	for i, c := range n.Kids {
		kids[i] = s.build(c)
	}
	if n.K == "and" {
		return gorp.And(kids...)
	}
	return gorp.Or(kids...)
}

// prebuild builds the indexed form of f once; chain writes a root And as successive Where
// calls. The same gorp.Filter values are then used for every execution of the query (Exec,
// Count, Exists, limited, and again from other readers), as a service holding a filter would.
func (s *sut) prebuild(f *FNode, chain bool) []gorp.Filter[int32, Row] {
	if chain && f.K == "and" {
		parts := make([]gorp.Filter[int32, Row], len(f.Kids))
		for i, c := range f.Kids {
			parts[i] = s.build(c)
		}
		return parts
	}
	return []gorp.Filter[int32, Row]{s.build(f)}
}

func (s *sut) retrieve(parts []gorp.Filter[int32, Row]) gorp.Retrieve[int32, Row] {
	r := s.table.NewRetrieve()
	for _, p := range parts {
		r = r.Where(p)
	}
	return r
}

func scanFilter(n *FNode) gorp.Filter[int32, Row] {
	return gorp.Match[int32, Row](func(_ gorp.Context, e *Row) (bool, error) { return evalF(n, *e), nil })
}

func idsOf(rows []Row) []int32 {
	out := make([]int32, len(rows))
	for i, r := range rows {
		out[i] = r.ID
	}
	return out
}

func sorted(ids []int32) []int32 {
	out := append([]int32(nil), ids...)
	sort.Slice(out, func(i, j int) bool { return out[i] < out[j] })
	return out
}

func firstDup(ids []int32) (int32, bool) {
	seen := map[int32]bool{}
	for _, k := range ids {
		if seen[k] {
			return k, true
		}
		seen[k] = true
	}
	return 0, false
}

func equalIDs(a, b []int32) bool {
	if len(a) != len(b) {
		return false
	}
	for i := range a {
		if a[i] != b[i] {
			return false
		}
	}
	return true
}

func diffIDs(got, want []int32) (extra, missing []int32) {
	g, w := map[int32]bool{}, map[int32]bool{}
	for _, k := range got {
		g[k] = true
	}
	for _, k := range want {
		w[k] = true
	}
	for _, k := range sorted(got) {
		if !w[k] {
			extra = append(extra, k)
		}
	}
	for _, k := range sorted(want) {
		if !g[k] {
			missing = append(missing, k)
		}
	}
	return
}

func wantIDs(view map[int32]Row, f *FNode) []int32 {
	var out []int32
	for k, r := range view {
		if f == nil || evalF(f, r) {
			out = append(out, k)
		}
	}
	return sorted(out)
}

func reader(h int) string {
	if h == 0 {
		return "db"
	}
	return fmt.Sprintf("tx%d", h)
}

// whoStaged names the other open transactions that have a staged write for key k.
func (s *sut) whoStaged(h int, k int32) string {
	var out []string
	for i := 1; i <= 3; i++ {
		if i != h && s.m.tx[i] != nil {
			if _, ok := s.m.tx[i][k]; ok {
				out = append(out, reader(i))
			}
		}
	}
	if len(out) == 0 {
		return "no other open tx"
	}
	return strings.Join(out, ",")
}

func tolerateNotFound(err error) error {
	if err != nil && errors.Is(err, query.ErrNotFound) {
		return nil
	}
	return err
}

// ---------------------------------------------------------------- query oracle

func (s *sut) checkQuery(step int, op Op) error {
	tx, ok := s.handle(op.Tx)
	if !ok || op.F == nil {
		s.rep.Class("skipped-op")
		return nil
	}
	who := reader(op.Tx)
	view := s.m.view(op.Tx)
	want := wantIDs(view, op.F)

	var scan []Row
	if err := s.table.NewRetrieve().Where(scanFilter(op.F)).Entries(&scan).Exec(s.ctx, tx); err != nil {
		return kit.Fail("unexpected-error", "step %d: full scan on %s: %v", step, who, err)
	}
	if got := sorted(idsOf(scan)); !equalIDs(got, want) {
		return kit.Fail("scan-vs-model", "step %d: full scan of %s on %s returned %v, model says %v", step, op.F, who, got, want)
	}
	var got []Row
	built := s.prebuild(op.F, op.Chain)
	if err := tolerateNotFound(s.retrieve(built).Entries(&got).Exec(s.ctx, tx)); err != nil {
		return kit.Fail("unexpected-error", "step %d: indexed retrieve of %s on %s: %v", step, op.F, who, err)
	}
	gotIDs := idsOf(got)
	if k, dup := firstDup(gotIDs); dup {
		sig := "indexed-duplicate"
		if repeatsValue(op.F) {
			sig = "repeated-filter-value-duplicates-rows"
		}
		return kit.Fail(sig, "step %d: indexed retrieve of %s on %s returned key %d more than once: %v (full scan: %v)", step, op.F, who, k, gotIDs, want)
	}
	if !equalIDs(sorted(gotIDs), want) {
		extra, missing := diffIDs(gotIDs, want)
		sig := "indexed-vs-scan"
		if op.Tx != 0 {
			sig = "indexed-vs-scan-in-tx"
		}
		detail := ""
		for _, k := range append(append([]int32{}, extra...), missing...) {
			detail += fmt.Sprintf(" key %d staged by %s;", k, s.whoStaged(op.Tx, k))
		}
		return kit.Fail(sig, "step %d: indexed retrieve of %s on %s returned %v, full scan and model return %v (extra %v, missing %v;%s)",
			step, op.F, who, sorted(gotIDs), want, extra, missing, detail)
	}
	for _, r := range got {
		if view[r.ID] != r {
			return kit.Fail("indexed-row-content", "step %d: indexed retrieve on %s returned %+v, visible row is %+v", step, who, r, view[r.ID])
		}
	}
	// Count / Exists through the indexed form.
	n, err := s.retrieve(built).Count(s.ctx, tx)
	if err != nil {
		return kit.Fail("unexpected-error", "step %d: Count of %s on %s: %v", step, op.F, who, err)
	}
	if n != len(want) {
		return kit.Fail("count-mismatch", "step %d: Count of %s on %s = %d, full scan has %d rows %v", step, op.F, who, n, len(want), want)
	}
	if !keysOnly(op.F) {
		ex, err := s.retrieve(built).Exists(s.ctx, tx)
		if err != nil {
			return kit.Fail("unexpected-error", "step %d: Exists of %s on %s: %v", step, op.F, who, err)
		}
		if ex != (len(want) > 0) {
			return kit.Fail("exists-mismatch", "step %d: Exists of %s on %s = %v, full scan has rows %v", step, op.F, who, ex, want)
		}
	}
	if op.Limit > 0 || op.Offset > 0 {
		var lim []Row
		if err := tolerateNotFound(s.retrieve(built).Limit(op.Limit).Offset(op.Offset).Entries(&lim).Exec(s.ctx, tx)); err != nil {
			return kit.Fail("unexpected-error", "step %d: limited retrieve of %s on %s: %v", step, op.F, who, err)
		}
		exp := len(want) - op.Offset
		if exp < 0 {
			exp = 0
		}
		if op.Limit > 0 && exp > op.Limit {
			exp = op.Limit
		}
		ids := idsOf(lim)
		extra, _ := diffIDs(ids, want)
		_, dup := firstDup(ids)
		if len(ids) != exp || len(extra) > 0 || dup {
			return kit.Fail("limit-offset", "step %d: retrieve of %s limit %d offset %d on %s returned %v; the full result is %v (expected %d distinct rows of it)",
				step, op.F, op.Limit, op.Offset, who, ids, want, exp)
		}
		s.rep.Class("limit-offset")
	}
	if s.final {
		return nil
	}
	if op.Tx != 0 {
		// the same filter values, executed by another reader and then by this one again
		for _, h := range []int{0, op.Tx} {
			htx, _ := s.handle(h)
			var again []Row
			if err := tolerateNotFound(s.retrieve(built).Entries(&again).Exec(s.ctx, htx)); err != nil {
				return kit.Fail("unexpected-error", "step %d: re-executed retrieve of %s on %s: %v", step, op.F, reader(h), err)
			}
			if k, dup := firstDup(idsOf(again)); dup {
				sig := "indexed-duplicate"
				if repeatsValue(op.F) {
					sig = "repeated-filter-value-duplicates-rows"
				}
				return kit.Fail(sig, "step %d: indexed retrieve of %s on %s returned key %d more than once: %v", step, op.F, reader(h), k, idsOf(again))
			}
			if exp := wantIDs(s.m.view(h), op.F); !equalIDs(sorted(idsOf(again)), exp) {
				return kit.Fail("shared-filter-reuse", "step %d: filter %s first executed on %s, re-executed on %s returned %v, model says %v", step, op.F, who, reader(h), sorted(idsOf(again)), exp)
			}
		}
	}
	if op.Tx != 0 && len(s.m.tx[op.Tx]) > 0 {
		s.rep.Class("query-in-dirty-tx")
	}
	if notOrOverIndexed(op.F) {
		s.rep.Class("query-not-or-indexed")
	}
	if op.Chain {
		s.rep.Class("chained-where")
	}
	if s.popFailed && hasIndexedLeaf(op.F) {
		s.rep.Class("query-after-failed-populate")
	}
	return nil
}

// ---------------------------------------------------------------- Get oracle

func (s *sut) getOn(tx gorp.Tx, idx string, v []string, sv []int64) ([]int32, error) {
	switch idx {
	case "a":
		return s.idxA.Get(tx, v...)
	case "b":
		return s.idxB.Get(tx, v...)
	}
	return s.idxS.Get(tx, sv...)
}

func (s *sut) wantGet(view map[int32]Row, idx string, v []string, sv []int64) []int32 {
	var out []int32
	for k, r := range view {
		switch idx {
		case "a":
			if containsStr(v, r.A) {
				out = append(out, k)
			}
		case "b":
			if containsStr(v, r.B) {
				out = append(out, k)
			}
		default:
			for _, x := range sv {
				if x == r.S {
					out = append(out, k)
				}
			}
		}
	}
	return sorted(out)
}

// checkGet compares Index.Get for reader h with the model. when = "" for an explicit get
// op, otherwise the event after which the sweep runs.
func (s *sut) checkGet(step int, when string, h int, idx string, v []string, sv []int64) error {
	var tx gorp.Tx // nil = committed state only
	if h != 0 {
		t, ok := s.handle(h)
		if !ok {
			return nil
		}
		tx = t
	}
	if h == 0 && step%2 == 1 {
		tx = s.db // a DB used directly has no transaction identity: committed state as well
	}
	got, err := s.getOn(tx, idx, v, sv)
	if s.popFailed {
		if !errors.Is(err, gorp.ErrIndexInvalid) {
			return kit.Fail("get-after-failed-populate", "step %d%s: index %s Get(%s, %q%v) after a failed populate returned %v, %v instead of ErrIndexInvalid", step, when, idx, reader(h), v, sv, got, err)
		}
		return nil
	}
	if err != nil {
		return kit.Fail("unexpected-error", "step %d%s: %s.Get(%s, %q%v): %v", step, when, idx, reader(h), v, sv, err)
	}
	want := s.wantGet(s.m.view(h), idx, v, sv)
	if k, dup := firstDup(got); dup {
		return kit.Fail("get-duplicate", "step %d%s: index %s Get(%s, %q%v) returned key %d twice: %v", step, when, idx, reader(h), v, sv, k, got)
	}
	if equalIDs(sorted(got), want) {
		return nil
	}
	extra, missing := diffIDs(got, want)
	var sig string
	switch {
	case h == 0 && len(extra) > 0:
		sig = "committed-index-stale-key"
	case h == 0:
		sig = "committed-index-missing-key"
	case len(extra) > 0:
		sig = "tx-get-extra-key"
	default:
		sig = "tx-get-missing-key"
	}
	detail := ""
	for _, k := range append(append([]int32{}, extra...), missing...) {
		_, live := s.m.committed[k]
		detail += fmt.Sprintf(" key %d: committed row exists=%v, staged by %s;", k, live, s.whoStaged(h, k))
	}
	return kit.Fail(sig, "step %d%s: index %s Get(%s, %q%v) = %v, model %v (extra %v, missing %v;%s)",
		step, when, idx, reader(h), v, sv, sorted(got), want, extra, missing, detail)
}

// sweep checks every index, every value of the domain (and one outside it), for the
// committed state and for every open transaction.
func (s *sut) sweep(step int, when string) error {
	when = " (after " + when + ")"
	for h := 0; h <= 3; h++ {
		if h != 0 && s.txs[h] == nil {
			continue
		}
		for _, idx := range []string{"a", "b"} {
			for _, v := range append(append([]string{}, strDom[:s.sc.Dom]...), outsideVal) {
				if err := s.checkGet(step, when, h, idx, []string{v}, nil); err != nil {
					return err
				}
			}
		}
		for v := int64(0); v <= int64(s.sc.SDom); v++ {
			if err := s.checkGet(step, when, h, "s", nil, []int64{v}); err != nil {
				return err
			}
		}
	}
	return nil
}

// ---------------------------------------------------------------- ordered walk oracle

func (s *sut) ordered(tx gorp.Tx, desc bool, cursor *int64, limit int, f *FNode) ([]Row, error) {
	dir := gorp.DirectionAsc
	if desc {
		dir = gorp.DirectionDesc
	}
	q := s.idxS.Ordered(dir)
	if cursor != nil {
		q = q.After(*cursor)
	}
	r := s.table.NewRetrieve().OrderBy(q)
	if limit > 0 {
		r = r.Limit(limit)
	}
	if f != nil {
		r = r.Where(s.build(f))
	}
	var out []Row
	err := r.Entries(&out).Exec(s.ctx, tx)
	return out, err
}

func (s *sut) checkPage(step int, op Op) error {
	tx, ok := s.handle(op.Tx)
	if !ok || op.Limit < 1 || (op.Tx != 0 && len(s.m.tx[op.Tx]) > 0) || s.popFailed {
		// (a SortedIndex that failed to populate is documented to walk as empty)
		// ordered iteration is documented not to reflect uncommitted writes of the reader
		s.rep.Class("skipped-op")
		return nil
	}
	who := reader(op.Tx)
	view := s.m.view(op.Tx)
	full, err := s.ordered(tx, op.Desc, nil, 0, nil)
	if err != nil {
		return kit.Fail("unexpected-error", "step %d: ordered walk on %s: %v", step, who, err)
	}
	fullIDs := idsOf(full)
	want := wantIDs(view, nil)
	if _, dup := firstDup(fullIDs); dup || !equalIDs(sorted(fullIDs), want) {
		extra, missing := diffIDs(fullIDs, want)
		return kit.Fail("ordered-set", "step %d: ordered walk (desc=%v) on %s returned keys %v, the table holds %v (extra %v, missing %v)", step, op.Desc, who, fullIDs, want, extra, missing)
	}
	distinct := true
	for i, r := range full {
		if view[r.ID] != r {
			return kit.Fail("indexed-row-content", "step %d: ordered walk on %s returned %+v, visible row is %+v", step, who, r, view[r.ID])
		}
		if i > 0 {
			if (!op.Desc && full[i-1].S > r.S) || (op.Desc && full[i-1].S < r.S) {
				return kit.Fail("ordered-order", "step %d: ordered walk (desc=%v) on %s is not sorted by S: %+v", step, op.Desc, who, full)
			}
			if full[i-1].S == r.S {
				distinct = false
			}
		}
	}
	if op.F != nil {
		// Where + OrderBy (no limit): same rows as the full scan of the predicate, in walk order.
		got, err := s.ordered(tx, op.Desc, nil, 0, op.F)
		if err != nil {
			return kit.Fail("unexpected-error", "step %d: ordered walk with filter on %s: %v", step, who, err)
		}
		var exp []int32
		for _, r := range full {
			if evalF(op.F, r) {
				exp = append(exp, r.ID)
			}
		}
		if !equalIDs(idsOf(got), exp) {
			return kit.Fail("ordered-filter", "step %d: ordered walk (desc=%v) with %s on %s returned %v, the ordered full scan filtered by the predicate gives %v", step, op.Desc, op.F, who, idsOf(got), exp)
		}
		// first page with post-filter: documented as filter(first Limit walked entries)
		got, err = s.ordered(tx, op.Desc, nil, op.Limit, op.F)
		if err != nil {
			return kit.Fail("unexpected-error", "step %d: ordered page with filter on %s: %v", step, who, err)
		}
		exp = nil
		for i, r := range full {
			if i < op.Limit && evalF(op.F, r) {
				exp = append(exp, r.ID)
			}
		}
		if !equalIDs(idsOf(got), exp) {
			return kit.Fail("ordered-filter-page", "step %d: ordered page (desc=%v, limit %d) with %s on %s returned %v, expected %v", step, op.Desc, op.Limit, op.F, who, idsOf(got), exp)
		}
		s.rep.Class("ordered-with-filter")
	}
	// Cursor pagination, as documented on SortedQuery.After: every page holds the next Limit
	// entries strictly past the cursor value; the caller resumes from the last value it saw.
	var (
		concat []int32
		cursor *int64
	)
	for page := 0; page <= len(full)+1; page++ {
		got, err := s.ordered(tx, op.Desc, cursor, op.Limit, nil)
		if err != nil {
			return kit.Fail("unexpected-error", "step %d: page %d on %s: %v", step, page, who, err)
		}
		var exp []int32
		for _, r := range full {
			past := cursor == nil || (!op.Desc && r.S > *cursor) || (op.Desc && r.S < *cursor)
			if past && len(exp) < op.Limit {
				exp = append(exp, r.ID)
			}
		}
		if !equalIDs(idsOf(got), exp) {
			c := "none"
			if cursor != nil {
				c = fmt.Sprint(*cursor)
			}
			return kit.Fail("page-mismatch", "step %d: page %d (desc=%v, limit %d, cursor %s) on %s returned %v, the entries strictly past the cursor in walk order are %v (full walk %v)",
				step, page, op.Desc, op.Limit, c, who, idsOf(got), exp, fullIDs)
		}
		if len(got) == 0 {
			break
		}
		concat = append(concat, idsOf(got)...)
		last := got[len(got)-1].S
		cursor = &last
	}
	if distinct {
		// no two visible rows share a sort value: concatenated pages == full walk
		if !equalIDs(concat, fullIDs) {
			return kit.Fail("pages-vs-full", "step %d: pages (desc=%v, limit %d) on %s concatenate to %v, the full ordered walk is %v", step, op.Desc, op.Limit, who, concat, fullIDs)
		}
		s.rep.Class("pagination-distinct-values")
	} else if !equalIDs(concat, fullIDs) {
		// documented limitation: a page boundary inside a group of equal sort values drops the rest of the group
		s.rep.Class("pagination-tie-group-split")
	} else {
		s.rep.Class("pagination-ties-unsplit")
	}
	if len(full) > op.Limit {
		s.rep.Class("pagination-multi-page")
	}
	return nil
}

// ---------------------------------------------------------------- executor

func applyChange(op Op) func(gorp.Context, Row) Row {
	return func(_ gorp.Context, r Row) Row { return changed(op, r) }
}

func changed(op Op, r Row) Row {
	switch op.Field {
	case "a":
		r.A = op.Val
	case "b":
		r.B = op.Val
	case "s":
		r.S = op.IVal
	default:
		r.P = op.IVal
	}
	return r
}

func (s *sut) touch(h int, rows ...Row) {
	if h == 0 {
		return
	}
	for _, r := range rows {
		for _, key := range []string{"a:" + r.A, "b:" + r.B, fmt.Sprint("s:", r.S)} {
			for o := 1; o <= 3; o++ {
				if o != h && s.m.tx[o] != nil && s.m.touched[o][key] {
					s.rep.Class("overlapping-tx-same-value")
				}
			}
			s.m.touched[h][key] = true
		}
	}
}

func (s *sut) noteSameRow(h int, k int32) {
	if h == 0 {
		return
	}
	for o := 1; o <= 3; o++ {
		if o != h && s.m.tx[o] != nil {
			if _, ok := s.m.tx[o][k]; ok {
				s.rep.Class("same-row-two-tx")
			}
		}
	}
}

// noteSet classifies a row about to be written on handle h (before the model is updated).
func (s *sut) noteSet(h int, r Row) {
	zero := r.A == "" || r.B == "" || r.S == 0
	if r.A == "" || r.B == "" {
		s.rep.Class("zero-valued-lookup-field")
	}
	if r.S == 0 {
		s.rep.Class("zero-valued-sorted-field")
	}
	if zero {
		s.rep.Class("zero-valued-index-field")
	}
	if h == 0 {
		return
	}
	if zero {
		s.rep.Class("zero-valued-index-field-in-tx")
	}
	if prev, ok := s.m.tx[h][r.ID]; ok && prev == nil {
		s.rep.Class("set-after-delete-in-tx")
		s.rep.Class("delete-then-recreate-in-tx")
		if zero {
			s.rep.Class("recreate-zero-after-delete-in-tx")
		}
		if old, ok := s.m.gone[h][r.ID]; ok && (old.A == r.A || old.B == r.B || old.S == r.S) {
			s.rep.Class("recreate-same-value-after-delete-in-tx")
		}
	}
}

func execute(sc Script, rep *kit.Report) (ret error) {
	ctx := context.Background()
	if sc.NK < 1 || sc.Dom < 1 || sc.Dom > len(strDom) || sc.SDom < 1 {
		rep.Discard("bad-script")
		return nil
	}
	s := &sut{ctx: ctx, sc: &sc, rep: rep, m: &model{committed: map[int32]Row{}}}
	var store kv.DB = memkv.New()
	refuse := &refuseCommitDB{DB: store}
	store = refuse
	s.refuse = refuse
	fail := &failOnceDB{DB: store}
	if sc.FailPopulate && !sc.NoWait {
		store = fail
	}
	if sc.Mode == "ext" {
		s.obs = observe.New[kv.TxReader]()
		s.db = gorp.Wrap(store, gorp.WithIndexObservable(s.obs))
		rep.Class("mode-ext")
	} else {
		s.db = gorp.Wrap(store)
		rep.Class("mode-self")
	}
	defer func() {
		for h := 1; h <= 3; h++ {
			if s.txs[h] != nil {
				_ = s.txs[h].Close()
			}
		}
		var cerr error
		if s.table != nil {
			cerr = s.table.Close()
		}
		if err := s.db.Close(); err != nil && cerr == nil {
			cerr = err
		}
		if ret == nil && cerr != nil {
			ret = kit.Fail("close-error", "closing table/db: %v", cerr)
		}
	}()
	// pre-existing data, written before the table (and its indexes) exist
	if len(sc.Pre) > 0 {
		pre := append([]Row(nil), sc.Pre...)
		if err := gorp.NewCreate[int32, Row]().Entries(&pre).Exec(ctx, s.db); err != nil {
			return kit.Fail("setup", "seeding: %v", err)
		}
		for _, r := range sc.Pre {
			s.m.committed[r.ID] = r
		}
		rep.Class("bulk-populate")
	}
	if sc.FailPopulate && !sc.NoWait {
		fail.armed, s.popFailed = true, true
		rep.Class("failed-populate")
	}
	if err := s.openTable(!sc.NoWait); err != nil {
		return err
	}
	if sc.NoWait {
		rep.Class("no-wait-for-indexes")
	}
	if !sc.NoWait {
		if err := s.sweep(-1, "open"); err != nil {
			return err
		}
	}
	for step, op := range sc.Ops {
		switch op.Kind {
		case "open":
			if op.Tx < 1 || op.Tx > 3 || s.txs[op.Tx] != nil {
				rep.Class("skipped-op")
				continue
			}
			s.txs[op.Tx] = s.db.OpenTx()
			s.m.tx[op.Tx] = overlay{}
			s.m.touched[op.Tx] = map[string]bool{}
			s.m.gone[op.Tx] = map[int32]Row{}
			n := 0
			for h := 1; h <= 3; h++ {
				if s.txs[h] != nil {
					n++
				}
			}
			if n >= 2 {
				rep.Class("interleaved-tx")
			}
			if n == 3 {
				rep.Class("three-open-tx")
			}
		case "commit", "abort", "commitfail":
			tx, ok := s.handle(op.Tx)
			if !ok || op.Tx == 0 {
				rep.Class("skipped-op")
				continue
			}
			ov := s.m.tx[op.Tx]
			if op.Kind == "commitfail" {
				// the underlying store refuses the commit: nothing is persisted, so the
				// transaction must leave no trace - in the table or in any index
				s.refuse.armed.Store(true)
				err := tx.Commit(ctx)
				s.refuse.armed.Store(false)
				if err == nil {
					return kit.Fail("failed-commit-reported-success", "step %d: the key-value store refused the commit of %s but gorp's Commit returned nil", step, reader(op.Tx))
				}
				if len(ov) > 0 {
					rep.Class("refused-commit-with-writes")
				}
			} else if op.Kind == "commit" {
				if err := tx.Commit(ctx); err != nil {
					return kit.Fail("unexpected-error", "step %d: commit %s: %v", step, reader(op.Tx), err)
				}
				for k, r := range ov {
					if r == nil {
						delete(s.m.committed, k)
					} else {
						s.m.committed[k] = *r
					}
				}
				if len(ov) > 0 {
					rep.Class("commit-with-writes")
				}
			} else if len(ov) > 0 {
				rep.Class("abort-with-writes")
				for _, r := range ov {
					if r == nil {
						rep.Class("abort-after-staged-delete")
					}
				}
			}
			if err := tx.Close(); err != nil {
				return kit.Fail("unexpected-error", "step %d: close %s: %v", step, reader(op.Tx), err)
			}
			s.txs[op.Tx], s.m.tx[op.Tx], s.m.touched[op.Tx] = nil, nil, nil
			if err := s.sweep(step, op.Kind+" of "+reader(op.Tx)); err != nil {
				return err
			}
		case "create":
			tx, ok := s.handle(op.Tx)
			if !ok || len(op.Rows) == 0 {
				rep.Class("skipped-op")
				continue
			}
			view := s.m.view(op.Tx)
			rows := append([]Row(nil), op.Rows...)
			if err := s.table.NewCreate().Entries(&rows).Exec(ctx, tx); err != nil {
				return kit.Fail("unexpected-error", "step %d: create on %s: %v", step, reader(op.Tx), err)
			}
			for _, r := range op.Rows {
				if old, ok := view[r.ID]; ok {
					s.touch(op.Tx, old)
					if old.A != r.A || old.B != r.B || old.S != r.S {
						rep.Class("indexed-value-changed")
					}
				}
				s.noteSameRow(op.Tx, r.ID)
				s.noteSet(op.Tx, r)
				s.touch(op.Tx, r)
				s.m.set(op.Tx, r)
			}
		case "update", "updw":
			tx, ok := s.handle(op.Tx)
			if !ok || (op.Kind == "updw" && op.F == nil) || (op.Kind == "update" && len(op.Keys) == 0) {
				rep.Class("skipped-op")
				continue
			}
			view := s.m.view(op.Tx)
			var (
				q      = s.table.NewUpdate()
				target []int32
			)
			if op.Kind == "update" {
				q = q.Where(gorp.MatchKeys[int32, Row](op.Keys...))
				target = sorted(op.Keys)
			} else {
				q = q.Where(s.build(op.F))
				target = wantIDs(view, op.F)
			}
			err := q.Change(applyChange(op)).Exec(ctx, tx)
			if err != nil && errors.Is(err, query.ErrNotFound) {
				// bare-keys contract: a missing key fails the update before anything is written
				missing := false
				if op.Kind == "update" || keysOnly(op.F) {
					for _, k := range keysNamed(op) {
						if _, ok := view[k]; !ok {
							missing = true
						}
					}
				}
				if !missing {
					return kit.Fail("unexpected-error", "step %d: %s on %s failed with not-found although every named key is visible: %v", step, op.Kind, reader(op.Tx), err)
				}
				rep.Class("update-missing-key")
				continue
			}
			if err != nil {
				return kit.Fail("unexpected-error", "step %d: %s on %s: %v", step, op.Kind, reader(op.Tx), err)
			}
			for _, k := range target {
				old, ok := view[k]
				if !ok {
					continue
				}
				nw := changed(op, old)
				s.noteSameRow(op.Tx, k)
				s.noteSet(op.Tx, nw)
				s.touch(op.Tx, old, nw)
				if old.A != nw.A || old.B != nw.B || old.S != nw.S {
					rep.Class("indexed-value-changed")
				}
				s.m.set(op.Tx, nw)
			}
			if op.Kind == "updw" && len(target) > 0 {
				rep.Class("update-through-index")
			}
		case "delete", "delw":
			tx, ok := s.handle(op.Tx)
			if !ok || (op.Kind == "delw" && op.F == nil) || (op.Kind == "delete" && len(op.Keys) == 0) {
				rep.Class("skipped-op")
				continue
			}
			view := s.m.view(op.Tx)
			var (
				q      = s.table.NewDelete()
				target []int32
			)
			if op.Kind == "delete" {
				q = q.Where(gorp.MatchKeys[int32, Row](op.Keys...))
				target = sorted(op.Keys)
			} else {
				q = q.Where(s.build(op.F))
				target = wantIDs(view, op.F)
			}
			if err := q.Exec(ctx, tx); err != nil {
				return kit.Fail("unexpected-error", "step %d: %s on %s: %v", step, op.Kind, reader(op.Tx), err)
			}
			for _, k := range target {
				old, ok := view[k]
				if !ok {
					continue
				}
				if op.Tx != 0 {
					if prev, staged := s.m.tx[op.Tx][k]; staged && prev != nil {
						rep.Class("delete-after-set-in-tx")
					}
				}
				s.noteSameRow(op.Tx, k)
				s.touch(op.Tx, old)
				if op.Tx != 0 {
					s.m.gone[op.Tx][k] = old
				}
				s.m.del(op.Tx, k)
			}
			if op.Kind == "delw" && len(target) > 0 {
				rep.Class("delete-through-index")
			}
		case "repl":
			if len(op.Steps) == 0 {
				rep.Class("skipped-op")
				continue
			}
			raw := s.db.OpenTx()
			for _, st := range op.Steps {
				var err error
				if st.Del {
					err = gorp.WrapWriter[int32, Row](raw).Delete(ctx, st.Key)
				} else {
					err = gorp.WrapWriter[int32, Row](raw).Set(ctx, st.Row)
				}
				if err != nil {
					_ = raw.Close()
					return kit.Fail("unexpected-error", "step %d: replicated batch: %v", step, err)
				}
			}
			if err := raw.Commit(ctx); err != nil {
				_ = raw.Close()
				return kit.Fail("unexpected-error", "step %d: replicated batch commit: %v", step, err)
			}
			if s.obs != nil {
				s.obs.Notify(ctx, raw.NewReader())
			}
			if err := raw.Close(); err != nil {
				return kit.Fail("unexpected-error", "step %d: replicated batch close: %v", step, err)
			}
			for _, st := range op.Steps {
				k := st.Key
				if !st.Del {
					k = st.Row.ID
				}
				for h := 1; h <= 3; h++ {
					if s.m.tx[h] != nil {
						if _, ok := s.m.tx[h][k]; ok {
							rep.Class("replicated-write-under-staged-row")
						}
					}
				}
				if st.Del {
					delete(s.m.committed, k)
				} else {
					s.m.committed[k] = st.Row
				}
			}
			rep.Class("replicated-write")
			if err := s.sweep(step, "replicated batch"); err != nil {
				return err
			}
		case "query":
			if err := s.checkQuery(step, op); err != nil {
				return err
			}
		case "get":
			if _, ok := s.handle(op.Tx); !ok || (len(op.V) == 0 && len(op.SV) == 0) {
				rep.Class("skipped-op")
				continue
			}
			if err := s.checkGet(step, "", op.Tx, op.Idx, distinctStrs(op.V), distinctInts(op.SV)); err != nil {
				return err
			}
			if op.Tx != 0 {
				// the reader's own handle also works for committed-only readers
				rep.Class("get-in-tx")
			}
		case "page":
			if err := s.checkPage(step, op); err != nil {
				return err
			}
		case "reopen":
			open := false
			for h := 1; h <= 3; h++ {
				open = open || s.txs[h] != nil
			}
			if open {
				rep.Class("skipped-op")
				continue
			}
			if err := s.table.Close(); err != nil {
				return kit.Fail("close-error", "step %d: table.Close: %v", step, err)
			}
			s.table = nil
			s.popFailed = false
			if err := s.openTable(!op.NoWait); err != nil {
				return err
			}
			rep.Class("reopen")
			if len(s.m.committed) > 0 {
				rep.Class("bulk-populate")
			}
			if !op.NoWait {
				if err := s.sweep(step, "reopen"); err != nil {
					return err
				}
			}
		default:
			rep.Class("skipped-op")
		}
	}
	// End of history: every transaction still open is aborted.
	for h := 1; h <= 3; h++ {
		if s.txs[h] == nil {
			continue
		}
		if len(s.m.tx[h]) > 0 {
			rep.Class("abort-with-writes")
		}
		if err := s.txs[h].Close(); err != nil {
			return kit.Fail("unexpected-error", "final close of %s: %v", reader(h), err)
		}
		s.txs[h], s.m.tx[h], s.m.touched[h] = nil, nil, nil
	}
	if err := s.sweep(len(sc.Ops), "all transactions ended"); err != nil {
		return err
	}
	// ... and every reader sees exactly the committed rows through each index.
	s.final = true
	for _, v := range strDom[:sc.Dom] {
		for _, k := range []string{"a", "b"} {
			leaf := &FNode{K: k, V: []string{v}}
			if err := s.checkQuery(len(sc.Ops), Op{Kind: "query", F: leaf}); err != nil {
				return err
			}
			if err := s.checkQuery(len(sc.Ops), Op{Kind: "query", F: &FNode{K: "not", Kids: []*FNode{leaf}}}); err != nil {
				return err
			}
		}
	}
	if err := s.checkPage(len(sc.Ops), Op{Kind: "page", Limit: 2}); err != nil {
		return err
	}
	if rep.Has("overlapping-tx-same-value") && rep.Has("query-not-or-indexed") {
		rep.Nontrivial()
	}
	return nil
}

func keysNamed(op Op) []int32 {
	if op.Kind == "update" {
		return op.Keys
	}
	var out []int32
	var walk func(n *FNode)
	walk = func(n *FNode) {
		out = append(out, n.Keys...)
		for _, c := range n.Kids {
			walk(c)
		}
	}
	walk(op.F)
	return out
}

func TestC17(t *testing.T) {
	r := &kit.Runner[Script]{Name: "TestC17", Exec: execute}
	r.Run(t, genScript)
}

// TestC17DupValues is the same search with equality leaves that may repeat a value.
func TestC17DupValues(t *testing.T) {
	r := &kit.Runner[Script]{Name: "TestC17DupValues", Exec: execute}
	r.Run(t, genScriptDup)
}
