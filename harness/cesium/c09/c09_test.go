// C09 — concurrent cesium use is race-free and equivalent to a serial order.
package verif_c09_test

import (
	"context"
	"encoding/binary"
	"errors"
	"fmt"
	"os"
	"runtime"
	"runtime/pprof"
	"sort"
	"strings"
	"sync"
	"sync/atomic"
	"testing"
	"time"

	"github.com/synnaxlabs/cesium"
	"github.com/synnaxlabs/cesium/internal/verif/cx"
	"github.com/synnaxlabs/cesium/internal/verif/tsm"
	kit "github.com/synnaxlabs/cesium/internal/verifkit"
	"github.com/synnaxlabs/x/confluence"
	xfs "github.com/synnaxlabs/x/io/fs"
	"github.com/synnaxlabs/x/signal"
	"github.com/synnaxlabs/x/telem"
	"pgregory.net/rapid"
)

type Task struct {
	Kind string `json:"kind"` // writer deleter reader gc chan streamer
	// writer
	Group         int   `json:"group,omitempty"`
	Start         int64 `json:"start,omitempty"`
	Frames        int   `json:"frames,omitempty"`
	PerFrame      int   `json:"per_frame,omitempty"`
	AutoCommit    bool  `json:"auto_commit,omitempty"`
	PersistAlways bool  `json:"persist_always,omitempty"`
	CommitEvery   int   `json:"commit_every,omitempty"`
	Chain         int   `json:"chain,omitempty"` // successive writers of this task, each in its own time region
	// deleter: ranges over group channels
	A     []int64 `json:"a,omitempty"`
	B     []int64 `json:"b,omitempty"`
	Index bool    `json:"index,omitempty"` // delete index+data (else data only)
	// reader / gc / chan
	Iter  int `json:"iter,omitempty"`
	Yield int `json:"yield,omitempty"`
}

// Pre is one step of the sequential prelude that runs before the concurrent tasks start: it
// leaves stored domains, tombstones and (after a reopen) files without pooled writer handles,
// so that the concurrent deletes and garbage collection passes have something to act on.
type Pre struct {
	Kind  string `json:"kind"` // write delete gc
	Group int    `json:"group"`
	Start int64  `json:"start,omitempty"`
	N     int    `json:"n,omitempty"`
	A     int64  `json:"a,omitempty"`
	B     int64  `json:"b,omitempty"`
	Index bool   `json:"index,omitempty"`
}

type Plan struct {
	FileCap   int            `json:"file_cap"`
	DataTypes []string       `json:"data_types"` // one data channel per group
	Prelude   []Pre          `json:"prelude,omitempty"`
	PreReopen bool           `json:"pre_reopen,omitempty"`
	Delay     cx.DelayConfig `json:"delay,omitempty"`
	Tasks     []Task         `json:"tasks"`
}

func genPlan(t *rapid.T) Plan {
	p := Plan{FileCap: rapid.SampledFrom([]int{64, 256, 1024, 0}).Draw(t, "file_cap")}
	ng := rapid.IntRange(1, 3).Draw(t, "groups")
	for g := 0; g < ng; g++ {
		p.DataTypes = append(p.DataTypes, rapid.SampledFrom([]string{"int64", "uint8", "float32", "string", "bytes"}).Draw(t, "dt"))
	}
	preDomains := make([]int, ng)
	if rapid.IntRange(0, 3).Draw(t, "prelude") > 0 {
		for g := 0; g < ng; g++ {
			preDomains[g] = rapid.IntRange(1, 6).Draw(t, "pre-domains")
			for k := 0; k < preDomains[g]; k++ {
				p.Prelude = append(p.Prelude, Pre{Kind: "write", Group: g, Start: int64(k+1) * 1000, N: rapid.IntRange(1, 12).Draw(t, "pre-n")})
			}
		}
		for i, n := 0, rapid.IntRange(0, 4).Draw(t, "pre-deletes"); i < n; i++ {
			g := rapid.IntRange(0, ng-1).Draw(t, "pre-del-group")
			a := int64(rapid.IntRange(1, preDomains[g]).Draw(t, "pre-del-domain"))*1000 + int64(rapid.IntRange(0, 10).Draw(t, "pre-del-a"))
			p.Prelude = append(p.Prelude, Pre{Kind: "delete", Group: g, A: a, B: a + int64(rapid.SampledFrom([]int{1, 2, 3, 5, 8, 1000, 2500}).Draw(t, "pre-del-len")), Index: rapid.Bool().Draw(t, "pre-del-index")})
		}
		if rapid.Bool().Draw(t, "pre-gc") {
			p.Prelude = append(p.Prelude, Pre{Kind: "gc"})
		}
		p.PreReopen = rapid.Bool().Draw(t, "pre-reopen")
	}
	switch rapid.IntRange(0, 3).Draw(t, "delay") {
	case 1:
		p.Delay = cx.DelayConfig{PerMille: 10, HotMille: 300, MaxMicros: 200}
	case 2:
		p.Delay = cx.DelayConfig{PerMille: 30, HotMille: 600, MaxMicros: 1000}
	case 3:
		p.Delay = cx.DelayConfig{PerMille: 0, HotMille: 900, MaxMicros: 3000}
	}
	if p.Delay.HotMille > 0 {
		p.Delay.Seed = rapid.Uint64().Draw(t, "delay-seed")
	}
	nt := rapid.IntRange(3, 8).Draw(t, "tasks")
	region := 0
	for len(p.Tasks) < nt {
		k := rapid.SampledFrom([]string{"writer", "writer", "writer", "deleter", "reader", "reader", "gc", "chan", "streamer"}).Draw(t, "kind")
		tk := Task{Kind: k, Group: rapid.IntRange(0, ng-1).Draw(t, "group"), Yield: rapid.IntRange(0, 4).Draw(t, "yield")}
		if k == "gc" && os.Getenv("C09_NOGC") != "" {
			continue
		}
		if k == "gc" {
			// production runs garbage collection from a single ticker goroutine: passes
			// never overlap each other
			dup := false
			for _, o := range p.Tasks {
				dup = dup || o.Kind == "gc"
			}
			if dup {
				continue
			}
		}
		if k == "writer" {
			// One writer task per channel group: writers whose control ranges [start, MAX)
			// overlap on the same channel share one control region and one underlying domain
			// writer, which is contention (C05), not the concurrent-but-independent use this
			// property is about. Successive writers in disjoint time regions of one group are
			// produced by Chain below.
			busy := false
			for _, o := range p.Tasks {
				busy = busy || (o.Kind == "writer" && o.Group == tk.Group)
			}
			if busy {
				continue
			}
			tk.Chain = rapid.IntRange(1, 3).Draw(t, "chain")
		}
		switch k {
		case "writer":
			region++
			tk.Start = int64(region) * 100_000
			tk.Frames = rapid.IntRange(1, 25).Draw(t, "frames")
			tk.PerFrame = rapid.IntRange(1, 5).Draw(t, "per_frame")
			tk.AutoCommit = rapid.Bool().Draw(t, "auto_commit")
			tk.PersistAlways = rapid.Bool().Draw(t, "persist_always")
			tk.CommitEvery = rapid.IntRange(1, 6).Draw(t, "commit_every")
		case "deleter":
			n := rapid.IntRange(1, 4).Draw(t, "ndel")
			for i := 0; i < n; i++ {
				if preDomains[tk.Group] > 0 && rapid.Bool().Draw(t, "del-prelude") {
					// trim, split or remove domains stored by the prelude
					a := int64(rapid.IntRange(1, preDomains[tk.Group]).Draw(t, "del-pre-domain"))*1000 + int64(rapid.IntRange(0, 10).Draw(t, "del-pre-a"))
					tk.A = append(tk.A, a)
					tk.B = append(tk.B, a+int64(rapid.SampledFrom([]int{1, 2, 3, 5, 8, 1000, 2500}).Draw(t, "del-pre-len")))
					continue
				}
				r := int64(rapid.IntRange(1, max(1, region+1)).Draw(t, "del-region")) * 100_000
				a := r + int64(rapid.IntRange(0, 40).Draw(t, "del-a"))
				tk.A = append(tk.A, a)
				tk.B = append(tk.B, a+int64(rapid.IntRange(1, 60).Draw(t, "del-len")))
			}
			tk.Index = rapid.Bool().Draw(t, "del-index")
		case "chan":
			// short tasks: the last create and delete calls of two tasks sharing a key are
			// then likely to overlap, and nothing later heals what a lost race leaves behind
			tk.Iter = rapid.SampledFrom([]int{1, 1, 2, 3, 4, 12}).Draw(t, "chan-iter")
		default:
			tk.Iter = rapid.IntRange(1, 12).Draw(t, "iter")
		}
		p.Tasks = append(p.Tasks, tk)
	}
	return p
}

func idxKey(g int) uint32  { return uint32(g*2 + 1) }
func dataKey(g int) uint32 { return uint32(g*2 + 2) }

type event struct {
	invoke, ret int64
}

type written struct {
	group     int
	ts        []int64
	seed      uint64
	write     event
	committed bool
	commit    event
}

// chanOp is a CreateChannel (create) or DeleteChannel call that reported success.
type chanOp struct {
	create bool
	ev     event
}

type deleted struct {
	a, b int64
	keys []uint32
	ev   event
}

func executePlan(p Plan, rep *kit.Report) error {
	done := make(chan error, 1)
	go func() { done <- run(p, rep) }()
	select {
	case err := <-done:
		return err
	case <-time.After(120 * time.Second):
		var sb strings.Builder
		_ = pprof.Lookup("goroutine").WriteTo(&sb, 1)
		dump := sb.String()
		if len(dump) > 20000 {
			dump = dump[:20000]
		}
		fmt.Fprintln(os.Stderr, "VERIF-STALL", dump)
		return kit.Fail("stall", "plan did not finish within 120 s (expected: well under a second); goroutines:\n%s", dump)
	}
}

func run(p Plan, rep *kit.Report) error {
	ctx := context.Background()
	mem := xfs.NewMem()
	fs := cx.NewDelayFS(mem, p.Delay)
	open := func() (*cesium.DB, error) {
		opts := []cesium.Option{cesium.WithFS(fs), cesium.WithGCConfig(cesium.GCConfig{TryInterval: 24 * time.Hour, Threshold: 0.0001})}
		if p.FileCap > 0 {
			opts = append(opts, cesium.WithFileSizeCap(telem.Size(p.FileCap)))
		}
		return cesium.Open(ctx, "", opts...)
	}
	db, err := open()
	if err != nil {
		return kit.Fail("setup", "open: %v", err)
	}
	var specs []tsm.ChannelSpec
	for g, dt := range p.DataTypes {
		specs = append(specs, tsm.ChannelSpec{Key: idxKey(g), IsIndex: true, DataType: "timestamp"}, tsm.ChannelSpec{Key: dataKey(g), Index: idxKey(g), DataType: dt})
	}
	for _, s := range specs {
		if cerr := db.CreateChannel(ctx, cesium.Channel{Key: s.Key, Name: fmt.Sprint("c", s.Key), DataType: telem.DataType(s.DataType), IsIndex: s.IsIndex, Index: s.Index}); cerr != nil {
			_ = db.Close()
			return kit.Fail("setup", "create: %v", cerr)
		}
	}
	model := tsm.New(specs)
	var clock atomic.Int64
	tick := func() int64 { return clock.Add(1) }
	var mu sync.Mutex
	writes := map[int][]*written{} // by task index
	var deletes []deleted
	chanOps := map[uint32][]chanOp{}
	var fatal error
	fail := func(e error) {
		mu.Lock()
		if fatal == nil {
			fatal = e
		}
		mu.Unlock()
	}
	// ---------------- sequential prelude (no perturbation, same bookkeeping as the tasks)
	for pi, pre := range p.Prelude {
		switch pre.Kind {
		case "write":
			yes, no := true, false
			w, oerr := db.OpenWriter(ctx, cesium.WriterConfig{Channels: []cesium.ChannelKey{idxKey(pre.Group), dataKey(pre.Group)}, Start: telem.TimeStamp(pre.Start), EnableAutoCommit: &no, Sync: &yes})
			if oerr != nil {
				_ = db.Close()
				return kit.Fail("setup", "prelude writer: %v", oerr)
			}
			st := &cx.State{M: model, Writers: map[int]*cx.WState{0: {ID: 0, Channels: []uint32{idxKey(pre.Group), dataKey(pre.Group)}}}}
			wr := &written{group: pre.Group, seed: uint64(900_000 + pi)}
			for i := 0; i < pre.N; i++ {
				wr.ts = append(wr.ts, pre.Start+int64(i))
			}
			wr.write.invoke = tick()
			_, werr := w.Write(cx.BuildFrame(st, cx.Op{W: 0, TS: wr.ts, Seed: wr.seed}))
			wr.write.ret = tick()
			wr.commit.invoke = tick()
			_, cerr := w.Commit()
			wr.commit.ret = tick()
			clerr := w.Close()
			if werr != nil || cerr != nil || clerr != nil {
				_ = db.Close()
				rep.Discard("prelude-write-error")
				return nil
			}
			wr.committed = true
			writes[-1-pi] = append(writes[-1-pi], wr)
		case "delete":
			keys := []uint32{dataKey(pre.Group)}
			if pre.Index {
				keys = append(keys, idxKey(pre.Group))
			}
			ev := event{invoke: tick()}
			derr := db.DeleteTimeRange(ctx, keys, telem.TimeRange{Start: telem.TimeStamp(pre.A), End: telem.TimeStamp(pre.B)})
			ev.ret = tick()
			if derr != nil {
				rep.Class("prelude-delete-refused")
				continue
			}
			rep.Class("prelude-delete-ok")
			deletes = append(deletes, deleted{a: pre.A, b: pre.B, keys: keys, ev: ev})
		case "gc":
			if gerr := db.VerifGarbageCollect(ctx); gerr != nil {
				rep.Class("prelude-gc-error")
			}
		}
	}
	if len(p.Prelude) > 0 {
		rep.Class("with-prelude")
	}
	if p.PreReopen {
		if cerr := db.Close(); cerr != nil {
			return kit.Fail("setup", "close after prelude: %v", cerr)
		}
		if db, err = open(); err != nil {
			return kit.Fail("reopen-error", "cesium.Open after the sequential prelude: %v", err)
		}
		rep.Class("prelude-then-reopen")
	}
	// channels the "chan" tasks race on exist beforehand, so that a task starting with a
	// delete has something to delete
	for _, tk := range p.Tasks {
		if tk.Kind != "chan" {
			continue
		}
		key := uint32(100 + tk.Group%2)
		if _, rerr := db.RetrieveChannel(ctx, key); rerr == nil {
			continue
		}
		ev := event{invoke: tick()}
		if cerr := db.CreateChannel(ctx, cesium.Channel{Key: key, Name: fmt.Sprint("tmp", key), DataType: telem.TimeStampT, IsIndex: true}); cerr != nil {
			_ = db.Close()
			return kit.Fail("setup", "create side channel: %v", cerr)
		}
		ev.ret = tick()
		chanOps[key] = append(chanOps[key], chanOp{create: true, ev: ev})
	}
	fs.Enable(true)
	var wg sync.WaitGroup
	stop := make(chan struct{})
	var swg sync.WaitGroup
	for ti, tk := range p.Tasks {
		switch tk.Kind {
		case "writer":
			wg.Add(1)
			go func(ti int, tk Task) {
				defer wg.Done()
				yes := true
				for link := 0; link < max(1, tk.Chain); link++ {
					func() {
						tk := tk
						tk.Start += int64(link) * 10_000
						wc := cesium.WriterConfig{Channels: []cesium.ChannelKey{idxKey(tk.Group), dataKey(tk.Group)}, Start: telem.TimeStamp(tk.Start), EnableAutoCommit: &tk.AutoCommit, Sync: &yes}
						if tk.PersistAlways {
							wc.AutoIndexPersistInterval = cesium.AlwaysIndexPersistOnAutoCommit
						}
						w, oerr := db.OpenWriter(ctx, wc)
						if oerr != nil {
							rep.Class("writer-open-refused")
							return
						}
						st := &cx.State{M: model, Writers: map[int]*cx.WState{0: {ID: 0, Channels: []uint32{idxKey(tk.Group), dataKey(tk.Group)}}}}
						seq := int64(0)
						var pending []*written
						for f := 0; f < tk.Frames; f++ {
							var stamps []int64
							for i := 0; i < tk.PerFrame; i++ {
								stamps = append(stamps, tk.Start+seq)
								seq++
							}
							wr := &written{group: tk.Group, ts: stamps, seed: uint64(ti*1000 + link*100 + f)}
							fr := cx.BuildFrame(st, cx.Op{W: 0, TS: stamps, Seed: wr.seed})
							wr.write.invoke = tick()
							auth, werr := w.Write(fr)
							wr.write.ret = tick()
							if werr != nil {
								rep.Class("write-error")
								rep.Add("write-error:"+werr.Error()[:min(70, len(werr.Error()))], 1)
								break
							}
							if !auth {
								rep.Class("write-unauthorized")
								continue
							}
							if tk.AutoCommit {
								wr.committed = true
								wr.commit = wr.write
							} else {
								pending = append(pending, wr)
							}
							mu.Lock()
							writes[ti] = append(writes[ti], wr)
							mu.Unlock()
							if !tk.AutoCommit && (f+1)%tk.CommitEvery == 0 {
								ev := event{invoke: tick()}
								_, cerr := w.Commit()
								ev.ret = tick()
								if cerr != nil {
									rep.Class("commit-error")
									rep.Add("commit-error:"+cerr.Error()[:min(70, len(cerr.Error()))], 1)
									break
								}
								mu.Lock()
								for _, pw := range pending {
									pw.committed = true
									pw.commit = ev
								}
								mu.Unlock()
								pending = nil
							}
							if tk.Yield > 0 && f%tk.Yield == 0 {
								runtime.Gosched()
							}
						}
						if cerr := w.Close(); cerr != nil {
							rep.Class("writer-close-error")
							rep.Add("writer-close-error:"+cerr.Error()[:min(70, len(cerr.Error()))], 1)
						}
					}()
				}
			}(ti, tk)
		case "deleter":
			wg.Add(1)
			go func(tk Task) {
				defer wg.Done()
				keys := []uint32{dataKey(tk.Group)}
				if tk.Index {
					keys = append(keys, idxKey(tk.Group))
				}
				for i := range tk.A {
					ev := event{invoke: tick()}
					derr := db.DeleteTimeRange(ctx, keys, telem.TimeRange{Start: telem.TimeStamp(tk.A[i]), End: telem.TimeStamp(tk.B[i])})
					ev.ret = tick()
					if derr != nil {
						rep.Class("delete-refused")
						continue
					}
					rep.Class("delete-ok")
					mu.Lock()
					deletes = append(deletes, deleted{a: tk.A[i], b: tk.B[i], keys: keys, ev: ev})
					mu.Unlock()
					runtime.Gosched()
				}
			}(tk)
		case "reader":
			wg.Add(1)
			go func(tk Task) {
				defer wg.Done()
				for i := 0; i < tk.Iter; i++ {
					for _, key := range []uint32{idxKey(tk.Group), dataKey(tk.Group)} {
						spec := model.Chans[key].Spec
						got, rerr := cx.ReadChannelWatchdog(ctx, db, spec, 0, 1<<62, 20*time.Second)
						if rerr != nil {
							var se *cx.StalledError
							if errors.As(rerr, &se) {
								fail(kit.Fail("reader-stalled", "a read of ch%d during the run never returned: %v", key, rerr))
								return
							}
							// a read racing with a delete/commit may legitimately fail; counted
							rep.Class("concurrent-read-error")
							rep.Add("concurrent-read-error:"+rerr.Error()[:min(80, len(rerr.Error()))], 1)
							continue
						}
						if spec.IsIndex {
							prev := int64(-1)
							for _, v := range got {
								tsv := int64(uint64(v[0]) | uint64(v[1])<<8 | uint64(v[2])<<16 | uint64(v[3])<<24 | uint64(v[4])<<32 | uint64(v[5])<<40 | uint64(v[6])<<48 | uint64(v[7])<<56)
								if tsv <= prev {
									// Not asserted: the property speaks about the content readable
									// afterwards; an iterator racing with a delete that reshapes the
									// domain list is not promised a consistent snapshot.
									rep.Class("concurrent-read-unsorted")
									break
								}
								prev = tsv
							}
						}
					}
					runtime.Gosched()
				}
			}(tk)
		case "gc":
			wg.Add(1)
			go func(tk Task) {
				defer wg.Done()
				for i := 0; i < tk.Iter; i++ {
					if gerr := db.VerifGarbageCollect(ctx); gerr != nil {
						rep.Class("gc-error")
						rep.Add("gc-error:"+gerr.Error()[:min(70, len(gerr.Error()))], 1)
					}
					runtime.Gosched()
				}
			}(tk)
		case "chan":
			// create / delete of channels outside the groups. Tasks of the same group share a
			// key, so creates and deletes of one channel race with each other; every call that
			// reports success is recorded with its invoke/return ticks.
			wg.Add(1)
			go func(ti int, tk Task) {
				defer wg.Done()
				key := uint32(100 + tk.Group%2)
				for i := 0; i < tk.Iter; i++ {
					ev := event{invoke: tick()}
					if (i+ti)%2 == 0 {
						cerr := db.CreateChannel(ctx, cesium.Channel{Key: key, Name: fmt.Sprint("tmp", key), DataType: telem.TimeStampT, IsIndex: true})
						ev.ret = tick()
						if cerr != nil {
							rep.Class("create-channel-refused")
							continue
						}
						mu.Lock()
						chanOps[key] = append(chanOps[key], chanOp{create: true, ev: ev})
						mu.Unlock()
					} else {
						derr := db.DeleteChannel(key)
						ev.ret = tick()
						if derr != nil {
							rep.Class("delete-channel-refused")
							continue
						}
						mu.Lock()
						chanOps[key] = append(chanOps[key], chanOp{ev: ev})
						mu.Unlock()
					}
					if tk.Yield > 0 && i%tk.Yield == 0 {
						runtime.Gosched()
					}
				}
			}(ti, tk)
		case "streamer":
			s, serr := db.NewStreamer(ctx, cesium.StreamerConfig{Channels: []cesium.ChannelKey{idxKey(tk.Group), dataKey(tk.Group)}})
			if serr != nil {
				continue
			}
			in, out := confluence.Attach(s, 1)
			sctx, cancel := signal.Isolated()
			s.Flow(sctx, confluence.CloseOutputInletsOnExit())
			swg.Add(1)
			go func() {
				defer swg.Done()
				go func() {
					for range out.Outlet() {
					}
				}()
				<-stop
				in.Close()
				_ = sctx.Wait()
				cancel()
			}()
		}
	}
	wg.Wait()
	close(stop)
	swg.Wait()
	fs.Enable(false)
	if n := fs.Delays(); n > 0 {
		rep.Class("schedule-perturbed-at-fs-calls")
		rep.Add("fs_call_perturbations", n)
	}
	if fatal != nil {
		_ = db.Close()
		return fatal
	}
	// ---------------- serialisability oracle
	verify := func(db *cesium.DB, where string) error {
		for g := range p.DataTypes {
			for _, key := range []uint32{idxKey(g), dataKey(g)} {
				spec := model.Chans[key].Spec
				type want struct {
					v        []byte
					presence int
				}
				expect := map[int64]want{}
				for _, ws := range writes {
					for _, wr := range ws {
						if wr.group != g {
							continue
						}
						if !wr.committed {
							continue
						}
						for _, ts := range wr.ts {
							v := tsm.TSBytes(ts)
							if !spec.IsIndex {
								v = tsm.Payload(spec, ts, wr.seed)
							}
							presence := 2
							for _, d := range deletes {
								covers := false
								for _, k := range d.keys {
									covers = covers || k == key
								}
								if !covers || ts < d.a || ts >= d.b {
									continue
								}
								if d.ev.invoke > wr.commit.ret {
									presence = 0
								} else if d.ev.ret < wr.write.invoke {
								} else if presence == 2 {
									presence = 1
								}
							}
							expect[ts] = want{v, presence}
						}
					}
				}
				got, rerr := cx.ReadChannel(ctx, db, spec, 0, 1<<62)
				if rerr != nil {
					return kit.Fail("final-read-error", "%s: reading ch%d: %v", where, key, rerr)
				}
				// walk expected timestamps in order; every returned sample must match the next
				// expected sample that is present-or-may-be-present
				var tss []int64
				for ts := range expect {
					tss = append(tss, ts)
				}
				sort.Slice(tss, func(i, j int) bool { return tss[i] < tss[j] })
				// Sample values need not be unique (uint8, empty strings), so the returned
				// sequence is matched against the expected one by dynamic programming: every
				// "must" sample has to be consumed, "either" samples may be skipped, deleted
				// ones must be skipped, and the whole returned sequence has to be consumed.
				n, m := len(tss), len(got)
				// reach[i][j]: expected[i:] can produce got[j:]
				reach := make([][]bool, n+1)
				for i := range reach {
					reach[i] = make([]bool, m+1)
				}
				reach[n][m] = true
				for i := n - 1; i >= 0; i-- {
					w := expect[tss[i]]
					for j := m; j >= 0; j-- {
						ok := false
						if w.presence > 0 && j < m && string(got[j]) == string(w.v) && reach[i+1][j+1] {
							ok = true
						}
						if w.presence < 2 && reach[i+1][j] {
							ok = true
						}
						reach[i][j] = ok
					}
				}
				if !reach[0][0] {
					if os.Getenv("C09_DEBUG") != "" {
						for gi := 0; gi < len(got) && gi < 16; gi++ {
							fmt.Printf("DEBUG %s ch%d returned[%d]=%x\n", where, key, gi, got[gi])
						}
						for _, k2 := range []uint32{idxKey(g), dataKey(g)} {
							fr, _ := db.Read(ctx, telem.TimeRangeMax, k2)
							for _, sr := range fr.SeriesSlice() {
								fmt.Printf("DEBUG %s ch%d series tr=[%d,%d) len=%d bytes=%d align=%v\n", where, k2, int64(sr.TimeRange.Start), int64(sr.TimeRange.End), sr.Len(), len(sr.Data), sr.Alignment)
							}
						}
						for _, k2 := range []uint32{idxKey(g), dataKey(g)} {
							if f, ferr := fs.Open(fmt.Sprintf("%d/index.domain", k2), os.O_RDONLY); ferr == nil {
								st, _ := f.Stat()
								buf := make([]byte, st.Size())
								_, _ = f.ReadAt(buf, 0)
								_ = f.Close()
								fmt.Printf("DEBUG ch%d index.domain (as last persisted):", k2)
								for o := 0; o+26 <= len(buf); o += 26 {
									fmt.Printf(" [%d,%d) f%d off%d sz%d;", binary.LittleEndian.Uint64(buf[o:]), binary.LittleEndian.Uint64(buf[o+8:]), binary.LittleEndian.Uint16(buf[o+16:]), binary.LittleEndian.Uint32(buf[o+18:]), binary.LittleEndian.Uint32(buf[o+22:]))
								}
								fmt.Println()
							}
							if infos, lerr := fs.List(fmt.Sprint(k2)); lerr == nil {
								for _, in := range infos {
									fmt.Printf("DEBUG ch%d file %s %d bytes\n", k2, in.Name(), in.Size())
								}
							}
						}
						for _, d := range deletes {
							fmt.Printf("DEBUG delete [%d,%d) keys=%v invoke=%d ret=%d\n", d.a, d.b, d.keys, d.ev.invoke, d.ev.ret)
						}
						for ti, ws := range writes {
							for _, wr := range ws {
								if wr.group != g {
									continue
								}
								fmt.Printf("DEBUG write task %d ts=%v..%v write=%v commit=%v committed=%v\n", ti, wr.ts[0], wr.ts[len(wr.ts)-1], wr.write, wr.commit, wr.committed)
							}
						}
					}
					// diagnose with a greedy walk
					gi := 0
					for _, ts := range tss {
						w := expect[ts]
						if gi < len(got) && string(got[gi]) == string(w.v) && w.presence > 0 {
							gi++
							continue
						}
						if w.presence == 2 {
							return kit.Fail("committed-sample-missing", "%s: ch%d (%s): the returned %d samples cannot be explained: walking the expected samples in time order, the committed sample at %d (no successful delete covers it after its commit) does not match returned sample %d", where, key, spec.DataType, len(got), ts, gi)
						}
					}
					return kit.Fail("unexpected-sample", "%s: ch%d (%s) returned %d samples of which only %d can be explained by committed, undeleted writes", where, key, spec.DataType, len(got), gi)
				}
			}
		}
		return nil
	}
	// ---------------- channels created / deleted concurrently: the final state must be the
	// effect of an operation that no other successful operation on the key strictly follows,
	// an existing channel must be usable, and the reopened database must agree
	chanExists := map[uint32]bool{}
	for key, ops := range chanOps {
		mayExist, mayBeGone := false, false
		for i, o := range ops {
			last := true
			for j, q := range ops {
				if i != j && q.ev.invoke > o.ev.ret {
					last = false
				}
			}
			if last {
				mayExist = mayExist || o.create
				mayBeGone = mayBeGone || !o.create
			}
		}
		_, rerr := db.RetrieveChannel(ctx, key)
		exists := rerr == nil
		chanExists[key] = exists
		if exists && !mayExist {
			_ = db.Close()
			return kit.Fail("deleted-channel-still-present", "channel %d exists after the run although every successful operation that nothing follows is a DeleteChannel (%d successful operations)", key, len(ops))
		}
		if !exists && !mayBeGone {
			_ = db.Close()
			return kit.Fail("created-channel-missing", "channel %d does not exist after the run although every successful operation that nothing follows is a CreateChannel (%d successful operations)", key, len(ops))
		}
		if exists {
			if werr := db.WriteSeries(ctx, key, telem.TimeStamp(7), telem.NewSeriesV(telem.TimeStamp(7), telem.TimeStamp(8))); werr != nil {
				_ = db.Close()
				return kit.Fail("created-channel-unusable", "channel %d exists after concurrent CreateChannel/DeleteChannel calls that all reported success or failure, but writing to it fails: %v", key, werr)
			}
			rep.Class("concurrently-created-channel-usable")
		}
		rep.Class("channel-create-delete-raced")
	}
	if verr := verify(db, "in memory after the run"); verr != nil {
		// Characterise the failure for the signature: does the persisted state (after
		// close and reopen) hold the right content, and did a GC pass run concurrently?
		_ = db.Close()
		hasGC := false
		for _, tk := range p.Tasks {
			hasGC = hasGC || tk.Kind == "gc"
		}
		if db3, oerr := open(); oerr == nil {
			rerr := verify(db3, "after reopen")
			_ = db3.Close()
			if rerr == nil && hasGC {
				v := verr.(*kit.Violation)
				return kit.Fail("in-memory-only-with-concurrent-gc:"+v.Sig, "%s (the same reads are correct after close and reopen; the plan runs garbage collection concurrently)", v.Msg)
			}
		}
		return verr
	}
	if cerr := db.Close(); cerr != nil {
		rep.Class("db-close-error")
		rep.Add("db-close-error:"+cerr.Error()[:min(70, len(cerr.Error()))], 1)
	}
	if serr := checkIndexFiles(mem, specs); serr != nil {
		return serr
	}
	db2, oerr := open()
	if oerr != nil {
		return kit.Fail("reopen-error", "cesium.Open after the concurrent run: %v", oerr)
	}
	defer db2.Close()
	if verr := verify(db2, "after close and reopen"); verr != nil {
		return verr
	}
	for key, was := range chanExists {
		_, rerr := db2.RetrieveChannel(ctx, key)
		if (rerr == nil) != was {
			return kit.Fail("channel-existence-changed-by-reopen", "channel %d: exists=%v before Close, exists=%v after reopen (created and deleted concurrently during the run)", key, was, rerr == nil)
		}
		if was {
			got, gerr := cx.SideContent(ctx, db2, key)
			if gerr != nil || len(got) != 2 || got[0] != 7 || got[1] != 8 {
				return kit.Fail("created-channel-unusable", "channel %d: the two samples written after the run read back as %v (err %v) after reopen", key, got, gerr)
			}
		}
	}
	// non-trivial: conflicting or same-channel operations overlapped in real time
	overlap := false
	var evs []struct {
		g  int
		ev event
	}
	for ti, ws := range writes {
		if ti < 0 {
			continue // prelude writes are sequential by construction
		}
		for _, wr := range ws {
			evs = append(evs, struct {
				g  int
				ev event
			}{wr.group, wr.write})
		}
	}
	for i := range evs {
		for j := i + 1; j < len(evs) && !overlap; j++ {
			if evs[i].g == evs[j].g && evs[i].ev.invoke < evs[j].ev.ret && evs[j].ev.invoke < evs[i].ev.ret {
				overlap = true
			}
		}
	}
	for _, d := range deletes {
		for _, e := range evs {
			if d.ev.invoke < e.ev.ret && e.ev.invoke < d.ev.ret {
				overlap = true
			}
		}
	}
	if overlap {
		rep.Class("same-group-ops-overlapped-in-time")
		rep.NontrivialKey(fmt.Sprintf("%v|%d|%d", p, len(deletes), clock.Load()))
	}
	return nil
}

// checkIndexFiles decodes every channel's persisted index after the database was closed:
// pointers must be ordered and non-overlapping in time, each must lie inside its data file,
// and no two pointers of one file may share bytes.
func checkIndexFiles(fs xfs.FS, specs []tsm.ChannelSpec) error {
	for _, sp := range specs {
		f, err := fs.Open(fmt.Sprintf("%d/index.domain", sp.Key), os.O_RDONLY)
		if err != nil {
			continue
		}
		st, _ := f.Stat()
		buf := make([]byte, st.Size())
		_, _ = f.ReadAt(buf, 0)
		_ = f.Close()
		if len(buf)%26 != 0 {
			return kit.Fail("index-file-malformed", "ch%d: index.domain has %d bytes after Close (not a multiple of 26)", sp.Key, len(buf))
		}
		type ptr struct {
			s, e     int64
			file     uint16
			off, siz uint32
		}
		var ps []ptr
		for o := 0; o+26 <= len(buf); o += 26 {
			ps = append(ps, ptr{int64(binary.LittleEndian.Uint64(buf[o:])), int64(binary.LittleEndian.Uint64(buf[o+8:])), binary.LittleEndian.Uint16(buf[o+16:]), binary.LittleEndian.Uint32(buf[o+18:]), binary.LittleEndian.Uint32(buf[o+22:])})
		}
		sizes := map[uint16]int64{}
		for i, q := range ps {
			if q.e < q.s || (i > 0 && ps[i-1].e > q.s) {
				return kit.Fail("index-file-unordered", "ch%d: persisted pointer %d [%d,%d) overlaps or precedes its predecessor (ends %d)", sp.Key, i, q.s, q.e, ps[max(0, i-1)].e)
			}
			if _, ok := sizes[q.file]; !ok {
				info, serr := fs.Stat(fmt.Sprintf("%d/%d.domain", sp.Key, q.file))
				if serr != nil {
					return kit.Fail("index-file-dangling", "ch%d: persisted pointer %d names file %d which does not exist: %v", sp.Key, i, q.file, serr)
				}
				sizes[q.file] = info.Size()
			}
			if int64(q.off)+int64(q.siz) > sizes[q.file] {
				return kit.Fail("index-file-past-eof", "ch%d: persisted pointer %d [%d,%d) covers bytes [%d,%d) of file %d, which has %d bytes", sp.Key, i, q.s, q.e, q.off, q.off+q.siz, q.file, sizes[q.file])
			}
			for j := 0; j < i; j++ {
				o := ps[j]
				if o.file == q.file && q.siz > 0 && o.siz > 0 && q.off < o.off+o.siz && o.off < q.off+q.siz {
					return kit.Fail("index-file-shared-bytes", "ch%d: persisted pointers %d and %d share bytes of file %d ([%d,%d) and [%d,%d))", sp.Key, j, i, q.file, o.off, o.off+o.siz, q.off, q.off+q.siz)
				}
			}
		}
	}
	return nil
}

func TestC09(t *testing.T) {
	r := &kit.Runner[Plan]{Name: "TestC09", Exec: executePlan, ReplayRepeat: 25}
	r.Run(t, genPlan)
}
