// C09 at the level of one channel's domain database, with a small descriptor limit: the
// anchored file controller "hands each file handle to one user at a time" and parks callers
// that find every descriptor handed out until one is released. At the cesium level the limit
// is fixed at 100 per channel and never reached by the plans of TestC09; here 3-8 goroutines
// share 1-3 descriptors. Every goroutine holds at most one handle at a time and releases it
// without waiting for another one, so every serial order completes: a run that does not finish
// is a lost wake-up or a deadlock in the controller (stall rule of DESIGN §2.4: reported only
// if an immediate second run of the same plan stalls as well).
package verif_c09_test

import (
	"context"
	"encoding/binary"
	"fmt"
	"os"
	"runtime/pprof"
	"strings"
	"sync"
	"testing"
	"time"

	"github.com/synnaxlabs/cesium/internal/domain"
	kit "github.com/synnaxlabs/cesium/internal/verifkit"
	xfs "github.com/synnaxlabs/x/io/fs"
	"github.com/synnaxlabs/x/telem"
	"pgregory.net/rapid"
)

type DWorker struct {
	Writes int `json:"writes"` // domains this worker commits (each in its own time region)
	Reads  int `json:"reads"`  // reads of already committed domains in between
	N      int `json:"n"`      // samples (8 bytes each) per domain
}

type DPlan struct {
	MaxDesc int       `json:"max_desc"`
	FileCap int       `json:"file_cap"`
	Workers []DWorker `json:"workers"`
}

func genDPlan(t *rapid.T) DPlan {
	// Idle writer handles stay pooled (one per file that is not full) and are reclaimed only
	// when their file is oversize, so a limit that does not exceed the number of writing
	// goroutines can be used up by idle writers alone - a starvation by configuration that is
	// not what this test is about. One or two goroutines write; the limit leaves one or two
	// descriptors beyond their handles for the 2-6 reading goroutines to contend for.
	nw := rapid.IntRange(1, 2).Draw(t, "writers")
	p := DPlan{MaxDesc: nw + rapid.IntRange(1, 2).Draw(t, "spare"),
		FileCap: rapid.SampledFrom([]int{32, 64, 256}).Draw(t, "file_cap")}
	for i := 0; i < nw; i++ {
		p.Workers = append(p.Workers, DWorker{Writes: rapid.IntRange(1, 6).Draw(t, "writes"), Reads: rapid.IntRange(0, 4).Draw(t, "wreads"), N: rapid.IntRange(1, 6).Draw(t, "n")})
	}
	for i, n := 0, rapid.IntRange(2, 6).Draw(t, "readers"); i < n; i++ {
		p.Workers = append(p.Workers, DWorker{Reads: rapid.IntRange(1, 12).Draw(t, "reads")})
	}
	return p
}

func runDomainPlan(p DPlan, rep *kit.Report) error {
	ctx := context.Background()
	db, err := domain.Open(domain.Config{FS: xfs.NewMem(), MaxDescriptors: p.MaxDesc, FileSize: telem.Size(p.FileCap)})
	if err != nil {
		return kit.Fail("setup", "domain.Open: %v", err)
	}
	var mu sync.Mutex
	committed := map[int64][]byte{} // start -> bytes
	var fatal error
	fail := func(e error) {
		mu.Lock()
		if fatal == nil {
			fatal = e
		}
		mu.Unlock()
	}
	readOne := func(start int64, want []byte) error {
		it := db.OpenIterator(domain.IterRange(telem.TimeRange{Start: telem.TimeStamp(start), End: telem.TimeStamp(start + 1000)}))
		defer func() { _ = it.Close() }()
		if !it.SeekFirst(ctx) {
			return kit.Fail("committed-domain-missing", "the domain committed at %d is not found by an iterator", start)
		}
		r, rerr := it.OpenReader(ctx)
		if rerr != nil {
			return kit.Fail("reader-error", "OpenReader on the domain at %d: %v", start, rerr)
		}
		buf := make([]byte, len(want))
		_, rerr = r.ReadAt(buf, 0)
		cerr := r.Close()
		if rerr != nil && rerr.Error() != "EOF" {
			return kit.Fail("reader-error", "ReadAt on the domain at %d: %v", start, rerr)
		}
		if cerr != nil {
			return kit.Fail("reader-error", "closing the reader of the domain at %d: %v", start, cerr)
		}
		if string(buf) != string(want) {
			return kit.Fail("read-mismatch", "the domain at %d reads back %x, committed %x", start, buf, want)
		}
		return nil
	}
	var wg sync.WaitGroup
	for wi, w := range p.Workers {
		wg.Add(1)
		go func(wi int, w DWorker) {
			defer wg.Done()
			reads := w.Reads
			for k := 0; k < w.Writes || reads > 0; k++ {
				if k < w.Writes {
					start := int64(wi+1)*1_000_000 + int64(k)*1000
					wr, oerr := db.OpenWriter(ctx, domain.WriterConfig{Start: telem.TimeStamp(start)})
					if oerr != nil {
						fail(kit.Fail("writer-error", "OpenWriter at %d: %v", start, oerr))
						return
					}
					data := make([]byte, 8*w.N)
					for i := 0; i < w.N; i++ {
						binary.LittleEndian.PutUint64(data[8*i:], uint64(start+int64(i)))
					}
					if _, werr := wr.Write(data); werr != nil {
						fail(kit.Fail("writer-error", "Write at %d: %v", start, werr))
						return
					}
					if cerr := wr.Commit(ctx, telem.TimeStamp(start+int64(w.N))); cerr != nil {
						fail(kit.Fail("writer-error", "Commit at %d: %v", start, cerr))
						return
					}
					if cerr := wr.Close(); cerr != nil {
						fail(kit.Fail("writer-error", "Close at %d: %v", start, cerr))
						return
					}
					mu.Lock()
					committed[start] = data
					mu.Unlock()
				}
				if reads > 0 {
					reads--
					mu.Lock()
					var pick int64 = -1
					var want []byte
					for s, d := range committed { // any committed domain will do
						pick, want = s, d
						break
					}
					mu.Unlock()
					if pick >= 0 {
						// The property speaks about the content readable afterwards: what a
						// read returns while writers are inserting other domains is counted,
						// not asserted (an iterator positions itself by index and a concurrent
						// insert in front of that position makes it miss its domain).
						if rerr := readOne(pick, want); rerr != nil {
							if v, ok := rerr.(*kit.Violation); ok {
								rep.Class("during-run:" + v.Sig)
							}
						}
					} else {
						time.Sleep(50 * time.Microsecond) // nothing committed yet
					}
				}
			}
		}(wi, w)
	}
	wg.Wait()
	if fatal != nil {
		_ = db.Close()
		return fatal
	}
	for s, d := range committed {
		if rerr := readOne(s, d); rerr != nil {
			_ = db.Close()
			return rerr
		}
	}
	if cerr := db.Close(); cerr != nil {
		return kit.Fail("close-error", "domain.DB.Close after all handles were released: %v", cerr)
	}
	rep.Class(fmt.Sprintf("max-descriptors=%d", p.MaxDesc))
	if len(p.Workers) > p.MaxDesc+1 {
		rep.Nontrivial()
	}
	return nil
}

func executeDPlan(p DPlan, rep *kit.Report) error {
	nWriters := 0
	for _, w := range p.Workers {
		if w.Writes > 0 {
			nWriters++
		}
	}
	if p.MaxDesc <= nWriters || len(p.Workers) == 0 {
		rep.Discard("bad-script") // see genDPlan: the limit must exceed the writing goroutines
		return nil
	}
	stalled := func() (error, bool) {
		done := make(chan error, 1)
		go func() { done <- runDomainPlan(p, rep) }()
		select {
		case e := <-done:
			return e, false
		case <-time.After(45 * time.Second):
			return nil, true
		}
	}
	e, st := stalled()
	if !st {
		return e
	}
	if _, again := stalled(); !again {
		rep.Discard("stall-not-reproduced")
		return nil
	}
	var sb strings.Builder
	_ = pprof.Lookup("goroutine").WriteTo(&sb, 1)
	dump := sb.String()
	if len(dump) > 16000 {
		dump = dump[:16000]
	}
	fmt.Fprintln(os.Stderr, "VERIF-STALL", dump)
	return kit.Fail("stall:descriptor-limit", "%d goroutines sharing %d descriptors did not finish within 45 s twice in a row (each holds one handle at a time and releases it unconditionally); goroutines:\n%s", len(p.Workers), p.MaxDesc, dump)
}

func TestC09Domain(t *testing.T) {
	r := &kit.Runner[DPlan]{Name: "TestC09Domain", Exec: executeDPlan, ReplayRepeat: 10}
	r.Run(t, genDPlan)
}
