// TestC03Loose: the structural clauses of C03 alone, in the regimes the model-based test leaves
// out because the committed range is ambiguous there (preset ends combined with file
// rollover) or because the schedule matters (a commit that lands while Delete resolves its
// offsets). After every operation the stored domains are enumerated: they must be time
// ordered, pairwise non-overlapping, not inverted, and fully readable from their files; an
// operation that returned an error must have left the enumeration unchanged. Which commits
// succeed is not predicted.
//
// Samples are 8-byte values; for Delete's offset resolvers sample i of a domain that starts at
// S counts as taken at S+i (a convention that is consistent with every stored domain whatever
// the commit ends were: offset 0 at the domain's start, monotone, bounded by the domain's size).
package verif_c03_test

import (
	"context"
	"encoding/binary"
	"fmt"
	"testing"

	"github.com/synnaxlabs/cesium/internal/domain"
	kit "github.com/synnaxlabs/cesium/internal/verifkit"
	xfs "github.com/synnaxlabs/x/io/fs"
	"github.com/synnaxlabs/x/telem"
	"pgregory.net/rapid"
)

type LOp struct {
	Kind   string `json:"kind"` // open write commit close delete reopen
	W      int    `json:"w,omitempty"`
	Start  int64  `json:"start,omitempty"`
	Preset int64  `json:"preset,omitempty"`
	N      int    `json:"n,omitempty"`
	End    int64  `json:"end,omitempty"`
	A      int64  `json:"a,omitempty"`
	B      int64  `json:"b,omitempty"`
	// delete: from inside Delete's end-offset resolver either the open writer HW commits with end
	// HEnd, or (HW == 0, HN > 0) a new writer opens at HStart, writes HN samples, commits with end
	// HEnd and closes
	HW     int   `json:"hw,omitempty"`
	HEnd   int64 `json:"hend,omitempty"`
	HStart int64 `json:"hstart,omitempty"`
	HN     int   `json:"hn,omitempty"`
	// delete, resolved against the stored domains when the operation runs: BDom > 0 moves B
	// inside the (BDom-1 mod n)-th stored domain that ends after A; HGap > 0 moves the inserted
	// domain into the (HGap-1 mod n)-th gap between stored domains inside [A,B)
	BDom int `json:"bdom,omitempty"`
	BOff int `json:"boff,omitempty"`
	HGap int `json:"hgap,omitempty"`
}

type LScript struct {
	FileSize int   `json:"file_size"`
	Ops      []LOp `json:"ops"`
}

func genLoose(t *rapid.T) LScript {
	sc := LScript{FileSize: rapid.SampledFrom([]int{8, 16, 24, 64, 0}).Draw(t, "file_size")}
	open := map[int]int64{} // writer -> start
	next := 1
	var ends []int64 // commit ends drawn so far: a delete bound just below one falls inside a domain
	for i, n := 0, rapid.IntRange(3, 30).Draw(t, "nops"); i < n; i++ {
		switch k := rapid.IntRange(0, 11).Draw(t, "kind"); {
		case k < 3 && len(open) < 3:
			op := LOp{Kind: "open", W: next, Start: int64(rapid.IntRange(0, 120).Draw(t, "start"))}
			if rapid.IntRange(0, 2).Draw(t, "preset") == 0 {
				op.Preset = op.Start + int64(rapid.IntRange(1, 40).Draw(t, "preset-len"))
				if rapid.IntRange(0, 7).Draw(t, "preset-equals-start") == 0 && op.Start > 0 {
					// the unary layer lets through "end after or equal to start" (an end before the
					// start is refused there and never reaches the domain database)
					op.Preset = op.Start
				}
			}
			open[next] = op.Start
			next++
			sc.Ops = append(sc.Ops, op)
		case k < 6 && len(open) > 0:
			sc.Ops = append(sc.Ops, LOp{Kind: "write", W: pickKey(t, open), N: rapid.IntRange(1, 4).Draw(t, "n")})
		case k < 9 && len(open) > 0:
			w := pickKey(t, open)
			if rapid.IntRange(0, 3).Draw(t, "write-first") > 0 {
				sc.Ops = append(sc.Ops, LOp{Kind: "write", W: w, N: rapid.IntRange(1, 4).Draw(t, "n")})
			}
			// ends around the writer's start, far beyond it, and below it
			end := open[w] + int64(rapid.SampledFrom([]int{-25, -1, 0, 1, 2, 3, 5, 8, 13, 40, 90}).Draw(t, "end-off"))
			sc.Ops = append(sc.Ops, LOp{Kind: "commit", W: w, End: end})
			if end > 1 {
				ends = append(ends, end)
			}
		case k == 9 && len(open) > 0:
			w := pickKey(t, open)
			delete(open, w)
			sc.Ops = append(sc.Ops, LOp{Kind: "close", W: w})
		case k == 10 && (len(ends) > 0 || i > 8):
			a := int64(rapid.IntRange(0, 130).Draw(t, "a"))
			lo := int64(1 << 40)
			if len(open) > 0 {
				for _, s := range open {
					if s < lo {
						lo = s
					}
				}
				if lo > 0 {
					a = int64(rapid.IntRange(0, int(lo)-1).Draw(t, "a-below"))
				}
			}
			op := LOp{Kind: "delete", A: a, B: a + int64(rapid.IntRange(1, 60).Draw(t, "len"))}
			if len(ends) > 0 && rapid.Bool().Draw(t, "b-in-domain") {
				if b := rapid.SampledFrom(ends).Draw(t, "b-end") - int64(rapid.IntRange(1, 3).Draw(t, "b-off")); b > a {
					op.B = b
				}
			}
			if op.B > lo && lo > a && rapid.IntRange(0, 4).Draw(t, "clip") > 0 {
				op.B = lo // ends where the lowest open writer's control range begins
			}
			switch h := rapid.IntRange(0, 3).Draw(t, "hook"); {
			case h == 0 && len(open) > 0:
				op.HW = pickKey(t, open)
				op.HEnd = open[op.HW] + int64(rapid.SampledFrom([]int{1, 2, 3, 5, 8, 13}).Draw(t, "hend-off"))
			case h <= 2:
				// mostly inside the deleted range, where a gap between two domains may be
				op.HStart = a + int64(rapid.IntRange(-10, 60).Draw(t, "hstart-off"))
				if op.HStart < 0 {
					op.HStart = 0
				}
				op.HN = rapid.IntRange(1, 4).Draw(t, "hn")
				op.HEnd = op.HStart + int64(rapid.IntRange(1, 12).Draw(t, "hlen"))
				if rapid.Bool().Draw(t, "in-gap") {
					op.HGap = rapid.IntRange(1, 3).Draw(t, "hgap")
				}
			}
			if rapid.Bool().Draw(t, "b-dom") {
				op.BDom, op.BOff = rapid.IntRange(1, 4).Draw(t, "bdom"), rapid.IntRange(0, 20).Draw(t, "boff")
			}
			sc.Ops = append(sc.Ops, op)
		case k == 11 && len(open) == 0:
			sc.Ops = append(sc.Ops, LOp{Kind: "reopen"})
		}
	}
	return sc
}

func pickKey(t *rapid.T, m map[int]int64) int {
	ks := make([]int, 0, len(m))
	for k := range m {
		ks = append(ks, k)
	}
	for i := range ks {
		for j := i + 1; j < len(ks); j++ {
			if ks[j] < ks[i] {
				ks[i], ks[j] = ks[j], ks[i]
			}
		}
	}
	return ks[rapid.IntRange(0, len(ks)-1).Draw(t, "w")]
}

type lwriter struct {
	w      *domain.Writer
	start  int64
	preset int64
	wrote  int64
}

// controls reports whether the writer's control range - [start, preset end or the end of time),
// the range cesium's unary layer locks for it - overlaps [a,b). The unary layer refuses a
// delete whose range overlaps the control range of an open writer, so such deletes never reach
// the domain database.
func (lw *lwriter) controls(a, b int64) bool {
	if lw.preset != 0 && lw.preset <= lw.start {
		return true // a range the unary layer would never lock: keep deletes away from such a writer altogether
	}
	return b > lw.start && (lw.preset == 0 || a < lw.preset)
}

func executeLoose(sc LScript, rep *kit.Report) error {
	e := &env{ctx: context.Background(), fs: xfs.NewMem(), ws: map[int]*domain.Writer{}}
	if err := e.open(sc.FileSize); err != nil {
		return kit.Fail("open", "domain.Open: %v", err)
	}
	defer func() {
		if e.db != nil {
			_ = e.db.Close()
		}
	}()
	ws := map[int]*lwriter{}
	before, err := e.observe()
	if err != nil {
		return err
	}
	for i, op := range sc.Ops {
		where := fmt.Sprintf("op %d %+v", i, op)
		var operr error
		switch op.Kind {
		case "open":
			w, oerr := e.db.OpenWriter(e.ctx, domain.WriterConfig{Start: telem.TimeStamp(op.Start), End: telem.TimeStamp(op.Preset)})
			if oerr != nil {
				operr = oerr
				rep.Class("open-refused")
				break
			}
			for _, d := range before {
				if d.S <= op.Start && op.Start < d.E {
					_ = w.Close()
					return kit.Fail("open-inside-existing-data", "%s: OpenWriter succeeded although its start lies inside the stored domain [%d,%d) (stored: %s)", where, d.S, d.E, show(before))
				}
			}
			if op.Preset != 0 && op.Preset <= op.Start {
				rep.Class("preset-end-not-after-start")
			}
			ws[op.W] = &lwriter{w: w, start: op.Start, preset: op.Preset}
			if op.Preset != 0 {
				rep.Class("preset-end-writer")
			}
		case "write":
			lw := ws[op.W]
			if lw == nil {
				continue
			}
			buf := make([]byte, 8*op.N)
			for j := 0; j < op.N; j++ {
				binary.LittleEndian.PutUint64(buf[8*j:], uint64(lw.start+lw.wrote+int64(j)))
			}
			if _, werr := lw.w.Write(buf); werr != nil {
				operr = werr
				break
			}
			lw.wrote += int64(op.N)
		case "commit":
			lw := ws[op.W]
			if lw == nil {
				continue
			}
			if operr = lw.w.Commit(e.ctx, telem.TimeStamp(op.End)); operr != nil {
				rep.Class("commit-refused")
			} else {
				rep.Class("commit-accepted")
			}
		case "close":
			lw := ws[op.W]
			if lw == nil {
				continue
			}
			delete(ws, op.W)
			operr = lw.w.Close()
		case "delete":
			if op.BDom > 0 {
				var cands []span
				for _, d := range before {
					if d.E > op.A+1 && d.E-d.S >= 2 {
						cands = append(cands, d)
					}
				}
				if len(cands) > 0 {
					d := cands[(op.BDom-1)%len(cands)]
					if b := d.S + 1 + int64(op.BOff)%(d.E-d.S-1); b > op.A {
						op.B = b
					}
				}
			}
			if op.HGap > 0 && op.HN > 0 {
				type gap struct{ s, e int64 }
				var gaps []gap
				for k := 0; k+1 < len(before); k++ {
					if g := (gap{before[k].E, before[k+1].S}); g.e > g.s && g.s >= op.A && g.e <= op.B {
						gaps = append(gaps, g)
					}
				}
				if len(gaps) > 0 {
					g := gaps[(op.HGap-1)%len(gaps)]
					l := op.HEnd - op.HStart
					if l > g.e-g.s {
						l = g.e - g.s
					}
					op.HStart, op.HEnd = g.s, g.s+l
					if g.e-g.s-l > 0 && op.BOff%2 == 1 {
						op.HStart, op.HEnd = g.e-l, g.e // flush against the following domain
					}
				}
			}
			where = fmt.Sprintf("op %d %+v", i, op)
			for _, d := range before {
				if d.S < op.B && op.B < d.E {
					rep.Class("delete-end-inside-domain")
				}
			}
			if len(before) == 0 {
				rep.Class("delete-on-empty-db")
			}
			controlled := false
			for _, lw := range ws {
				controlled = controlled || lw.controls(op.A, op.B)
			}
			if controlled {
				rep.Class("delete-not-issued:range-controlled-by-open-writer")
				continue
			}
			if len(ws) > 0 {
				rep.Class("delete-beside-open-writers")
			}
			stored := before
			fired := false
			resolver := func(isEnd bool) domain.OffsetResolver {
				return func(_ context.Context, domainStart telem.TimeStamp, ts telem.TimeStamp) (telem.Size, telem.TimeStamp, error) {
					if isEnd && !fired && op.HW != 0 && ws[op.HW] != nil {
						// a commit lands while Delete resolves its offsets
						fired = true
						if cerr := ws[op.HW].w.Commit(e.ctx, telem.TimeStamp(op.HEnd)); cerr == nil {
							rep.Class("commit-landed-inside-delete")
						} else {
							rep.Class("commit-inside-delete-refused")
						}
					} else if isEnd && !fired && op.HW == 0 && op.HN > 0 {
						// a whole new domain is committed while Delete resolves its offsets (the
						// domain database re-locates its start and end domains afterwards)
						fired = true
						if w, oerr := e.db.OpenWriter(e.ctx, domain.WriterConfig{Start: telem.TimeStamp(op.HStart)}); oerr == nil {
							buf := make([]byte, 8*op.HN)
							for j := 0; j < op.HN; j++ {
								binary.LittleEndian.PutUint64(buf[8*j:], uint64(op.HStart+int64(j)))
							}
							_, _ = w.Write(buf)
							cerr := w.Commit(e.ctx, telem.TimeStamp(op.HEnd))
							_ = w.Close()
							if cerr == nil {
								rep.Class("domain-inserted-inside-delete")
								if op.HStart > op.A && op.HEnd < op.B {
									rep.Class("domain-inserted-inside-delete:within-deleted-range")
								}
							} else {
								rep.Class("insert-inside-delete-refused")
							}
						} else {
							rep.Class("insert-inside-delete-refused")
						}
					}
					// sample i of a domain starting at S counts as taken at S+i: offset 0 at the
					// domain's start, monotone, at most the domain's size
					count := int64(ts) - int64(domainStart)
					if count < 0 {
						count = 0
					}
					for _, d := range stored {
						if d.S == int64(domainStart) && count > int64(len(d.data)/8) {
							count = int64(len(d.data) / 8)
						}
					}
					return telem.Size(8 * count), ts, nil
				}
			}
			operr = e.db.Delete(e.ctx, telem.TimeRange{Start: telem.TimeStamp(op.A), End: telem.TimeStamp(op.B)}, resolver(false), resolver(true))
			if operr != nil {
				rep.Class("delete-refused")
			} else {
				rep.Class("delete-ok")
			}
			if fired {
				// the hook committed in the middle: "unchanged after an error" is not
				// applicable to this step
				operr = nil
			}
		case "reopen":
			if len(ws) > 0 {
				continue
			}
			if cerr := e.db.Close(); cerr != nil {
				return kit.Fail("close-error", "%s: domain.DB.Close: %v", where, cerr)
			}
			e.db = nil
			if oerr := e.open(sc.FileSize); oerr != nil {
				return kit.Fail("reopen", "%s: domain.Open on existing data: %v", where, oerr)
			}
			rep.Class("reopen")
		}
		after, oerr := e.observe()
		if oerr != nil {
			if v, ok := oerr.(*kit.Violation); ok {
				return kit.Fail(v.Sig, "%s: %s (before the operation: %s)", where, v.Msg, show(before))
			}
			return oerr
		}
		for _, d := range after {
			if d.E <= d.S && len(d.data) > 0 {
				return kit.Fail("inverted-range", "%s: stored domain [%d,%d) with %d bytes does not end after it starts (before: %s)", where, d.S, d.E, len(d.data), show(before))
			}
		}
		if operr != nil && op.Kind != "reopen" && !sameSpans(before, after) {
			return kit.Fail("failed-op-changed-data", "%s failed with %v but the stored domains changed from %s to %s", where, operr, show(before), show(after))
		}
		before = after
	}
	for _, lw := range ws {
		_ = lw.w.Close()
	}
	if len(before) >= 2 {
		rep.Nontrivial()
	}
	return nil
}

func TestC03Loose(t *testing.T) {
	r := &kit.Runner[LScript]{Name: "TestC03Loose", Exec: executeLoose}
	r.Run(t, genLoose)
}
