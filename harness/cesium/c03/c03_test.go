// C03 — cesium never stores overlapping data; conflicting writes fail cleanly.
// Drives cesium/internal/domain directly with generated writer/commit/delete histories
// against an interval-set model (M-INT).
package verif_c03_test

import (
	"context"
	"encoding/binary"
	"errors"
	"fmt"
	"sort"
	"testing"

	"github.com/synnaxlabs/cesium/internal/domain"
	kit "github.com/synnaxlabs/cesium/internal/verifkit"
	xfs "github.com/synnaxlabs/x/io/fs"
	"github.com/synnaxlabs/x/telem"
	"github.com/synnaxlabs/x/validate"
	"pgregory.net/rapid"
)

// ------------------------------------------------------------------ script

type Op struct {
	Kind string `json:"kind"` // open write commit close delete reopen failwrite
	W    int    `json:"w,omitempty"`
	// failwrite: the file system stores only the first K bytes (1-7) of the writer's next
	// 8-byte write and reports an error; the writer is then closed, what it had not committed
	// is gone, and everything committed - also by writers that later reuse the file - must be
	// exactly what was written
	K int `json:"k,omitempty"`
	// open
	Start  int64 `json:"start,omitempty"`
	Preset int64 `json:"preset,omitempty"` // preset end, 0 = none
	// write
	N int `json:"n,omitempty"`
	// commit
	End int64 `json:"end,omitempty"`
	// delete
	A int64 `json:"a,omitempty"`
	B int64 `json:"b,omitempty"`
}

type Script struct {
	FileSize int  `json:"file_size"` // 0 = default
	Ops      []Op `json:"ops"`
}

// ------------------------------------------------------------------ model

type sample struct {
	ts  int64
	val [8]byte
}

type dom struct {
	S, E    int64
	samples []sample
	owner   int // writer id that still extends this domain, -1 otherwise
	wid     int // writer that created the domain (-1 after a delete rewrote it)
}

type writer struct {
	id        int
	start     int64 // start of the writer's current logical domain
	preset    int64
	written   []sample // all samples written so far (committed or not)
	committed bool     // has a domain in the model
	nCommit   int      // number of samples covered by the last successful commit
	prevEnd   int64    // end passed to the last successful commit
	nextTS    int64    // timestamp assigned to the next sample
}

type model struct {
	doms    []*dom // sorted by S
	writers map[int]*writer
}

func (m *model) sortDoms() { sort.Slice(m.doms, func(i, j int) bool { return m.doms[i].S < m.doms[j].S }) }

func (m *model) covered(t int64) bool {
	for _, d := range m.doms {
		if t >= d.S && t < d.E {
			return true
		}
	}
	return false
}

func (m *model) overlapsOther(s, e int64, owner int) bool {
	for _, d := range m.doms {
		if d.owner == owner || (owner >= 0 && d.wid == owner) {
			continue // the writer's own range (possibly split by file rollover)
		}
		if d.S < e && s < d.E {
			return true
		}
	}
	return false
}

func (m *model) own(w int) *dom {
	for _, d := range m.doms {
		if d.owner == w {
			return d
		}
	}
	return nil
}

// normalised view: adjacent domains merged, bytes concatenated
type span struct {
	S, E int64
	data []byte
}

func normalise(in []span) []span {
	var out []span
	for _, s := range in {
		if n := len(out); n > 0 && out[n-1].E == s.S {
			out[n-1].E = s.E
			out[n-1].data = append(append([]byte(nil), out[n-1].data...), s.data...)
			continue
		}
		out = append(out, span{s.S, s.E, append([]byte(nil), s.data...)})
	}
	return out
}

func (m *model) spans() []span {
	m.sortDoms()
	var in []span
	for _, d := range m.doms {
		var b []byte
		for _, s := range d.samples {
			b = append(b, s.val[:]...)
		}
		in = append(in, span{d.S, d.E, b})
	}
	return normalise(in)
}

// applyDelete mirrors the documented effect of domain.Delete given the resolvers below.
func (m *model) applyDelete(a, b int64) (changed bool) {
	removed := 0
	for _, d := range m.doms {
		for _, s := range d.samples {
			if s.ts >= a && s.ts < b && d.S < b && a < d.E {
				removed++
			}
		}
	}
	if removed == 0 {
		return false
	}
	var out []*dom
	for _, d := range m.doms {
		if d.E <= a || d.S >= b {
			out = append(out, d)
			continue
		}
		var left, right []sample
		for _, s := range d.samples {
			if s.ts < a {
				left = append(left, s)
			} else if s.ts >= b {
				right = append(right, s)
			}
		}
		if a > d.S && len(left) > 0 {
			out = append(out, &dom{S: d.S, E: a, samples: left, owner: -1, wid: -1})
		}
		if b < d.E && len(right) > 0 {
			out = append(out, &dom{S: b, E: d.E, samples: right, owner: -1, wid: -1})
		}
	}
	m.doms = out
	m.sortDoms()
	return true
}

// ------------------------------------------------------------------ generator

func genScript(t *rapid.T) Script {
	sc := Script{FileSize: rapid.SampledFrom([]int{0, 0, 24, 40, 64}).Draw(t, "file_size")}
	m := &model{writers: map[int]*writer{}}
	next := 0
	n := rapid.IntRange(3, 45).Draw(t, "nops")
	pt := func(label string) int64 {
		var pts []int64
		for _, d := range m.doms {
			pts = append(pts, d.S, d.E, (d.S+d.E)/2)
		}
		if len(pts) == 0 || rapid.IntRange(0, 4).Draw(t, label+"-free") == 0 {
			return int64(rapid.IntRange(1, 200).Draw(t, label))
		}
		return rapid.SampledFrom(pts).Draw(t, label+"-pt") + int64(rapid.SampledFrom([]int{0, 0, 1, -1, 3, -4}).Draw(t, label+"-off"))
	}
	for len(sc.Ops) < n {
		var kinds []string
		if len(m.writers) < 4 {
			kinds = append(kinds, "open", "open")
		}
		if len(m.writers) > 0 {
			kinds = append(kinds, "write", "write", "commit", "commit", "commit", "close")
			if rapid.IntRange(0, 5).Draw(t, "allow-failwrite") == 0 {
				kinds = append(kinds, "failwrite")
			}
		}
		if len(m.doms) > 0 && len(m.writers) == 0 {
			kinds = append(kinds, "delete", "delete")
		}
		if len(m.writers) == 0 {
			kinds = append(kinds, "reopen")
		}
		k := rapid.SampledFrom(kinds).Draw(t, "kind")
		ids := func() int {
			var l []int
			for id := range m.writers {
				l = append(l, id)
			}
			sort.Ints(l)
			return rapid.SampledFrom(l).Draw(t, "w")
		}
		switch k {
		case "open":
			op := Op{Kind: "open", W: next, Start: max(1, pt("start"))}
			if len(m.doms) > 0 {
				m.sortDoms()
				switch rapid.IntRange(0, 9).Draw(t, "startkind") {
				case 0, 1, 2, 3, 4: // after all data: adjacent or with a gap
					op.Start = m.doms[len(m.doms)-1].E + int64(rapid.SampledFrom([]int{0, 0, 1, 6, 20}).Draw(t, "gap"))
				case 5: // in a gap between two domains
					i := rapid.IntRange(0, len(m.doms)-1).Draw(t, "gapidx")
					op.Start = m.doms[i].E
				}
			}
			// preset ends only without rollover (see DESIGN: ambiguity of the committed range)
			if sc.FileSize == 0 && rapid.IntRange(0, 3).Draw(t, "preset") == 0 {
				op.Preset = op.Start + int64(rapid.IntRange(1, 30).Draw(t, "preset-len"))
			}
			sc.Ops = append(sc.Ops, op)
			if !m.covered(op.Start) && !(op.Preset != 0 && m.overlapsOther(op.Start, op.Preset, -2)) {
				m.writers[next] = &writer{id: next, start: op.Start, preset: op.Preset, nextTS: op.Start}
			}
			next++
		case "write":
			id := ids()
			op := Op{Kind: "write", W: id, N: rapid.IntRange(1, 6).Draw(t, "n")}
			sc.Ops = append(sc.Ops, op)
			w := m.writers[id]
			for i := 0; i < op.N; i++ {
				w.written = append(w.written, sample{ts: w.nextTS})
				w.nextTS += 1
			}
		case "commit":
			id := ids()
			w := m.writers[id]
			last := w.nextTS // one past the last assigned timestamp
			var end int64
			switch rapid.IntRange(-4, 7).Draw(t, "endkind") {
			case -4, -3, -2, -1, 0, 1, 2:
				end = last + int64(rapid.IntRange(0, 3).Draw(t, "slack")) // valid
			case 3:
				end = w.start // zero-length
			case 4:
				end = w.prevEnd - int64(rapid.IntRange(1, 3).Draw(t, "back")) // backwards
			case 5:
				// exactly the next domain's start (adjacent) or inside it
				end = last
				for _, d := range m.doms {
					if d.S >= w.start && d.owner != id {
						end = d.S + int64(rapid.SampledFrom([]int{0, 0, 1, 2}).Draw(t, "into"))
						break
					}
				}
			case 6:
				end = w.preset + int64(rapid.SampledFrom([]int{0, 1, 5}).Draw(t, "beyond")) // around preset end
				if w.preset == 0 {
					end = last + 1
				}
			default:
				end = pt("end")
			}
			op := Op{Kind: "commit", W: id, End: end}
			sc.Ops = append(sc.Ops, op)
			applyCommitModel(m, w, end, false)
		case "failwrite":
			id := ids()
			sc.Ops = append(sc.Ops, Op{Kind: "failwrite", W: id, K: rapid.IntRange(1, 7).Draw(t, "k")})
			if d := m.own(id); d != nil {
				d.owner = -1
			}
			delete(m.writers, id)
		case "close":
			id := ids()
			sc.Ops = append(sc.Ops, Op{Kind: "close", W: id})
			if d := m.own(id); d != nil {
				d.owner = -1
			}
			delete(m.writers, id)
		case "delete":
			a, b := pt("a"), pt("b")
			if b < a {
				a, b = b, a
			}
			// deletes are issued only while no writer is open (the unary layer takes a
			// control lock over the range; concurrent writers are C05/C09 territory)
			if len(m.writers) > 0 {
				continue
			}
			sc.Ops = append(sc.Ops, Op{Kind: "delete", A: a, B: b})
			m.applyDelete(a, b)
		case "reopen":
			sc.Ops = append(sc.Ops, Op{Kind: "reopen"})
		}
	}
	return sc
}

// commitVerdict classifies a commit against the model: mustFail per the property, and
// (when not mustFail) the range it would occupy if the engine accepts it.
func commitVerdict(m *model, w *writer, end int64) (mustFail bool, why string, s, e int64) {
	s = w.start
	e = end
	if w.preset != 0 {
		e = w.preset
	}
	if len(w.written) == 0 {
		return false, "empty", s, e
	}
	// with a preset end the committed range is [start, preset) whatever end is passed, so
	// it cannot move backwards
	if w.preset == 0 && w.committed && end < w.prevEnd {
		return true, "moves-backwards", s, e
	}
	if m.overlapsOther(s, e, w.id) && e > s {
		return true, "overlaps-existing", s, e
	}
	return false, "", s, e
}

// applyCommitModel applies a commit the engine accepted (or, in the generator, one the
// model predicts will be accepted).
func applyCommitModel(m *model, w *writer, end int64, force bool) bool {
	mustFail, _, s, e := commitVerdict(m, w, end)
	if len(w.written) == 0 {
		return true // no-op
	}
	if !force {
		if mustFail || e <= s || (w.preset != 0 && end > w.preset) {
			return false
		}
	}
	var keep []*dom
	for _, x := range m.doms {
		if x.wid != w.id {
			keep = append(keep, x)
		}
	}
	d := &dom{S: s, owner: w.id, wid: w.id}
	m.doms = append(keep, d)
	d.E = e
	d.samples = append([]sample(nil), w.written...)
	for i := range d.samples {
		binary.LittleEndian.PutUint64(d.samples[i].val[:], uint64(w.id)<<32|uint64(i))
	}
	w.committed = true
	w.nCommit = len(w.written)
	w.prevEnd = end
	// samples written after this commit lie at or after its end: a file rollover starts a
	// new stored domain at exactly that end, so the model's timestamps must never place a
	// later sample before it
	if w.preset == 0 && e > w.nextTS {
		w.nextTS = e
	}
	m.sortDoms()
	return true
}

// adoptSplits replaces the model's single domain of a writer by the pieces the engine
// stores for it, after validating them.
func adoptSplits(e *env, m *model, w *writer) error {
	d := m.own(w.id)
	if d == nil {
		return nil
	}
	got, err := e.observe()
	if err != nil {
		return err
	}
	var pieces []span
	for _, g := range got {
		if g.S >= d.S && g.E <= d.E {
			pieces = append(pieces, g)
		}
	}
	// remove earlier pieces of the same writer from the model and rebuild them
	var keep []*dom
	for _, x := range m.doms {
		if x.wid != w.id {
			keep = append(keep, x)
		}
	}
	var want []byte
	for _, s := range d.samples {
		want = append(want, s.val[:]...)
	}
	var have []byte
	pos := d.S
	for _, p := range pieces {
		if p.S != pos {
			return kit.Fail("commit-range-not-tiled", "stored pieces %s do not tile the committed range [%d,%d)", show(pieces), d.S, d.E)
		}
		pos = p.E
		have = append(have, p.data...)
	}
	if pos != d.E || string(have) != string(want) {
		return kit.Fail("commit-content-mismatch", "stored pieces %s (%d bytes) do not match the committed range [%d,%d) with %d bytes", show(pieces), len(have), d.S, d.E, len(want))
	}
	off := 0
	for i, p := range pieces {
		n := len(p.data) / 8
		nd := &dom{S: p.S, E: p.E, samples: append([]sample(nil), d.samples[off:off+n]...), owner: -1, wid: w.id}
		if i == len(pieces)-1 {
			nd.owner = w.id
		}
		off += n
		keep = append(keep, nd)
	}
	m.doms = keep
	m.sortDoms()
	return nil
}

// ------------------------------------------------------------------ executor

type env struct {
	ctx context.Context
	fs  xfs.FS
	db  *domain.DB
	ws  map[int]*domain.Writer
}

func (e *env) open(fileSize int) error {
	cfg := domain.Config{FS: e.fs}
	if fileSize > 0 {
		cfg.FileSize = telem.Size(fileSize)
	}
	db, err := domain.Open(cfg)
	e.db = db
	return err
}

// observe enumerates the stored domains and reads each one completely.
func (e *env) observe() ([]span, error) {
	it := e.db.OpenIterator(domain.IterRange(telem.TimeRangeMax))
	defer it.Close()
	var out []span
	var prevEnd telem.TimeStamp
	first := true
	for ok := it.SeekFirst(e.ctx); ok; ok = it.Next() {
		tr := it.TimeRange()
		if tr.End < tr.Start {
			return nil, kit.Fail("inverted-range", "stored domain %v has end before start", tr)
		}
		if !first && tr.Start < prevEnd {
			return nil, kit.Fail("overlapping-domains", "stored domain [%d,%d) starts before the previous domain ends at %d", int64(tr.Start), int64(tr.End), int64(prevEnd))
		}
		first, prevEnd = false, tr.End
		r, err := it.OpenReader(e.ctx)
		if err != nil {
			return nil, kit.Fail("reader-error", "OpenReader on [%d,%d): %v", int64(tr.Start), int64(tr.End), err)
		}
		buf := make([]byte, r.Size())
		n, rerr := r.ReadAt(buf, 0)
		_ = r.Close()
		if int64(n) != int64(r.Size()) {
			return nil, kit.Fail("domain-outside-file", "domain [%d,%d) claims %d bytes but only %d are readable from its file (%v)", int64(tr.Start), int64(tr.End), r.Size(), n, rerr)
		}
		if int64(it.Size()) != int64(r.Size()) {
			return nil, kit.Fail("size-mismatch", "iterator size %d != reader size %d", it.Size(), r.Size())
		}
		out = append(out, span{int64(tr.Start), int64(tr.End), buf})
	}
	return out, nil
}

func sameSpans(a, b []span) bool {
	if len(a) != len(b) {
		return false
	}
	for i := range a {
		if a[i].S != b[i].S || a[i].E != b[i].E || string(a[i].data) != string(b[i].data) {
			return false
		}
	}
	return true
}

func show(s []span) string {
	out := ""
	for _, x := range s {
		out += fmt.Sprintf("[%d,%d):%dB ", x.S, x.E, len(x.data))
	}
	return out
}

func execute(sc Script, rep *kit.Report) (err error) {
	ffs := newFaultFS(xfs.NewMem())
	e := &env{ctx: context.Background(), fs: ffs, ws: map[int]*domain.Writer{}}
	if oerr := e.open(sc.FileSize); oerr != nil {
		return kit.Fail("open", "domain.Open: %v", oerr)
	}
	defer func() {
		for _, w := range e.ws {
			_ = w.Close()
		}
		if e.db != nil {
			_ = e.db.Close()
		}
	}()
	m := &model{writers: map[int]*writer{}}
	rejected, acceptedAfterReject := 0, false
	for i, op := range sc.Ops {
		where := fmt.Sprintf("op %d %+v", i, op)
		before := m.spans()
		failed := false
		switch op.Kind {
		case "open":
			cfg := domain.WriterConfig{Start: telem.TimeStamp(op.Start), End: telem.TimeStamp(op.Preset)}
			w, oerr := e.db.OpenWriter(e.ctx, cfg)
			inside := m.covered(op.Start)
			if oerr == nil {
				if inside {
					_ = w.Close()
					return kit.Fail("open-inside-accepted", "%s: OpenWriter with start inside committed data succeeded (model: %s)", where, show(before))
				}
				e.ws[op.W] = w
				m.writers[op.W] = &writer{id: op.W, start: op.Start, preset: op.Preset, nextTS: op.Start}
			} else {
				failed = true
				if inside {
					rejected++
					rep.Class("open-inside-rejected")
					if !errors.Is(oerr, validate.ErrValidation) {
						return kit.Fail("open-inside-wrong-error", "%s: rejected with a non-validation error: %v", where, oerr)
					}
				} else {
					rep.Class("legal-open-rejected")
				}
			}
		case "write":
			w, ok := e.ws[op.W]
			if !ok {
				continue // the writer was never opened (rejected open)
			}
			mw := m.writers[op.W]
			for k := 0; k < op.N; k++ {
				var b [8]byte
				binary.LittleEndian.PutUint64(b[:], uint64(op.W)<<32|uint64(len(mw.written)))
				if _, werr := w.Write(b[:]); werr != nil {
					rep.Discard("write-error")
					return nil
				}
				mw.written = append(mw.written, sample{ts: mw.nextTS, val: b})
				mw.nextTS++
			}
		case "commit":
			w, ok := e.ws[op.W]
			if !ok {
				continue
			}
			mw := m.writers[op.W]
			mustFail, why, s, en := commitVerdict(m, mw, op.End)
			cerr := w.Commit(e.ctx, telem.TimeStamp(op.End))
			// After a file rollover the engine's writer sits in a fresh, empty domain, and a
			// commit without new data is a no-op that returns nil whatever its end is. The
			// model does not track rollover, so with a small file size a successful commit
			// that had nothing new to commit and changed nothing is accepted as that no-op.
			if cerr == nil && sc.FileSize > 0 && mw.committed && mw.nCommit == len(mw.written) {
				if got, oerr := e.observe(); oerr == nil && sameSpans(normalise(got), before) {
					rep.Class("commit-noop-after-rollover")
					continue
				}
			}
			if cerr == nil {
				if mustFail {
					return kit.Fail("conflicting-commit-accepted:"+why, "%s: commit that %s succeeded; model %s", where, why, show(before))
				}
				if len(mw.written) > 0 {
					if en <= s {
						return kit.Fail("empty-range-commit-accepted", "%s: commit with end <= start succeeded", where)
					}
					applyCommitModel(m, mw, op.End, true)
					// A file rollover splits the writer's range into adjacent stored domains.
					// Where the engine splits is its own business (the property only asks for
					// ordered, non-overlapping ranges), but later deletes act on the stored
					// domains, so the model adopts the engine's split points after checking that
					// the pieces tile the committed range and carry exactly the written bytes.
					if sc.FileSize > 0 {
						if verr := adoptSplits(e, m, mw); verr != nil {
							return kit.Fail(verr.(*kit.Violation).Sig, "%s: %s", where, verr.(*kit.Violation).Msg)
						}
					}
					if acceptedAfterReject = acceptedAfterReject || rejected > 0; acceptedAfterReject {
						rep.Class("accepted-after-rejection")
					}
					for _, d := range m.doms {
						if d.owner != op.W && (d.S == en || d.E == s) {
							rep.Class("adjacent-commit")
						}
					}
				}
			} else {
				failed = true
				if mustFail {
					rejected++
					rep.Class("conflict-rejected:" + why)
					if !errors.Is(cerr, validate.ErrValidation) && !(mw.preset != 0 && op.End > mw.preset) {
						return kit.Fail("conflict-wrong-error:"+why, "%s: rejected with a non-validation error: %v", where, cerr)
					}
				} else if en <= s {
					rep.Class("zero-length-commit-rejected")
				} else if mw.preset != 0 && op.End > mw.preset {
					rep.Class("beyond-preset-rejected")
				} else {
					rep.Class("legal-commit-rejected")
					rep.Add("legal-commit-rejected:"+cerr.Error()[:min(60, len(cerr.Error()))], 1)
				}
			}
		case "failwrite":
			w, ok := e.ws[op.W]
			if !ok {
				continue
			}
			var b [8]byte
			binary.LittleEndian.PutUint64(b[:], 0xdeadbeefdeadbeef)
			ffs.armed.Store(int64(op.K))
			_, werr := w.Write(b[:])
			stillArmed := ffs.armed.Swap(0) != 0
			switch {
			case stillArmed:
				rep.Class("short-write-not-reached") // the write did not go to a data file
			case werr == nil:
				return kit.Fail("short-write-swallowed", "%s: the file system stored %d of 8 bytes and reported an error, Writer.Write returned nil", where, op.K)
			default:
				rep.Class("short-write")
			}
			_ = w.Close()
			delete(e.ws, op.W)
			if d := m.own(op.W); d != nil {
				d.owner = -1
			}
			delete(m.writers, op.W)
		case "close":
			w, ok := e.ws[op.W]
			if !ok {
				continue
			}
			if cerr := w.Close(); cerr != nil {
				return kit.Fail("close-error", "%s: %v", where, cerr)
			}
			delete(e.ws, op.W)
			if d := m.own(op.W); d != nil {
				d.owner = -1
			}
			delete(m.writers, op.W)
		case "delete":
			if len(e.ws) > 0 {
				continue
			}
			// The harness-assigned sample timestamps must lie inside their domain for the
			// offset resolvers to describe a consistent channel (a commit may legally claim
			// a range shorter than the samples the harness stamped).
			consistent := true
			for _, d := range m.doms {
				for _, sm := range d.samples {
					if sm.ts < d.S || sm.ts >= d.E {
						consistent = false
					}
				}
			}
			if !consistent {
				rep.Class("delete-skipped-inconsistent-timestamps")
				continue
			}
			resolver := func(end bool) domain.OffsetResolver {
				return func(_ context.Context, domainStart telem.TimeStamp, ts telem.TimeStamp) (telem.Size, telem.TimeStamp, error) {
					for _, d := range m.doms {
						if d.S == int64(domainStart) {
							n := 0
							for _, s := range d.samples {
								if s.ts < int64(ts) {
									n++
								}
							}
							return telem.Size(8 * n), ts, nil
						}
					}
					return 0, ts, fmt.Errorf("resolver: unknown domain start %d", int64(domainStart))
				}
			}
			derr := e.db.Delete(e.ctx, telem.TimeRange{Start: telem.TimeStamp(op.A), End: telem.TimeStamp(op.B)}, resolver(false), resolver(true))
			if derr != nil {
				failed = true
				rep.Class("delete-error")
			} else if m.applyDelete(op.A, op.B) {
				rep.Class("delete-removed-data")
				for _, d := range before {
					if op.A > d.S && op.B < d.E {
						rep.Class("delete-splits-domain")
					}
				}
			}
		case "reopen":
			if len(e.ws) > 0 {
				continue
			}
			if cerr := e.db.Close(); cerr != nil {
				return kit.Fail("db-close", "%s: %v", where, cerr)
			}
			if oerr := e.open(sc.FileSize); oerr != nil {
				return kit.Fail("reopen", "%s: domain.Open on existing data: %v", where, oerr)
			}
			rep.Class("reopen")
		}
		got, oerr := e.observe()
		if oerr != nil {
			v := oerr.(*kit.Violation)
			return kit.Fail(v.Sig, "%s: %s", where, v.Msg)
		}
		want := m.spans()
		if failed {
			want = before
		}
		if !sameSpans(normalise(got), want) {
			sig := "content-mismatch"
			if failed {
				sig = "failed-op-changed-data"
			}
			return kit.Fail(sig+":"+op.Kind, "%s: stored domains %s, model expects %s", where, show(normalise(got)), show(want))
		}
	}
	if len(m.doms) >= 3 && rep.Has("accepted-after-rejection") {
		rep.Nontrivial()
	}
	return nil
}

func TestC03(t *testing.T) {
	r := &kit.Runner[Script]{Name: "TestC03", Exec: execute}
	r.Run(t, genScript)
}

// TestC03Intervals checks the anchored half-open interval algebra on valid ranges.
func TestC03Intervals(t *testing.T) {
	type Case struct{ AS, AE, BS, BE, T int64 }
	r := &kit.Runner[Case]{Name: "TestC03Intervals", Exec: func(c Case, rep *kit.Report) error {
		a := telem.TimeRange{Start: telem.TimeStamp(c.AS), End: telem.TimeStamp(c.AE)}
		b := telem.TimeRange{Start: telem.TimeStamp(c.BS), End: telem.TimeStamp(c.BE)}
		want := c.AS < c.BE && c.BS < c.AE
		if got := a.OverlapsWith(b); got != want {
			return kit.Fail("overlaps-with", "%v.OverlapsWith(%v)=%v, half-open algebra says %v", a, b, got, want)
		}
		if got := b.OverlapsWith(a); got != want {
			return kit.Fail("overlaps-with-asymmetric", "%v.OverlapsWith(%v)=%v, half-open algebra says %v", b, a, got, want)
		}
		if got := a.ContainsStamp(telem.TimeStamp(c.T)); got != (c.T >= c.AS && c.T < c.AE) {
			return kit.Fail("contains-stamp", "%v.ContainsStamp(%d)=%v", a, c.T, got)
		}
		if want && (c.AS == c.BE-1 || c.BS == c.AE-1 || c.AS == c.BS) {
			rep.Nontrivial()
		}
		return nil
	}}
	r.Run(t, func(t *rapid.T) Case {
		as := int64(rapid.IntRange(0, 30).Draw(t, "as"))
		bs := int64(rapid.IntRange(0, 30).Draw(t, "bs"))
		return Case{AS: as, AE: as + int64(rapid.IntRange(1, 10).Draw(t, "al")), BS: bs, BE: bs + int64(rapid.IntRange(1, 10).Draw(t, "bl")), T: int64(rapid.IntRange(0, 45).Draw(t, "t"))}
	})
}
