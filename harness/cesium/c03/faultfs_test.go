package verif_c03_test

import (
	"errors"
	"strings"
	"sync/atomic"

	xfs "github.com/synnaxlabs/x/io/fs"
)

// faultFS lets one Write to a data file store only its first bytes and report an error (a
// full disk, an interrupted call): armed holds the number of bytes the next data-file write
// may store, 0 = not armed.
type faultFS struct {
	xfs.FS
	armed *atomic.Int64
}

var errShortWrite = errors.New("verif: short write (injected)")

func newFaultFS(inner xfs.FS) *faultFS { return &faultFS{FS: inner, armed: &atomic.Int64{}} }

func (f *faultFS) Sub(name string) (xfs.FS, error) {
	s, err := f.FS.Sub(name)
	if err != nil {
		return nil, err
	}
	return &faultFS{FS: s, armed: f.armed}, nil
}

func (f *faultFS) Open(name string, flag int) (xfs.File, error) {
	file, err := f.FS.Open(name, flag)
	if err != nil {
		return nil, err
	}
	if !strings.HasSuffix(name, ".domain") || strings.HasSuffix(name, "index.domain") || strings.HasSuffix(name, "counter.domain") {
		return file, nil
	}
	return &faultFile{File: file, armed: f.armed}, nil
}

type faultFile struct {
	xfs.File
	armed *atomic.Int64
}

func (f *faultFile) Write(p []byte) (int, error) {
	if k := f.armed.Load(); k > 0 && int(k) < len(p) && f.armed.CompareAndSwap(k, 0) {
		n, err := f.File.Write(p[:k])
		if err != nil {
			return n, err
		}
		return n, errShortWrite
	}
	return f.File.Write(p)
}
