// C10 — iterator steps return exactly the samples inside the reported view.
package verif_c10_test

import (
	"strings"
	"os"
	"context"
	"fmt"
	"runtime/debug"
	"testing"
	"time"

	"github.com/synnaxlabs/cesium"
	"github.com/synnaxlabs/cesium/internal/unary"
	"github.com/synnaxlabs/cesium/internal/verif/cx"
	"github.com/synnaxlabs/cesium/internal/verif/tsm"
	kit "github.com/synnaxlabs/cesium/internal/verifkit"
	xjson "github.com/synnaxlabs/x/encoding/json"
	xfs "github.com/synnaxlabs/x/io/fs"
	"github.com/synnaxlabs/x/telem"
	"pgregory.net/rapid"
)

type Cmd struct {
	Kind string `json:"kind"` // first last le ge next prev anext aprev bounds
	TS   int64  `json:"ts,omitempty"`
	Span int64  `json:"span,omitempty"`
	A    int64  `json:"a,omitempty"`
	B    int64  `json:"b,omitempty"`
}

type Script struct {
	Layout  cx.Script `json:"layout"`
	Channel uint32    `json:"channel"`
	A       int64     `json:"a"`
	B       int64     `json:"b"`
	Chunk   int64     `json:"chunk"`
	// Auto: the script uses auto-span steps. Both auto-span paths have listed known
	// findings that end a case at the first mismatch, so only a third of the scripts use
	// them; the rest exercise fixed-span stepping undisturbed.
	Auto bool  `json:"auto"`
	Cmds []Cmd `json:"cmds"`
}

const inf = int64(1) << 62

func genScript(t *rapid.T) Script {
	sc := Script{}
	sc.Layout = cx.Gen(t, cx.GenOpts{MaxChans: 2, Groups: 1, MinOps: 4, MaxOps: 22, Deletes: true, NoReads: true, NoReopen: true})
	// replay the layout on the model to learn where the data is
	st := cx.NewState(sc.Layout.Channels)
	for _, op := range sc.Layout.Ops {
		switch op.Kind {
		case "open":
			st.ApplyOpen(op)
		case "write":
			st.ApplyWrite(op)
		case "commit":
			st.ApplyCommit(op.W)
		case "close":
			st.ApplyClose(op.W)
		}
	}
	keys := make([]uint32, 0)
	for _, c := range sc.Layout.Channels {
		keys = append(keys, c.Key)
	}
	sc.Channel = rapid.SampledFrom(keys).Draw(t, "channel")
	var pts []int64
	idx := st.M.Chans[sc.Layout.Channels[0].Key]
	for _, k := range idx.Keys() {
		pts = append(pts, k)
	}
	for _, iv := range idx.Cover {
		pts = append(pts, iv.S, iv.E)
	}
	pt := func(label string) int64 {
		if len(pts) == 0 || rapid.IntRange(0, 7).Draw(t, label+"-free") == 0 {
			return int64(rapid.IntRange(0, 700).Draw(t, label))
		}
		return rapid.SampledFrom(pts).Draw(t, label+"-pt") + int64(rapid.SampledFrom([]int{0, 0, 1, -1, 2, -2, 5}).Draw(t, label+"-off"))
	}
	switch rapid.IntRange(0, 4).Draw(t, "bounds") {
	case 0, 1:
		sc.A, sc.B = 0, inf
	default:
		sc.A, sc.B = pt("ba"), pt("bb")
		if sc.B < sc.A {
			sc.A, sc.B = sc.B, sc.A
		}
		if sc.A < 0 {
			sc.A = 0
		}
		if sc.B <= sc.A {
			sc.B = sc.A + 1
		}
	}
	sc.Chunk = int64(rapid.SampledFrom([]int{1, 1, 2, 3, 5, 8, 50}).Draw(t, "chunk"))
	span := func() int64 {
		switch rapid.IntRange(0, 4).Draw(t, "spank") {
		case 0:
			return 1
		case 1:
			return int64(rapid.IntRange(2, 12).Draw(t, "span"))
		case 2:
			return int64(rapid.IntRange(13, 400).Draw(t, "span"))
		case 3:
			return inf
		default:
			return int64(rapid.IntRange(1, 40).Draw(t, "span"))
		}
	}
	sc.Auto = rapid.IntRange(0, 2).Draw(t, "auto") == 0
	kinds := []string{"next", "next", "next", "prev", "prev", "next", "prev", "first", "last", "le", "ge", "bounds"}
	if sc.Auto {
		kinds = []string{"next", "next", "next", "prev", "prev", "anext", "anext", "aprev", "first", "last", "le", "ge", "bounds"}
	}
	n := rapid.IntRange(2, 14).Draw(t, "ncmds")
	// Always begin with a seek: an unseeked iterator is documented as invalid.
	sc.Cmds = append(sc.Cmds, Cmd{Kind: rapid.SampledFrom([]string{"first", "first", "last", "le", "ge"}).Draw(t, "seek0"), TS: pt("seek0-ts")})
	for len(sc.Cmds) < n {
		k := rapid.SampledFrom(kinds).Draw(t, "cmd")
		c := Cmd{Kind: k}
		switch k {
		case "next", "prev":
			c.Span = span()
		case "le", "ge":
			c.TS = pt("seek-ts")
		case "bounds":
			c.A, c.B = pt("nba"), pt("nbb")
			if c.B < c.A {
				c.A, c.B = c.B, c.A
			}
			if c.A < 0 {
				c.A = 0
			}
			if c.B <= c.A {
				c.B = c.A + 1
			}
			sc.Cmds = append(sc.Cmds, c)
			// SetBounds invalidates the iterator until the next seek
			c = Cmd{Kind: rapid.SampledFrom([]string{"first", "last", "le", "ge"}).Draw(t, "reseek"), TS: pt("reseek-ts")}
		}
		sc.Cmds = append(sc.Cmds, c)
	}
	return sc
}

func tr(a, b int64) telem.TimeRange {
	e := telem.TimeStamp(b)
	if b >= inf {
		e = telem.TimeStampMax
	}
	return telem.TimeRange{Start: telem.TimeStamp(a), End: e}
}

func openUnary(ctx context.Context, fs xfs.FS, key uint32, cap int) (*unary.DB, error) {
	sub, err := fs.Sub(fmt.Sprint(key))
	if err != nil {
		return nil, err
	}
	cfg := unary.Config{FS: sub, MetaCodec: xjson.Codec}
	if cap > 0 {
		cfg.FileSize = telem.Size(cap)
	}
	return unary.Open(ctx, cfg)
}

func frameSamples(dt string, fr interface {
	Series() func(func(telem.Series) bool)
}) {
}

func samplesOf(dt string, series []telem.Series) ([][]byte, bool) {
	var out [][]byte
	for _, s := range series {
		smp, ok := tsm.Decode(dt, s.Data)
		if !ok {
			return nil, false
		}
		out = append(out, smp...)
	}
	return out, true
}

func eq(a, b [][]byte) bool {
	if len(a) != len(b) {
		return false
	}
	for i := range a {
		if string(a[i]) != string(b[i]) {
			return false
		}
	}
	return true
}

func execute(sc Script, rep *kit.Report) error {
	ctx := context.Background()
	lrep := &kit.Report{}
	st, env, err := cx.Run(sc.Layout, lrep, cx.RunConfig{KeepOpen: true})
	if err != nil {
		// the layout itself violated a read property: that is C01/C04 territory, but it
		// is still a real failure of the system; report it under its own signature.
		if env != nil && env.DB != nil {
			_ = env.DB.Close()
		}
		return err
	}
	if lrep.Has("__discarded") {
		if env.DB != nil {
			_ = env.DB.Close()
		}
		rep.Discard("layout-discarded")
		return nil
	}
	model := st.M.Chans[sc.Channel]
	spec := model.Spec
	// ---- pass 1: cesium-level iterator (no View available): record values per command
	type obs struct {
		ok   bool
		vals [][]byte
	}
	var top []obs
	{
		it, oerr := env.DB.OpenIterator(cesium.IteratorConfig{Channels: []cesium.ChannelKey{sc.Channel}, Bounds: tr(sc.A, sc.B), AutoChunkSize: sc.Chunk})
		if oerr != nil {
			_ = env.DB.Close()
			return kit.Fail("open-iterator", "cesium OpenIterator: %v", oerr)
		}
		hung := false
		for i, c := range sc.Cmds {
			var ok bool
			// The cesium iterator talks to a goroutine; if that goroutine dies (a panic in
			// the unary iterator is recovered there) the caller would wait forever. Each
			// command therefore runs under a watchdog: a stall is reported, naming the
			// command, and the iterator is abandoned.
			done := make(chan struct{})
			go func() {
				defer close(done)
				switch c.Kind {
				case "first":
					ok = it.SeekFirst()
				case "last":
					ok = it.SeekLast()
				case "le":
					ok = it.SeekLE(telem.TimeStamp(c.TS))
				case "ge":
					ok = it.SeekGE(telem.TimeStamp(c.TS))
				case "next":
					ok = it.Next(spanOf(c.Span))
				case "prev":
					ok = it.Prev(spanOf(c.Span))
				case "anext":
					ok = it.Next(cesium.AutoSpan)
				case "aprev":
					ok = it.Prev(cesium.AutoSpan)
				case "bounds":
					it.SetBounds(tr(c.A, c.B))
				}
			}()
			select {
			case <-done:
			case <-time.After(5 * time.Second):
				hung = true
			}
			if hung {
				// leave the DB open: closing it would wait for the dead iterator
				return kit.Fail(c.Kind+":cesium-iterator-stalled", "cmd %d %+v on cesium.Iterator (bounds [%d,%d) chunk %d ch%d) did not return within 5 s (expected: microseconds); the iterator's goroutine is gone", i, c, sc.A, sc.B, sc.Chunk, sc.Channel)
			}
			vals, _ := samplesOf(spec.DataType, it.Value().SeriesSlice())
			top = append(top, obs{ok, vals})
		}
		_ = it.Close()
	}
	if cerr := env.DB.Close(); cerr != nil {
		rep.Class("db-close-error")
	}
	// ---- pass 2: unary iterator, which reports View()
	idxKey := spec.Index
	if spec.IsIndex {
		idxKey = spec.Key
	}
	idxDB, oerr := openUnary(ctx, env.FS, idxKey, sc.Layout.FileCap)
	if oerr != nil {
		return kit.Fail("unary-open", "unary.Open(index %d): %v", idxKey, oerr)
	}
	defer idxDB.Close()
	db := idxDB
	if !spec.IsIndex {
		db, oerr = openUnary(ctx, env.FS, spec.Key, sc.Layout.FileCap)
		if oerr != nil {
			return kit.Fail("unary-open", "unary.Open(%d): %v", spec.Key, oerr)
		}
		defer db.Close()
		db.SetIndex(idxDB.Index())
	}
	engineCover, engineCoverOK := storedDomains(ctx, db)
	// the layout of the listed index-delete finding (a data domain that reaches past the end
	// of the index domain chain it starts in), decided from the engine's own domain ranges
	lostCoverage = false
	if !spec.IsIndex && engineCoverOK {
		if idxCover, iok := storedDomains(ctx, idxDB); iok {
			var chain [][2]int64
			for _, iv := range idxCover {
				if n := len(chain); n > 0 && iv[0] <= chain[n-1][1] {
					if iv[1] > chain[n-1][1] {
						chain[n-1][1] = iv[1]
					}
					continue
				}
				chain = append(chain, iv)
			}
			for _, d := range engineCover {
				for _, c := range chain {
					if d[0] >= c[0] && d[0] < c[1] && d[1] > c[1] {
						lostCoverage = true
					}
				}
			}
		}
	}
	it, oerr := db.OpenIterator(unary.IteratorConfig{Bounds: tr(sc.A, sc.B), AutoChunkSize: sc.Chunk})
	if oerr != nil {
		return kit.Fail("open-iterator", "unary OpenIterator: %v", oerr)
	}
	defer it.Close()
	bA, bB := sc.A, sc.B
	var prevView telem.TimeRange
	prevKind := ""
	errored := false
	inView := func(v telem.TimeRange) ([]int64, [][]byte) {
		s, e := int64(v.Start), int64(v.End)
		if s < bA {
			s = bA
		}
		eb := bB
		if bB >= inf {
			eb = int64(telem.TimeStampMax)
		}
		if e > eb {
			e = eb
		}
		if v.End == telem.TimeStampMax && bB >= inf {
			e = inf
		}
		return model.Read(s, e)
	}
	visitedFwd := map[int64]int{}
	traversal := "" // "fwd" while a pure SeekFirst+Next* run is in progress
	for i, c := range sc.Cmds {
		where := fmt.Sprintf("cmd %d %+v (bounds [%d,%d) chunk %d ch%d %s)", i, c, bA, bB, sc.Chunk, spec.Key, spec.DataType)
		K := c.Kind + ":" // signatures name the failing command so known findings stay specific
		var ok bool
		if p := catch(func() {
			switch c.Kind {
			case "next":
				ok = it.Next(ctx, spanOf(c.Span))
			case "prev":
				ok = it.Prev(ctx, spanOf(c.Span))
			case "anext":
				ok = it.Next(ctx, unary.AutoSpan)
			case "aprev":
				ok = it.Prev(ctx, unary.AutoSpan)
			}
		}); p != "" {
			return kit.Fail(K+"panic", "%s: %s", where, p)
		}
		switch c.Kind {
		case "first":
			ok = it.SeekFirst(ctx)
			errored = false
		case "last":
			ok = it.SeekLast(ctx)
			errored = false
		case "le":
			ok = it.SeekLE(ctx, telem.TimeStamp(c.TS))
			errored = false
		case "ge":
			ok = it.SeekGE(ctx, telem.TimeStamp(c.TS))
			errored = false
		case "bounds":
			it.SetBounds(tr(c.A, c.B))
			bA, bB = c.A, c.B
			prevKind = "bounds"
			errored = false
			continue
		}
		view := it.View()
		got, wellFormed := samplesOf(spec.DataType, it.Value().SeriesSlice())
		if os.Getenv("C10_DEBUG") != "" {
			fmt.Printf("C10DEBUG %s ok=%v view=[%d,%d) got=%d err=%v errored=%v\n", where, ok, int64(view.Start), int64(view.End), len(got), it.Error(), errored)
		}
		if !wellFormed {
			return kit.Fail(K+"malformed-series", "%s: returned series with malformed layout", where)
		}
		isStep := c.Kind == "next" || c.Kind == "prev" || c.Kind == "anext" || c.Kind == "aprev"
		// differential: the cesium-level iterator must have returned the same samples
		if !errored && (isStep || ok) && it.Error() == nil && !eq(top[i].vals, got) {
			return kit.Fail(K+"cesium-vs-unary-iterator", "%s: cesium.Iterator returned %d samples, unary.Iterator %d", where, len(top[i].vals), len(got))
		}
		// A successful SeekGE / SeekLE to a timestamp that lies in no stored domain positions
		// the (empty) view at the start / end of the seeked domain or of the bounds, whichever
		// is later / earlier (iterator.go): it never lies outside the bounds. (A target inside
		// a domain becomes the view as it is, also outside the bounds: not asserted.) Whether
		// the target lies in a stored domain is taken from the engine itself (one full-range
		// pass before the commands: a series per stored domain, with that domain's range).
		if (c.Kind == "ge" || c.Kind == "le") && ok && it.Error() == nil && engineCoverOK && !coveredBy(engineCover, c.TS) {
			if c.Kind == "ge" && int64(view.Start) < bA {
				return kit.Fail(K+"seek-view-before-bounds", "%s: SeekGE(%d) to a timestamp in no stored domain left the view at [%d,%d), before the bounds start %d", where, c.TS, int64(view.Start), int64(view.End), bA)
			}
			if c.Kind == "le" && bB < inf && int64(view.End) > bB {
				return kit.Fail(K+"seek-view-after-bounds", "%s: SeekLE(%d) to a timestamp in no stored domain left the view at [%d,%d), after the bounds end %d", where, c.TS, int64(view.Start), int64(view.End), bB)
			}
			rep.Class("seek-to-uncovered-timestamp")
		}
		if !isStep && !ok {
			// a seek that reports false leaves the iterator invalid until the next seek
			errored = true
			rep.Class("seek-false")
			prevKind = "invalid"
			continue
		}
		if errored {
			// after an error / failed seek the iterator needs a seek; nothing to assert
			continue
		}
		if ierr := it.Error(); ierr != nil {
			// An error ends the iteration. Tolerated only when nothing remains to be visited
			// in the direction of travel (e.g. auto-span stepping past the last domain with
			// open bounds leaves a "discontinuous" error behind); otherwise a violation.
			errored = true
			rep.Class("iterator-error-at-exhaustion")
			var rest []int64
			if c.Kind == "next" || c.Kind == "anext" {
				rest, _ = model.Read(max(int64(prevView.End), bA), bB)
			} else if c.Kind == "prev" || c.Kind == "aprev" {
				rest, _ = model.Read(bA, min(int64(prevView.Start), bB))
			} else {
				return kit.Fail(K+"seek-error", "%s: seek left error %v", where, ierr)
			}
			if len(rest) > 0 {
				return kit.Fail(discontinuity(ierr, K+"step-error-with-data-remaining"), "%s: step failed with %v although %d stored samples remain in the direction of travel (first %d); previous view %v", where, ierr, len(rest), rest[0], prevView)
			}
			prevKind = "error"
			continue
		}
		// views stay inside bounds
		if isStep && (int64(view.Start) < bA || (bB < inf && int64(view.End) > bB) || view.End < view.Start) {
			return kit.Fail(K+"view-outside-bounds", "%s: view %v (%d,%d) outside bounds [%d,%d)", where, view, int64(view.Start), int64(view.End), bA, bB)
		}
		wantTS, want := inView(view)
		if !eq(got, want) {
			return kit.Fail(K+"value-not-view", "%s: view [%d,%d) holds model samples at %v but the step returned %d samples %s (want %d); previous view [%d,%d) after %q",
				where, int64(view.Start), int64(view.End), wantTS, len(got), hexs(got), len(want), int64(prevView.Start), int64(prevView.End), prevKind)
		}
		// series metadata (observed next to the samples): every returned series carries a time
		// range inside the view, series are ordered and do not overlap in time, every sample
		// lies inside the time range of the series that carries it (alignments are not asserted:
		// the statement does not speak about them)
		{
			k := 0
			var prevTR telem.TimeRange
			for si, sr := range it.Value().SeriesSlice() {
				n := int(sr.Len())
				if sr.TimeRange.End < sr.TimeRange.Start || sr.TimeRange.Start < view.Start || sr.TimeRange.End > view.End {
					return kit.Fail(K+"series-time-range-outside-view", "%s: series %d has time range [%d,%d), view is [%d,%d)", where, si, int64(sr.TimeRange.Start), int64(sr.TimeRange.End), int64(view.Start), int64(view.End))
				}
				if si > 0 && sr.TimeRange.Start < prevTR.End {
					return kit.Fail(K+"series-time-ranges-overlap", "%s: series %d [%d,%d) starts before the end of series %d [%d,%d)", where, si, int64(sr.TimeRange.Start), int64(sr.TimeRange.End), si-1, int64(prevTR.Start), int64(prevTR.End))
				}
				for j := 0; j < n && k+j < len(wantTS); j++ {
					if ts := telem.TimeStamp(wantTS[k+j]); ts < sr.TimeRange.Start || ts >= sr.TimeRange.End {
						return kit.Fail(K+"sample-outside-series-time-range", "%s: series %d [%d,%d) carries the sample stamped %d", where, si, int64(sr.TimeRange.Start), int64(sr.TimeRange.End), wantTS[k+j])
					}
				}
				k += n
				prevTR = sr.TimeRange
			}
			if k == len(wantTS) && k > 0 {
				rep.Class("series-metadata-checked")
			}
		}
		if isStep {
			if ok != (len(want) > 0) {
				return kit.Fail(K+"valid-mismatch", "%s: step returned %v but view [%d,%d) holds %d samples", where, ok, int64(view.Start), int64(view.End), len(want))
			}
			if it.Valid() != (len(want) > 0) {
				return kit.Fail(K+"valid-mismatch", "%s: Valid()=%v but view holds %d samples", where, it.Valid(), len(want))
			}
		}
		// adjacency of consecutive steps in one direction
		fwd := c.Kind == "next" || c.Kind == "anext"
		bwd := c.Kind == "prev" || c.Kind == "aprev"
		pf := prevKind == "next" || prevKind == "anext"
		pb := prevKind == "prev" || prevKind == "aprev"
		if fwd && pf && view.Start != prevView.End {
			return kit.Fail(K+"views-not-adjacent", "%s: forward step view [%d,%d) does not start at previous view end %d", where, int64(view.Start), int64(view.End), int64(prevView.End))
		}
		if bwd && pb && view.End != prevView.Start {
			return kit.Fail(K+"views-not-adjacent", "%s: backward step view [%d,%d) does not end at previous view start %d", where, int64(view.Start), int64(view.End), int64(prevView.Start))
		}
		if (fwd && pb) || (bwd && pf) {
			rep.Class("direction-change")
		}
		// span laws
		if c.Kind == "next" && isSeekOrFwd(prevKind) {
			wantEnd := int64(prevView.End) + c.Span
			if c.Span >= inf || wantEnd > boundEnd(bB) || wantEnd < int64(prevView.End) {
				wantEnd = boundEnd(bB)
			}
			if int64(prevView.End) <= boundEnd(bB) && int64(view.End) != wantEnd && int64(prevView.End) >= bA {
				return kit.Fail(K+"span-law", "%s: Next(%d) from view end %d gave view [%d,%d), want end %d", where, c.Span, int64(prevView.End), int64(view.Start), int64(view.End), wantEnd)
			}
		}
		if c.Kind == "anext" || c.Kind == "aprev" {
			if int64(len(got)) > sc.Chunk {
				return kit.Fail(K+"auto-chunk-exceeded", "%s: auto step returned %d samples > chunk %d", where, len(got), sc.Chunk)
			}
			if int64(len(got)) < sc.Chunk {
				// fewer than a chunk only when the bounds/data end in the direction of travel
				var rest []int64
				if c.Kind == "anext" {
					rest, _ = model.Read(int64(view.End), bB)
				} else {
					rest, _ = model.Read(bA, int64(view.Start))
				}
				if len(rest) > 0 && len(got) > 0 {
					rep.Class("auto-short-chunk-with-data-remaining")
				}
			}
			rep.Class("auto-step")
		}
		if len(want) > 0 {
			// straddling a gap: samples of the view come from >1 coverage interval
			ivs := 0
			for _, iv := range model.Cover {
				if iv.S < int64(view.End) && int64(view.Start) < iv.E {
					ivs++
				}
			}
			if ivs >= 2 {
				rep.Class("view-straddles-gap")
			}
			if _, on := model.Samples[int64(view.End)]; !on {
				rep.Class("view-ends-between-samples")
			}
		}
		// full forward traversal bookkeeping
		if c.Kind == "first" {
			traversal = "fwd"
			visitedFwd = map[int64]int{}
		} else if fwd && traversal == "fwd" {
			for _, t := range wantTS {
				visitedFwd[t]++
			}
		} else {
			traversal = ""
		}
		prevView, prevKind = view, c.Kind
	}
	// traversal law: SeekFirst, then Next(span) until exhaustion visits every sample in
	// bounds exactly once — run as a separate, complete pass for a script-chosen span.
	if err := traverse(ctx, db, model, spec, sc, rep); err != nil {
		return err
	}
	if rep.Has("direction-change") || rep.Has("view-straddles-gap") || rep.Has("view-ends-between-samples") {
		rep.Nontrivial()
	}
	return nil
}

// catch runs f and returns a description of a panic raised inside it ("" if none).
func catch(f func()) (p string) {
	defer func() {
		if r := recover(); r != nil {
			p = fmt.Sprintf("panic: %v\n%s", r, debug.Stack())
			if len(p) > 3000 {
				p = p[:3000]
			}
		}
	}()
	f()
	return ""
}

func isSeekOrFwd(k string) bool {
	return k == "next" || k == "anext" || k == "first" || k == "ge" || k == "le" || k == "last"
}

func boundEnd(b int64) int64 {
	if b >= inf {
		return int64(telem.TimeStampMax)
	}
	return b
}

func spanOf(s int64) telem.TimeSpan {
	if s >= inf {
		return telem.TimeSpanMax
	}
	return telem.TimeSpan(s)
}

func hexs(v [][]byte) string {
	s := "["
	for i, x := range v {
		if i >= 10 {
			s += " ..."
			break
		}
		s += fmt.Sprintf(" %x", x)
	}
	return s + " ]"
}

// traverse checks the full-traversal law in both directions with the script's first
// fixed span (or 7) and with auto steps.
func traverse(ctx context.Context, db *unary.DB, model *tsm.Chan, spec tsm.ChannelSpec, sc Script, rep *kit.Report) error {
	span := int64(7)
	for _, c := range sc.Cmds {
		if (c.Kind == "next" || c.Kind == "prev") && c.Span < inf {
			span = c.Span
			break
		}
	}
	a, b := sc.A, sc.B
	wantTS, want := model.Read(a, b)
	if len(wantTS) == 0 {
		return nil
	}
	// the number of fixed-span steps is bounded by (last-first)/span
	lo, hi := wantTS[0], wantTS[len(wantTS)-1]
	// "ge-next": the traversal is started by SeekGE(t) with t before the bounds start instead
	// of SeekFirst: the documented seek positions the view at the start of the seeked domain
	// or of the bounds, whichever is later, so the same traversal law applies. (The mirror
	// image with SeekLE is not asserted: a target beyond the bounds end makes SeekLE report
	// false, and a target inside the last domain leaves a zero-width view at the target, so
	// a backward walk legitimately starts below it.)
	modes := []string{"next", "prev", "ge-next"}
	if sc.Auto {
		modes = []string{"next", "prev", "ge-next", "anext", "aprev"}
	}
	for _, mode := range modes {
		it, err := db.OpenIterator(unary.IteratorConfig{Bounds: tr(a, b), AutoChunkSize: sc.Chunk})
		if err != nil {
			return kit.Fail("open-iterator", "unary OpenIterator: %v", err)
		}
		var got [][]byte
		steps := 0
		skipMode := false
		viewErr := ""
		// a traversal starts at the bound / end of the last domain, not at the last sample
		top := b
		if top >= inf {
			top = hi + 1
			for _, iv := range model.Cover {
				if iv.E > top {
					top = iv.E
				}
			}
		}
		if (top-a)/span > 4000 && (mode == "next" || mode == "prev") {
			rep.Class("traversal-skipped-too-many-steps")
			_ = it.Close()
			continue
		}
		maxSteps := int((top-a)/span) + len(wantTS) + 10
		pan := catch(func() {
			switch mode {
			case "next", "anext", "ge-next":
				seeked := false
				if mode == "ge-next" {
					if seeked = it.SeekGE(ctx, telem.TimeStamp(max(0, a-int64(len(wantTS))-2))); !seeked {
						// a target outside the bounds can make the seek report false: the law
						// is stated for a seek that succeeded
						rep.Class("ge-next-seek-false")
						skipMode = true
					}
				} else {
					seeked = it.SeekFirst(ctx)
				}
				if seeked {
					for steps = 0; steps < maxSteps; steps++ {
						sp := spanOf(span)
						if mode == "anext" {
							sp = unary.AutoSpan
						}
						ok := it.Next(ctx, sp)
						if it.Error() != nil {
							break
						}
						v, _ := samplesOf(spec.DataType, it.Value().SeriesSlice())
						got = append(got, v...)
						if vw := it.View(); int64(vw.Start) < a || (b < inf && int64(vw.End) > b) {
							viewErr = fmt.Sprintf("step %d reports view [%d,%d)", steps, int64(vw.Start), int64(vw.End))
						}
						if !ok && len(v) > 0 {
							viewErr = fmt.Sprintf("step %d returned false together with %d samples", steps, len(v))
						}
						if int64(it.View().End) >= boundEnd(b) || int64(it.View().End) > hi {
							break
						}
					}
				}
			default:
				if it.SeekLast(ctx) {
					var chunks [][][]byte
					for steps = 0; steps < maxSteps; steps++ {
						sp := spanOf(span)
						if mode == "aprev" {
							sp = unary.AutoSpan
						}
						it.Prev(ctx, sp)
						if it.Error() != nil {
							break
						}
						v, _ := samplesOf(spec.DataType, it.Value().SeriesSlice())
						chunks = append(chunks, v)
						if int64(it.View().Start) <= a || int64(it.View().Start) <= lo {
							break
						}
					}
					for i := len(chunks) - 1; i >= 0; i-- {
						got = append(got, chunks[i]...)
					}
				}
			}
		})
		if pan != "" {
			_ = it.Close()
			return kit.Fail("traversal-"+mode+"-panic", "full traversal (%s, span %d, chunk %d) of ch%d over [%d,%d): %s", mode, span, sc.Chunk, spec.Key, a, b, pan)
		}
		ierr := it.Error()
		_ = it.Close()
		if skipMode {
			continue
		}
		if viewErr != "" {
			return kit.Fail("traversal-"+mode+"-view", "full traversal (%s, span %d, chunk %d) of ch%d over bounds [%d,%d): %s", mode, span, sc.Chunk, spec.Key, a, b, viewErr)
		}
		if !eq(got, want) {
			return kit.Fail(discontinuity(ierr, "traversal-"+mode), "full traversal (%s, span %d, chunk %d) of ch%d %s over [%d,%d) returned %d samples %s, stored %d at %v (iterator error: %v)",
				mode, span, sc.Chunk, spec.Key, spec.DataType, a, b, len(got), hexs(got), len(want), firstTS(wantTS), ierr)
		}
		rep.Class("traversal-" + mode)
	}
	return nil
}

// lostCoverage is set per case by execute (single goroutine per process).
var lostCoverage bool

// discontinuity maps an iterator error to the signature of the listed index-delete finding
// when the stored layout is the one that finding describes.
func discontinuity(err error, fallback string) string {
	if err != nil && lostCoverage && strings.Contains(err.Error(), "is not continuous in the index") {
		return "read-error:data-domain-end-outside-index-coverage"
	}
	return fallback
}

// storedDomains returns the time ranges of the channel's stored domains as the engine reports
// them: a full-range pass returns one series per stored domain.
func storedDomains(ctx context.Context, db *unary.DB) (out [][2]int64, ok bool) {
	it, err := db.OpenIterator(unary.IteratorConfig{Bounds: telem.TimeRangeMax})
	if err != nil {
		return nil, false
	}
	defer func() { _ = it.Close() }()
	if catch(func() {
		if !it.SeekFirst(ctx) {
			return
		}
		it.Next(ctx, telem.TimeSpanMax)
		for _, sr := range it.Value().SeriesSlice() {
			out = append(out, [2]int64{int64(sr.TimeRange.Start), int64(sr.TimeRange.End)})
		}
	}) != "" || it.Error() != nil {
		return nil, false
	}
	return out, true
}

func coveredBy(cover [][2]int64, t int64) bool {
	for _, iv := range cover {
		if t >= iv[0] && t < iv[1] {
			return true
		}
	}
	return false
}

func firstTS(ts []int64) []int64 {
	if len(ts) > 16 {
		return ts[:16]
	}
	return ts
}

func TestC10(t *testing.T) {
	r := &kit.Runner[Script]{Name: "TestC10", Exec: execute}
	r.Run(t, genScript)
}
