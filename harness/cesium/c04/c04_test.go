// C04 — time-range deletes remove exactly the range; GC is invisible to readers.
package verif_c04_test

import (
	"context"
	"testing"

	"github.com/synnaxlabs/cesium"
	"github.com/synnaxlabs/cesium/internal/verif/cx"
	kit "github.com/synnaxlabs/cesium/internal/verifkit"
	"pgregory.net/rapid"
)

func execute(sc cx.Script, rep *kit.Report) error {
	_, _, err := cx.Run(sc, rep, cx.RunConfig{
		CheckEvery: true,
		Limit:      6,
		GC:         func(ctx context.Context, db *cesium.DB) error { return db.VerifGarbageCollect(ctx) },
	})
	if err != nil {
		return err
	}
	if rep.Has("delete-bound-between-samples") && rep.Has("delete-removes-samples") && rep.Has("gc-rewrote-file") {
		rep.Nontrivial()
	}
	return nil
}

func TestC04(t *testing.T) {
	r := &kit.Runner[cx.Script]{Name: "TestC04", Exec: execute}
	r.Run(t, func(rt *rapid.T) cx.Script {
		return cx.Gen(rt, cx.GenOpts{MaxChans: 2, Groups: 2, MinOps: 12, MaxOps: 45, Deletes: true, GC: true, GCDelete: true, SideChannels: true, PersistIntervals: true})
	})
}
