package verif_c05_test

// L2b: what is relayed to streamers when writers hold different authorities on the
// index and the data channel of one group. Writers are stream-only (the persisted side
// is L2's subject), every write carries unique timestamps, and a marker write on a third
// channel flushes the relay before the received series are compared with the model.

import (
	"context"
	"encoding/binary"
	"fmt"
	"sort"
	"testing"
	"time"

	"github.com/synnaxlabs/cesium"
	kit "github.com/synnaxlabs/cesium/internal/verifkit"
	"github.com/synnaxlabs/x/confluence"
	xcontrol "github.com/synnaxlabs/x/control"
	xfs "github.com/synnaxlabs/x/io/fs"
	"github.com/synnaxlabs/x/signal"
	"github.com/synnaxlabs/x/telem"
	"pgregory.net/rapid"
)

type ROp struct {
	Kind     string `json:"kind"` // open set write close
	W        int    `json:"w"`
	DataOnly bool   `json:"data_only,omitempty"`
	AuthIdx  uint8  `json:"auth_idx,omitempty"`
	AuthData uint8  `json:"auth_data,omitempty"`
	N        int    `json:"n,omitempty"`
	// a second data channel of the same index, carried by writers that are not data-only;
	// Order permutes the three series of such a writer's frame
	AuthData2 uint8 `json:"auth_data2,omitempty"`
	Order     int   `json:"order,omitempty"`
}

type RScript struct {
	Ops []ROp `json:"ops"`
}

func genRScript(t *rapid.T) RScript {
	var sc RScript
	type w struct{ dataOnly bool }
	open := map[int]w{}
	next := 0
	auth := rapid.SampledFrom([]uint8{1, 5, 5, 100, 150, 200})
	n := rapid.IntRange(3, 22).Draw(t, "nops")
	for len(sc.Ops) < n {
		kinds := []string{}
		if len(open) < 4 {
			kinds = append(kinds, "open", "open")
		}
		if len(open) > 0 {
			kinds = append(kinds, "write", "write", "write", "set", "close")
		}
		k := rapid.SampledFrom(kinds).Draw(t, "kind")
		pick := func() int {
			var ids []int
			for id := range open {
				ids = append(ids, id)
			}
			sort.Ints(ids)
			return rapid.SampledFrom(ids).Draw(t, "w")
		}
		switch k {
		case "open":
			op := ROp{Kind: "open", W: next, DataOnly: rapid.IntRange(0, 2).Draw(t, "data_only") == 0, AuthIdx: auth.Draw(t, "ai"), AuthData: auth.Draw(t, "ad"), AuthData2: auth.Draw(t, "ad2")}
			if rapid.Bool().Draw(t, "same") {
				op.AuthData, op.AuthData2 = op.AuthIdx, op.AuthIdx
			}
			sc.Ops = append(sc.Ops, op)
			open[next] = w{op.DataOnly}
			next++
		case "set":
			op := ROp{Kind: "set", W: pick(), AuthIdx: auth.Draw(t, "ai"), AuthData: auth.Draw(t, "ad"), AuthData2: auth.Draw(t, "ad2")}
			sc.Ops = append(sc.Ops, op)
		case "write":
			sc.Ops = append(sc.Ops, ROp{Kind: "write", W: pick(), N: rapid.IntRange(1, 3).Draw(t, "n"), Order: rapid.IntRange(0, 5).Draw(t, "order")})
		case "close":
			id := pick()
			sc.Ops = append(sc.Ops, ROp{Kind: "close", W: id})
			delete(open, id)
		}
	}
	return sc
}

func executeR(sc RScript, rep *kit.Report) error {
	ctx := context.Background()
	db, err := cesium.Open(ctx, "", cesium.WithFS(xfs.NewMem()),
		cesium.WithVerifStreamingConfig(cesium.DBStreamingConfig{BufferSize: 1000, SlowConsumerTimeout: 60 * time.Second}))
	if err != nil {
		return kit.Fail("setup", "open: %v", err)
	}
	defer db.Close()
	const idxK, dataK, markK, data2K = cesium.ChannelKey(1), cesium.ChannelKey(2), cesium.ChannelKey(3), cesium.ChannelKey(4)
	for _, c := range []cesium.Channel{
		{Key: idxK, Name: "idx", DataType: telem.TimeStampT, IsIndex: true},
		{Key: dataK, Name: "data", DataType: telem.Int64T, Index: idxK},
		{Key: markK, Name: "mark", DataType: telem.TimeStampT, IsIndex: true},
		{Key: data2K, Name: "data2", DataType: telem.Int64T, Index: idxK},
	} {
		if cerr := db.CreateChannel(ctx, c); cerr != nil {
			return kit.Fail("setup", "create: %v", cerr)
		}
	}
	s, serr := db.NewStreamer(ctx, cesium.StreamerConfig{Channels: []cesium.ChannelKey{idxK, dataK, data2K, markK}, SendOpenAck: true})
	if serr != nil {
		return kit.Fail("setup", "streamer: %v", serr)
	}
	in, out := confluence.Attach(s, 64)
	sctx, cancel := signal.Isolated()
	s.Flow(sctx, confluence.CloseOutputInletsOnExit())
	defer func() {
		in.Close()
		_ = sctx.Wait()
		cancel()
	}()
	select {
	case <-out.Outlet():
	case <-time.After(30 * time.Second):
		rep.Discard("timeout")
		return nil
	}
	type mw struct {
		w        *cesium.Writer
		dataOnly bool
		ai, ad   uint8
		ad2      uint8
		pos      int
	}
	ws := map[int]*mw{}
	defer func() {
		for _, w := range ws {
			_ = w.w.Close()
		}
	}()
	counter := 0
	yes := true
	// holderOf: the writer in control of channel k (idxK, dataK or data2K); data-only writers
	// cover dataK alone
	holderOf := func(k cesium.ChannelKey) int {
		best := -1
		var ba uint8
		bp := 0
		for id, w := range ws {
			if w.dataOnly && k != dataK {
				continue
			}
			a := w.ai
			switch k {
			case dataK:
				a = w.ad
			case data2K:
				a = w.ad2
			}
			if best < 0 || a > ba || (a == ba && w.pos < bp) {
				best, ba, bp = id, a, w.pos
			}
		}
		return best
	}
	holder := func(data bool) int {
		if data {
			return holderOf(dataK)
		}
		return holderOf(idxK)
	}
	ts := int64(1000)
	expected := map[string]bool{} // "key/ts" that must be relayed
	forbidden := map[string]string{}
	for i, op := range sc.Ops {
		where := fmt.Sprintf("op %d %+v", i, op)
		switch op.Kind {
		case "open":
			no := false
			cfg := cesium.WriterConfig{Start: telem.TimeStamp(ts), Mode: cesium.WriterModeStreamOnly, Sync: &yes, EnableAutoCommit: &no,
				ControlSubject: xcontrol.Subject{Key: fmt.Sprintf("w%d", op.W)}}
			if op.DataOnly {
				cfg.Channels = []cesium.ChannelKey{dataK}
				cfg.Authorities = []xcontrol.Authority{xcontrol.Authority(op.AuthData)}
			} else {
				cfg.Channels = []cesium.ChannelKey{idxK, dataK, data2K}
				cfg.Authorities = []xcontrol.Authority{xcontrol.Authority(op.AuthIdx), xcontrol.Authority(op.AuthData), xcontrol.Authority(op.AuthData2)}
			}
			w, oerr := db.OpenWriter(ctx, cfg)
			if oerr != nil {
				return kit.Fail("open-writer", "%s: %v", where, oerr)
			}
			ws[op.W] = &mw{w: w, dataOnly: op.DataOnly, ai: op.AuthIdx, ad: op.AuthData, ad2: op.AuthData2, pos: counter}
			counter++
		case "set":
			w := ws[op.W]
			cfg := cesium.WriterConfig{Channels: []cesium.ChannelKey{idxK, dataK, data2K}, Authorities: []xcontrol.Authority{xcontrol.Authority(op.AuthIdx), xcontrol.Authority(op.AuthData), xcontrol.Authority(op.AuthData2)}}
			if w.dataOnly {
				cfg = cesium.WriterConfig{Channels: []cesium.ChannelKey{dataK}, Authorities: []xcontrol.Authority{xcontrol.Authority(op.AuthData)}}
			}
			if serr := w.w.SetAuthority(cfg); serr != nil {
				return kit.Fail("set-authority", "%s: %v", where, serr)
			}
			w.ai, w.ad, w.ad2 = op.AuthIdx, op.AuthData, op.AuthData2
		case "write":
			w := ws[op.W]
			stamps := make([]telem.TimeStamp, op.N)
			vals := make([]int64, op.N)
			for k := range stamps {
				ts += 3
				stamps[k] = telem.TimeStamp(ts)
				vals[k] = ts
			}
			vals2 := make([]int64, op.N)
			for k := range vals2 {
				vals2[k] = -vals[k] // the second data channel carries the negated values
			}
			var fr cesium.Frame
			if w.dataOnly {
				fr = telem.UnaryFrame(dataK, telem.NewSeriesV(vals...))
			} else {
				keys := []cesium.ChannelKey{idxK, dataK, data2K}
				series := []telem.Series{telem.NewSeriesV(stamps...), telem.NewSeriesV(vals...), telem.NewSeriesV(vals2...)}
				perm := [][3]int{{0, 1, 2}, {0, 2, 1}, {1, 0, 2}, {1, 2, 0}, {2, 0, 1}, {2, 1, 0}}[op.Order%6]
				fr = telem.MultiFrame([]cesium.ChannelKey{keys[perm[0]], keys[perm[1]], keys[perm[2]]}, []telem.Series{series[perm[0]], series[perm[1]], series[perm[2]]})
			}
			holdsIdx := !w.dataOnly && holder(false) == op.W
			holdsData := holder(true) == op.W
			holdsData2 := !w.dataOnly && holderOf(data2K) == op.W
			auth, werr := w.w.Write(fr)
			if werr != nil {
				// a data-only writer needs index samples to stamp against; such failures are
				// outside this check
				rep.Discard("write-error")
				rep.Add("write-error:"+werr.Error()[:min(90, len(werr.Error()))], 1)
				return nil
			}
			wantAuth := holdsData && (w.dataOnly || (holdsIdx && holdsData2))
			if auth != wantAuth {
				return kit.Fail("authorized-flag", "%s: Write reported authorized=%v, model: holds index=%v holds data=%v holds data2=%v (frame order %d)", where, auth, holdsIdx, holdsData, holdsData2, op.Order%6)
			}
			if !w.dataOnly && holdsIdx && holdsData != holdsData2 {
				rep.Class("one-data-channel-held-the-other-not")
			}
			for k := range stamps {
				ik, dk := fmt.Sprintf("%d/%d", idxK, int64(stamps[k])), fmt.Sprintf("%d/%d", dataK, vals[k])
				if w.dataOnly {
					if holdsData {
						expected[dk] = true
					} else {
						forbidden[dk] = where
					}
					continue
				}
				d2k := fmt.Sprintf("%d/%d", data2K, vals2[k])
				if holdsIdx {
					if holdsData2 {
						expected[d2k] = true
					} else {
						forbidden[d2k] = where
					}
				} else {
					forbidden[d2k] = where
				}
				if holdsIdx {
					expected[ik] = true
					if holdsData {
						expected[dk] = true
					} else {
						forbidden[dk] = where
						rep.Class("index-held-data-not")
					}
				} else {
					// without the index there is no position to express the samples against:
					// the whole group is held back
					forbidden[ik] = where
					forbidden[dk] = where
					if holdsData {
						rep.Class("data-held-index-not")
					}
				}
			}
		case "close":
			if cerr := ws[op.W].w.Close(); cerr != nil {
				return kit.Fail("close-writer", "%s: %v", where, cerr)
			}
			delete(ws, op.W)
		}
	}
	// flush marker
	mk, merr := db.OpenWriter(ctx, cesium.WriterConfig{Channels: []cesium.ChannelKey{markK}, Start: 1, Mode: cesium.WriterModeStreamOnly, Sync: &yes})
	if merr != nil {
		return kit.Fail("setup", "marker writer: %v", merr)
	}
	if _, werr := mk.Write(telem.UnaryFrame(markK, telem.NewSeriesV[telem.TimeStamp](7))); werr != nil {
		_ = mk.Close()
		return kit.Fail("setup", "marker write: %v", werr)
	}
	_ = mk.Close()
	got := map[string]bool{}
	deadline := time.After(30 * time.Second)
recv:
	for {
		select {
		case r := <-out.Outlet():
			for k, sr := range r.Frame.Entries() {
				if k == markK {
					break recv
				}
				for o := 0; o+8 <= len(sr.Data); o += 8 {
					got[fmt.Sprintf("%d/%d", k, int64(binary.LittleEndian.Uint64(sr.Data[o:])))] = true
				}
			}
		case <-deadline:
			rep.Discard("timeout")
			return nil
		}
	}
	for k := range got {
		if where, bad := forbidden[k]; bad {
			return kit.Fail("unauthorized-series-relayed", "the streamer received sample %s (channel/timestamp) written by %s, where the writer did not control that channel (or its index)", k, where)
		}
		if !expected[k] {
			return kit.Fail("unknown-sample-relayed", "the streamer received sample %s that no authorised write produced", k)
		}
	}
	for k := range expected {
		if !got[k] {
			return kit.Fail("authorised-series-not-relayed", "sample %s of an authorised write did not reach an always-ready streamer", k)
		}
	}
	if rep.Has("index-held-data-not") || rep.Has("data-held-index-not") {
		rep.Nontrivial()
	}
	return nil
}

func TestC05Relay(t *testing.T) {
	r := &kit.Runner[RScript]{Name: "TestC05Relay", Exec: executeR}
	r.Run(t, genRScript)
}
