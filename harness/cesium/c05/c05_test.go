// C05 — exactly one writer controls a channel region: highest authority wins.
// L1: sequential histories on cesium/internal/control against the M-CTRL model.
package verif_c05_test

import (
	"errors"
	"fmt"
	"sort"
	"testing"

	"github.com/synnaxlabs/cesium/internal/channel"
	"github.com/synnaxlabs/cesium/internal/control"
	kit "github.com/synnaxlabs/cesium/internal/verifkit"
	xcontrol "github.com/synnaxlabs/x/control"
	"github.com/synnaxlabs/x/telem"
	"pgregory.net/rapid"
)

type res struct{ id int }

func (r *res) ChannelKey() channel.Key { return 7 }

type Op struct {
	Kind            string `json:"kind"` // open set release
	G               int    `json:"g"`    // gate id (open: new id)
	Subject         string `json:"subject,omitempty"`
	Authority       uint8  `json:"authority,omitempty"`
	S               int64  `json:"s,omitempty"`
	E               int64  `json:"e,omitempty"` // 0 = MAX
	ErrIfControlled bool   `json:"err_if_controlled,omitempty"`
	ErrUnauthorized bool   `json:"err_unauthorized,omitempty"`
	// ResourceFails: should this open start a region of its own, creating the region's
	// resource fails (a storage error in the caller's OpenResource): the open must fail and
	// leave no trace
	ResourceFails bool `json:"resource_fails,omitempty"`
}

var errResource = errors.New("verif: the region's resource cannot be created")

type Script struct {
	Shared bool `json:"shared"`
	Ops    []Op `json:"ops"`
}

// ---------------------------------------------------------------- model

type mgate struct {
	id        int
	subject   string
	authority uint8
	position  int
	region    *mregion
}

type mregion struct {
	s, e    int64
	gates   []*mgate
	counter int
	res     int
}

const tmax = int64(1<<63 - 1)

func (r *mregion) holder() *mgate {
	var best *mgate
	for _, g := range r.gates {
		if best == nil || g.authority > best.authority || (g.authority == best.authority && g.position < best.position) {
			best = g
		}
	}
	return best
}

type model struct {
	regions []*mregion
	gates   map[int]*mgate
	nextRes int
}

func overlaps(as, ae, bs, be int64) bool { return as < be && bs < ae }

func (m *model) overlapping(s, e int64) []*mregion {
	var out []*mregion
	for _, r := range m.regions {
		// zero-length ranges never reach the controller from the generator
		if overlaps(r.s, r.e, s, e) {
			out = append(out, r)
		}
	}
	return out
}

type hstate struct {
	subject   string
	authority uint8
}

func stateOf(g *mgate) *hstate {
	if g == nil {
		return nil
	}
	return &hstate{g.subject, g.authority}
}

func sameState(a, b *hstate) bool {
	if a == nil || b == nil {
		return a == b
	}
	return *a == *b
}

// expectOpen returns whether the open must be refused, and applies it otherwise.
func (m *model) expectOpen(op Op, shared bool) (refused bool, why string, from, to *hstate) {
	e := op.E
	if e == 0 {
		e = tmax
	}
	regs := m.overlapping(op.S, e)
	if len(regs) > 1 {
		return true, "bridges-regions", nil, nil
	}
	var r *mregion
	if len(regs) == 1 {
		r = regs[0]
		h := r.holder()
		if op.ErrIfControlled && h != nil {
			return true, "err-if-controlled", nil, nil
		}
		for _, g := range r.gates {
			if g.subject == op.Subject {
				return true, "duplicate-subject", nil, nil
			}
		}
		takes := h == nil || op.Authority > h.authority
		if !takes && op.ErrUnauthorized && (!shared || op.Authority != h.authority) {
			return true, "err-on-unauthorized-open", nil, nil
		}
		from = stateOf(h)
	} else {
		r = &mregion{s: op.S, e: e, res: m.nextRes}
		m.nextRes++
		m.regions = append(m.regions, r)
		sort.Slice(m.regions, func(i, j int) bool { return m.regions[i].s < m.regions[j].s })
	}
	g := &mgate{id: op.G, subject: op.Subject, authority: op.Authority, position: r.counter, region: r}
	r.counter++
	r.gates = append(r.gates, g)
	if op.S < r.s {
		r.s = op.S
	}
	if e > r.e {
		r.e = e
	}
	m.gates[op.G] = g
	to = stateOf(r.holder())
	return false, "", from, to
}

func (m *model) release(id int) (from, to *hstate, wasHolder bool) {
	g := m.gates[id]
	r := g.region
	h := r.holder()
	wasHolder = h == g
	from = stateOf(h)
	for i, x := range r.gates {
		if x == g {
			r.gates = append(r.gates[:i:i], r.gates[i+1:]...)
			break
		}
	}
	delete(m.gates, id)
	to = stateOf(r.holder())
	if len(r.gates) == 0 {
		for i, x := range m.regions {
			if x == r {
				m.regions = append(m.regions[:i:i], m.regions[i+1:]...)
				break
			}
		}
	}
	return
}

// ---------------------------------------------------------------- generator

func genScript(t *rapid.T) Script {
	sc := Script{Shared: rapid.IntRange(0, 3).Draw(t, "shared") == 0}
	m := &model{gates: map[int]*mgate{}}
	next := 0
	n := rapid.IntRange(2, 30).Draw(t, "nops")
	auth := rapid.SampledFrom([]uint8{0, 1, 1, 5, 5, 5, 254, 255, 255})
	for len(sc.Ops) < n {
		kinds := []string{"open", "open"}
		if len(m.gates) > 0 {
			kinds = append(kinds, "set", "set", "release")
		}
		k := rapid.SampledFrom(kinds).Draw(t, "kind")
		pick := func() int {
			var ids []int
			for id := range m.gates {
				ids = append(ids, id)
			}
			sort.Ints(ids)
			return rapid.SampledFrom(ids).Draw(t, "g")
		}
		switch k {
		case "open":
			op := Op{Kind: "open", G: next, Subject: rapid.SampledFrom([]string{"a", "b", "c", "d", "e"}).Draw(t, "subject"), Authority: auth.Draw(t, "authority"),
				ResourceFails: rapid.IntRange(0, 7).Draw(t, "resource-fails") == 0}
			op.S = int64(rapid.IntRange(1, 60).Draw(t, "s"))
			switch rapid.IntRange(0, 9).Draw(t, "rangekind") {
			case 0, 1: // bounded (deletes, preset-end writers)
				op.E = op.S + int64(rapid.IntRange(1, 25).Draw(t, "len"))
			case 2: // bounded, possibly bridging two regions
				op.E = op.S + int64(rapid.IntRange(20, 80).Draw(t, "len"))
			}
			op.ErrIfControlled = rapid.IntRange(0, 9).Draw(t, "eic") == 0
			op.ErrUnauthorized = rapid.IntRange(0, 5).Draw(t, "eou") == 0
			next++
			ge := op.E
			if ge == 0 {
				ge = tmax
			}
			if op.ResourceFails && len(m.overlapping(op.S, ge)) > 0 {
				op.ResourceFails = false // the open joins an existing region: no resource is created
			}
			sc.Ops = append(sc.Ops, op)
			if !op.ResourceFails {
				m.expectOpen(op, sc.Shared)
			}
		case "set":
			id := pick()
			op := Op{Kind: "set", G: id, Authority: auth.Draw(t, "authority")}
			sc.Ops = append(sc.Ops, op)
			m.gates[id].authority = op.Authority
		case "release":
			id := pick()
			sc.Ops = append(sc.Ops, Op{Kind: "release", G: id})
			m.release(id)
		}
	}
	return sc
}

// ---------------------------------------------------------------- executor

func toState(s *control.State) *hstate {
	if s == nil {
		return nil
	}
	return &hstate{s.Subject.Key, uint8(s.Authority)}
}

func execute(sc Script, rep *kit.Report) error {
	conc := xcontrol.ConcurrencyExclusive
	if sc.Shared {
		conc = xcontrol.ConcurrencyShared
		rep.Class("shared-mode")
	}
	c, err := control.New[*res](control.Config{Concurrency: conc})
	if err != nil {
		return kit.Fail("setup", "control.New: %v", err)
	}
	m := &model{gates: map[int]*mgate{}}
	real := map[int]*control.Gate[*res]{}
	changes := 0
	checkTransfer := func(where string, t control.Transfer, from, to *hstate) error {
		wantOccurred := !sameState(from, to)
		if t.Occurred() != wantOccurred {
			return kit.Fail("transfer-occurred", "%s: transfer %v occurred=%v, model: holder %v -> %v", where, t, t.Occurred(), show(from), show(to))
		}
		if wantOccurred {
			changes++
			if !sameState(toState(t.From), from) || !sameState(toState(t.To), to) {
				return kit.Fail("transfer-wrong-endpoints", "%s: transfer %v, model says %v -> %v", where, t, show(from), show(to))
			}
		}
		return nil
	}
	for i, op := range sc.Ops {
		where := fmt.Sprintf("op %d %+v", i, op)
		switch op.Kind {
		case "open":
			e := telem.TimeStampMax
			if op.E != 0 {
				e = telem.TimeStamp(op.E)
			}
			opened := 0
			eic, eou := op.ErrIfControlled, op.ErrUnauthorized
			// snapshot the model holders to check "a failed open changes nothing"
			before := map[int]*hstate{}
			for _, r := range m.regions {
				before[r.res] = stateOf(r.holder())
			}
			g, t, oerr := c.OpenGate(control.GateConfig[*res]{
				Subject:               xcontrol.Subject{Key: op.Subject, Name: op.Subject},
				Authority:             xcontrol.Authority(op.Authority),
				TimeRange:             telem.TimeRange{Start: telem.TimeStamp(op.S), End: e},
				ErrIfControlled:       &eic,
				ErrOnUnauthorizedOpen: &eou,
				OpenResource: func() (*res, error) {
					opened++
					if op.ResourceFails {
						return nil, errResource
					}
					return &res{}, nil
				},
			})
			if op.ResourceFails && opened > 0 {
				// the region's resource could not be created: nothing may have changed (the model
				// is not told about the open at all)
				rep.Class("open-failed:resource-creation")
				if oerr == nil {
					return kit.Fail("open-should-fail:resource-creation", "%s: OpenGate succeeded although OpenResource returned an error", where)
				}
				break
			}
			refused, why, from, to := m.expectOpen(op, sc.Shared)
			if refused {
				rep.Class("open-refused:" + why)
				if oerr == nil {
					return kit.Fail("open-should-fail:"+why, "%s: OpenGate succeeded although the model refuses it (%s)", where, why)
				}
				if why == "err-if-controlled" || why == "err-on-unauthorized-open" {
					if !errors.Is(oerr, xcontrol.ErrUnauthorized) {
						return kit.Fail("open-wrong-error:"+why, "%s: %v", where, oerr)
					}
				}
			} else {
				if oerr != nil {
					return kit.Fail("open-should-succeed", "%s: OpenGate failed: %v", where, oerr)
				}
				real[op.G] = g
				if terr := checkTransfer(where, t, from, to); terr != nil {
					return terr
				}
				if from != nil && to != nil && from.authority == op.Authority && !sameState(from, to) {
					return kit.Fail("tie-went-to-later-open", "%s: equal authority but control moved %v -> %v", where, show(from), show(to))
				}
			}
		case "set":
			g := m.gates[op.G]
			if g == nil || real[op.G] == nil {
				rep.Class("op-on-gate-that-was-not-opened")
				continue
			}
			from := stateOf(g.region.holder())
			g.authority = op.Authority
			to := stateOf(g.region.holder())
			t := real[op.G].SetAuthority(xcontrol.Authority(op.Authority))
			if terr := checkTransfer(where, t, from, to); terr != nil {
				return terr
			}
			if !sameState(from, to) {
				rep.Class("holder-changed-by-set-authority")
			}
		case "release":
			if m.gates[op.G] == nil || real[op.G] == nil {
				rep.Class("op-on-gate-that-was-not-opened")
				continue
			}
			from, to, wasHolder := m.release(op.G)
			_, t := real[op.G].Release()
			delete(real, op.G)
			if !wasHolder {
				rep.Class("release-of-non-holder")
				if t.Occurred() {
					return kit.Fail("transfer-occurred", "%s: releasing a non-holder reported transfer %v", where, t)
				}
			} else if terr := checkTransfer(where, t, from, to); terr != nil {
				return terr
			}
		}
		// invariant: Authorize succeeds exactly for the gates the model puts in control
		for id, g := range real {
			mg := m.gates[id]
			h := mg.region.holder()
			want := h == mg
			if sc.Shared {
				want = mg.authority >= h.authority
			}
			_, aerr := g.Authorize()
			if (aerr == nil) != want {
				return kit.Fail("authorize-mismatch", "%s: gate %d (%s auth %d pos %d) Authorize()=%v but model holder of its region is %v (want authorised=%v)", where, id, mg.subject, mg.authority, mg.position, aerr, show(stateOf(h)), want)
			}
			if aerr != nil && !errors.Is(aerr, xcontrol.ErrUnauthorized) {
				return kit.Fail("authorize-wrong-error", "%s: %v", where, aerr)
			}
		}
		// every region has exactly one holder in the model by construction; the leading
		// state must be the first region's holder
		var want *hstate
		if len(m.regions) > 0 {
			want = stateOf(m.regions[0].holder())
		}
		if got := toState(c.LeadingState()); !sameState(got, want) {
			return kit.Fail("leading-state", "%s: LeadingState=%v, model first region holder %v", where, show(got), show(want))
		}
		if len(m.regions) > 1 {
			rep.Class("multiple-regions")
		}
		for _, r := range m.regions {
			ties := 0
			h := r.holder()
			for _, g := range r.gates {
				if g != h && g.authority == h.authority {
					ties++
				}
			}
			if ties > 0 {
				rep.Class("tie-decided-by-position")
			}
		}
	}
	if changes >= 3 && rep.Has("holder-changed-by-set-authority") && rep.Has("tie-decided-by-position") {
		rep.Nontrivial()
	}
	return nil
}

func show(s *hstate) string {
	if s == nil {
		return "nobody"
	}
	return fmt.Sprintf("%s(%d)", s.subject, s.authority)
}

func TestC05Control(t *testing.T) {
	r := &kit.Runner[Script]{Name: "TestC05Control", Exec: execute}
	r.Run(t, genScript)
}
