package verif_c05_test

// L2: cesium writers contending for one channel group. All writers auto-commit with
// immediate persistence and acknowledge every write (Sync), so the persisted content is
// exactly the sequence of authorised writes.

import (
	"context"
	"fmt"
	"sort"
	"testing"

	"github.com/synnaxlabs/cesium"
	"github.com/synnaxlabs/cesium/internal/verif/cx"
	"github.com/synnaxlabs/cesium/internal/verif/tsm"
	kit "github.com/synnaxlabs/cesium/internal/verifkit"
	xcontrol "github.com/synnaxlabs/x/control"
	xfs "github.com/synnaxlabs/x/io/fs"
	"github.com/synnaxlabs/x/telem"
	"pgregory.net/rapid"
)

type WOp struct {
	Kind      string `json:"kind"` // open set write close
	W         int    `json:"w"`
	Authority uint8  `json:"authority,omitempty"`
	N         int    `json:"n,omitempty"`
	Seed      uint64 `json:"seed,omitempty"`
}

type WScript struct {
	DataType string `json:"dt"`
	Ops      []WOp  `json:"ops"`
}

func genWScript(t *rapid.T) WScript {
	sc := WScript{DataType: rapid.SampledFrom([]string{"int64", "uint8", "float32", "string"}).Draw(t, "dt")}
	open := map[int]bool{}
	next := 0
	n := rapid.IntRange(3, 25).Draw(t, "nops")
	auth := rapid.SampledFrom([]uint8{0, 1, 5, 5, 254, 255})
	for len(sc.Ops) < n {
		kinds := []string{}
		if len(open) < 4 {
			kinds = append(kinds, "open", "open")
		}
		if len(open) > 0 {
			kinds = append(kinds, "write", "write", "write", "set", "set", "close")
		}
		k := rapid.SampledFrom(kinds).Draw(t, "kind")
		pick := func() int {
			var ids []int
			for id := range open {
				ids = append(ids, id)
			}
			sort.Ints(ids)
			return rapid.SampledFrom(ids).Draw(t, "w")
		}
		switch k {
		case "open":
			sc.Ops = append(sc.Ops, WOp{Kind: "open", W: next, Authority: auth.Draw(t, "authority")})
			open[next] = true
			next++
		case "write":
			sc.Ops = append(sc.Ops, WOp{Kind: "write", W: pick(), N: rapid.IntRange(1, 4).Draw(t, "n"), Seed: uint64(rapid.IntRange(0, 1<<20).Draw(t, "seed"))})
		case "set":
			sc.Ops = append(sc.Ops, WOp{Kind: "set", W: pick(), Authority: auth.Draw(t, "authority")})
		case "close":
			id := pick()
			sc.Ops = append(sc.Ops, WOp{Kind: "close", W: id})
			delete(open, id)
		}
	}
	return sc
}

func executeW(sc WScript, rep *kit.Report) error {
	ctx := context.Background()
	fs := xfs.NewMem()
	db, err := cesium.Open(ctx, "", cesium.WithFS(fs))
	if err != nil {
		return kit.Fail("setup", "open: %v", err)
	}
	defer db.Close()
	specs := []tsm.ChannelSpec{{Key: 1, IsIndex: true, DataType: "timestamp"}, {Key: 2, Index: 1, DataType: sc.DataType}}
	for _, s := range specs {
		if err := db.CreateChannel(ctx, cesium.Channel{Key: s.Key, Name: fmt.Sprint("ch", s.Key), DataType: telem.DataType(s.DataType), IsIndex: s.IsIndex, Index: s.Index}); err != nil {
			return kit.Fail("setup", "create: %v", err)
		}
	}
	model := tsm.New(specs)
	type mw struct {
		auth uint8
		pos  int
	}
	writers := map[int]*cesium.Writer{}
	mws := map[int]*mw{}
	defer func() {
		for _, w := range writers {
			_ = w.Close()
		}
	}()
	counter := 0
	holder := func() int {
		best := -1
		for id, w := range mws {
			if best < 0 || w.auth > mws[best].auth || (w.auth == mws[best].auth && w.pos < mws[best].pos) {
				best = id
			}
		}
		return best
	}
	ts := int64(10)
	regionStart := int64(0)
	changes := 0
	yes := true
	for i, op := range sc.Ops {
		where := fmt.Sprintf("op %d %+v", i, op)
		before := holder()
		switch op.Kind {
		case "open":
			if len(mws) == 0 {
				regionStart = ts
				counter = 0
			}
			w, oerr := db.OpenWriter(ctx, cesium.WriterConfig{
				Channels: []cesium.ChannelKey{1, 2}, Start: telem.TimeStamp(ts),
				Authorities:              []xcontrol.Authority{xcontrol.Authority(op.Authority)},
				ControlSubject:           xcontrol.Subject{Key: fmt.Sprintf("w%d", op.W), Name: fmt.Sprintf("w%d", op.W)},
				EnableAutoCommit:         &yes,
				AutoIndexPersistInterval: cesium.AlwaysIndexPersistOnAutoCommit,
				Sync:                     &yes,
			})
			if oerr != nil {
				return kit.Fail("open-writer", "%s: %v", where, oerr)
			}
			writers[op.W] = w
			mws[op.W] = &mw{auth: op.Authority, pos: counter}
			counter++
		case "set":
			if serr := writers[op.W].SetAuthority(cesium.WriterConfig{Authorities: []xcontrol.Authority{xcontrol.Authority(op.Authority)}}); serr != nil {
				return kit.Fail("set-authority", "%s: %v", where, serr)
			}
			mws[op.W].auth = op.Authority
		case "write":
			var stamps []int64
			for k := 0; k < op.N; k++ {
				ts += 2
				stamps = append(stamps, ts)
			}
			st := &cx.State{M: model, Writers: map[int]*cx.WState{0: {ID: 0, Channels: []uint32{1, 2}}}}
			fr := cx.BuildFrame(st, cx.Op{W: 0, TS: stamps, Seed: op.Seed})
			auth, werr := writers[op.W].Write(fr)
			if werr != nil {
				return kit.Fail("write-error", "%s: %v", where, werr)
			}
			want := holder() == op.W
			if auth != want {
				return kit.Fail("authorized-flag", "%s: Write reported authorized=%v but the model's controlling writer is w%d (writers %v)", where, auth, holder(), fmt.Sprint(len(mws), " open"))
			}
			if want {
				for _, key := range []uint32{1, 2} {
					spec := model.Chans[key].Spec
					var vals [][]byte
					for _, s := range stamps {
						if spec.IsIndex {
							vals = append(vals, tsm.TSBytes(s))
						} else {
							vals = append(vals, tsm.Payload(spec, s, op.Seed))
						}
					}
					model.Chans[key].Commit(regionStart, ts+1, stamps, vals)
				}
				rep.Class("authorized-write")
			} else {
				rep.Class("unauthorized-write")
			}
		case "close":
			if cerr := writers[op.W].Close(); cerr != nil {
				return kit.Fail("close-writer", "%s: %v", where, cerr)
			}
			delete(writers, op.W)
			delete(mws, op.W)
			ts += 5 // leave a gap so that a later first writer starts after the closed domain
		}
		if after := holder(); after != before {
			changes++
			if op.Kind == "set" {
				rep.Class("holder-changed-by-set-authority")
			}
		}
		// only authorised writes are persisted: read back after every step
		for _, key := range []uint32{1, 2} {
			if rerr := cx.CheckRead(ctx, db, model, key, 0, 1<<62, where); rerr != nil {
				v := rerr.(*kit.Violation)
				return kit.Fail("persisted-"+v.Sig, "%s", v.Msg)
			}
		}
	}
	if changes >= 2 && rep.Has("unauthorized-write") && rep.Has("authorized-write") {
		rep.Nontrivial()
	}
	return nil
}

func TestC05Writers(t *testing.T) {
	r := &kit.Runner[WScript]{Name: "TestC05Writers", Exec: executeW}
	r.Run(t, genWScript)
}
