package verif_c05_test

// L2d: authority of the index channel an AutoIndex writer opens implicitly. Such a writer names
// data channels only; cesium opens their index for it with the maximum authority of the data
// channels that reference it, and a SetAuthority that names a data channel is propagated to the
// index the same way (a broadcast SetAuthority reaches every channel). A competitor holds a gate
// on the index channel alone with an authority of its own. Whoever has the higher authority on
// the index (earlier open on ties) controls it; the auto-index writer's frames are persisted
// and reported authorized exactly while it controls the index (without the index there is no
// position to write the data at, so the whole group is held back).

import (
	"context"
	"fmt"
	"testing"

	"github.com/synnaxlabs/cesium"
	"github.com/synnaxlabs/cesium/internal/verif/cx"
	"github.com/synnaxlabs/cesium/internal/verif/tsm"
	kit "github.com/synnaxlabs/cesium/internal/verifkit"
	xcontrol "github.com/synnaxlabs/x/control"
	xfs "github.com/synnaxlabs/x/io/fs"
	"github.com/synnaxlabs/x/telem"
	"pgregory.net/rapid"
)

type XOp struct {
	Kind string `json:"kind"` // openw openk setw setk write closew closek
	// openw: authorities of data channels 2 and 3 (A3 < 0: the writer covers channel 2 only; Single: one
	// authority for all, A2)
	A2, A3 int  `json:"a2,omitempty"`
	Single bool `json:"single,omitempty"`
	// setw: Chan = 0 broadcast, 2 or 3 the data channel named; openk / setk / setw: Auth
	Chan int `json:"chan,omitempty"`
	Auth int `json:"auth,omitempty"`
	N    int `json:"n,omitempty"`
}

type XScript struct {
	Ops []XOp `json:"ops"`
}

func genXScript(t *rapid.T) XScript {
	var sc XScript
	auth := rapid.SampledFrom([]int{0, 1, 5, 5, 100, 254, 255})
	wOpen, kOpen, two := false, false, false
	for i, n := 0, rapid.IntRange(4, 24).Draw(t, "nops"); i < n; i++ {
		var kinds []string
		if !wOpen {
			kinds = append(kinds, "openw", "openw")
		} else {
			kinds = append(kinds, "write", "write", "write", "setw", "setw", "closew")
		}
		if !kOpen {
			kinds = append(kinds, "openk", "openk")
		} else {
			kinds = append(kinds, "setk", "closek")
		}
		switch k := rapid.SampledFrom(kinds).Draw(t, "kind"); k {
		case "openw":
			op := XOp{Kind: k, A2: auth.Draw(t, "a2"), A3: auth.Draw(t, "a3")}
			switch rapid.IntRange(0, 3).Draw(t, "shape") {
			case 0:
				op.A3 = -1
			case 1:
				op.Single = true
			}
			two = op.A3 >= 0 || op.Single
			if op.Single {
				op.A3 = op.A2
			}
			wOpen = true
			sc.Ops = append(sc.Ops, op)
		case "openk":
			kOpen = true
			sc.Ops = append(sc.Ops, XOp{Kind: k, Auth: auth.Draw(t, "k")})
		case "setk":
			sc.Ops = append(sc.Ops, XOp{Kind: k, Auth: auth.Draw(t, "k")})
		case "setw":
			ch := rapid.SampledFrom([]int{0, 2, 3}).Draw(t, "chan")
			if ch == 3 && !two {
				ch = 2
			}
			sc.Ops = append(sc.Ops, XOp{Kind: k, Chan: ch, Auth: auth.Draw(t, "a")})
		case "write":
			sc.Ops = append(sc.Ops, XOp{Kind: k, N: rapid.IntRange(1, 4).Draw(t, "n")})
		case "closew":
			wOpen = false
			sc.Ops = append(sc.Ops, XOp{Kind: k})
		case "closek":
			kOpen = false
			sc.Ops = append(sc.Ops, XOp{Kind: k})
		}
	}
	return sc
}

func executeX(sc XScript, rep *kit.Report) error {
	ctx := context.Background()
	db, err := cesium.Open(ctx, "", cesium.WithFS(xfs.NewMem()))
	if err != nil {
		return kit.Fail("setup", "open: %v", err)
	}
	defer db.Close()
	specs := []tsm.ChannelSpec{{Key: 1, IsIndex: true, DataType: "timestamp"}, {Key: 2, Index: 1, DataType: "int64"}, {Key: 3, Index: 1, DataType: "uint8"}}
	for _, s := range specs {
		if cerr := db.CreateChannel(ctx, cesium.Channel{Key: s.Key, Name: fmt.Sprint("ch", s.Key), DataType: telem.DataType(s.DataType), IsIndex: s.IsIndex, Index: s.Index}); cerr != nil {
			return kit.Fail("setup", "create: %v", cerr)
		}
	}
	var (
		w, k         *cesium.Writer
		a2, a3       int // the auto-index writer's data authorities (a3 < 0: channel 3 not covered)
		ka           int
		wPos, kPos   int
		counter      int
		seq          int64
		stored       = map[uint32][][]byte{}
		nStored      int
		transitions  int
		yes          = true
		wasInControl = false
	)
	defer func() {
		if w != nil {
			_ = w.Close()
		}
		if k != nil {
			_ = k.Close()
		}
	}()
	idxAuth := func() int { return max(a2, a3) }
	wControls := func() bool {
		if w == nil {
			return false
		}
		if k == nil {
			return true
		}
		return idxAuth() > ka || (idxAuth() == ka && wPos < kPos)
	}
	for i, op := range sc.Ops {
		where := fmt.Sprintf("op %d %+v", i, op)
		switch op.Kind {
		case "openw":
			if w != nil {
				continue
			}
			cfg := cesium.WriterConfig{Channels: []cesium.ChannelKey{2}, AutoIndex: &yes, Sync: &yes, EnableAutoCommit: &yes,
				AutoIndexPersistInterval: cesium.AlwaysIndexPersistOnAutoCommit,
				ControlSubject:           xcontrol.Subject{Key: "auto", Name: "auto"}}
			a2, a3 = op.A2, op.A3
			switch {
			case op.Single:
				cfg.Channels = []cesium.ChannelKey{2, 3}
				cfg.Authorities = []xcontrol.Authority{xcontrol.Authority(op.A2)}
				a3 = op.A2
			case op.A3 >= 0:
				cfg.Channels = []cesium.ChannelKey{2, 3}
				cfg.Authorities = []xcontrol.Authority{xcontrol.Authority(op.A2), xcontrol.Authority(op.A3)}
				rep.Class("per-channel-authorities")
			default:
				cfg.Authorities = []xcontrol.Authority{xcontrol.Authority(op.A2)}
			}
			// the start must lie after everything stored: wait for the clock to pass it
			for nStored > 0 && int64(telem.Now()) <= lastStamp(ctx, db)+1 {
			}
			var oerr error
			if w, oerr = db.OpenWriter(ctx, cfg); oerr != nil {
				return kit.Fail("open-writer", "%s: OpenWriter(AutoIndex): %v", where, oerr)
			}
			wPos = counter
			counter++
		case "openk":
			if k != nil {
				continue
			}
			// like the auto-index writer, the competitor starts after everything stored
			for nStored > 0 && int64(telem.Now()) <= lastStamp(ctx, db)+1 {
			}
			var oerr error
			if k, oerr = db.OpenWriter(ctx, cesium.WriterConfig{Channels: []cesium.ChannelKey{1}, Start: telem.Now(), Sync: &yes,
				Authorities:    []xcontrol.Authority{xcontrol.Authority(op.Auth)},
				ControlSubject: xcontrol.Subject{Key: "competitor", Name: "competitor"}}); oerr != nil {
				return kit.Fail("open-writer", "%s: OpenWriter on the index channel: %v", where, oerr)
			}
			ka = op.Auth
			kPos = counter
			counter++
		case "setk":
			if k == nil {
				continue
			}
			if serr := k.SetAuthority(cesium.WriterConfig{Authorities: []xcontrol.Authority{xcontrol.Authority(op.Auth)}}); serr != nil {
				return kit.Fail("set-authority", "%s: %v", where, serr)
			}
			ka = op.Auth
		case "setw":
			if w == nil {
				continue
			}
			cfg := cesium.WriterConfig{Authorities: []xcontrol.Authority{xcontrol.Authority(op.Auth)}}
			switch {
			case op.Chan == 0:
				a2 = op.Auth
				if a3 >= 0 {
					a3 = op.Auth
				}
				rep.Class("set-authority-broadcast")
			case op.Chan == 3 && a3 >= 0:
				cfg.Channels = []cesium.ChannelKey{3}
				a3 = op.Auth
				rep.Class("set-authority-on-one-data-channel")
			default:
				cfg.Channels = []cesium.ChannelKey{2}
				a2 = op.Auth
				rep.Class("set-authority-on-one-data-channel")
			}
			if serr := w.SetAuthority(cfg); serr != nil {
				return kit.Fail("set-authority", "%s: %v", where, serr)
			}
		case "write":
			if w == nil {
				continue
			}
			keys := []cesium.ChannelKey{2}
			if a3 >= 0 {
				keys = append(keys, 3)
			}
			var series []telem.Series
			smps := map[uint32][][]byte{}
			for _, key := range keys {
				spec := specs[key-1]
				var smp [][]byte
				for j := 0; j < op.N; j++ {
					smp = append(smp, tsm.Payload(spec, seq+int64(j), 7))
				}
				smps[key] = smp
				series = append(series, telem.Series{DataType: telem.DataType(spec.DataType), Data: tsm.Encode(spec.DataType, smp)})
			}
			seq += int64(op.N)
			auth, werr := w.Write(telem.MultiFrame[cesium.ChannelKey](keys, series))
			if werr != nil {
				return kit.Fail("write-error", "%s: %v", where, werr)
			}
			want := wControls()
			if auth != want {
				return kit.Fail("authorized-flag", "%s: Write reported authorized=%v; the auto-index writer holds authorities %d/%d on its data channels, so %d on the index it opened implicitly, the competitor on the index has %s: the writer %s the index", where, auth, a2, a3, idxAuth(), kDesc(k != nil, ka), map[bool]string{true: "controls", false: "does not control"}[want])
			}
			if want {
				for key, smp := range smps {
					stored[key] = append(stored[key], smp...)
				}
				nStored += op.N
				rep.Class("authorized-write")
			} else {
				rep.Class("unauthorized-write")
			}
		case "closew":
			if w == nil {
				continue
			}
			if cerr := w.Close(); cerr != nil {
				return kit.Fail("close-writer", "%s: %v", where, cerr)
			}
			w = nil
		case "closek":
			if k == nil {
				continue
			}
			if cerr := k.Close(); cerr != nil {
				return kit.Fail("close-writer", "%s: %v", where, cerr)
			}
			k = nil
		}
		if c := wControls(); c != wasInControl && w != nil {
			transitions++
			wasInControl = c
		}
		// only authorised writes are persisted
		for _, key := range []uint32{2, 3} {
			got, rerr := cx.ReadChannel(ctx, db, specs[key-1], 0, 1<<62)
			if rerr != nil {
				return kit.Fail("persisted-read-error", "%s: reading channel %d: %v", where, key, rerr)
			}
			if len(got) != len(stored[key]) {
				return kit.Fail("persisted-read-mismatch", "%s: channel %d holds %d samples, the authorised writes put %d there", where, key, len(got), len(stored[key]))
			}
			for j := range got {
				if string(got[j]) != string(stored[key][j]) {
					return kit.Fail("persisted-read-mismatch", "%s: channel %d sample %d differs from the authorised write", where, key, j)
				}
			}
		}
		idx, rerr := cx.ReadChannel(ctx, db, specs[0], 0, 1<<62)
		if rerr != nil {
			return kit.Fail("persisted-read-error", "%s: reading the index channel: %v", where, rerr)
		}
		if len(idx) != nStored {
			return kit.Fail("persisted-read-mismatch", "%s: the index channel holds %d timestamps, the authorised writes carried %d samples per channel", where, len(idx), nStored)
		}
	}
	if transitions >= 2 && rep.Has("authorized-write") && rep.Has("unauthorized-write") {
		rep.Nontrivial()
	}
	return nil
}

func kDesc(open bool, a int) string {
	if !open {
		return "no gate open"
	}
	return fmt.Sprint(a)
}

func lastStamp(ctx context.Context, db *cesium.DB) int64 {
	idx, err := cx.ReadChannel(ctx, db, tsm.ChannelSpec{Key: 1, IsIndex: true, DataType: "timestamp"}, 0, 1<<62)
	if err != nil || len(idx) == 0 {
		return 0
	}
	b := idx[len(idx)-1]
	var v int64
	for i := 7; i >= 0; i-- {
		v = v<<8 | int64(b[i])
	}
	return v
}

func TestC05AutoIndex(t *testing.T) {
	r := &kit.Runner[XScript]{Name: "TestC05AutoIndex", Exec: executeX}
	r.Run(t, genXScript)
}
