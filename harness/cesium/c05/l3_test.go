package verif_c05_test

// L3: the L1 operations issued from several goroutines on one controller, built with
// the race detector. Schedules are sampled. Oracles: no race report (process level), at
// quiescence the gates that Authorize are exactly the model's argmax over the gates left
// open, and the multiset of reported transfers forms a chain from "nobody" to the final
// holder (degree balance on the transfer multigraph).

import (
	"fmt"
	"runtime"
	"sync"
	"testing"

	"github.com/synnaxlabs/cesium/internal/control"
	kit "github.com/synnaxlabs/cesium/internal/verifkit"
	xcontrol "github.com/synnaxlabs/x/control"
	"github.com/synnaxlabs/x/telem"
	"pgregory.net/rapid"
)

type GOp struct {
	Kind      string `json:"kind"` // open set release yield
	Authority uint8  `json:"authority,omitempty"`
}

type Plan struct {
	Shared  bool    `json:"shared"`
	Threads [][]GOp `json:"threads"` // each goroutine owns exactly one gate: open ... [release]
}

func genPlan(t *rapid.T) Plan {
	p := Plan{Shared: rapid.IntRange(0, 3).Draw(t, "shared") == 0}
	n := rapid.IntRange(2, 6).Draw(t, "threads")
	auth := rapid.SampledFrom([]uint8{0, 1, 5, 5, 255})
	for i := 0; i < n; i++ {
		ops := []GOp{{Kind: "open", Authority: auth.Draw(t, "authority")}}
		k := rapid.IntRange(0, 6).Draw(t, "nset")
		for j := 0; j < k; j++ {
			if rapid.IntRange(0, 3).Draw(t, "yield") == 0 {
				ops = append(ops, GOp{Kind: "yield"})
			}
			ops = append(ops, GOp{Kind: "set", Authority: auth.Draw(t, "authority")})
		}
		if rapid.IntRange(0, 2).Draw(t, "release") > 0 {
			ops = append(ops, GOp{Kind: "release"})
		}
		p.Threads = append(p.Threads, ops)
	}
	return p
}

func executePlan(p Plan, rep *kit.Report) error {
	conc := xcontrol.ConcurrencyExclusive
	if p.Shared {
		conc = xcontrol.ConcurrencyShared
	}
	c, err := control.New[*res](control.Config{Concurrency: conc})
	if err != nil {
		return kit.Fail("setup", "%v", err)
	}
	type final struct {
		gate *control.Gate[*res]
		auth uint8
		open bool
	}
	finals := make([]final, len(p.Threads))
	var mu sync.Mutex
	var transfers []control.Transfer
	var errs []error
	var wg sync.WaitGroup
	start := make(chan struct{})
	for i, ops := range p.Threads {
		wg.Add(1)
		go func(i int, ops []GOp) {
			defer wg.Done()
			<-start
			var g *control.Gate[*res]
			for _, op := range ops {
				var t control.Transfer
				switch op.Kind {
				case "open":
					var oerr error
					g, t, oerr = c.OpenGate(control.GateConfig[*res]{
						Subject:      xcontrol.Subject{Key: fmt.Sprintf("s%d", i)},
						Authority:    xcontrol.Authority(op.Authority),
						TimeRange:    telem.TimeRange{Start: telem.TimeStamp(10 + i), End: telem.TimeStampMax},
						OpenResource: func() (*res, error) { return &res{}, nil },
					})
					if oerr != nil {
						mu.Lock()
						errs = append(errs, oerr)
						mu.Unlock()
						return
					}
					finals[i] = final{gate: g, auth: op.Authority, open: true}
				case "set":
					t = g.SetAuthority(xcontrol.Authority(op.Authority))
					finals[i].auth = op.Authority
				case "release":
					_, t = g.Release()
					finals[i].open = false
				case "yield":
					runtime.Gosched()
					continue
				}
				if t.Occurred() {
					mu.Lock()
					transfers = append(transfers, t)
					mu.Unlock()
				}
			}
		}(i, ops)
	}
	close(start)
	wg.Wait()
	if len(errs) > 0 {
		return kit.Fail("concurrent-open-failed", "OpenGate failed under concurrency: %v", errs[0])
	}
	// quiescent state: who may write?
	var maxAuth int = -1
	for _, f := range finals {
		if f.open && int(f.auth) > maxAuth {
			maxAuth = int(f.auth)
		}
	}
	authorised := 0
	var holderKey string
	for i, f := range finals {
		if !f.open {
			continue
		}
		_, aerr := f.gate.Authorize()
		if aerr == nil {
			authorised++
			holderKey = fmt.Sprintf("s%d", i)
			if int(f.auth) != maxAuth {
				return kit.Fail("quiescent-holder-not-max", "gate s%d with authority %d is authorised although an open gate has authority %d", i, f.auth, maxAuth)
			}
		} else if p.Shared && int(f.auth) == maxAuth {
			return kit.Fail("quiescent-shared-max-unauthorised", "shared mode: gate s%d at the maximum authority %d is not authorised: %v", i, f.auth, aerr)
		}
	}
	anyOpen := maxAuth >= 0
	if anyOpen && authorised == 0 {
		return kit.Fail("quiescent-no-holder", "gates are open but none is authorised")
	}
	if !p.Shared && authorised > 1 {
		return kit.Fail("quiescent-two-holders", "%d gates are authorised on an exclusive region", authorised)
	}
	// transfer chain: degree balance from "nobody" to the final holder state
	type node struct {
		s string
		a uint8
	}
	nobody := node{"", 0}
	key := func(s *control.State) node {
		if s == nil {
			return nobody
		}
		return node{s.Subject.Key, uint8(s.Authority)}
	}
	bal := map[node]int{}
	for _, t := range transfers {
		bal[key(t.From)]++
		bal[key(t.To)]--
	}
	end := nobody
	if anyOpen {
		ls := c.LeadingState()
		if ls == nil {
			return kit.Fail("quiescent-no-leading-state", "gates are open but LeadingState is nil")
		}
		end = key(ls)
		if !p.Shared && end.s != holderKey {
			return kit.Fail("leading-state-not-holder", "LeadingState names %s but the authorised gate is %s", end.s, holderKey)
		}
	}
	bal[nobody]--
	bal[end]++
	for n, b := range bal {
		if b != 0 {
			return kit.Fail("transfers-do-not-chain", "the %d reported transfers cannot be ordered into a chain from nobody to the final holder %v: node %v has imbalance %d; transfers: %v", len(transfers), end, n, b, transfers)
		}
	}
	if len(transfers) >= 3 {
		rep.NontrivialKey(fmt.Sprintf("%v|%d|%v", p, len(transfers), end))
	}
	rep.Add("transfers", int64(len(transfers)))
	return nil
}

func TestC05Concurrent(t *testing.T) {
	r := &kit.Runner[Plan]{Name: "TestC05Concurrent", Exec: executePlan}
	r.Run(t, genPlan)
}
