package verif_c05_test

// L2c: the transfers cesium *reports*. With a control update channel configured, every
// change of controller (or of the controller's authority) is published as a ControlUpdate on
// that channel; a streamer on it must be able to reconstruct the current holder of every
// channel from the transfers alone ("the reported transfers always reconstruct the current
// holder"), every transfer must name the previous holder it replaces, and an operation that
// changes nothing must report nothing. The same writer scripts as L2 are used. After every
// operation a marker writer is opened and closed on a third channel: updates are published in
// order through one internal writer, so once the marker's release has been received every
// update of the operation before it has been received as well - no waiting on the clock.

import (
	"context"
	"fmt"
	"testing"
	"time"

	"github.com/synnaxlabs/cesium"
	"github.com/synnaxlabs/cesium/internal/verif/cx"
	"github.com/synnaxlabs/cesium/internal/verif/tsm"
	kit "github.com/synnaxlabs/cesium/internal/verifkit"
	"github.com/synnaxlabs/x/confluence"
	xcontrol "github.com/synnaxlabs/x/control"
	xfs "github.com/synnaxlabs/x/io/fs"
	"github.com/synnaxlabs/x/signal"
	"github.com/synnaxlabs/x/telem"
)

type heldBy struct {
	subject string
	auth    uint8
	held    bool
}

func (h heldBy) String() string {
	if !h.held {
		return "nobody"
	}
	return fmt.Sprintf("%s@%d", h.subject, h.auth)
}

func executeDigests(sc WScript, rep *kit.Report) error {
	const (
		idxK, dataK, markK, ctlK = cesium.ChannelKey(1), cesium.ChannelKey(2), cesium.ChannelKey(3), cesium.ChannelKey(100)
	)
	ctx := context.Background()
	// the relay drops a frame that a streamer does not take within SlowConsumerTimeout (20 ms by
	// default): by design, and fatal for an oracle that counts updates on a busy machine
	db, err := cesium.Open(ctx, "", cesium.WithFS(xfs.NewMem()),
		cesium.WithVerifStreamingConfig(cesium.DBStreamingConfig{BufferSize: 1000, SlowConsumerTimeout: 60 * time.Second}))
	if err != nil {
		return kit.Fail("setup", "open: %v", err)
	}
	defer db.Close()
	specs := []tsm.ChannelSpec{{Key: 1, IsIndex: true, DataType: "timestamp"}, {Key: 2, Index: 1, DataType: sc.DataType}}
	for _, c := range []cesium.Channel{
		{Key: idxK, Name: "idx", DataType: telem.TimeStampT, IsIndex: true},
		{Key: dataK, Name: "data", DataType: telem.DataType(sc.DataType), Index: idxK},
		{Key: markK, Name: "mark", DataType: telem.TimeStampT, IsIndex: true},
	} {
		if cerr := db.CreateChannel(ctx, c); cerr != nil {
			return kit.Fail("setup", "create: %v", cerr)
		}
	}
	if cerr := db.ConfigureControlUpdateChannel(ctx, ctlK, "control"); cerr != nil {
		return kit.Fail("setup", "ConfigureControlUpdateChannel: %v", cerr)
	}
	s, serr := db.NewStreamer(ctx, cesium.StreamerConfig{Channels: []cesium.ChannelKey{ctlK}, SendOpenAck: true})
	if serr != nil {
		return kit.Fail("setup", "streamer: %v", serr)
	}
	in, out := confluence.Attach(s, 256)
	sctx, cancel := signal.Isolated()
	s.Flow(sctx, confluence.CloseOutputInletsOnExit())
	defer func() {
		in.Close()
		_ = sctx.Wait()
		cancel()
	}()
	select {
	case <-out.Outlet():
	case <-time.After(30 * time.Second):
		rep.Discard("timeout")
		return nil
	}
	model := tsm.New(specs)
	type mw struct {
		auth uint8
		pos  int
	}
	writers := map[int]*cesium.Writer{}
	mws := map[int]*mw{}
	defer func() {
		for _, w := range writers {
			_ = w.Close()
		}
	}()
	counter := 0
	expected := func() heldBy {
		best := -1
		for id, w := range mws {
			if best < 0 || w.auth > mws[best].auth || (w.auth == mws[best].auth && w.pos < mws[best].pos) {
				best = id
			}
		}
		if best < 0 {
			return heldBy{}
		}
		return heldBy{subject: fmt.Sprintf("w%d", best), auth: mws[best].auth, held: true}
	}
	recon := map[cesium.ChannelKey]heldBy{}
	ts := int64(10)
	yes := true
	changes := 0
	for i, op := range sc.Ops {
		where := fmt.Sprintf("op %d %+v", i, op)
		before := expected()
		switch op.Kind {
		case "open":
			if len(mws) == 0 {
				counter = 0
			}
			w, oerr := db.OpenWriter(ctx, cesium.WriterConfig{
				Channels: []cesium.ChannelKey{idxK, dataK}, Start: telem.TimeStamp(ts),
				Authorities:              []xcontrol.Authority{xcontrol.Authority(op.Authority)},
				ControlSubject:           xcontrol.Subject{Key: fmt.Sprintf("w%d", op.W), Name: fmt.Sprintf("w%d", op.W)},
				EnableAutoCommit:         &yes,
				AutoIndexPersistInterval: cesium.AlwaysIndexPersistOnAutoCommit,
				Sync:                     &yes,
			})
			if oerr != nil {
				return kit.Fail("open-writer", "%s: %v", where, oerr)
			}
			writers[op.W] = w
			mws[op.W] = &mw{auth: op.Authority, pos: counter}
			counter++
		case "set":
			if serr := writers[op.W].SetAuthority(cesium.WriterConfig{Authorities: []xcontrol.Authority{xcontrol.Authority(op.Authority)}}); serr != nil {
				return kit.Fail("set-authority", "%s: %v", where, serr)
			}
			mws[op.W].auth = op.Authority
		case "write":
			var stamps []int64
			for k := 0; k < op.N; k++ {
				ts += 2
				stamps = append(stamps, ts)
			}
			st := &cx.State{M: model, Writers: map[int]*cx.WState{0: {ID: 0, Channels: []uint32{1, 2}}}}
			if _, werr := writers[op.W].Write(cx.BuildFrame(st, cx.Op{W: 0, TS: stamps, Seed: op.Seed})); werr != nil {
				return kit.Fail("write-error", "%s: %v", where, werr)
			}
		case "close":
			if cerr := writers[op.W].Close(); cerr != nil {
				return kit.Fail("close-writer", "%s: %v", where, cerr)
			}
			delete(writers, op.W)
			delete(mws, op.W)
			ts += 5
		}
		after := expected()
		// marker: everything published before its release has been received once the release is
		mark := fmt.Sprintf("m%d", i)
		mwr, merr := db.OpenWriter(ctx, cesium.WriterConfig{Channels: []cesium.ChannelKey{markK}, Start: telem.TimeStamp(1 << 40),
			ControlSubject: xcontrol.Subject{Key: mark, Name: mark}, Sync: &yes})
		if merr != nil {
			return kit.Fail("open-writer", "%s: marker writer: %v", where, merr)
		}
		if cerr := mwr.Close(); cerr != nil {
			return kit.Fail("close-writer", "%s: marker writer: %v", where, cerr)
		}
		seen := map[cesium.ChannelKey]int{}
		deadline := time.After(30 * time.Second)
	drain:
		for {
			select {
			case res, ok := <-out.Outlet():
				if !ok {
					return kit.Fail("digest-stream-closed", "%s: the streamer on the control update channel ended", where)
				}
				for _, series := range res.Frame.SeriesSlice() {
					u, derr := cesium.DecodeControlUpdate(series)
					if derr != nil {
						return kit.Fail("digest-undecodable", "%s: DecodeControlUpdate: %v", where, derr)
					}
					for _, t := range u.Transfers {
						var key cesium.ChannelKey
						switch {
						case t.To != nil:
							key = t.To.Resource
						case t.From != nil:
							key = t.From.Resource
						default:
							continue
						}
						if t.From != nil && t.To != nil && t.From.Resource != t.To.Resource {
							return kit.Fail("transfer-across-resources", "%s: reported transfer %+v -> %+v", where, *t.From, *t.To)
						}
						if key == markK && t.To == nil && t.From != nil && t.From.Subject.Key == mark {
							break drain
						}
						if key != idxK && key != dataK {
							continue
						}
						from := heldBy{}
						if t.From != nil {
							from = heldBy{t.From.Subject.Key, uint8(t.From.Authority), true}
						}
						to := heldBy{}
						if t.To != nil {
							to = heldBy{t.To.Subject.Key, uint8(t.To.Authority), true}
						}
						if from != recon[key] {
							return kit.Fail("reported-transfer-names-wrong-previous-holder", "%s: channel %d: reported transfer %v -> %v, but the transfers reported so far leave %v in control", where, key, from, to, recon[key])
						}
						recon[key] = to
						seen[key]++
					}
				}
			case <-deadline:
				rep.Discard("timeout")
				return nil
			}
		}
		for _, key := range []cesium.ChannelKey{idxK, dataK} {
			if recon[key] != after {
				return kit.Fail("reported-transfers-do-not-reconstruct-holder", "%s: channel %d: the reported transfers leave %v in control; the open writer with the highest authority (earliest open on ties) is %v (before the operation: %v; %d transfer(s) reported for it)", where, key, recon[key], after, before, seen[key])
			}
			want := 0
			if before != after {
				want = 1
			}
			if seen[key] != want {
				return kit.Fail("reported-transfer-count", "%s: channel %d: %d transfers reported, %d expected (holder %v -> %v)", where, key, seen[key], want, before, after)
			}
		}
		// the snapshot a late subscriber is given
		states := map[cesium.ChannelKey]heldBy{}
		for _, t := range db.ControlStates().Transfers {
			if t.To != nil {
				states[t.To.Resource] = heldBy{t.To.Subject.Key, uint8(t.To.Authority), true}
			}
		}
		for _, key := range []cesium.ChannelKey{idxK, dataK} {
			if states[key] != after {
				return kit.Fail("control-states-wrong-holder", "%s: ControlStates reports %v for channel %d, expected %v", where, states[key], key, after)
			}
		}
		if before != after {
			changes++
			if before.held && after.held && before.subject == after.subject {
				rep.Class("holder-authority-changed")
			} else if before.held && after.held {
				rep.Class("holder-replaced")
			}
		} else if op.Kind == "set" || op.Kind == "open" || op.Kind == "close" {
			rep.Class("control-op-without-holder-change")
		}
	}
	if changes >= 3 && rep.Has("holder-replaced") && rep.Has("control-op-without-holder-change") {
		rep.Nontrivial()
	}
	return nil
}

func TestC05Digests(t *testing.T) {
	r := &kit.Runner[WScript]{Name: "TestC05Digests", Exec: executeDigests}
	r.Run(t, genWScript)
}
