package verif_c20_test

// TestC20Virtual: the completeness and authorisation clauses on a virtual channel, sequentially
// (no schedule involved): several writers with authorities open, change authority, write and
// close on one virtual channel while one always-ready streamer is subscribed. Virtual channels
// are controlled in shared mode: every open writer whose authority equals the highest one is
// authorised. The streamer must receive exactly the frames written by authorised writers, in
// order, each with exactly the samples written - also frames whose series holds no sample. A marker frame on a second channel bounds what has to have arrived.

import (
	"context"
	"encoding/binary"
	"fmt"
	"sort"
	"testing"
	"time"

	"github.com/synnaxlabs/cesium"
	kit "github.com/synnaxlabs/cesium/internal/verifkit"
	"github.com/synnaxlabs/x/confluence"
	xcontrol "github.com/synnaxlabs/x/control"
	xfs "github.com/synnaxlabs/x/io/fs"
	"github.com/synnaxlabs/x/signal"
	"github.com/synnaxlabs/x/telem"
	"pgregory.net/rapid"
)

type VOp struct {
	Kind string `json:"kind"` // open set write close
	W    int    `json:"w"`
	Auth uint8  `json:"auth,omitempty"`
	N    int    `json:"n"` // write: samples in the frame, 0 = a series without samples
}

type VScript struct {
	Ops []VOp `json:"ops"`
}

func genVScript(t *rapid.T) VScript {
	var sc VScript
	open := map[int]bool{}
	next := 0
	auth := rapid.SampledFrom([]uint8{1, 5, 5, 100, 200})
	for i, n := 0, rapid.IntRange(3, 24).Draw(t, "nops"); i < n; i++ {
		var kinds []string
		if len(open) < 3 {
			kinds = append(kinds, "open", "open")
		}
		if len(open) > 0 {
			kinds = append(kinds, "write", "write", "write", "write", "set", "close")
		}
		pick := func() int {
			var ids []int
			for id := range open {
				ids = append(ids, id)
			}
			sort.Ints(ids)
			return rapid.SampledFrom(ids).Draw(t, "w")
		}
		switch k := rapid.SampledFrom(kinds).Draw(t, "kind"); k {
		case "open":
			sc.Ops = append(sc.Ops, VOp{Kind: k, W: next, Auth: auth.Draw(t, "auth")})
			open[next] = true
			next++
		case "set":
			sc.Ops = append(sc.Ops, VOp{Kind: k, W: pick(), Auth: auth.Draw(t, "auth")})
		case "write":
			sc.Ops = append(sc.Ops, VOp{Kind: k, W: pick(), N: rapid.SampledFrom([]int{0, 1, 1, 2, 3}).Draw(t, "n")})
		case "close":
			id := pick()
			sc.Ops = append(sc.Ops, VOp{Kind: k, W: id})
			delete(open, id)
		}
	}
	return sc
}

func executeV(sc VScript, rep *kit.Report) error {
	ctx := context.Background()
	db, err := cesium.Open(ctx, "", cesium.WithFS(xfs.NewMem()),
		cesium.WithVerifStreamingConfig(cesium.DBStreamingConfig{BufferSize: 1000, SlowConsumerTimeout: 60 * time.Second}))
	if err != nil {
		return kit.Fail("setup", "open: %v", err)
	}
	defer db.Close()
	const vK, markK = cesium.ChannelKey(50), cesium.ChannelKey(51)
	for _, c := range []cesium.Channel{
		{Key: vK, Name: "v", DataType: telem.Int64T, Virtual: true},
		{Key: markK, Name: "mark", DataType: telem.Int64T, Virtual: true},
	} {
		if cerr := db.CreateChannel(ctx, c); cerr != nil {
			return kit.Fail("setup", "create: %v", cerr)
		}
	}
	s, serr := db.NewStreamer(ctx, cesium.StreamerConfig{Channels: []cesium.ChannelKey{vK, markK}, SendOpenAck: true})
	if serr != nil {
		return kit.Fail("setup", "streamer: %v", serr)
	}
	in, out := confluence.Attach(s, 256)
	sctx, cancel := signal.Isolated()
	s.Flow(sctx, confluence.CloseOutputInletsOnExit())
	defer func() {
		in.Close()
		_ = sctx.Wait()
		cancel()
	}()
	select {
	case <-out.Outlet():
	case <-time.After(30 * time.Second):
		rep.Discard("timeout")
		return nil
	}
	type mw struct {
		w    *cesium.Writer
		auth uint8
		pos  int
	}
	ws := map[int]*mw{}
	defer func() {
		for _, w := range ws {
			_ = w.w.Close()
		}
	}()
	// holder: the leading writer (highest authority, earliest open); authorised: every writer at
	// the leading authority (shared mode)
	holder := func() int {
		best := -1
		for id, w := range ws {
			if best < 0 || w.auth > ws[best].auth || (w.auth == ws[best].auth && w.pos < ws[best].pos) {
				best = id
			}
		}
		return best
	}
	authorised := func(id int) bool { h := holder(); return h >= 0 && ws[id].auth == ws[h].auth }
	yes := true
	counter, val, changes := 0, int64(0), 0
	var expected [][]int64
	for i, op := range sc.Ops {
		where := fmt.Sprintf("op %d %+v", i, op)
		before := holder()
		switch op.Kind {
		case "open":
			w, oerr := db.OpenWriter(ctx, cesium.WriterConfig{Channels: []cesium.ChannelKey{vK}, Start: telem.Now(), Sync: &yes,
				Authorities:    []xcontrol.Authority{xcontrol.Authority(op.Auth)},
				ControlSubject: xcontrol.Subject{Key: fmt.Sprintf("w%d", op.W)}})
			if oerr != nil {
				return kit.Fail("open-writer", "%s: %v", where, oerr)
			}
			ws[op.W] = &mw{w: w, auth: op.Auth, pos: counter}
			counter++
		case "set":
			if serr := ws[op.W].w.SetAuthority(cesium.WriterConfig{Authorities: []xcontrol.Authority{xcontrol.Authority(op.Auth)}}); serr != nil {
				return kit.Fail("set-authority", "%s: %v", where, serr)
			}
			ws[op.W].auth = op.Auth
		case "write":
			vals := make([]int64, op.N)
			for k := range vals {
				val++
				vals[k] = val
			}
			auth, werr := ws[op.W].w.Write(telem.UnaryFrame(vK, telem.NewSeriesV(vals...)))
			if werr != nil {
				return kit.Fail("write-error", "%s: %v", where, werr)
			}
			want := authorised(op.W)
			if auth != want {
				return kit.Fail("authorized-flag", "%s: Write reported authorized=%v; the leading writer is w%d with authority %d, this writer has %d", where, auth, holder(), ws[holder()].auth, ws[op.W].auth)
			}
			if want {
				expected = append(expected, vals)
				rep.Class("authorized-write")
				if op.N == 0 {
					rep.Class("authorized-write-without-samples")
				}
			} else {
				rep.Class("unauthorized-write")
			}
		case "close":
			if cerr := ws[op.W].w.Close(); cerr != nil {
				return kit.Fail("close-writer", "%s: %v", where, cerr)
			}
			delete(ws, op.W)
		}
		if after := holder(); after != before && before >= 0 && after >= 0 {
			changes++
			rep.Class("control-moved-between-open-writers")
		}
	}
	mk, merr := db.OpenWriter(ctx, cesium.WriterConfig{Channels: []cesium.ChannelKey{markK}, Start: telem.Now(), Sync: &yes})
	if merr != nil {
		return kit.Fail("setup", "marker writer: %v", merr)
	}
	if _, werr := mk.Write(telem.UnaryFrame(markK, telem.NewSeriesV[int64](7))); werr != nil {
		_ = mk.Close()
		return kit.Fail("setup", "marker write: %v", werr)
	}
	_ = mk.Close()
	var got [][]int64
	deadline := time.After(30 * time.Second)
recv:
	for {
		select {
		case r := <-out.Outlet():
			for k, sr := range r.Frame.Entries() {
				if k == markK {
					break recv
				}
				vals := []int64{}
				for o := 0; o+8 <= len(sr.Data); o += 8 {
					vals = append(vals, int64(binary.LittleEndian.Uint64(sr.Data[o:])))
				}
				got = append(got, vals)
			}
		case <-deadline:
			rep.Discard("timeout")
			return nil
		}
	}
	for i := 0; i < len(got) || i < len(expected); i++ {
		switch {
		case i >= len(expected):
			return kit.Fail("unexpected-frame-relayed", "the streamer received %d frames, frame %d %v was not written by a writer in control (expected %v)", len(got), i, got[i], expected)
		case i >= len(got):
			return kit.Fail("authorised-frame-not-relayed", "an always-ready streamer received %d of the %d frames written by writers in control; frame %d %v is missing (received %v)", len(got), len(expected), i, expected[i], got)
		case fmt.Sprint(got[i]) != fmt.Sprint(expected[i]):
			return kit.Fail("relayed-frame-differs", "frame %d received by the streamer is %v, the %d-th authorised write was %v (received %v, expected %v)", i, got[i], i, expected[i], got, expected)
		}
	}
	if changes >= 1 && rep.Has("unauthorized-write") && rep.Has("authorized-write") {
		rep.Nontrivial()
	}
	return nil
}

func TestC20Virtual(t *testing.T) {
	r := &kit.Runner[VScript]{Name: "TestC20Virtual", Exec: executeV}
	r.Run(t, genVScript)
}
