// C20 — streamers see an ordered, filtered, duplicate-free view of writes.
package verif_c20_test

import (
	"context"
	"encoding/binary"
	"fmt"
	"os"
	"runtime"
	"runtime/pprof"
	"sort"
	"strings"
	"sync"
	"sync/atomic"
	"testing"
	"time"

	"github.com/synnaxlabs/cesium"
	kit "github.com/synnaxlabs/cesium/internal/verifkit"
	"github.com/synnaxlabs/x/confluence"
	xcontrol "github.com/synnaxlabs/x/control"
	xfs "github.com/synnaxlabs/x/io/fs"
	"github.com/synnaxlabs/x/signal"
	"github.com/synnaxlabs/x/telem"
	"pgregory.net/rapid"
)

type WPlan struct {
	Key        uint32 `json:"key"`
	StreamOnly bool   `json:"stream_only,omitempty"`
	Frames     int    `json:"frames"`
	PerFrame   int    `json:"per_frame"`
	Contender  bool   `json:"contender,omitempty"` // a second, lower-authority writer on the same key
	Yield      int    `json:"yield,omitempty"`     // Gosched every n frames
	// DataKey != 0: the writer also owns an int64 data channel indexed by Key and every
	// frame carries both series. ContendOn says which of the two channels the contender is
	// opened on: "" or "index" (Key only), "data" (DataKey only: it is refused on the data
	// channel itself, its index is not in its frame), "both".
	DataKey   uint32 `json:"data_key,omitempty"`
	ContendOn string `json:"contend_on,omitempty"`
}

// wkeys lists the channels a writer's frames carry.
func (w WPlan) wkeys() []uint32 {
	if w.DataKey != 0 {
		return []uint32{w.Key, w.DataKey}
	}
	return []uint32{w.Key}
}

type SPlan struct {
	Keys       []uint32 `json:"keys"`
	ResubAfter int      `json:"resub_after,omitempty"` // >0: re-subscribe after writer 0 wrote this many frames
	NewKeys    []uint32 `json:"new_keys,omitempty"`
	EarlyAfter int      `json:"early_after,omitempty"` // >0: disconnect after writer 0 wrote this many frames
	Stall      bool     `json:"stall,omitempty"`       // the consumer never reads (bounded-blocking clause)
}

// WidePlan adds one writer whose frames carry N (>= 128) series on virtual channels, with a
// higher-authority holder on some of them: the writer is authorised on part of every frame
// only. Frames of 128 or more series take the unmasked code paths of telem.Frame.
type WidePlan struct {
	N      int   `json:"n"`
	Held   []int `json:"held"` // indices of the channels held by the higher-authority writer
	Frames int   `json:"frames"`
}

type Plan struct {
	Wide      *WidePlan `json:"wide,omitempty"`
	Writers   []WPlan   `json:"writers"`
	Streamers []SPlan   `json:"streamers"`
	// Production20ms uses the production slow-consumer timeout (only the blocking and
	// ordering clauses apply then); otherwise the timeout is raised to 60 s.
	Production20ms bool `json:"production_20ms,omitempty"`
	// RelayBuf is the relay's buffer size (0 = 1000, the production value): with 1 or 2 a
	// short burst saturates the relay inlet, which 40-frame writers never do at 1000.
	RelayBuf int `json:"relay_buf,omitempty"`
	// Abandoned streamers are opened with SendOpenAck on an unbuffered outlet and cancelled
	// before anybody reads the acknowledgement; they must leave nothing behind that slows
	// the writers down.
	Abandoned int `json:"abandoned,omitempty"`
}

func genPlan(t *rapid.T) Plan {
	var p Plan
	nw := rapid.IntRange(1, 4).Draw(t, "writers")
	var keys []uint32
	for i := 0; i < nw; i++ {
		k := uint32(i + 1)
		keys = append(keys, k)
		wp := WPlan{Key: k, StreamOnly: rapid.IntRange(0, 3).Draw(t, "stream_only") == 0,
			Frames: rapid.IntRange(1, 40).Draw(t, "frames"), PerFrame: rapid.IntRange(1, 3).Draw(t, "per_frame"),
			Contender: rapid.IntRange(0, 3).Draw(t, "contender") == 0, Yield: rapid.IntRange(0, 5).Draw(t, "yield")}
		if rapid.IntRange(0, 2).Draw(t, "with_data") == 0 {
			wp.DataKey = k + 100
			keys = append(keys, wp.DataKey)
			if wp.Contender {
				wp.ContendOn = rapid.SampledFrom([]string{"index", "data", "data", "both"}).Draw(t, "contend_on")
			}
		}
		p.Writers = append(p.Writers, wp)
	}
	subset := func(label string) []uint32 {
		var s []uint32
		for _, k := range keys {
			if rapid.Bool().Draw(t, label) {
				s = append(s, k)
			}
		}
		if len(s) == 0 {
			s = []uint32{keys[0]}
		}
		return s
	}
	ns := rapid.IntRange(1, 4).Draw(t, "streamers")
	p.Production20ms = rapid.IntRange(0, 4).Draw(t, "prod") == 0
	for i := 0; i < ns; i++ {
		s := SPlan{Keys: subset("sub")}
		switch rapid.IntRange(0, 5).Draw(t, "skind") {
		case 0:
			s.ResubAfter = rapid.IntRange(1, p.Writers[0].Frames).Draw(t, "resub_after")
			s.NewKeys = subset("newsub")
			if rapid.IntRange(0, 3).Draw(t, "resub_empty") == 0 {
				s.NewKeys = []uint32{} // re-subscribe to nothing
			}
		case 1:
			s.EarlyAfter = rapid.IntRange(1, p.Writers[0].Frames).Draw(t, "early_after")
		case 2:
			if p.Production20ms {
				s.Stall = true
			}
		}
		p.Streamers = append(p.Streamers, s)
	}
	p.RelayBuf = rapid.SampledFrom([]int{0, 0, 0, 1, 2, 8}).Draw(t, "relay_buf")
	if rapid.IntRange(0, 4).Draw(t, "abandon") == 0 {
		p.Abandoned = rapid.IntRange(1, 2).Draw(t, "abandoned")
	}
	if rapid.IntRange(0, 6).Draw(t, "wide") == 0 {
		w := &WidePlan{N: rapid.IntRange(128, 140).Draw(t, "wide_n"), Frames: rapid.IntRange(1, 8).Draw(t, "wide_frames")}
		nh := rapid.SampledFrom([]int{1, 2, 3, 5, 64, 120}).Draw(t, "wide_nheld")
		perm := rapid.Permutation(seqInts(w.N)).Draw(t, "wide_perm")
		w.Held = append(w.Held, perm[:nh]...)
		sort.Ints(w.Held)
		p.Wide = w
	}
	return p
}

func seqInts(n int) []int {
	out := make([]int, n)
	for i := range out {
		out[i] = i
	}
	return out
}

const wideBase = 5000

const contenderOffset = 1_000_000

func (w WPlan) contenderKeys() []uint32 {
	switch w.ContendOn {
	case "data":
		return []uint32{w.DataKey}
	case "both":
		return []uint32{w.Key, w.DataKey}
	}
	return []uint32{w.Key}
}

func base(key uint32) int64 { return int64(key) * 10_000_000 }

type recv struct {
	mu     sync.Mutex
	frames []cesium.Frame
	count  atomic.Int64
}

func executePlan(p Plan, rep *kit.Report) error {
	done := make(chan error, 1)
	go func() { done <- run(p, rep) }()
	select {
	case err := <-done:
		return err
	case <-time.After(120 * time.Second):
		var sb strings.Builder
		_ = pprof.Lookup("goroutine").WriteTo(&sb, 1)
		dump := sb.String()
		if len(dump) > 20000 {
			dump = dump[:20000]
		}
		fmt.Fprintln(os.Stderr, "VERIF-STALL", dump)
		return kit.Fail("stall", "plan did not finish within 120 s (expected: well under a second); goroutines:\n%s", dump)
	}
}

func run(p Plan, rep *kit.Report) (err error) {
	ctx := context.Background()
	timeout := 60 * time.Second
	if p.Production20ms {
		timeout = 20 * time.Millisecond
		rep.Class("production-timeout")
	}
	relayBuf := 1000
	if p.RelayBuf > 0 {
		relayBuf = p.RelayBuf
		rep.Class("small-relay-buffer")
	}
	db, oerr := cesium.Open(ctx, "", cesium.WithFS(xfs.NewMem()),
		cesium.WithVerifStreamingConfig(cesium.DBStreamingConfig{BufferSize: relayBuf, SlowConsumerTimeout: timeout}))
	if oerr != nil {
		return kit.Fail("setup", "open: %v", oerr)
	}
	closed := false
	defer func() {
		if !closed {
			_ = db.Close()
		}
	}()
	for _, w := range p.Writers {
		if cerr := db.CreateChannel(ctx, cesium.Channel{Key: w.Key, Name: fmt.Sprint("c", w.Key), DataType: telem.TimeStampT, IsIndex: true}); cerr != nil {
			return kit.Fail("setup", "create: %v", cerr)
		}
		if w.DataKey != 0 {
			if cerr := db.CreateChannel(ctx, cesium.Channel{Key: w.DataKey, Name: fmt.Sprint("d", w.DataKey), DataType: telem.Int64T, Index: w.Key}); cerr != nil {
				return kit.Fail("setup", "create data channel: %v", cerr)
			}
			rep.Class("writer-with-data-channel")
		}
	}
	// ---- streamers
	type sstate struct {
		plan    SPlan
		in      confluence.Inlet[cesium.StreamerRequest]
		out     confluence.Outlet[cesium.StreamerResponse]
		sctx    signal.Context
		cancel  context.CancelFunc
		got     *recv
		rdone   chan struct{}
		stopped atomic.Bool
	}
	var ss []*sstate
	for _, sp := range p.Streamers {
		s, serr := db.NewStreamer(ctx, cesium.StreamerConfig{Channels: sp.Keys, SendOpenAck: true})
		if serr != nil {
			return kit.Fail("setup", "NewStreamer: %v", serr)
		}
		// unbuffered inlet: a re-subscribe request is "handed over" exactly when the
		// streamer's loop has taken it, which is what the key-set clause is stated against
		in := confluence.NewStream[cesium.StreamerRequest](0)
		out := confluence.NewStream[cesium.StreamerResponse](1)
		s.InFrom(in)
		s.OutTo(out)
		sctx, cancel := signal.Isolated()
		s.Flow(sctx, confluence.CloseOutputInletsOnExit())
		st := &sstate{plan: sp, in: in, out: out, sctx: sctx, cancel: cancel, got: &recv{}, rdone: make(chan struct{})}
		// wait for the open ack: only frames written after it count for completeness
		select {
		case <-out.Outlet():
		case <-time.After(60 * time.Second):
			return kit.Fail("stall-open-ack", "streamer did not acknowledge opening within 60 s")
		}
		if !sp.Stall {
			go func() {
				defer close(st.rdone)
				for r := range st.out.Outlet() {
					st.got.mu.Lock()
					st.got.frames = append(st.got.frames, r.Frame)
					st.got.mu.Unlock()
					st.got.count.Add(1)
				}
			}()
		} else {
			close(st.rdone)
			rep.Class("stalled-consumer")
		}
		ss = append(ss, st)
	}
	// ---- abandoned streamers: cancelled while the open acknowledgement is still undelivered
	for i := 0; i < p.Abandoned && len(p.Writers) > 0; i++ {
		as, aerr := db.NewStreamer(ctx, cesium.StreamerConfig{Channels: []uint32{p.Writers[0].Key}, SendOpenAck: true})
		if aerr != nil {
			return kit.Fail("setup", "NewStreamer(abandoned): %v", aerr)
		}
		ain := confluence.NewStream[cesium.StreamerRequest](0)
		aout := confluence.NewStream[cesium.StreamerResponse](0) // nobody ever reads it
		as.InFrom(ain)
		as.OutTo(aout)
		actx, acancel := signal.Isolated()
		as.Flow(actx, confluence.CloseOutputInletsOnExit())
		runtime.Gosched()
		acancel()
		waited := make(chan struct{})
		go func() { _ = actx.Wait(); close(waited) }()
		select {
		case <-waited:
		case <-time.After(60 * time.Second):
			return kit.Fail("stall", "a streamer cancelled before its open acknowledgement was read did not stop within 60 s")
		}
		rep.Class("abandoned-streamer")
	}
	// ---- writers
	var progress0 atomic.Int64
	var wg sync.WaitGroup
	var werrMu sync.Mutex
	var werr error
	fail := func(e error) {
		werrMu.Lock()
		if werr == nil {
			werr = e
		}
		werrMu.Unlock()
	}
	yes := true
	sent := make([]int, len(p.Writers))             // frames whose Write returned, per writer
	started := make([]atomic.Int64, len(p.Writers)) // frames whose Write call has begun, per writer
	for wi, wp := range p.Writers {
		mode := cesium.WriterModePersistStream
		if wp.StreamOnly {
			mode = cesium.WriterModeStreamOnly
		}
		w, oerr := db.OpenWriter(ctx, cesium.WriterConfig{Channels: wp.wkeys(), Start: telem.TimeStamp(base(wp.Key)),
			Mode: mode, Sync: &yes, Authorities: []xcontrol.Authority{200}, ControlSubject: xcontrol.Subject{Key: fmt.Sprintf("w%d", wi)}})
		if oerr != nil {
			return kit.Fail("setup", "OpenWriter: %v", oerr)
		}
		var cw *cesium.Writer
		if wp.Contender {
			cw, oerr = db.OpenWriter(ctx, cesium.WriterConfig{Channels: wp.contenderKeys(), Start: telem.TimeStamp(base(wp.Key)),
				Mode: mode, Sync: &yes, Authorities: []xcontrol.Authority{100}, ControlSubject: xcontrol.Subject{Key: fmt.Sprintf("contender%d", wi)}})
			if oerr != nil {
				_ = w.Close()
				return kit.Fail("setup", "OpenWriter(contender): %v", oerr)
			}
			rep.Class("unauthorised-contender")
			if wp.ContendOn != "" {
				rep.Class("unauthorised-contender-on-" + wp.ContendOn)
			}
		}
		wg.Add(1)
		go func(wi int, wp WPlan, w, cw *cesium.Writer) {
			defer wg.Done()
			seq := int64(0)
			for f := 0; f < wp.Frames; f++ {
				stamps := make([]telem.TimeStamp, wp.PerFrame)
				for i := range stamps {
					stamps[i] = telem.TimeStamp(base(wp.Key) + seq)
					seq++
				}
				started[wi].Store(int64(f + 1))
				fr := telem.UnaryFrame(wp.Key, telem.NewSeriesV(stamps...))
				if wp.DataKey != 0 {
					vals := make([]int64, len(stamps))
					for i := range vals {
						vals[i] = base(wp.DataKey) + int64(stamps[i]) - base(wp.Key)
					}
					fr = telem.MultiFrame([]uint32{wp.Key, wp.DataKey}, []telem.Series{telem.NewSeriesV(stamps...), telem.NewSeriesV(vals...)})
				}
				auth, e := w.Write(fr)
				if e != nil || !auth {
					fail(kit.Fail("writer-error", "writer %d frame %d: authorized=%v err=%v", wi, f, auth, e))
					return
				}
				sent[wi] = f + 1
				if cw != nil {
					cs := make([]telem.TimeStamp, 1)
					cs[0] = telem.TimeStamp(base(wp.Key) + contenderOffset + int64(f))
					cd := []int64{base(wp.DataKey) + contenderOffset + int64(f)}
					var cfr cesium.Frame
					switch wp.ContendOn {
					case "data":
						cfr = telem.UnaryFrame(wp.DataKey, telem.NewSeriesV(cd...))
					case "both":
						cfr = telem.MultiFrame([]uint32{wp.Key, wp.DataKey}, []telem.Series{telem.NewSeriesV(cs...), telem.NewSeriesV(cd...)})
					default:
						cfr = telem.UnaryFrame(wp.Key, telem.NewSeriesV(cs...))
					}
					cauth, ce := cw.Write(cfr)
					if ce != nil {
						fail(kit.Fail("writer-error", "contender %d frame %d: %v", wi, f, ce))
						return
					}
					if cauth {
						fail(kit.Fail("contender-authorised", "the lower-authority writer on channel %d was told its write is authorised", wp.Key))
						return
					}
				}
				if wi == 0 {
					progress0.Add(1)
				}
				if wp.Yield > 0 && f%wp.Yield == 0 {
					runtime.Gosched()
				}
			}
			if e := w.Close(); e != nil {
				fail(kit.Fail("writer-close", "writer %d close: %v", wi, e))
			}
			if cw != nil {
				if e := cw.Close(); e != nil {
					fail(kit.Fail("writer-close", "contender %d close: %v", wi, e))
				}
			}
		}(wi, wp, w, cw)
	}
	// ---- wide writer: frames of >= 128 series, authorised on part of them only
	var wideGot *recv
	var wideStop func()
	if p.Wide != nil {
		rep.Class("wide-frames")
		held := map[uint32]bool{}
		var all, heldKeys []uint32
		for i := 0; i < p.Wide.N; i++ {
			k := uint32(wideBase + i)
			all = append(all, k)
			if cerr := db.CreateChannel(ctx, cesium.Channel{Key: k, Name: fmt.Sprint("v", k), DataType: telem.Int64T, Virtual: true}); cerr != nil {
				return kit.Fail("setup", "create virtual channel: %v", cerr)
			}
		}
		for _, i := range p.Wide.Held {
			held[uint32(wideBase+i)] = true
			heldKeys = append(heldKeys, uint32(wideBase+i))
		}
		hw, herr := db.OpenWriter(ctx, cesium.WriterConfig{Channels: heldKeys, Start: telem.TimeStamp(1), Mode: cesium.WriterModeStreamOnly, Sync: &yes,
			Authorities: []xcontrol.Authority{250}, ControlSubject: xcontrol.Subject{Key: "wide-holder"}})
		if herr != nil {
			return kit.Fail("setup", "OpenWriter(wide holder): %v", herr)
		}
		ww, werr2 := db.OpenWriter(ctx, cesium.WriterConfig{Channels: all, Start: telem.TimeStamp(1), Mode: cesium.WriterModeStreamOnly, Sync: &yes,
			Authorities: []xcontrol.Authority{200}, ControlSubject: xcontrol.Subject{Key: "wide-writer"}})
		if werr2 != nil {
			_ = hw.Close()
			return kit.Fail("setup", "OpenWriter(wide): %v", werr2)
		}
		wst, serr := db.NewStreamer(ctx, cesium.StreamerConfig{Channels: all, SendOpenAck: true})
		if serr != nil {
			return kit.Fail("setup", "NewStreamer(wide): %v", serr)
		}
		win := confluence.NewStream[cesium.StreamerRequest](0)
		wout := confluence.NewStream[cesium.StreamerResponse](1)
		wst.InFrom(win)
		wst.OutTo(wout)
		wctx, wcancel := signal.Isolated()
		wst.Flow(wctx, confluence.CloseOutputInletsOnExit())
		select {
		case <-wout.Outlet():
		case <-time.After(60 * time.Second):
			return kit.Fail("stall-open-ack", "wide streamer did not acknowledge opening within 60 s")
		}
		wideGot = &recv{}
		wdone := make(chan struct{})
		go func() {
			defer close(wdone)
			for r := range wout.Outlet() {
				wideGot.mu.Lock()
				wideGot.frames = append(wideGot.frames, r.Frame)
				wideGot.mu.Unlock()
				wideGot.count.Add(1)
			}
		}()
		wideStop = func() {
			win.Close()
			_ = wctx.Wait()
			wcancel()
			<-wdone
		}
		wg.Add(1)
		go func() {
			defer wg.Done()
			for f := 0; f < p.Wide.Frames; f++ {
				series := make([]telem.Series, len(all))
				for i := range all {
					series[i] = telem.NewSeriesV(int64(f)*1000 + int64(i))
				}
				if _, e := ww.Write(telem.MultiFrame(all, series)); e != nil {
					fail(kit.Fail("writer-error", "wide writer frame %d: %v", f, e))
					return
				}
			}
			if e := ww.Close(); e != nil {
				fail(kit.Fail("writer-close", "wide writer close: %v", e))
			}
			if e := hw.Close(); e != nil {
				fail(kit.Fail("writer-close", "wide holder close: %v", e))
			}
		}()
		_ = held
	}
	// ---- mid-run streamer actions, keyed on writer 0's progress
	var awg sync.WaitGroup
	resubAt := make([]int64, len(ss)) // number of frames the streamer had received when the re-subscribe was handed over
	// resubSnap[si][wi]: number of writer wi's frames whose Write had begun when streamer si's
	// re-subscribe was handed over. Frames with a larger index are filtered with the new key set.
	resubSnap := make([][]int64, len(ss))
	for si, st := range ss {
		if st.plan.ResubAfter == 0 && st.plan.EarlyAfter == 0 {
			continue
		}
		awg.Add(1)
		go func(si int, st *sstate) {
			defer awg.Done()
			target := int64(st.plan.ResubAfter + st.plan.EarlyAfter)
			for progress0.Load() < target {
				if progress0.Load() >= int64(p.Writers[0].Frames) {
					break
				}
				runtime.Gosched()
			}
			if st.plan.ResubAfter > 0 {
				st.in.Inlet() <- cesium.StreamerRequest{Channels: st.plan.NewKeys}
				resubAt[si] = st.got.count.Load()
				snap := make([]int64, len(p.Writers))
				for wi := range p.Writers {
					snap[wi] = started[wi].Load()
				}
				resubSnap[si] = snap
				rep.Class("resubscribe-mid-run")
			} else {
				st.stopped.Store(true)
				st.in.Close()
				_ = st.sctx.Wait()
				rep.Class("disconnect-mid-run")
			}
		}(si, st)
	}
	wg.Wait()
	awg.Wait()
	if werr != nil {
		return werr
	}
	// ---- completeness: stable, always-ready streamers with the raised timeout must receive
	// every frame written on their keys
	expected := func(st *sstate) int {
		n := 0
		for wi, wp := range p.Writers {
			if contains(st.plan.Keys, wp.Key) || (wp.DataKey != 0 && contains(st.plan.Keys, wp.DataKey)) {
				n += sent[wi]
			}
		}
		return n
	}
	for si, st := range ss {
		stable := st.plan.ResubAfter == 0 && st.plan.EarlyAfter == 0 && !st.plan.Stall
		if stable && !p.Production20ms {
			want := int64(expected(st))
			deadline := time.Now().Add(30 * time.Second)
			for st.got.count.Load() < want && time.Now().Before(deadline) {
				time.Sleep(time.Millisecond)
			}
			if got := st.got.count.Load(); got < want {
				return kit.Fail("missing-frames", "streamer %d (keys %v, always ready, slow-consumer timeout 60 s) received %d of the %d frames written on its keys", si, st.plan.Keys, got, want)
			}
			rep.Class("completeness-checked")
		}
	}
	// ---- completeness after a re-subscribe: an always-ready streamer must receive every frame
	// on a key of its new set whose Write began after the request was handed over (the loop
	// assigns the new set before it takes the next frame), and every frame on a key that is in
	// both sets. Per-writer order is preserved, so waiting for the last such frame suffices.
	type span struct {
		key      uint32
		from, to int64 // sample sequence numbers [from, to)
	}
	resubWant := make([][]span, len(ss))
	for si, st := range ss {
		if st.plan.ResubAfter == 0 || st.plan.Stall || p.Production20ms || resubSnap[si] == nil {
			continue
		}
		for wi, wp := range p.Writers {
			for _, key := range wp.wkeys() {
				if !contains(st.plan.NewKeys, key) {
					continue
				}
				from := resubSnap[si][wi]
				if contains(st.plan.Keys, key) {
					from = 0
				}
				if int64(sent[wi]) > from {
					resubWant[si] = append(resubWant[si], span{key, from * int64(wp.PerFrame), int64(sent[wi]) * int64(wp.PerFrame)})
				}
			}
		}
		hasSeq := func(key uint32, seq int64) bool {
			st.got.mu.Lock()
			defer st.got.mu.Unlock()
			for i := len(st.got.frames) - 1; i >= 0; i-- {
				for k, sr := range st.got.frames[i].Entries() {
					if k != key || len(sr.Data) < 8 {
						continue
					}
					if v := int64(binary.LittleEndian.Uint64(sr.Data[len(sr.Data)-8:])) - base(k); v >= seq && v < contenderOffset {
						return true
					}
				}
			}
			return false
		}
		deadline := time.Now().Add(30 * time.Second)
		for _, sp := range resubWant[si] {
			for !hasSeq(sp.key, sp.to-1) && time.Now().Before(deadline) {
				time.Sleep(time.Millisecond)
			}
		}
	}
	// ---- wide frames: every frame received carries exactly the series the writer was
	// authorised on, with that frame's values; with the raised timeout all frames arrive
	if p.Wide != nil {
		if !p.Production20ms {
			deadline := time.Now().Add(30 * time.Second)
			for wideGot.count.Load() < int64(p.Wide.Frames) && time.Now().Before(deadline) {
				time.Sleep(time.Millisecond)
			}
		}
		wideStop()
		held := map[int]bool{}
		for _, i := range p.Wide.Held {
			held[i] = true
		}
		if got := int(wideGot.count.Load()); !p.Production20ms && got != p.Wide.Frames {
			return kit.Fail("missing-frames", "the streamer subscribed to the %d channels of the wide writer received %d of its %d frames (always ready, slow-consumer timeout 60 s)", p.Wide.N, got, p.Wide.Frames)
		}
		prevF := int64(-1)
		for _, fr := range wideGot.frames {
			n, fnum := 0, int64(-1)
			for k, sr := range fr.Entries() {
				i := int(k) - wideBase
				if i < 0 || i >= p.Wide.N || len(sr.Data) != 8 {
					return kit.Fail("unsubscribed-key", "wide streamer received an unexpected series for channel %d (%d bytes)", k, len(sr.Data))
				}
				if held[i] {
					return kit.Fail("unauthorised-series-relayed", "wide streamer received a series for channel %d, on which the writer was not authorised", k)
				}
				v := int64(binary.LittleEndian.Uint64(sr.Data))
				if fnum >= 0 && v/1000 != fnum || v%1000 != int64(i) {
					return kit.Fail("wide-frame-mixed", "wide streamer: series of channel %d carries value %d inside frame %d", k, v, fnum)
				}
				fnum = v / 1000
				n++
			}
			if want := p.Wide.N - len(p.Wide.Held); n != want {
				return kit.Fail("authorised-series-dropped", "wide streamer: frame %d of the wide writer arrived with %d series; the writer was authorised on %d of its %d channels (%d held by a higher authority)", fnum, n, want, p.Wide.N, len(p.Wide.Held))
			}
			if fnum <= prevF {
				return kit.Fail("reordered", "wide streamer: frame %d arrived after frame %d", fnum, prevF)
			}
			prevF = fnum
		}
		rep.Class("wide-frames-checked")
	}
	// ---- disconnect everything, close the DB
	for _, st := range ss {
		if !st.stopped.Load() {
			if st.plan.Stall {
				// a consumer that never reads its outlet cannot expect the streamer to notice a
				// closed inlet while it is blocked handing over a frame: it cancels instead
				st.cancel()
			} else {
				st.in.Close()
			}
			_ = st.sctx.Wait()
		}
		st.cancel()
		<-st.rdone
	}
	closed = true
	if cerr := db.Close(); cerr != nil {
		return kit.Fail("db-close", "DB.Close: %v", cerr)
	}
	// ---- per-streamer oracles on what was received
	for si, st := range ss {
		allowed := map[uint32]bool{}
		for _, k := range st.plan.Keys {
			allowed[k] = true
		}
		for _, k := range st.plan.NewKeys {
			allowed[k] = true
		}
		last := map[uint32]int64{}
		seen := map[uint32]map[int64]bool{}
		for fi, fr := range st.got.frames {
			for k, s := range fr.Entries() {
				if !allowed[k] {
					return kit.Fail("unsubscribed-key", "streamer %d received a series for channel %d, never in its key sets %v / %v", si, k, st.plan.Keys, st.plan.NewKeys)
				}
				if st.plan.ResubAfter > 0 && int64(fi) > resubAt[si]+2 && !contains(st.plan.NewKeys, k) {
					// frames delivered well after the re-subscribe was consumed must follow the new set
					// (two frames of slack: one may already sit in the outlet buffer, one in flight)
					return kit.Fail("stale-key-set", "streamer %d received channel %d in frame %d although it re-subscribed to %v after frame %d", si, k, fi, st.plan.NewKeys, resubAt[si])
				}
				for i := 0; i+8 <= len(s.Data); i += 8 {
					v := int64(binary.LittleEndian.Uint64(s.Data[i:])) - base(k)
					if v >= contenderOffset {
						return kit.Fail("unauthorised-series-relayed", "streamer %d received sample %d written by the unauthorised writer on channel %d", si, v, k)
					}
					if prev, ok := last[k]; ok && v <= prev {
						sig := "reordered"
						if v == prev {
							sig = "duplicated"
						}
						return kit.Fail(sig, "streamer %d: channel %d sample seq %d arrived after seq %d", si, k, v, prev)
					}
					last[k] = v
					if seen[k] == nil {
						seen[k] = map[int64]bool{}
					}
					seen[k][v] = true
				}
			}
		}
		for _, sp := range resubWant[si] {
			for q := sp.from; q < sp.to; q++ {
				if !seen[sp.key][q] {
					return kit.Fail("missing-frames-after-resubscribe", "streamer %d (always ready, re-subscribed %v -> %v) never received sample seq %d of channel %d; every frame of that channel with seq in [%d,%d) was written after the re-subscribe was handed over (or the channel is in both key sets)", si, st.plan.Keys, st.plan.NewKeys, q, sp.key, sp.from, sp.to)
				}
			}
			rep.Class("resubscribe-completeness-checked")
			rep.Add("resubscribe_samples_required", sp.to-sp.from)
		}
	}
	if len(p.Writers) >= 2 && (rep.Has("resubscribe-mid-run") || rep.Has("disconnect-mid-run")) {
		ks := make([]string, 0)
		for _, st := range ss {
			ks = append(ks, fmt.Sprint(st.got.count.Load()))
		}
		sort.Strings(ks)
		rep.Nontrivial()
	}
	return nil
}

func contains(s []uint32, k uint32) bool {
	for _, x := range s {
		if x == k {
			return true
		}
	}
	return false
}

func TestC20(t *testing.T) {
	r := &kit.Runner[Plan]{Name: "TestC20", Exec: executePlan}
	r.Run(t, genPlan)
}
