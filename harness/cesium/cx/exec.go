package cx

import (
	"bytes"
	"context"
	"fmt"
	"strings"
	"sync"
	"time"

	"github.com/synnaxlabs/cesium"
	"github.com/synnaxlabs/cesium/internal/verif/tsm"
	kit "github.com/synnaxlabs/cesium/internal/verifkit"
	xfs "github.com/synnaxlabs/x/io/fs"
	"github.com/synnaxlabs/x/telem"
)

// Env is the real system under one script.
type Env struct {
	Ctx     context.Context
	FS      xfs.FS
	DB      *cesium.DB
	Script  Script
	Writers map[int]*cesium.Writer
	// OnStep, if set, is called around every script operation (used by the crash harness
	// to record journal positions): phase is "start" or "end".
	OnStep func(i int, op Op, phase string)
}

func DataType(dt string) telem.DataType { return telem.DataType(dt) }

// OpenDB opens cesium on env.FS with the script's configuration.
func (e *Env) OpenDB() error {
	opts := []cesium.Option{cesium.WithFS(e.FS)}
	if e.Script.FileCap > 0 {
		opts = append(opts, cesium.WithFileSizeCap(telem.Size(e.Script.FileCap)))
	}
	gc := cesium.GCConfig{TryInterval: 24 * time.Hour}
	if e.Script.GCThreshold > 0 {
		gc.Threshold = e.Script.GCThreshold
	}
	opts = append(opts, cesium.WithGCConfig(gc))
	db, err := cesium.Open(e.Ctx, "", opts...)
	if err != nil {
		return err
	}
	e.DB = db
	return nil
}

// CreateChannels creates the script's channels (index channels first).
func (e *Env) CreateChannels() error {
	for _, pass := range []bool{true, false} {
		for _, s := range e.Script.Channels {
			if s.IsIndex != pass {
				continue
			}
			if err := e.DB.CreateChannel(e.Ctx, cesium.Channel{
				Key: s.Key, Name: fmt.Sprintf("ch%d", s.Key), DataType: DataType(s.DataType),
				IsIndex: s.IsIndex, Index: s.Index,
			}); err != nil {
				return err
			}
		}
	}
	return nil
}

// ReadChannel reads one channel over [a,b) and returns its samples. It performs exactly
// the loop of cesium.DB.Read (SeekFirst, Next(TimeSpanMax) until false) but also consults
// the iterator's error, which DB.Read drops (a failing read would otherwise only show up
// as an empty result).
func ReadChannel(ctx context.Context, db *cesium.DB, spec tsm.ChannelSpec, a, b int64) ([][]byte, error) {
	it, err := db.OpenIterator(cesium.IteratorConfig{Channels: []cesium.ChannelKey{spec.Key}, Bounds: telem.TimeRange{Start: telem.TimeStamp(a), End: telem.TimeStamp(b)}})
	if err != nil {
		return nil, err
	}
	var fr cesium.Frame
	if it.SeekFirst() {
		steps := 0
		for it.Next(telem.TimeSpanMax) {
			fr = fr.Extend(it.Value())
			if steps++; steps > 10000 {
				_ = it.Close()
				return nil, fmt.Errorf("iterator did not terminate: Next(TimeSpanMax) returned true %d times", steps)
			}
		}
	}
	if ierr := it.Error(); ierr != nil {
		_ = it.Close()
		return nil, fmt.Errorf("iterator error: %w", ierr)
	}
	if err := it.Close(); err != nil {
		return nil, err
	}
	var out [][]byte
	for k, s := range fr.Entries() {
		if k != spec.Key {
			return nil, fmt.Errorf("read of channel %d returned a series for channel %d", spec.Key, k)
		}
		smp, ok := tsm.Decode(spec.DataType, s.Data)
		if !ok {
			return nil, fmt.Errorf("series of channel %d has malformed layout (%d bytes)", spec.Key, len(s.Data))
		}
		out = append(out, smp...)
	}
	return out, nil
}

// ReadChannelWatchdog is ReadChannel for concurrent harnesses: if the read does not
// return within the timeout (the cesium iterator's goroutine died, e.g. from a recovered
// panic, and the caller waits for a response that never comes) it closes the iterator to
// collect the goroutine's error and reports both.
func ReadChannelWatchdog(ctx context.Context, db *cesium.DB, spec tsm.ChannelSpec, a, b int64, timeout time.Duration) ([][]byte, error) {
	it, err := db.OpenIterator(cesium.IteratorConfig{Channels: []cesium.ChannelKey{spec.Key}, Bounds: telem.TimeRange{Start: telem.TimeStamp(a), End: telem.TimeStamp(b)}})
	if err != nil {
		return nil, err
	}
	type result struct {
		fr  cesium.Frame
		err error
	}
	done := make(chan result, 1)
	go func() {
		var fr cesium.Frame
		if it.SeekFirst() {
			steps := 0
			for it.Next(telem.TimeSpanMax) {
				fr = fr.Extend(it.Value())
				if steps++; steps > 10000 {
					done <- result{fr, fmt.Errorf("iterator did not terminate: Next(TimeSpanMax) returned true %d times", steps)}
					return
				}
			}
		}
		done <- result{fr, it.Error()}
	}()
	var r result
	select {
	case r = <-done:
	case <-time.After(timeout):
		// The iterator is not closed here: the reading goroutine is still inside it, and
		// touching it from this goroutine would itself be a data race. The goroutine dump of
		// the harness's stall watchdog shows where the storage side is stuck.
		return nil, &StalledError{}
	}
	cerr := it.Close()
	if r.err != nil {
		return nil, fmt.Errorf("iterator error: %w", r.err)
	}
	if cerr != nil {
		return nil, cerr
	}
	var out [][]byte
	for k, s := range r.fr.Entries() {
		if k != spec.Key {
			return nil, fmt.Errorf("read of channel %d returned a series for channel %d", spec.Key, k)
		}
		smp, ok := tsm.Decode(spec.DataType, s.Data)
		if !ok {
			return nil, fmt.Errorf("series of channel %d has malformed layout (%d bytes)", spec.Key, len(s.Data))
		}
		out = append(out, smp...)
	}
	return out, nil
}

// StalledError reports a read whose iterator stopped answering.
type StalledError struct{ Err error }

func (e *StalledError) Error() string {
	return fmt.Sprintf("iterator stopped answering; its goroutine ended with: %v", e.Err)
}

// ReadChannelIter reads one channel with a manual iterator loop of automatic
// chunk-sized steps (Next(AutoSpan) returns false only when the bounds are exhausted).
func ReadChannelIter(ctx context.Context, db *cesium.DB, spec tsm.ChannelSpec, a, b int64, chunk int64) ([][]byte, error) {
	it, err := db.OpenIterator(cesium.IteratorConfig{Channels: []cesium.ChannelKey{spec.Key}, AutoChunkSize: chunk,
		Bounds: telem.TimeRange{Start: telem.TimeStamp(a), End: telem.TimeStamp(b)}})
	if err != nil {
		return nil, err
	}
	var out [][]byte
	if it.SeekFirst() {
		for guard := 0; it.Next(cesium.AutoSpan) && guard < 100000; guard++ {
			for _, s := range it.Value().Entries() {
				smp, ok := tsm.Decode(spec.DataType, s.Data)
				if !ok {
					_ = it.Close()
					return nil, fmt.Errorf("series of channel %d has malformed layout", spec.Key)
				}
				out = append(out, smp...)
			}
		}
	}
	// it.Error() is deliberately not consulted: stepping past the last domain with open
	// bounds leaves a "discontinuous" error behind although all data was returned; the
	// property speaks about the samples, which are compared by the caller.
	return out, it.Close()
}

func sameSamples(a, b [][]byte) bool {
	if len(a) != len(b) {
		return false
	}
	for i := range a {
		if !bytes.Equal(a[i], b[i]) {
			return false
		}
	}
	return true
}

func short(v [][]byte) string {
	s := fmt.Sprintf("%d samples[", len(v))
	for i, x := range v {
		if i >= 12 {
			s += " ..."
			break
		}
		s += fmt.Sprintf(" %x", x)
	}
	return s + " ]"
}

// CheckRead compares one channel over [a,b) with the model.
func CheckRead(ctx context.Context, db *cesium.DB, m *tsm.Model, key uint32, a, b int64, where string) error {
	c := m.Chans[key]
	_, want := c.Read(a, b)
	got, err := ReadChannel(ctx, db, c.Spec, a, b)
	if err != nil {
		sig := "read-error"
		// A data channel whose domain starts where its index has no coverage any more:
		// the signature names this situation so that the listed known finding (an index
		// delete snaps the kept part forward to the next sample, past the start of a data
		// domain) stays separate from every other read failure.
		if !c.Spec.IsIndex && strings.Contains(err.Error(), "is not continuous in the index") {
			if dataDomainOutsideIndex(m, c) {
				sig = "read-error:data-domain-start-outside-index-coverage"
			} else if IndexLostCoverage(ctx, db, m, c) {
				sig = "read-error:data-domain-end-outside-index-coverage"
			}
		}
		return kit.Fail(sig, "%s: Read(ch%d, [%d,%d)) failed: %v", where, key, a, b, err)
	}
	if !sameSamples(got, want) {
		return kit.Fail("read-mismatch", "%s: Read(ch%d %s, [%d,%d)) returned %s, model expects %s (timestamps %v)",
			where, key, c.Spec.DataType, a, b, short(got), short(want), firstN(c, a, b))
	}
	return nil
}

// IndexLostCoverage reports, from the engine's own state, whether some stored domain of the
// data channel c reaches past the end of the index domain (chain) it starts in: full-range
// reads of both channels return one series per stored domain with that domain's time range.
// This is the layout of the second listed index-delete finding: deleting [a,b) from an index
// channel whose domain boundary (a file rollover) lies before a, with a being the first sample
// after that boundary, drops the sample-less kept part [boundary,a) of the index while the data
// channel keeps its domain up to a; every read with a bound in that stretch then fails.
func IndexLostCoverage(ctx context.Context, db *cesium.DB, m *tsm.Model, c *tsm.Chan) bool {
	idxFr, err := db.Read(ctx, telem.TimeRangeMax, c.Spec.Index)
	if err != nil {
		return false
	}
	dataFr, err := db.Read(ctx, telem.TimeRangeMax, c.Spec.Key)
	if err != nil {
		return false
	}
	var cover []Interval2
	for _, sr := range idxFr.SeriesSlice() {
		s, e := int64(sr.TimeRange.Start), int64(sr.TimeRange.End)
		if n := len(cover); n > 0 && s <= cover[n-1].E {
			if e > cover[n-1].E {
				cover[n-1].E = e
			}
			continue
		}
		cover = append(cover, Interval2{s, e})
	}
	for _, sr := range dataFr.SeriesSlice() {
		s, e := int64(sr.TimeRange.Start), int64(sr.TimeRange.End)
		for _, iv := range cover {
			if s >= iv.S && s < iv.E && e > iv.E {
				return true
			}
		}
	}
	return false
}

// Interval2 is a half-open interval of engine-reported timestamps.
type Interval2 struct{ S, E int64 }

// dataDomainOutsideIndex reports whether the data channel still covers a point that lies
// in a snap gap of its index: the index channel was deleted up to b, the engine snapped
// the kept index part forward to the next sample s > b, and a domain of the data channel
// starts inside [b,s).
func dataDomainOutsideIndex(m *tsm.Model, c *tsm.Chan) bool {
	idx := m.Chans[c.Spec.Index]
	if idx == nil {
		return false
	}
	for _, g := range idx.SnapGaps {
		for _, iv := range c.Cover {
			if iv.S < g.E && g.S < iv.E {
				return true
			}
		}
	}
	return false
}

func firstN(c *tsm.Chan, a, b int64) []int64 {
	ts, _ := c.Read(a, b)
	if len(ts) > 12 {
		ts = ts[:12]
	}
	return ts
}

// InterestingRanges derives read ranges from the model: full range plus ranges whose
// bounds sit on samples, between samples and on coverage ends.
func InterestingRanges(m *tsm.Model, key uint32, limit int) [][2]int64 {
	c := m.Chans[key]
	ks := c.Keys()
	rs := [][2]int64{{0, tsInf}}
	if len(ks) == 0 {
		return rs
	}
	pick := func(i int) int64 { return ks[(i%len(ks)+len(ks))%len(ks)] }
	n := len(ks)
	rs = append(rs,
		[2]int64{pick(n / 3), pick(2*n/3) + 1},
		[2]int64{pick(n/3) + 1, pick(2 * n / 3)},
		[2]int64{pick(0), pick(0) + 1},
		[2]int64{pick(n-1) + 1, tsInf},
		[2]int64{0, pick(n / 2)},
		[2]int64{pick(n/2) - 1, pick(n/2) + 2},
	)
	for _, iv := range c.Cover {
		rs = append(rs, [2]int64{iv.S, iv.E}, [2]int64{iv.E, iv.E + 50}, [2]int64{iv.S - 3, iv.S + 1})
		if len(rs) >= limit {
			break
		}
	}
	if len(rs) > limit {
		rs = rs[:limit]
	}
	return rs
}

// AutoSpanLoops additionally reads through manual auto-span iterator loops in CheckAll.
// Off by default: auto-span stepping is the subject of C10, not of the read properties.
var AutoSpanLoops = false

// CheckAll verifies every channel over the derived ranges, through db.Read and through a
// manual iterator loop with a small span.
func CheckAll(ctx context.Context, db *cesium.DB, m *tsm.Model, where string, limit int) error {
	for _, key := range m.Order {
		for i, r := range InterestingRanges(m, key, limit) {
			if r[1] <= r[0] {
				continue
			}
			if err := CheckRead(ctx, db, m, key, r[0], r[1], where); err != nil {
				return err
			}
			if i < 2 && AutoSpanLoops {
				c := m.Chans[key]
				_, want := c.Read(r[0], r[1])
				for _, chunk := range []int64{1, 3, 50} {
					if chunk == 1 && len(want) > 60 {
						continue
					}
					got, err := ReadChannelIter(ctx, db, c.Spec, r[0], r[1], chunk)
					if err != nil {
						return kit.Fail("iter-error", "%s: auto-span iterator over ch%d [%d,%d) chunk %d failed: %v", where, key, r[0], r[1], chunk, err)
					}
					if !sameSamples(got, want) {
						return kit.Fail("iter-mismatch", "%s: auto-span iterator loop (chunk %d) over ch%d [%d,%d) returned %s, model expects %s", where, chunk, key, r[0], r[1], short(got), short(want))
					}
				}
			}
		}
	}
	return nil
}

// BuildFrame builds the frame of a write op for a writer.
func BuildFrame(st *State, op Op) cesium.Frame {
	w := st.Writers[op.W]
	keys := make([]cesium.ChannelKey, 0, len(w.Channels))
	series := make([]telem.Series, 0, len(w.Channels))
	for _, k := range w.Channels {
		spec := st.M.Chans[k].Spec
		smp := make([][]byte, len(op.TS))
		for i, t := range op.TS {
			if spec.IsIndex {
				smp[i] = tsm.TSBytes(t)
			} else {
				smp[i] = tsm.Payload(spec, t, op.Seed)
			}
		}
		keys = append(keys, k)
		series = append(series, telem.Series{DataType: DataType(spec.DataType), Data: tsm.Encode(spec.DataType, smp)})
	}
	return telem.MultiFrame(keys, series)
}

// ErrDiscard is returned by Run when the script ends early for a reason the property
// conditions on (a write/commit/open that did not succeed).
type ErrDiscard struct{ Reason string }

func (e *ErrDiscard) Error() string { return "discard: " + e.Reason }

// RunConfig tunes the executor.
type RunConfig struct {
	FS         xfs.FS // default: fresh MemFS
	CheckEvery bool   // full CheckAll after every commit/close/delete/gc (else only at reopen and end)
	Limit      int    // ranges per channel in CheckAll
	// GC runs a garbage-collection pass (hook). Required when the script contains gc ops.
	GC     func(ctx context.Context, db *cesium.DB) error
	OnStep func(i int, op Op, phase string, st *State)
	// AfterOpen is called after every (re)open of the DB.
	AfterOpen func(e *Env)
	// KeepOpen leaves the DB open on return (caller closes env.DB).
	KeepOpen bool
}

// Run executes a script against cesium and the model. It returns the final state and env.
func Run(sc Script, rep *kit.Report, cfg RunConfig) (st *State, env *Env, err error) {
	ctx := context.Background()
	if cfg.Limit == 0 {
		cfg.Limit = 8
	}
	env = &Env{Ctx: ctx, FS: cfg.FS, Script: sc, Writers: map[int]*cesium.Writer{}}
	if env.FS == nil {
		env.FS = xfs.NewMem()
	}
	var hfs *HookFS
	for _, op := range sc.Ops {
		if op.Kind == "gcdel" || op.Kind == "gcwith" {
			hfs = NewHookFS(env.FS)
			env.FS = hfs
			break
		}
	}
	st = NewState(sc.Channels)
	if err = env.OpenDB(); err != nil {
		return st, env, kit.Fail("open-error", "cesium.Open failed: %v", err)
	}
	if cfg.AfterOpen != nil {
		cfg.AfterOpen(env)
	}
	defer func() {
		for _, w := range env.Writers {
			_ = w.Close()
		}
		if env.DB != nil && !cfg.KeepOpen {
			if cerr := env.DB.Close(); cerr != nil {
				rep.Class("db-close-error")
			}
		}
	}()
	if err = env.CreateChannels(); err != nil {
		return st, env, kit.Fail("create-error", "CreateChannel failed: %v", err)
	}
	domains := map[uint32]int{}
	// step executes one script operation; stop reports that the script ends here (discard or
	// violation). It is a closure so that a garbage-collection pass can run the operations
	// that follow it from its copy hook ("gcwith").
	skip := 0
	var step func(i int, op Op) (stop bool, err error)
	step = func(i int, op Op) (stop bool, err error) {
		where := fmt.Sprintf("after op %d (%s)", i, op.Kind)
		if cfg.OnStep != nil {
			cfg.OnStep(i, op, "start", st)
		}
		full := false
		if op.Kind == "read" || op.Kind == "gc" || op.Kind == "delete" || op.Kind == "gcdel" || op.Kind == "gcwith" {
			if discard, berr := barrier(env, st, rep); berr != nil || discard {
				return true, berr
			}
		}
		switch op.Kind {
		case "open":
			wc := cesium.WriterConfig{Channels: op.Channels, Start: telem.TimeStamp(op.Start),
				EnableAutoCommit: &op.AutoCommit, Sync: &op.Sync}
			if op.PersistAlways {
				wc.AutoIndexPersistInterval = cesium.AlwaysIndexPersistOnAutoCommit
			} else if op.PersistEvery > 0 {
				wc.AutoIndexPersistInterval = telem.TimeSpan(op.PersistEvery) * telem.Microsecond
				rep.Class("writer-with-short-persist-interval")
			}
			w, oerr := env.DB.OpenWriter(ctx, wc)
			if oerr != nil {
				rep.Discard("open-writer-error")
				rep.Add("discard:"+oerr.Error()[:min(60, len(oerr.Error()))], 1)
				return true, nil
			}
			env.Writers[op.W] = w
			ws := st.ApplyOpen(op)
			if op.DataOnly {
				rep.Class("data-only-writer")
			}
			for _, k := range op.Channels {
				c := st.M.Chans[k]
				if len(c.Cover) > 0 && op.Start < c.Cover[len(c.Cover)-1].S {
					rep.Class("out-of-order-insert")
				}
				for _, iv := range c.Cover {
					if iv.E == op.Start {
						rep.Class("adjacent-start")
					}
				}
			}
			_ = ws
		case "write":
			ws, ok := st.Writers[op.W]
			if !ok {
				return true, kit.Fail("script-bug", "write on unknown writer %d", op.W)
			}
			if ws.DataOnly {
				// validate against the executor's own model (see DESIGN: divergence => discard)
				if ws.Wrote+len(op.TS) > len(ws.Avail) || !sameTS(ws.Avail[ws.Wrote:ws.Wrote+len(op.TS)], op.TS) {
					rep.Discard("model-divergence")
					return true, nil
				}
			}
			fr := BuildFrame(st, op)
			auth, werr := env.Writers[op.W].Write(fr)
			if werr != nil || !auth {
				rep.Discard("write-error")
				rep.Add("discard:"+fmt.Sprint(werr), 1)
				return true, nil
			}
			before := map[uint32]int{}
			for _, k := range ws.Channels {
				before[k] = len(st.M.Chans[k].Cover)
			}
			st.ApplyWrite(op)
			if ws.AutoCommit {
				full = cfg.CheckEvery
				for _, k := range ws.Channels {
					domains[k]++
				}
			}
		case "commit":
			ws := st.Writers[op.W]
			if ws == nil || env.Writers[op.W] == nil {
				rep.Discard("op-on-unknown-writer")
				return true, nil
			}
			_, cerr := env.Writers[op.W].Commit()
			if cerr != nil {
				rep.Discard("commit-error")
				rep.Add("discard:"+cerr.Error()[:min(80, len(cerr.Error()))], 1)
				return true, nil
			}
			st.ApplyCommit(op.W)
			for _, k := range ws.Channels {
				domains[k]++
			}
			full = cfg.CheckEvery
		case "close":
			ws := st.Writers[op.W]
			if ws == nil || env.Writers[op.W] == nil {
				rep.Discard("op-on-unknown-writer")
				return true, nil
			}
			if len(ws.PendTS) > 0 {
				rep.Class("close-with-uncommitted-tail")
			}
			cerr := env.Writers[op.W].Close()
			delete(env.Writers, op.W)
			if cerr != nil {
				rep.Discard("close-error")
				rep.Add("discard:"+cerr.Error()[:min(80, len(cerr.Error()))], 1)
				return true, nil
			}
			st.ApplyClose(op.W)
			full = cfg.CheckEvery
		case "reopen":
			if len(env.Writers) > 0 {
				// DB.Close with open writers is documented misuse; generated scripts never
				// contain it (this guards hand-edited and minimised replays).
				rep.Discard("illegal-script:reopen-with-open-writer")
				return true, nil
			}
			if cerr := env.DB.Close(); cerr != nil {
				// Not a violation of the read properties by itself: the database is marked
				// closed regardless; whether data survived is decided by the reads after reopen.
				rep.Class("db-close-error")
				rep.Add("close-error:"+cerr.Error()[:min(70, len(cerr.Error()))], 1)
			}
			env.DB = nil
			if oerr := env.OpenDB(); oerr != nil {
				return true, kit.Fail("reopen-error", "cesium.Open on existing data failed at op %d: %v", i, oerr)
			}
			if cfg.AfterOpen != nil {
				cfg.AfterOpen(env)
			}
			rep.Class("reopen")
			full = true
			if serr := CheckSide(ctx, env.DB, st, where); serr != nil {
				return true, serr
			}
		case "read":
			for _, key := range st.M.Order {
				if rerr := CheckRead(ctx, env.DB, st.M, key, op.A, op.B, where); rerr != nil {
					return true, rerr
				}
			}
			classifyRead(st.M, op, rep)
		case "delete":
			if derr := execDelete(ctx, env, st, op, rep, where); derr != nil {
				return true, derr
			}
			full = cfg.CheckEvery
		case "gc":
			if cfg.GC == nil {
				return true, kit.Fail("script-bug", "gc op without GC hook")
			}
			if gerr := execGC(ctx, env, st, cfg, rep, where, false); gerr != nil {
				return true, gerr
			}
			full = true
		case "wait":
			// lets a writer's index persistence interval elapse (no effect on the model)
			time.Sleep(time.Duration(op.A) * time.Microsecond)
			rep.Class("wait")
		case "gcwith":
			// A garbage-collection pass during which the next op.Span operations of the script
			// run, started at the moment the collector opens its first copy file (after it has
			// scanned the index of that file). They run on a goroutine of their own; the
			// collector waits for them 150 ms at most (they may legitimately block on its
			// locks). Whatever the order, the pass is invisible to the model.
			if cfg.GC == nil || hfs == nil {
				return true, kit.Fail("script-bug", "gcwith op without GC hook")
			}
			k := 0
			for k < op.Span && i+1+k < len(sc.Ops) {
				switch sc.Ops[i+1+k].Kind {
				case "gc", "gcdel", "gcwith", "reopen":
					// passes never overlap (one collector goroutine in production)
				default:
					k++
					continue
				}
				break
			}
			var (
				fired bool
				nstop bool
				nerr  error
				done  = make(chan struct{})
			)
			nested := func() {
				defer close(done)
				for j := 1; j <= k; j++ {
					if nstop, nerr = step(i+j, sc.Ops[i+j]); nstop || nerr != nil {
						return
					}
				}
			}
			var once sync.Once
			hfs.SetHook(func(path string, flag int) {
				if !strings.HasSuffix(path, "_gc") {
					return
				}
				// the collector works on several channels at once: the hook can be entered
				// from more than one goroutine, and the operations must be started once
				first := false
				once.Do(func() { first = true })
				if !first {
					return
				}
				fired = true
				go nested()
				select {
				case <-done:
					rep.Class("ops-completed-during-gc-copy")
				case <-time.After(150 * time.Millisecond):
					rep.Class("ops-blocked-until-gc-finished")
				}
			})
			gerr := execGC(ctx, env, st, cfg, rep, where, true)
			hfs.SetHook(nil)
			if fired {
				select {
				case <-done:
				case <-time.After(60 * time.Second):
					return true, kit.Fail("stall", "%s: operations started during a garbage-collection pass did not return within 60 s of the end of the pass", where)
				}
				rep.Class("gc-with-ops-in-flight")
			} else {
				rep.Class("gcwith-gc-copied-nothing")
				nested()
			}
			skip = k
			if gerr != nil {
				return true, gerr
			}
			if nstop || nerr != nil {
				return true, nerr
			}
			full = true
		case "gcdel":
			// A garbage-collection pass with a delete fired at the moment the collector opens
			// its first copy file, i.e. after it has scanned the index for that file. The
			// delete runs on its own goroutine; the collector waits for it a bounded time only
			// (the delete may legitimately block on the collector's locks and finish after
			// the pass). Either order is a legal outcome for the model: the delete is applied,
			// the pass is invisible.
			if cfg.GC == nil || hfs == nil {
				return true, kit.Fail("script-bug", "gcdel op without GC hook")
			}
			var (
				fired bool
				derr  error
				done  = make(chan struct{})
			)
			del := op
			del.Kind = "delete"
			var delOnce sync.Once
			hfs.SetHook(func(path string, flag int) {
				if !strings.HasSuffix(path, "_gc") {
					return
				}
				first := false
				delOnce.Do(func() { first = true }) // see gcwith: the collector is concurrent
				if !first {
					return
				}
				fired = true
				go func() {
					defer close(done)
					derr = execDelete(ctx, env, st, del, rep, where+" (delete fired while gc copies "+path+")")
				}()
				select {
				case <-done:
					rep.Class("delete-completed-during-gc-copy")
				case <-time.After(150 * time.Millisecond):
					rep.Class("delete-blocked-until-gc-finished")
				}
			})
			gerr := execGC(ctx, env, st, cfg, rep, where, false)
			hfs.SetHook(nil)
			if fired {
				select {
				case <-done:
				case <-time.After(60 * time.Second):
					return true, kit.Fail("stall", "%s: a delete fired during a garbage-collection pass did not return within 60 s of the end of the pass", where)
				}
				rep.Class("gc-with-delete-in-flight")
			} else {
				rep.Class("gcdel-gc-copied-nothing")
				derr = execDelete(ctx, env, st, del, rep, where)
			}
			if gerr != nil {
				return true, gerr
			}
			if derr != nil {
				return true, derr
			}
			full = true
		case "xcreate", "xwrite", "xrename", "xdelete":
			if xerr := execSide(ctx, env, st, op); xerr != nil {
				rep.Discard("side-op-error")
				rep.Add("discard:"+op.Kind+":"+xerr.Error()[:min(70, len(xerr.Error()))], 1)
				return true, nil
			}
			st.ApplySide(op)
			rep.Class("side-" + op.Kind)
			if serr := CheckSide(ctx, env.DB, st, where); serr != nil {
				return true, serr
			}
		default:
			return true, kit.Fail("script-bug", "unknown op %q", op.Kind)
		}
		if cfg.OnStep != nil {
			cfg.OnStep(i, op, "end", st)
		}
		if full {
			if discard, berr := barrier(env, st, rep); berr != nil || discard {
				return true, berr
			}
			if cerr := CheckAll(ctx, env.DB, st.M, where, cfg.Limit); cerr != nil {
				return true, cerr
			}
		}
		return false, nil
	}
	for i, op := range sc.Ops {
		if skip > 0 {
			skip--
			continue
		}
		if stop, serr := step(i, op); stop || serr != nil {
			return st, env, serr
		}
	}
	if cerr := CheckAll(ctx, env.DB, st.M, "at end", cfg.Limit); cerr != nil {
		return st, env, cerr
	}
	// close + reopen: the same answers must come back
	if len(env.Writers) == 0 && !cfg.KeepOpen {
		if cerr := env.DB.Close(); cerr != nil {
			rep.Class("db-close-error")
			rep.Add("close-error:"+cerr.Error()[:min(70, len(cerr.Error()))], 1)
		}
		env.DB = nil
		if oerr := env.OpenDB(); oerr != nil {
			return st, env, kit.Fail("reopen-error", "cesium.Open on existing data failed at end: %v", oerr)
		}
		if cerr := CheckAll(ctx, env.DB, st.M, "after final close+reopen", cfg.Limit); cerr != nil {
			return st, env, cerr
		}
		if serr := CheckSide(ctx, env.DB, st, "after final close+reopen"); serr != nil {
			return st, env, serr
		}
	}
	for _, k := range st.M.Order {
		if domains[k] >= 2 {
			rep.Class("multi-commit")
		}
		if !st.M.Chans[k].Spec.IsIndex && tsm.Density(st.M.Chans[k].Spec.DataType) == 0 && len(st.M.Chans[k].Samples) > 0 {
			rep.Class("variable-length-data")
		}
	}
	return st, env, nil
}

// SideSpec is the cesium channel of a side channel.
func SideSpec(st *State, key uint32, kind, name string) cesium.Channel {
	ch := cesium.Channel{Key: key, Name: name}
	switch kind {
	case "virtual":
		ch.Virtual, ch.DataType = true, telem.Float32T
	case "data":
		ch.DataType = telem.Int64T
		for _, k := range st.M.Order {
			if st.M.Chans[k].Spec.IsIndex {
				ch.Index = k
				break
			}
		}
	default:
		ch.IsIndex, ch.DataType = true, telem.TimeStampT
	}
	return ch
}

func execSide(ctx context.Context, env *Env, st *State, op Op) error {
	switch op.Kind {
	case "xcreate":
		return env.DB.CreateChannel(ctx, SideSpec(st, op.Key, op.XKind, op.Name))
	case "xwrite":
		stamps := make([]telem.TimeStamp, len(op.TS))
		for i, v := range op.TS {
			stamps[i] = telem.TimeStamp(v)
		}
		return env.DB.WriteSeries(ctx, op.Key, telem.TimeStamp(op.Start), telem.NewSeries(stamps))
	case "xrename":
		return env.DB.RenameChannel(ctx, op.Key, op.Name)
	default:
		if len(op.Keys) == 1 {
			return env.DB.DeleteChannel(op.Keys[0])
		}
		return env.DB.DeleteChannels(op.Keys)
	}
}

// SideContent reads the samples of a side index channel.
func SideContent(ctx context.Context, db *cesium.DB, key uint32) ([]int64, error) {
	vals, err := ReadChannel(ctx, db, tsm.ChannelSpec{Key: key, IsIndex: true, DataType: "timestamp"}, 0, 1<<62)
	if err != nil {
		return nil, err
	}
	out := make([]int64, len(vals))
	for i, v := range vals {
		for b := 7; b >= 0; b-- {
			out[i] = out[i]<<8 | int64(v[b])
		}
	}
	return out, nil
}

// CheckSide compares every side channel with its expected state: present with the expected
// name, kind and samples, or absent.
func CheckSide(ctx context.Context, db *cesium.DB, st *State, where string) error {
	for _, k := range st.SideKeys() {
		c := st.Side[k]
		ch, err := db.RetrieveChannel(ctx, k)
		if !c.Exists {
			if err == nil {
				return kit.Fail("deleted-channel-still-present", "%s: side channel %d (%s) was deleted but RetrieveChannel returns %q", where, k, c.Kind, ch.Name)
			}
			continue
		}
		if err != nil {
			return kit.Fail("channel-missing", "%s: side channel %d (%s, %q) is missing: %v", where, k, c.Kind, c.Name, err)
		}
		want := SideSpec(st, k, c.Kind, c.Name)
		if ch.Name != want.Name || ch.DataType != want.DataType || ch.IsIndex != want.IsIndex || ch.Virtual != want.Virtual || (c.Kind == "data" && ch.Index != want.Index) {
			return kit.Fail("channel-metadata-mismatch", "%s: side channel %d is %+v, expected name=%q dt=%s index=%d is_index=%v virtual=%v", where, k, ch, want.Name, want.DataType, want.Index, want.IsIndex, want.Virtual)
		}
		if c.Kind == "index" {
			got, rerr := SideContent(ctx, db, k)
			if rerr != nil {
				return kit.Fail("read-error", "%s: reading side channel %d: %v", where, k, rerr)
			}
			if !sameTS(got, c.TS) {
				return kit.Fail("read-mismatch", "%s: side channel %d returned %v, expected %v", where, k, got, c.TS)
			}
		}
	}
	return nil
}

// barrier waits until every asynchronous (Sync=false) auto-committing writer has processed
// its queued writes: Commit is always acknowledged and is a no-op for such a writer, whose
// data is already committed by auto-commit. Without it a read could race with a queued
// write, which the property (successful writes and commits) does not speak about.
func barrier(env *Env, st *State, rep *kit.Report) (discard bool, err error) {
	for id, w := range env.Writers {
		ws := st.Writers[id]
		if ws == nil || !ws.AutoCommit || ws.Sync {
			continue
		}
		if _, cerr := w.Commit(); cerr != nil {
			rep.Discard("async-write-error")
			rep.Add("discard:"+cerr.Error()[:min(80, len(cerr.Error()))], 1)
			return true, nil
		}
	}
	return false, nil
}

func sameTS(a, b []int64) bool {
	if len(a) != len(b) {
		return false
	}
	for i := range a {
		if a[i] != b[i] {
			return false
		}
	}
	return true
}

func classifyRead(m *tsm.Model, op Op, rep *kit.Report) {
	for _, k := range m.Order {
		c := m.Chans[k]
		if !c.Spec.IsIndex || len(c.Samples) == 0 {
			continue
		}
		ks := c.Keys()
		lo, hi := ks[0], ks[len(ks)-1]
		for _, b := range []int64{op.A, op.B} {
			if b > lo && b <= hi {
				rep.Class("read-bound-inside-data")
				if _, on := c.Samples[b]; !on {
					rep.Class("read-bound-between-samples")
				}
			}
			for _, iv := range c.Cover {
				if b == iv.E {
					rep.Class("read-bound-on-domain-end")
				}
			}
		}
	}
}
