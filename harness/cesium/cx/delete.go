package cx

import (
	"context"
	"strings"

	"github.com/synnaxlabs/cesium"
	"github.com/synnaxlabs/cesium/internal/verif/tsm"
	kit "github.com/synnaxlabs/cesium/internal/verifkit"
	xfs "github.com/synnaxlabs/x/io/fs"
	"github.com/synnaxlabs/x/telem"
)

// contentEquals reports whether the real channel content equals the model channel.
func contentEquals(ctx context.Context, db *cesium.DB, c *tsm.Chan) (bool, error) {
	_, want := c.Read(0, tsInf)
	got, err := ReadChannel(ctx, db, c.Spec, 0, tsInf)
	if err != nil {
		return false, err
	}
	return sameSamples(got, want), nil
}

func execDelete(ctx context.Context, env *Env, st *State, op Op, rep *kit.Report, where string) error {
	refuse := MustRefuse(st.M, op)
	classifyDelete(st.M, op, rep)
	derr := env.DB.DeleteTimeRange(ctx, op.Channels, telem.TimeRange{Start: telem.TimeStamp(op.A), End: telem.TimeStamp(op.B)})
	if derr == nil {
		if len(refuse) > 0 {
			return kit.Fail("index-delete-not-refused", "%s: DeleteTimeRange(%v, [%d,%d)) succeeded although a dependant data channel still has samples in the range", where, op.Channels, op.A, op.B)
		}
		all := map[uint32]bool{}
		for _, k := range op.Channels {
			all[k] = true
		}
		ApplyDelete(st.M, op, all)
		rep.Class("delete-ok")
		return nil
	}
	rep.Class("delete-refused-or-failed")
	if len(refuse) > 0 {
		rep.Class("index-delete-refused")
	}
	// A refused/failed request: every named channel must hold either its previous content
	// or the content with [a,b) removed (the request is not atomic across channels and the
	// property does not ask for it); a refused index channel must be unchanged.
	applied := map[uint32]bool{}
	for _, k := range op.Channels {
		c := st.M.Chans[k]
		same, err := contentEquals(ctx, env.DB, c)
		if err != nil {
			// same classification as CheckRead: a request that failed part-way may have
			// deleted [a,b) from the index channel and from this data channel, which is the
			// layout of the listed snap-gap finding
			sig := "read-error"
			if !c.Spec.IsIndex && strings.Contains(err.Error(), "is not continuous in the index") {
				tm := st.M.Clone()
				all := map[uint32]bool{}
				for _, kk := range op.Channels {
					all[kk] = true
				}
				ApplyDelete(tm, op, all)
				// ... or the request changed nothing and the layout of that finding was there
				// before it (left by an earlier delete that nothing has read since)
				if dataDomainOutsideIndex(tm, tm.Chans[k]) || dataDomainOutsideIndex(st.M, c) {
					sig = "read-error:data-domain-start-outside-index-coverage"
				} else if IndexLostCoverage(ctx, env.DB, tm, tm.Chans[k]) || IndexLostCoverage(ctx, env.DB, st.M, c) {
					sig = "read-error:data-domain-end-outside-index-coverage"
				}
			}
			return kit.Fail(sig, "%s: read after failed delete: %v", where, err)
		}
		if same {
			continue
		}
		if refuse[k] {
			return kit.Fail("refused-delete-changed-index", "%s: index ch%d changed although the delete was refused (%v)", where, k, derr)
		}
		after := &tsm.Chan{Spec: c.Spec, Samples: map[int64][]byte{}}
		for t, v := range c.Samples {
			if t < op.A || t >= op.B {
				after.Samples[t] = v
			}
		}
		same, err = contentEquals(ctx, env.DB, after)
		if err != nil {
			return kit.Fail("read-error", "%s: read after failed delete: %v", where, err)
		}
		if !same {
			return kit.Fail("failed-delete-corrupted", "%s: after failed delete (%v) ch%d equals neither its previous content nor the content minus [%d,%d)", where, derr, k, op.A, op.B)
		}
		applied[k] = true
	}
	ApplyDelete(st.M, op, applied)
	return nil
}

func classifyDelete(m *tsm.Model, op Op, rep *kit.Report) {
	for _, k := range op.Channels {
		c := m.Chans[k]
		ks := c.Keys()
		if len(ks) == 0 {
			continue
		}
		removed := 0
		for _, t := range ks {
			if t >= op.A && t < op.B {
				removed++
			}
		}
		if removed > 0 {
			rep.Class("delete-removes-samples")
		}
		for _, b := range []int64{op.A, op.B} {
			if b > ks[0] && b < ks[len(ks)-1] {
				if _, on := c.Samples[b]; !on {
					rep.Class("delete-bound-between-samples")
				} else {
					rep.Class("delete-bound-on-sample")
				}
			}
		}
		spans := 0
		for _, iv := range c.Cover {
			if iv.S < op.B && op.A < iv.E {
				spans++
			}
		}
		if spans >= 2 {
			rep.Class("delete-spans-domains")
		}
	}
}

// DataFileBytes sums the sizes of all N.domain data files under the database root.
func DataFileBytes(fs xfs.FS) (int64, error) {
	var total int64
	dirs, err := fs.List("")
	if err != nil {
		return 0, err
	}
	for _, d := range dirs {
		if !d.IsDir() {
			continue
		}
		files, err := fs.List(d.Name())
		if err != nil {
			return 0, err
		}
		for _, f := range files {
			n := f.Name()
			if strings.HasSuffix(n, ".domain") && n != "index.domain" && n != "counter.domain" {
				total += f.Size()
			}
		}
	}
	return total, nil
}

func execGC(ctx context.Context, env *Env, st *State, cfg RunConfig, rep *kit.Report, where string, concurrentWrites bool) error {
	// metamorphic relation: every read before == after (both == model, checked by CheckAll)
	if err := CheckAll(ctx, env.DB, st.M, where+" (before gc)", cfg.Limit); err != nil {
		return err
	}
	before, err := DataFileBytes(env.FS)
	if err != nil {
		return kit.Fail("fs-error", "listing files: %v", err)
	}
	if err := cfg.GC(ctx, env.DB); err != nil {
		if concurrentWrites {
			// a pass that runs while channels are created and deleted may report a failure
			// (e.g. "resource closed" for a channel deleted under it): a reported failure has
			// no effect to account for
			rep.Class("gc-error-during-concurrent-ops")
			rep.Add("gc-error:"+err.Error()[:min(70, len(err.Error()))], 1)
			return nil
		}
		return kit.Fail("gc-error", "%s: garbage collection failed: %v", where, err)
	}
	after, err := DataFileBytes(env.FS)
	if err != nil && concurrentWrites {
		// a directory listed while a concurrent operation removes it: sizes are not compared
		rep.Class("gc")
		return nil
	}
	if err != nil {
		return kit.Fail("fs-error", "listing files: %v", err)
	}
	if after > before && len(env.Writers) == 0 && !concurrentWrites {
		return kit.Fail("gc-grew-files", "%s: data files grew from %d to %d bytes across a GC pass", where, before, after)
	}
	if after < before {
		rep.Class("gc-rewrote-file")
	}
	rep.Class("gc")
	return nil
}
