// Package cx holds the script vocabulary, generator and executor shared by the cesium
// harnesses (C01, C02, C04, C07 reuse the write scripts; C10 the layouts).
package cx

import (
	"sort"

	"github.com/synnaxlabs/cesium/internal/verif/tsm"
	"pgregory.net/rapid"
)

// Op is one script step. All arguments are explicit so a script replays without rapid.
type Op struct {
	Kind string `json:"kind"` // open write commit close reopen read delete gc
	W    int    `json:"w,omitempty"`
	// open
	Channels      []uint32 `json:"channels,omitempty"`
	Start         int64    `json:"start,omitempty"`
	AutoCommit    bool     `json:"auto_commit,omitempty"`
	PersistAlways bool     `json:"persist_always,omitempty"`
	// PersistEvery (open): auto-commit index persistence interval in microseconds (0 = the
	// engine's default of one second, which no script ever reaches); "wait" ops let it elapse.
	PersistEvery int64 `json:"persist_every,omitempty"`
	Sync         bool  `json:"sync,omitempty"`
	DataOnly     bool  `json:"data_only,omitempty"`
	// write
	TS   []int64 `json:"ts,omitempty"`
	Seed uint64  `json:"seed,omitempty"`
	// read / delete
	A int64 `json:"a,omitempty"`
	B int64 `json:"b,omitempty"`
	// side-channel operations (xcreate xwrite xrename xdelete): channels outside the model's
	// index groups whose only purpose is to be created, renamed and deleted while the script
	// runs. Key is the channel, XKind its kind (index | virtual | data: a data channel of the
	// first index channel), Name the (new) name, Keys the batch of an xdelete.
	Key   uint32   `json:"key,omitempty"`
	XKind string   `json:"xkind,omitempty"`
	Name  string   `json:"name,omitempty"`
	Keys  []uint32 `json:"keys,omitempty"`
	// Span (gcwith): how many of the following operations run while the collector copies
	Span int `json:"span,omitempty"`
}

// SideChan is the expected state of a side channel.
type SideChan struct {
	Exists bool    `json:"exists"`
	Kind   string  `json:"kind"`
	Name   string  `json:"name"`
	TS     []int64 `json:"ts,omitempty"` // committed samples (index kind only)
}

// Script is a complete case.
type Script struct {
	FileCap     int               `json:"file_cap"` // bytes, 0 = default (1 GB)
	GCThreshold float32           `json:"gc_threshold,omitempty"`
	Channels    []tsm.ChannelSpec `json:"channels"`
	Ops         []Op              `json:"ops"`
}

// GenOpts selects which operation kinds a generator produces.
type GenOpts struct {
	Deletes  bool
	GC       bool
	MaxOps   int
	MinOps   int
	MaxChans int // data channels per index
	Groups   int // max index groups
	NoReopen bool
	NoReads  bool
	// ForceSync makes every writer synchronous (crash enumeration attributes filesystem
	// calls to the script operation that is executing).
	ForceSync bool
	// MaxWrite bounds the samples per write (default 40).
	MaxWrite int
	// SmallTime keeps timestamps within a small range (crash enumeration, iterators).
	SmallTime bool
	// PersistIntervals gives some auto-committing writers a one-millisecond index
	// persistence interval and adds "wait" operations that let it elapse, so that a writer's
	// commits are a mix of persisting and non-persisting ones.
	PersistIntervals bool
	// GCDelete adds garbage-collection passes during which a time-range delete is fired at
	// the moment the collector starts copying a file (needs Deletes and GC).
	GCDelete bool
	// SideChannels adds create / write / rename / delete operations on channels outside the
	// model's index groups.
	SideChannels bool
}

// WState is the generator/executor-side view of an open writer.
type WState struct {
	ID         int
	Channels   []uint32
	Idx        uint32
	DataOnly   bool
	Start      int64
	Last       int64 // last timestamp written (Start-1 if none)
	Bound      int64 // timestamps must stay below
	AutoCommit bool
	Sync       bool
	// PersistEvery > 0: the writer persists its index on the first auto-commit after that
	// many microseconds
	PersistEvery int64
	// pending (uncommitted) samples per channel
	PendTS   []int64
	PendVals map[uint32][][]byte
	// timestamps available to a data-only writer (the index samples it aligns with)
	Avail []int64
	Wrote int
}

const tsInf = int64(1) << 62

// State tracks the model during generation and execution.
type State struct {
	M       *tsm.Model
	Writers map[int]*WState
	NextW   int
	Side    map[uint32]*SideChan
}

func NewState(specs []tsm.ChannelSpec) *State {
	return &State{M: tsm.New(specs), Writers: map[int]*WState{}, Side: map[uint32]*SideChan{}}
}

// ApplySide applies a side-channel operation to the expected state.
func (s *State) ApplySide(op Op) {
	switch op.Kind {
	case "xcreate":
		s.Side[op.Key] = &SideChan{Exists: true, Kind: op.XKind, Name: op.Name}
	case "xwrite":
		if c := s.Side[op.Key]; c != nil {
			c.TS = append(c.TS, op.TS...)
		}
	case "xrename":
		if c := s.Side[op.Key]; c != nil {
			c.Name = op.Name
		}
	case "xdelete":
		for _, k := range op.Keys {
			if c := s.Side[k]; c != nil {
				c.Exists = false
				c.TS = nil
			}
		}
	}
}

// SideKeys returns the side channel keys in ascending order.
func (s *State) SideKeys() []uint32 {
	ks := make([]uint32, 0, len(s.Side))
	for k := range s.Side {
		ks = append(ks, k)
	}
	sort.Slice(ks, func(i, j int) bool { return ks[i] < ks[j] })
	return ks
}

func (s *State) groupBusy(idx uint32) bool {
	for _, w := range s.Writers {
		if w.Idx == idx {
			return true
		}
	}
	return false
}

// ApplyOpen registers a writer in the model state.
func (s *State) ApplyOpen(op Op) *WState {
	w := &WState{ID: op.W, Channels: op.Channels, Start: op.Start, Last: op.Start - 1, Bound: tsInf,
		AutoCommit: op.AutoCommit, Sync: op.Sync, DataOnly: op.DataOnly, PersistEvery: op.PersistEvery, PendVals: map[uint32][][]byte{}}
	first := s.M.Chans[op.Channels[0]]
	if first.Spec.IsIndex {
		w.Idx = first.Spec.Key
	} else {
		w.Idx = first.Spec.Index
	}
	for _, k := range op.Channels {
		if nb, ok := s.M.Chans[k].NextCoverStart(op.Start); ok && nb < w.Bound {
			w.Bound = nb
		}
	}
	if op.DataOnly {
		idx := s.M.Chans[w.Idx]
		// index samples from Start to the end of the touching-domain chain containing Start
		var end int64 = -1
		for _, iv := range idx.Cover {
			if op.Start >= iv.S && op.Start < iv.E {
				end = iv.E
			}
		}
		for _, t := range idx.Keys() {
			if t >= op.Start && t < end && t < w.Bound {
				w.Avail = append(w.Avail, t)
			}
		}
	}
	s.Writers[op.W] = w
	if op.W >= s.NextW {
		s.NextW = op.W + 1
	}
	return w
}

// ApplyWrite buffers the samples of a write in the writer's pending set.
func (s *State) ApplyWrite(op Op) {
	w := s.Writers[op.W]
	for _, k := range w.Channels {
		spec := s.M.Chans[k].Spec
		for _, t := range op.TS {
			var v []byte
			if spec.IsIndex {
				v = tsm.TSBytes(t)
			} else {
				v = tsm.Payload(spec, t, op.Seed)
			}
			w.PendVals[k] = append(w.PendVals[k], v)
		}
	}
	w.PendTS = append(w.PendTS, op.TS...)
	w.Last = op.TS[len(op.TS)-1]
	w.Wrote += len(op.TS)
	if w.AutoCommit {
		s.ApplyCommit(op.W)
	}
}

// ApplyCommit moves pending samples into the committed model.
func (s *State) ApplyCommit(id int) {
	w := s.Writers[id]
	if w.Wrote == 0 {
		return
	}
	for _, k := range w.Channels {
		s.M.Chans[k].Commit(w.Start, w.Last+1, w.PendTS, w.PendVals[k])
		w.PendVals[k] = nil
	}
	w.PendTS = nil
}

func (s *State) ApplyClose(id int) { delete(s.Writers, id) }

// ---------------------------------------------------------------- generator

func genChannels(t *rapid.T, o GenOpts) []tsm.ChannelSpec {
	var specs []tsm.ChannelSpec
	groups := rapid.IntRange(1, max(1, o.Groups)).Draw(t, "groups")
	key := uint32(1)
	for g := 0; g < groups; g++ {
		idx := key
		specs = append(specs, tsm.ChannelSpec{Key: idx, IsIndex: true, DataType: "timestamp"})
		key++
		nd := rapid.IntRange(0, o.MaxChans).Draw(t, "ndata")
		for d := 0; d < nd; d++ {
			var dt string
			if rapid.IntRange(0, 9).Draw(t, "var") < 4 {
				dt = rapid.SampledFrom(tsm.VarTypes).Draw(t, "dt")
			} else {
				dt = rapid.SampledFrom(tsm.FixedTypes).Draw(t, "dt")
			}
			specs = append(specs, tsm.ChannelSpec{Key: key, Index: idx, DataType: dt})
			key++
		}
	}
	return specs
}

func genSpacing(t *rapid.T) func() int64 {
	mode := rapid.IntRange(0, 3).Draw(t, "spacing")
	return func() int64 {
		switch mode {
		case 0:
			return 1
		case 1:
			return int64(rapid.IntRange(2, 10).Draw(t, "dt"))
		case 2:
			return int64(rapid.SampledFrom([]int{1, 1, 2, 3, 7, 50}).Draw(t, "dt"))
		default:
			return int64(rapid.IntRange(20, 200).Draw(t, "dt"))
		}
	}
}

// genBound draws a read/delete bound relative to stored samples of the model.
func genBound(t *rapid.T, m *tsm.Model, label string) int64 {
	var pts []int64
	for _, k := range m.Order {
		c := m.Chans[k]
		if !c.Spec.IsIndex {
			continue
		}
		for _, ts := range c.Keys() {
			pts = append(pts, ts)
		}
		for _, iv := range c.Cover {
			pts = append(pts, iv.S, iv.E)
		}
	}
	if len(pts) == 0 || rapid.IntRange(0, 9).Draw(t, label+"-free") == 0 {
		return int64(rapid.IntRange(-5, 6000).Draw(t, label))
	}
	p := rapid.SampledFrom(pts).Draw(t, label+"-pt")
	return p + int64(rapid.SampledFrom([]int{0, 0, 0, 1, -1, 2, -3, 13}).Draw(t, label+"-off"))
}

// genBoundFor draws a bound relative to the samples of one channel: on a sample, just
// after/before one (between samples when spacing > 1), or far outside.
func genBoundFor(t *rapid.T, m *tsm.Model, key uint32, label string) int64 {
	ks := m.Chans[key].Keys()
	if len(ks) == 0 || rapid.IntRange(0, 9).Draw(t, label+"-free") == 0 {
		return genBound(t, m, label)
	}
	p := rapid.SampledFrom(ks).Draw(t, label+"-pt")
	return p + int64(rapid.SampledFrom([]int{0, 0, 1, 1, -1, 2, -3}).Draw(t, label+"-off"))
}

// Gen draws a complete script, consulting the model for legality of each step.
func Gen(t *rapid.T, o GenOpts) Script {
	if o.MaxOps == 0 {
		o.MaxOps = 40
	}
	if o.Groups == 0 {
		o.Groups = 2
	}
	sc := Script{Channels: genChannels(t, o)}
	sc.FileCap = rapid.SampledFrom([]int{16, 32, 64, 100, 256, 1024, 0}).Draw(t, "file_cap")
	if o.GC {
		// garbage collection only rewrites a file once its tombstones reach threshold x
		// file size, and only files that hold several domains (possibly written out of
		// time order) exercise the offset remapping: prefer caps that keep many domains
		// in one file, never the 1 GB default (its threshold is never reached)
		sc.FileCap = rapid.SampledFrom([]int{32, 100, 256, 1024, 1024, 4096, 4096}).Draw(t, "file_cap_gc")
		sc.GCThreshold = rapid.SampledFrom([]float32{0.0001, 0.0001, 0.2, 1.0}).Draw(t, "gc_threshold")
	}
	st := NewState(sc.Channels)
	nops := rapid.IntRange(max(3, o.MinOps), o.MaxOps).Draw(t, "nops")
	spacing := genSpacing(t)
	var indexes []uint32
	for _, c := range sc.Channels {
		if c.IsIndex {
			indexes = append(indexes, c.Key)
		}
	}
	genWrite := func(w *WState) (Op, bool) {
		op := Op{Kind: "write", W: w.ID, Seed: uint64(rapid.IntRange(0, 1<<30).Draw(t, "seed"))}
		k := rapid.IntRange(1, 40).Draw(t, "k")
		if o.MaxWrite > 0 && k > o.MaxWrite {
			k = rapid.IntRange(1, o.MaxWrite).Draw(t, "k-capped")
		}
		if rapid.IntRange(0, 3).Draw(t, "small") > 0 {
			k = rapid.IntRange(1, 5).Draw(t, "k-small")
		}
		if w.DataOnly {
			if w.Wrote+1 > len(w.Avail) {
				return Op{}, false
			}
			if w.Wrote+k > len(w.Avail) {
				k = len(w.Avail) - w.Wrote
			}
			op.TS = append(op.TS, w.Avail[w.Wrote:w.Wrote+k]...)
		} else {
			ts := w.Last
			for i := 0; i < k; i++ {
				nx := ts + spacing()
				if i == 0 && w.Wrote == 0 {
					// the first sample may coincide with the writer start
					nx = w.Start + int64(rapid.SampledFrom([]int{0, 0, 0, 1, 3}).Draw(t, "first-off"))
				}
				if nx >= w.Bound {
					break
				}
				ts = nx
				op.TS = append(op.TS, ts)
			}
			if len(op.TS) == 0 {
				return Op{}, false
			}
		}
		st.ApplyWrite(op)
		return op, true
	}
	noGC := 0 // > 0: the next operations run inside a gcwith pass
	for len(sc.Ops) < nops {
		var choices []string
		if len(st.Writers) < 3 {
			choices = append(choices, "open", "open")
		}
		if len(st.Writers) > 0 {
			choices = append(choices, "write", "write", "write", "write", "commit", "close")
		}
		if !o.NoReads {
			choices = append(choices, "read")
		}
		if len(st.Writers) == 0 && !o.NoReopen {
			choices = append(choices, "reopen")
		}
		if o.Deletes {
			choices = append(choices, "delete", "delete", "nestdel")
		}
		if o.GC {
			choices = append(choices, "gc")
		}
		if o.SideChannels {
			choices = append(choices, "side", "side")
		}
		if o.PersistIntervals {
			for _, w := range st.Writers {
				if w.PersistEvery > 0 {
					choices = append(choices, "wait", "burst", "burst")
					break
				}
			}
		}
		if o.GCDelete && o.GC && o.Deletes {
			choices = append(choices, "gcdel")
			if noGC == 0 {
				choices = append(choices, "gcwith", "gcrewrite")
			}
		}
		if noGC > 0 {
			// the operations that run inside a gcwith pass: no second pass, no reopen
			kept := choices[:0]
			for _, c := range choices {
				if c != "gc" && c != "gcdel" && c != "gcwith" && c != "reopen" {
					kept = append(kept, c)
				}
			}
			choices = kept
		}
		before := len(sc.Ops)
		kind := rapid.SampledFrom(choices).Draw(t, "kind")
		switch kind {
		case "open":
			if op, ok := genOpen(t, st, indexes, o); ok {
				st.ApplyOpen(op)
				sc.Ops = append(sc.Ops, op)
			}
		case "write":
			if op, ok := genWrite(st.Writers[pickWriter(t, st)]); ok {
				sc.Ops = append(sc.Ops, op)
			}
		case "burst":
			// several consecutive writes of an interval-persisting writer with waits in
			// between: a mix of persisting and non-persisting auto-commits, some of which
			// roll the file over
			var iw *WState
			for _, id := range sortedWriterIDs(st) {
				if st.Writers[id].PersistEvery > 0 {
					iw = st.Writers[id]
					break
				}
			}
			for i, n := 0, rapid.IntRange(2, 5).Draw(t, "burst-n"); iw != nil && i < n; i++ {
				if op, ok := genWrite(iw); ok {
					sc.Ops = append(sc.Ops, op)
				}
				if rapid.IntRange(0, 2).Draw(t, "burst-wait") == 0 {
					sc.Ops = append(sc.Ops, Op{Kind: "wait", A: 1300})
				}
			}
		case "commit":
			id := pickWriter(t, st)
			st.ApplyCommit(id)
			sc.Ops = append(sc.Ops, Op{Kind: "commit", W: id})
		case "close":
			id := pickWriter(t, st)
			st.ApplyClose(id)
			sc.Ops = append(sc.Ops, Op{Kind: "close", W: id})
		case "reopen":
			sc.Ops = append(sc.Ops, Op{Kind: "reopen"})
		case "side":
			if op, ok := genSide(t, st, indexes); ok {
				st.ApplySide(op)
				sc.Ops = append(sc.Ops, op)
			}
		case "gc":
			sc.Ops = append(sc.Ops, Op{Kind: "gc"})
		case "read":
			a := genBound(t, st.M, "a")
			b := genBound(t, st.M, "b")
			if b < a {
				a, b = b, a
			}
			sc.Ops = append(sc.Ops, Op{Kind: "read", A: a, B: b})
		case "delete":
			if op, ok := genDelete(t, st); ok {
				sc.Ops = append(sc.Ops, op)
			}
		case "nestdel":
			// Nested deletes on one stored stretch of an index group: two one-sample cuts
			// [s_i,s_i+1) and [s_j,s_j+1), j >= i+2, leave whole domains between them; a third
			// delete then starts in the loose tail the first cut left (between s_i-1 and s_i),
			// ends exactly on the start of the domain after the second cut and has to remove
			// every whole domain in between.
			var groups []uint32
			for _, ix := range indexes {
				if !st.groupBusy(ix) && len(st.M.Chans[ix].Samples) >= 6 {
					groups = append(groups, ix)
				}
			}
			if len(groups) == 0 {
				continue
			}
			ix := rapid.SampledFrom(groups).Draw(t, "nd-group")
			chans := append([]uint32{ix}, st.M.Dependants(ix)...)
			sort.Slice(chans, func(a, b int) bool { return chans[a] < chans[b] })
			all := map[uint32]bool{}
			for _, k := range chans {
				all[k] = true
			}
			ks := st.M.Chans[ix].Keys()
			var is []int // i with room below s_i and at least three samples above
			for i := 1; i+3 < len(ks); i++ {
				if ks[i]-ks[i-1] >= 2 {
					is = append(is, i)
				}
			}
			if len(is) == 0 {
				continue
			}
			i := rapid.SampledFrom(is).Draw(t, "nd-i")
			j := rapid.IntRange(i+2, len(ks)-2).Draw(t, "nd-j")
			for _, d := range []Op{
				{Kind: "delete", Channels: chans, A: ks[i], B: ks[i+1]},
				{Kind: "delete", Channels: chans, A: ks[j], B: ks[j+1]},
				{Kind: "delete", Channels: chans, A: ks[i] - 1, B: ks[j+1]},
			} {
				ApplyDelete(st.M, d, all)
				sc.Ops = append(sc.Ops, d)
			}
		case "wait":
			sc.Ops = append(sc.Ops, Op{Kind: "wait", A: 1300})
		case "gcdel":
			if op, ok := genDelete(t, st); ok {
				op.Kind = "gcdel"
				sc.Ops = append(sc.Ops, op)
			}
		case "gcrewrite":
			// While the collector copies: a whole stored stretch of one index group is deleted
			// and written again, so that the new domains (in other files: the file under
			// collection is out of the writer pool) cover time ranges the collector has scanned.
			var groups []uint32
			for _, ix := range indexes {
				if !st.groupBusy(ix) && len(st.M.Chans[ix].Cover) > 0 && len(st.M.Chans[ix].Samples) > 0 {
					groups = append(groups, ix)
				}
			}
			if len(groups) == 0 {
				continue
			}
			ix := rapid.SampledFrom(groups).Draw(t, "rw-group")
			iv := rapid.SampledFrom(st.M.Chans[ix].Cover).Draw(t, "rw-cover")
			chans := append([]uint32{ix}, st.M.Dependants(ix)...)
			sort.Slice(chans, func(a, b int) bool { return chans[a] < chans[b] })
			// the stretch to delete must be covered by nothing else of the group beyond iv
			lo, hi := iv.S, iv.E
			for _, k := range chans {
				for _, c := range st.M.Chans[k].Cover {
					if c.S < hi && lo < c.E {
						if c.S < lo {
							lo = c.S
						}
						if c.E > hi {
							hi = c.E
						}
					}
				}
			}
			del := Op{Kind: "delete", Channels: chans, A: lo, B: hi}
			all := map[uint32]bool{}
			for _, k := range chans {
				all[k] = true
			}
			ApplyDelete(st.M, del, all)
			open := Op{Kind: "open", W: st.NextW, Channels: chans, Start: lo, AutoCommit: true, PersistAlways: rapid.Bool().Draw(t, "rw-persist"), Sync: true}
			w := st.ApplyOpen(open)
			wr := Op{Kind: "write", W: open.W, Seed: uint64(rapid.IntRange(0, 1<<20).Draw(t, "rw-seed"))}
			ts := lo
			for i, n := 0, rapid.IntRange(1, 4).Draw(t, "rw-n"); i < n && ts < hi && ts < w.Bound; i++ {
				wr.TS = append(wr.TS, ts)
				ts += int64(rapid.IntRange(1, 3).Draw(t, "rw-gap"))
			}
			if len(wr.TS) == 0 {
				st.ApplyClose(open.W)
				sc.Ops = append(sc.Ops, del)
				continue
			}
			st.ApplyWrite(wr)
			st.ApplyClose(open.W)
			sc.Ops = append(sc.Ops, Op{Kind: "gcwith", Span: 4}, del, open, wr, Op{Kind: "close", W: open.W})
		case "gcwith":
			sp := rapid.IntRange(1, 4).Draw(t, "gcwith-span")
			sc.Ops = append(sc.Ops, Op{Kind: "gcwith", Span: sp})
			noGC = sp + 1
		}
		if noGC > 0 && len(sc.Ops) > before {
			noGC -= len(sc.Ops) - before
			if noGC < 0 {
				noGC = 0
			}
		}
	}
	// close every writer at the end so the final reads and the reopen see a quiescent DB
	ids := make([]int, 0, len(st.Writers))
	for id := range st.Writers {
		ids = append(ids, id)
	}
	sort.Ints(ids)
	for _, id := range ids {
		if rapid.Bool().Draw(t, "final-commit") {
			st.ApplyCommit(id)
			sc.Ops = append(sc.Ops, Op{Kind: "commit", W: id})
		}
		st.ApplyClose(id)
		sc.Ops = append(sc.Ops, Op{Kind: "close", W: id})
	}
	return sc
}

// genSide draws the next operation on a side channel: create a new one, or write to, rename
// or delete existing ones (deletes take one key or a batch mixing kinds).
func genSide(t *rapid.T, st *State, indexes []uint32) (Op, bool) {
	var live []uint32
	for _, k := range st.SideKeys() {
		if st.Side[k].Exists {
			live = append(live, k)
		}
	}
	choices := []string{"xcreate"}
	if len(st.Side) >= 4 {
		choices = nil
	}
	if len(live) > 0 {
		choices = append(choices, "xrename", "xdelete", "xdelete", "xwrite")
	}
	if len(choices) == 0 {
		return Op{}, false
	}
	switch kind := rapid.SampledFrom(choices).Draw(t, "side-kind"); kind {
	case "xcreate":
		key := uint32(900 + len(st.Side))
		kinds := []string{"index", "index", "virtual"}
		if len(indexes) > 0 {
			kinds = append(kinds, "data")
		}
		return Op{Kind: "xcreate", Key: key, XKind: rapid.SampledFrom(kinds).Draw(t, "side-xkind"), Name: "side" + string(rune('a'+len(st.Side)))}, true
	case "xwrite":
		var idx []uint32
		for _, k := range live {
			if st.Side[k].Kind == "index" {
				idx = append(idx, k)
			}
		}
		if len(idx) == 0 {
			return Op{}, false
		}
		key := rapid.SampledFrom(idx).Draw(t, "side-wkey")
		last := int64(0)
		if n := len(st.Side[key].TS); n > 0 {
			last = st.Side[key].TS[n-1]
		}
		op := Op{Kind: "xwrite", Key: key, Start: last + 1}
		for i, n := 0, rapid.IntRange(1, 6).Draw(t, "side-n"); i < n; i++ {
			op.TS = append(op.TS, last+1+int64(i))
		}
		return op, true
	case "xrename":
		key := rapid.SampledFrom(live).Draw(t, "side-rkey")
		return Op{Kind: "xrename", Key: key, Name: st.Side[key].Name + "x"}, true
	default:
		n := 1
		if len(live) > 1 && rapid.Bool().Draw(t, "side-batch") {
			n = rapid.IntRange(2, len(live)).Draw(t, "side-batch-n")
		}
		perm := rapid.Permutation(live).Draw(t, "side-dkeys")
		return Op{Kind: "xdelete", Keys: append([]uint32(nil), perm[:n]...)}, true
	}
}

func sortedWriterIDs(st *State) []int {
	ids := make([]int, 0, len(st.Writers))
	for id := range st.Writers {
		ids = append(ids, id)
	}
	sort.Ints(ids)
	return ids
}

func pickWriter(t *rapid.T, st *State) int {
	ids := make([]int, 0, len(st.Writers))
	for id := range st.Writers {
		ids = append(ids, id)
	}
	sort.Ints(ids)
	return rapid.SampledFrom(ids).Draw(t, "writer")
}

func genOpen(t *rapid.T, st *State, indexes []uint32, o GenOpts) (Op, bool) {
	var free []uint32
	for _, i := range indexes {
		if !st.groupBusy(i) {
			free = append(free, i)
		}
	}
	if len(free) == 0 {
		return Op{}, false
	}
	idx := rapid.SampledFrom(free).Draw(t, "group")
	deps := st.M.Dependants(idx)
	op := Op{Kind: "open", W: st.NextW,
		AutoCommit:    rapid.IntRange(0, 2).Draw(t, "auto_commit") > 0,
		PersistAlways: rapid.Bool().Draw(t, "persist_always"),
		Sync:          rapid.IntRange(0, 3).Draw(t, "sync") > 0 || o.ForceSync,
	}
	if o.PersistIntervals && op.AutoCommit && !op.PersistAlways && rapid.Bool().Draw(t, "persist_every") {
		op.PersistEvery = 1000
	}
	ic := st.M.Chans[idx]
	// data-only writer (writes.mdx "Example 2"): start on an existing index sample
	if len(deps) > 0 && len(ic.Samples) > 0 && rapid.IntRange(0, 5).Draw(t, "data_only") == 0 {
		var sub []uint32
		for _, d := range deps {
			if rapid.Bool().Draw(t, "dsel") {
				sub = append(sub, d)
			}
		}
		if len(sub) == 0 {
			sub = []uint32{deps[0]}
		}
		var cands []int64
		for _, ts := range ic.Keys() {
			ok := true
			for _, d := range sub {
				if st.M.Chans[d].Covered(ts) {
					ok = false
				}
			}
			if ok {
				cands = append(cands, ts)
			}
		}
		if len(cands) > 0 {
			op.Channels = sub
			op.Start = rapid.SampledFrom(cands).Draw(t, "start-on-sample")
			op.DataOnly = true
			return op, true
		}
	}
	op.Channels = []uint32{idx}
	for _, d := range deps {
		if rapid.IntRange(0, 4).Draw(t, "dsel") > 0 {
			op.Channels = append(op.Channels, d)
		}
	}
	// choose a start in a gap of the index coverage
	cov := ic.Cover
	type gap struct{ s, e int64 }
	var gaps []gap
	prev := int64(1) // timestamp 0 is unusable as a start: a zero Start means "unset"
	for _, iv := range cov {
		if iv.S > prev {
			gaps = append(gaps, gap{prev, iv.S})
		}
		prev = iv.E
	}
	gaps = append(gaps, gap{prev, tsInf})
	// prefer the tail gap half of the time, otherwise any (out-of-order insertion)
	g := gaps[len(gaps)-1]
	if rapid.Bool().Draw(t, "any-gap") {
		g = rapid.SampledFrom(gaps).Draw(t, "gap")
	}
	switch rapid.IntRange(0, 3).Draw(t, "start-pos") {
	case 0:
		op.Start = g.s // adjacent to the previous domain end (or 0)
	case 1:
		op.Start = g.s + 1
	default:
		room := g.e - g.s
		if room > 400 {
			room = 400
		}
		op.Start = g.s + int64(rapid.Int64Range(0, room-1).Draw(t, "start-off"))
	}
	if op.Start >= g.e || op.Start < g.s {
		return Op{}, false
	}
	return op, true
}

func genDelete(t *rapid.T, st *State) (Op, bool) {
	// candidate channels: any channel whose group has no open writer
	var cands []uint32
	for _, k := range st.M.Order {
		c := st.M.Chans[k]
		idx := c.Spec.Index
		if c.Spec.IsIndex {
			idx = c.Spec.Key
		}
		if !st.groupBusy(idx) {
			cands = append(cands, k)
		}
	}
	if len(cands) == 0 {
		return Op{}, false
	}
	// prefer channels that hold data (a delete on an empty channel exercises little)
	var withData []uint32
	for _, k := range cands {
		if len(st.M.Chans[k].Samples) > 0 {
			withData = append(withData, k)
		}
	}
	if len(withData) == 0 && rapid.IntRange(0, 9).Draw(t, "del-empty") > 0 {
		return Op{}, false
	}
	if len(withData) > 0 && rapid.IntRange(0, 9).Draw(t, "del-any") > 0 {
		cands = withData
	}
	op := Op{Kind: "delete"}
	n := rapid.IntRange(1, min(3, len(cands))).Draw(t, "ndel")
	perm := rapid.Permutation(cands).Draw(t, "delchans")
	op.Channels = append(op.Channels, perm[:n]...)
	sort.Slice(op.Channels, func(i, j int) bool { return op.Channels[i] < op.Channels[j] })
	a := genBoundFor(t, st.M, op.Channels[0], "da")
	b := genBoundFor(t, st.M, op.Channels[0], "db")
	if b < a {
		a, b = b, a
	}
	op.A, op.B = a, b
	// Prediction for later legality decisions only (the oracle is in the executor): the
	// engine refuses an index delete when an unnamed dependant's *domain* overlaps.
	named := map[uint32]bool{}
	for _, k := range op.Channels {
		named[k] = true
	}
	applied := map[uint32]bool{}
	for _, k := range op.Channels {
		c := st.M.Chans[k]
		ok := true
		if c.Spec.IsIndex {
			for _, d := range st.M.Dependants(k) {
				if !named[d] && st.M.Chans[d].CoverOverlaps(a, b) {
					ok = false
				}
			}
		}
		applied[k] = ok
	}
	ApplyDelete(st.M, op, applied)
	return op, true
}

// MustRefuse returns the index channels named in a delete request whose deletion must be
// refused: an unnamed dependant data channel still holds a *sample* in [a,b). (A named
// dependant is deleted first by the same request.) If the set is non-empty the request
// as a whole must fail and those index channels must be unchanged.
func MustRefuse(m *tsm.Model, op Op) map[uint32]bool {
	named := map[uint32]bool{}
	for _, k := range op.Channels {
		named[k] = true
	}
	out := map[uint32]bool{}
	for _, k := range op.Channels {
		c := m.Chans[k]
		if !c.Spec.IsIndex {
			continue
		}
		for _, d := range m.Dependants(k) {
			if !named[d] && m.Chans[d].HasSampleIn(op.A, op.B) {
				out[k] = true
			}
		}
	}
	return out
}

// ApplyDelete applies a delete to the model for the channels in applied.
func ApplyDelete(m *tsm.Model, op Op, applied map[uint32]bool) {
	for _, k := range op.Channels {
		if applied[k] {
			m.Chans[k].Delete(op.A, op.B)
		}
	}
}
