package cx

// HookFS wraps an xfs.FS and calls a hook before a file is opened. A harness uses it to own
// one point of a schedule: "while the garbage collector has scanned the index and is about
// to copy a file" is the moment the `<n>.domain_gc` copy is opened.

import (
	"sync"

	xfs "github.com/synnaxlabs/x/io/fs"
)

type hookCore struct {
	mu   sync.Mutex
	hook func(path string, flag int)
}

type HookFS struct {
	inner xfs.FS
	core  *hookCore
	dir   string
}

func NewHookFS(inner xfs.FS) *HookFS { return &HookFS{inner: inner, core: &hookCore{}} }

// SetHook installs (or, with nil, removes) the hook. The hook runs on the goroutine that
// opens the file, before the open is forwarded.
func (h *HookFS) SetHook(f func(path string, flag int)) {
	h.core.mu.Lock()
	h.core.hook = f
	h.core.mu.Unlock()
}

func (h *HookFS) Open(name string, flag int) (xfs.File, error) {
	h.core.mu.Lock()
	f := h.core.hook
	h.core.mu.Unlock()
	if f != nil {
		f(h.dir+"/"+name, flag)
	}
	return h.inner.Open(name, flag)
}

func (h *HookFS) Sub(name string) (xfs.FS, error) {
	s, err := h.inner.Sub(name)
	if err != nil {
		return nil, err
	}
	return &HookFS{inner: s, core: h.core, dir: h.dir + "/" + name}, nil
}

func (h *HookFS) List(name string) ([]xfs.FileInfo, error) { return h.inner.List(name) }
func (h *HookFS) Exists(name string) (bool, error)         { return h.inner.Exists(name) }
func (h *HookFS) Stat(name string) (xfs.FileInfo, error)   { return h.inner.Stat(name) }
func (h *HookFS) Remove(name string) error                 { return h.inner.Remove(name) }
func (h *HookFS) Rename(a, b string) error                 { return h.inner.Rename(a, b) }
