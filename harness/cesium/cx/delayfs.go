package cx

// DelayFS wraps an xfs.FS and perturbs the goroutine schedule at filesystem-call
// boundaries: before a call is forwarded the calling goroutine yields or sleeps for a few
// microseconds, decided by a hash of (seed, call number). Nothing about the data is
// changed. It is used by the concurrent checks (C09, C20) to widen windows such as "while
// the garbage collector copies a file" that the Go scheduler alone seldom opens. The
// decision sequence is a pure function of the seed; the resulting interleaving is not
// (the Go scheduler still owns it), which is why these checks record their history.

import (
	"fmt"
	"os"
	"runtime"
	"strings"
	"sync/atomic"
	"time"

	xfs "github.com/synnaxlabs/x/io/fs"
)

type DelayConfig struct {
	Seed      uint64 `json:"seed,omitempty"`
	PerMille  int    `json:"per_mille,omitempty"`  // probability of perturbing an ordinary call
	HotMille  int    `json:"hot_mille,omitempty"`  // probability for calls on GC copies, index files and renames
	MaxMicros int    `json:"max_micros,omitempty"` // upper bound of a sleep
}

type delayCore struct {
	cfg     DelayConfig
	n       atomic.Uint64
	enabled atomic.Bool
	Delays  atomic.Int64
}

type DelayFS struct {
	inner xfs.FS
	core  *delayCore
	dir   string
}

func NewDelayFS(inner xfs.FS, cfg DelayConfig) *DelayFS {
	return &DelayFS{inner: inner, core: &delayCore{cfg: cfg}}
}

// Enable switches perturbation on or off (off while a script's sequential prelude runs).
func (d *DelayFS) Enable(on bool) { d.core.enabled.Store(on) }

// Delays returns how many calls were perturbed.
func (d *DelayFS) Delays() int64 { return d.core.Delays.Load() }

func dmix(x uint64) uint64 {
	x ^= x >> 33
	x *= 0xff51afd7ed558ccd
	x ^= x >> 33
	x *= 0xc4ceb9fe1a85ec53
	x ^= x >> 33
	return x
}

func hot(name string) bool {
	return strings.HasSuffix(name, "_gc") || strings.HasSuffix(name, "_temp") || strings.HasSuffix(name, "index.domain") || strings.Contains(name, "-DELETE-")
}

func (c *delayCore) perturb(isHot bool) {
	if !c.enabled.Load() {
		return
	}
	h := dmix(c.cfg.Seed ^ (c.n.Add(1) * 0x9e3779b97f4a7c15))
	p := c.cfg.PerMille
	if isHot {
		p = c.cfg.HotMille
	}
	if int(h%1000) >= p {
		return
	}
	c.Delays.Add(1)
	if (h>>10)&3 == 0 || c.cfg.MaxMicros <= 0 {
		runtime.Gosched()
		return
	}
	time.Sleep(time.Duration(1+(h>>12)%uint64(c.cfg.MaxMicros)) * time.Microsecond)
}

var fsTrace = os.Getenv("VERIF_FSTRACE") != ""

func trace(format string, a ...any) {
	if fsTrace {
		fmt.Printf("FSTRACE "+format+"\n", a...)
	}
}

func (d *DelayFS) Open(name string, flag int) (xfs.File, error) {
	d.core.perturb(hot(name))
	f, err := d.inner.Open(name, flag)
	trace("open %s/%s flag=%x err=%v", d.dir, name, flag, err)
	if err != nil {
		return nil, err
	}
	return &delayFile{File: f, core: d.core, hot: hot(name), name: d.dir + "/" + name}, nil
}

func (d *DelayFS) Sub(name string) (xfs.FS, error) {
	s, err := d.inner.Sub(name)
	if err != nil {
		return nil, err
	}
	return &DelayFS{inner: s, core: d.core, dir: d.dir + "/" + name}, nil
}

func (d *DelayFS) List(name string) ([]xfs.FileInfo, error) { return d.inner.List(name) }
func (d *DelayFS) Exists(name string) (bool, error)         { return d.inner.Exists(name) }
func (d *DelayFS) Stat(name string) (xfs.FileInfo, error) {
	d.core.perturb(hot(name))
	return d.inner.Stat(name)
}

func (d *DelayFS) Remove(name string) error {
	d.core.perturb(true)
	trace("remove %s/%s", d.dir, name)
	return d.inner.Remove(name)
}

func (d *DelayFS) Rename(a, b string) error {
	d.core.perturb(true)
	trace("rename %s/%s -> %s", d.dir, a, b)
	return d.inner.Rename(a, b)
}

type delayFile struct {
	xfs.File
	core *delayCore
	hot  bool
	name string
}

func (f *delayFile) Write(p []byte) (int, error) {
	f.core.perturb(f.hot)
	trace("write %s %d bytes %x", f.name, len(p), p[:min(len(p), 16)])
	return f.File.Write(p)
}

func (f *delayFile) WriteAt(p []byte, off int64) (int, error) {
	f.core.perturb(f.hot)
	return f.File.WriteAt(p, off)
}

func (f *delayFile) ReadAt(p []byte, off int64) (int, error) {
	f.core.perturb(f.hot)
	n, err := f.File.ReadAt(p, off)
	trace("readat %s off=%d len=%d -> %x", f.name, off, len(p), p[:min(n, 16)])
	return n, err
}

func (f *delayFile) Truncate(n int64) error {
	f.core.perturb(f.hot)
	return f.File.Truncate(n)
}

func (f *delayFile) Close() error {
	f.core.perturb(f.hot)
	trace("close %s", f.name)
	return f.File.Close()
}
