// C01 — cesium reads return exactly the committed samples, in time order.
package verif_c01_test

import (
	"encoding/json"
	"fmt"
	"os"
	"testing"

	"github.com/synnaxlabs/cesium/internal/verif/cx"
	kit "github.com/synnaxlabs/cesium/internal/verifkit"
	"pgregory.net/rapid"
)

func execute(sc cx.Script, rep *kit.Report) error {
	st, _, err := cx.Run(sc, rep, cx.RunConfig{CheckEvery: false})
	if err != nil {
		return err
	}
	if os.Getenv("VERIF_DEBUG_DISCARD") != "" && rep.Has("__discarded") {
		b, _ := json.Marshal(sc)
		fmt.Println("DISCARDED:", string(b))
	}
	if rep.Has("multi-commit") && rep.Has("read-bound-inside-data") {
		rep.Nontrivial()
	}
	_ = st
	return nil
}

func TestC01(t *testing.T) {
	r := &kit.Runner[cx.Script]{Name: "TestC01", Exec: execute}
	r.Run(t, func(rt *rapid.T) cx.Script {
		return cx.Gen(rt, cx.GenOpts{MaxChans: 3, Groups: 2, MaxOps: 40, PersistIntervals: true})
	})
}
