// TestC01AutoIndex: the same property for writers opened with AutoIndex - the caller writes
// data channels only and the writer stamps the omitted index channel with the node's clock.
// The timestamps are not known in advance, so the oracle learns them: after every commit the
// index channel must hold what it held before plus exactly as many new timestamps as samples
// were written per data channel since the last commit, strictly increasing and not before the
// writer was opened; every data channel must hold exactly the values written, in order; and
// reads over [t_i, t_j) of learned timestamps must return exactly the samples i..j-1 of every
// channel of the group (index and data positions agree). The clock is only ever used as a
// lower bound; before an open or a write the harness waits until the clock has passed the
// last timestamp it has seen (a writer whose start falls inside stored data must fail to
// open, which is C03's business, not a defect here).
package verif_c01_test

import (
	"bytes"
	"context"
	"encoding/binary"
	"fmt"
	"testing"

	"github.com/synnaxlabs/cesium"
	"github.com/synnaxlabs/cesium/internal/verif/cx"
	"github.com/synnaxlabs/cesium/internal/verif/tsm"
	kit "github.com/synnaxlabs/cesium/internal/verifkit"
	xfs "github.com/synnaxlabs/x/io/fs"
	"github.com/synnaxlabs/x/telem"
	"pgregory.net/rapid"
)

type AOp struct {
	Kind string `json:"kind"` // open write commit close reopen
	// open
	Groups     []int `json:"groups,omitempty"`
	StartAfter bool  `json:"start_after,omitempty"` // explicit Start right after the last stored timestamp instead of the default (now)
	AutoCommit bool  `json:"auto_commit,omitempty"`
	WithIndex  bool  `json:"with_index,omitempty"` // the index channels are named in the writer's keys as well
	// write
	N    int    `json:"n,omitempty"`
	Seed uint64 `json:"seed,omitempty"`
	Skip []int  `json:"skip,omitempty"` // groups of the writer this frame leaves out
}

type AScript struct {
	NData    [2]int    `json:"ndata"` // data channels per group (group 1 may have 0 = absent)
	Types    [6]string `json:"types"`
	FileSize int       `json:"file_size,omitempty"`
	Ops      []AOp     `json:"ops"`
}

var aTypes = []string{"int64", "uint8", "float32", "float64", "int16", "string", "bytes"}

func genAScript(t *rapid.T) AScript {
	sc := AScript{NData: [2]int{rapid.IntRange(1, 3).Draw(t, "n0"), rapid.IntRange(0, 2).Draw(t, "n1")},
		FileSize: rapid.SampledFrom([]int{0, 0, 64, 256}).Draw(t, "file_size")}
	for i := range sc.Types {
		sc.Types[i] = rapid.SampledFrom(aTypes).Draw(t, "dt")
	}
	groups := []int{0}
	if sc.NData[1] > 0 {
		groups = append(groups, 1)
	}
	open := false
	var cur []int
	for i, n := 0, rapid.IntRange(4, 30).Draw(t, "nops"); i < n; i++ {
		switch k := rapid.IntRange(0, 9).Draw(t, "kind"); {
		case !open && k < 8:
			cur = nil
			for _, g := range groups {
				if rapid.Bool().Draw(t, "gsel") {
					cur = append(cur, g)
				}
			}
			if len(cur) == 0 {
				cur = []int{rapid.SampledFrom(groups).Draw(t, "g-one")}
			}
			sc.Ops = append(sc.Ops, AOp{Kind: "open", Groups: cur, StartAfter: rapid.IntRange(0, 3).Draw(t, "start-after") == 0,
				AutoCommit: rapid.IntRange(0, 3).Draw(t, "auto-commit") == 0, WithIndex: rapid.IntRange(0, 5).Draw(t, "with-index") == 0})
			open = true
		case !open:
			sc.Ops = append(sc.Ops, AOp{Kind: "reopen"})
		case k < 5:
			op := AOp{Kind: "write", N: rapid.IntRange(1, 12).Draw(t, "n"), Seed: uint64(rapid.IntRange(0, 1<<30).Draw(t, "seed"))}
			if rapid.IntRange(0, 11).Draw(t, "burst") == 0 {
				// a long series is stamped 1 ns apart, i.e. microseconds into the future (in
				// practice the call itself takes longer than that: the catch-up branch of the
				// auto-stamp clock needs a coarse or stepping clock to be entered)
				op.N = rapid.IntRange(2000, 8000).Draw(t, "n-burst")
			}
			if len(cur) > 1 && rapid.IntRange(0, 3).Draw(t, "skip") == 0 {
				op.Skip = []int{rapid.SampledFrom(cur).Draw(t, "skip-g")}
			}
			sc.Ops = append(sc.Ops, op)
		case k < 8:
			sc.Ops = append(sc.Ops, AOp{Kind: "commit"})
		default:
			sc.Ops = append(sc.Ops, AOp{Kind: "close"})
			open = false
		}
	}
	if open {
		if rapid.Bool().Draw(t, "final-commit") {
			sc.Ops = append(sc.Ops, AOp{Kind: "commit"})
		}
		sc.Ops = append(sc.Ops, AOp{Kind: "close"})
	}
	return sc
}

func firstDiff(a, b [][]byte) int {
	for i := 0; i < len(a) && i < len(b); i++ {
		if !bytes.Equal(a[i], b[i]) {
			return i
		}
	}
	return min(len(a), len(b))
}

func sameSmp(a, b [][]byte) bool { return len(a) == len(b) && firstDiff(a, b) == len(a) }

type aGroup struct {
	idx   tsm.ChannelSpec
	data  []tsm.ChannelSpec
	ts    []int64             // learned, committed index timestamps
	vals  map[uint32][][]byte // committed values per data channel
	pend  map[uint32][][]byte // written since the last commit by the open writer
	pendN int
	seq   int64
}

func executeAuto(sc AScript, rep *kit.Report) error {
	ctx := context.Background()
	fs := xfs.NewMem()
	opts := []cesium.Option{cesium.WithFS(fs)}
	if sc.FileSize > 0 {
		opts = append(opts, cesium.WithFileSizeCap(telem.Size(sc.FileSize)))
	}
	db, err := cesium.Open(ctx, "", opts...)
	if err != nil {
		return kit.Fail("setup", "open: %v", err)
	}
	defer func() {
		if db != nil {
			_ = db.Close()
		}
	}()
	var groups []*aGroup
	ti := 0
	for g := 0; g < 2; g++ {
		if sc.NData[g] == 0 {
			continue
		}
		gr := &aGroup{idx: tsm.ChannelSpec{Key: uint32(10*g + 1), IsIndex: true, DataType: "timestamp"}, vals: map[uint32][][]byte{}, pend: map[uint32][][]byte{}}
		for d := 0; d < sc.NData[g]; d++ {
			gr.data = append(gr.data, tsm.ChannelSpec{Key: uint32(10*g + 2 + d), Index: gr.idx.Key, DataType: sc.Types[ti]})
			ti++
		}
		for _, s := range append([]tsm.ChannelSpec{gr.idx}, gr.data...) {
			if cerr := db.CreateChannel(ctx, cesium.Channel{Key: s.Key, Name: fmt.Sprint("ch", s.Key), DataType: telem.DataType(s.DataType), IsIndex: s.IsIndex, Index: s.Index}); cerr != nil {
				return kit.Fail("setup", "create channel %d: %v", s.Key, cerr)
			}
		}
		groups = append(groups, gr)
	}
	byG := func(g int) *aGroup {
		if g == 1 && len(groups) > 1 {
			return groups[1]
		}
		return groups[0]
	}
	var (
		w        *cesium.Writer
		wGroups  []*aGroup
		wAuto    bool
		openedAt int64
		lastSeen int64 // the largest timestamp seen so far
	)
	waitClock := func() {
		for int64(telem.Now()) <= lastSeen+1 {
		}
	}
	yes := true
	// check compares what the engine holds for a group with committed (+ pending, after a commit)
	check := func(gr *aGroup, where string, adopt bool) error {
		raw, rerr := cx.ReadChannel(ctx, db, gr.idx, 0, 1<<62)
		if rerr != nil {
			return kit.Fail("read-error", "%s: reading index channel %d: %v", where, gr.idx.Key, rerr)
		}
		var got []int64
		for _, b := range raw {
			got = append(got, int64(binary.LittleEndian.Uint64(b)))
		}
		want := len(gr.ts)
		if adopt {
			want += gr.pendN
		}
		if len(got) != want {
			return kit.Fail("autoindex-sample-count", "%s: index channel %d holds %d timestamps, expected %d (%d committed before + %d samples written per data channel since)", where, gr.idx.Key, len(got), want, len(gr.ts), want-len(gr.ts))
		}
		for i, t := range got {
			if i < len(gr.ts) && t != gr.ts[i] {
				return kit.Fail("autoindex-committed-timestamp-changed", "%s: index channel %d: timestamp %d was %d, now reads %d", where, gr.idx.Key, i, gr.ts[i], t)
			}
			if i > 0 && t <= got[i-1] {
				return kit.Fail("autoindex-not-increasing", "%s: index channel %d: timestamp %d (%d) does not follow %d", where, gr.idx.Key, i, t, got[i-1])
			}
			if i >= len(gr.ts) && t < openedAt {
				return kit.Fail("autoindex-stamp-before-open", "%s: index channel %d: auto-stamped timestamp %d lies before the writer was opened (%d)", where, gr.idx.Key, t, openedAt)
			}
		}
		if adopt {
			gr.ts = got
			for _, d := range gr.data {
				gr.vals[d.Key] = append(gr.vals[d.Key], gr.pend[d.Key]...)
				gr.pend[d.Key] = nil
			}
			gr.pendN = 0
		}
		if len(got) > 0 && got[len(got)-1] > lastSeen {
			lastSeen = got[len(got)-1]
		}
		for _, d := range gr.data {
			vals, derr := cx.ReadChannel(ctx, db, d, 0, 1<<62)
			if derr != nil {
				return kit.Fail("read-error", "%s: reading data channel %d: %v", where, d.Key, derr)
			}
			if !sameSmp(vals, gr.vals[d.Key]) {
				return kit.Fail("read-mismatch", "%s: data channel %d (%s) holds %d samples, the %d committed ones were expected in order (first difference at %d)", where, d.Key, d.DataType, len(vals), len(gr.vals[d.Key]), firstDiff(vals, gr.vals[d.Key]))
			}
		}
		// sub-range reads by learned timestamps: positions of index and data agree
		if n := len(gr.ts); n >= 2 {
			for _, pr := range [][2]int{{0, n - 1}, {n / 3, 2 * n / 3}, {n / 2, n/2 + 1}, {1, n - 1}} {
				i, j := pr[0], pr[1]
				if i >= j || j >= n {
					continue
				}
				for _, d := range gr.data {
					vals, derr := cx.ReadChannel(ctx, db, d, gr.ts[i], gr.ts[j])
					if derr != nil {
						return kit.Fail("read-error", "%s: reading data channel %d over [t%d,t%d): %v", where, d.Key, i, j, derr)
					}
					if !sameSmp(vals, gr.vals[d.Key][i:j]) {
						return kit.Fail("autoindex-misaligned", "%s: data channel %d over [t%d=%d, t%d=%d) returned %d samples, expected the %d samples at positions %d..%d", where, d.Key, i, gr.ts[i], j, gr.ts[j], len(vals), j-i, i, j-1)
					}
				}
				rep.Class("range-read-by-learned-timestamps")
			}
		}
		return nil
	}
	commits := 0
	for i, op := range sc.Ops {
		where := fmt.Sprintf("op %d %+v", i, op)
		switch op.Kind {
		case "open":
			if w != nil {
				continue
			}
			wGroups = nil
			var keys []cesium.ChannelKey
			for _, g := range op.Groups {
				gr := byG(g)
				dup := false
				for _, x := range wGroups {
					dup = dup || x == gr
				}
				if dup {
					continue
				}
				wGroups = append(wGroups, gr)
				for _, d := range gr.data {
					keys = append(keys, d.Key)
				}
				if op.WithIndex {
					keys = append(keys, gr.idx.Key)
				}
			}
			waitClock()
			cfg := cesium.WriterConfig{Channels: keys, AutoIndex: &yes, Sync: &yes, EnableAutoCommit: &op.AutoCommit,
				AutoIndexPersistInterval: cesium.AlwaysIndexPersistOnAutoCommit}
			openedAt = int64(telem.Now())
			if op.StartAfter {
				cfg.Start = telem.TimeStamp(lastSeen + 1)
				openedAt = lastSeen + 1
				rep.Class("explicit-start")
			}
			var oerr error
			if w, oerr = db.OpenWriter(ctx, cfg); oerr != nil {
				return kit.Fail("open-writer", "%s: OpenWriter(AutoIndex) on data channels %v: %v", where, keys, oerr)
			}
			wAuto = op.AutoCommit
			if len(wGroups) > 1 {
				rep.Class("writer-spans-two-index-groups")
			}
		case "write":
			if w == nil {
				continue
			}
			var keys []cesium.ChannelKey
			var series []telem.Series
			var wrote []*aGroup
			for gi, gr := range wGroups {
				skip := false
				for _, s := range op.Skip {
					skip = skip || (byG(s) == gr && len(wGroups) > 1)
				}
				if skip && gi < len(wGroups) {
					rep.Class("frame-leaves-out-a-group")
					continue
				}
				wrote = append(wrote, gr)
				for _, d := range gr.data {
					var smp [][]byte
					for k := 0; k < op.N; k++ {
						smp = append(smp, tsm.Payload(d, gr.seq+int64(k), op.Seed))
					}
					keys = append(keys, d.Key)
					series = append(series, telem.Series{DataType: telem.DataType(d.DataType), Data: tsm.Encode(d.DataType, smp)})
					gr.pend[d.Key] = append(gr.pend[d.Key], smp...)
				}
				gr.seq += int64(op.N)
				gr.pendN += op.N
			}
			if len(keys) == 0 {
				continue
			}
			// no waiting here: auto-stamps are documented to be strictly monotonic across Write
			// calls even when the clock has not passed the previous call's last stamp yet
			auth, werr := w.Write(telem.MultiFrame[cesium.ChannelKey](keys, series))
			if werr != nil || !auth {
				return kit.Fail("write-error", "%s: Write of %d samples per data channel (no index series) returned authorized=%v err=%v", where, op.N, auth, werr)
			}
			if op.N >= 2000 {
				rep.Class("burst-write")
			}
			if wAuto {
				for _, gr := range wrote {
					if cerr := check(gr, where+" (auto-commit)", true); cerr != nil {
						return cerr
					}
				}
				commits++
			}
		case "commit":
			if w == nil {
				continue
			}
			if _, cerr := w.Commit(); cerr != nil {
				return kit.Fail("commit-error", "%s: Commit: %v", where, cerr)
			}
			for _, gr := range wGroups {
				if cerr := check(gr, where, true); cerr != nil {
					return cerr
				}
			}
			commits++
		case "close":
			if w == nil {
				continue
			}
			if cerr := w.Close(); cerr != nil {
				return kit.Fail("close-error", "%s: Close: %v", where, cerr)
			}
			w = nil
			for _, gr := range wGroups {
				if gr.pendN > 0 {
					rep.Class("close-with-uncommitted-samples")
				}
				// what was not committed is gone
				for k := range gr.pend {
					gr.pend[k] = nil
				}
				gr.pendN = 0
				if cerr := check(gr, where, false); cerr != nil {
					return cerr
				}
			}
		case "reopen":
			if w != nil {
				continue
			}
			if cerr := db.Close(); cerr != nil {
				return kit.Fail("close-error", "%s: db.Close: %v", where, cerr)
			}
			db = nil
			if db, err = cesium.Open(ctx, "", opts...); err != nil {
				return kit.Fail("reopen", "%s: cesium.Open on existing data: %v", where, err)
			}
			for _, gr := range groups {
				if cerr := check(gr, where, false); cerr != nil {
					return cerr
				}
			}
			rep.Class("reopen")
		}
	}
	if w != nil {
		_ = w.Close()
	}
	if commits >= 2 && rep.Has("range-read-by-learned-timestamps") {
		rep.Nontrivial()
	}
	return nil
}

func TestC01AutoIndex(t *testing.T) {
	r := &kit.Runner[AScript]{Name: "TestC01AutoIndex", Exec: executeAuto}
	r.Run(t, genAScript)
}
