// Package tsm is the M-TS reference model (DESIGN.md §3): an obviously-correct in-memory
// telemetry store, plus the script vocabulary shared by the cesium harnesses. It imports
// nothing from the repository, so the model shares no code with the system under test.
package tsm

import (
	"encoding/binary"
	"fmt"
	"sort"
)

// ChannelSpec describes one channel of a script.
type ChannelSpec struct {
	Key      uint32 `json:"key"`
	Index    uint32 `json:"index,omitempty"` // 0 for index channels
	IsIndex  bool   `json:"is_index,omitempty"`
	DataType string `json:"dt"`
}

// Density returns the sample width of fixed-size types and 0 for variable-length ones.
func Density(dt string) int {
	switch dt {
	case "uint8", "int8":
		return 1
	case "uint16", "int16":
		return 2
	case "uint32", "int32", "float32":
		return 4
	case "uint64", "int64", "float64", "timestamp":
		return 8
	case "uuid":
		return 16
	}
	return 0
}

// FixedTypes / VarTypes are the data types the generators draw from.
var (
	FixedTypes = []string{"uint8", "int16", "int32", "int64", "float32", "float64", "uuid", "timestamp", "uint16", "uint64"}
	VarTypes   = []string{"string", "bytes", "json"}
)

func mix(x uint64) uint64 {
	x += 0x9e3779b97f4a7c15
	x = (x ^ (x >> 30)) * 0xbf58476d1ce4e5b9
	x = (x ^ (x >> 27)) * 0x94d049bb133111eb
	return x ^ (x >> 31)
}

// Payload is the deterministic sample value written for (channel, timestamp) under a
// per-write seed. Values differ between seeds so a stale or resurrected sample is visible.
func Payload(spec ChannelSpec, ts int64, seed uint64) []byte {
	h := mix(uint64(spec.Key)*1000003 ^ mix(uint64(ts)) ^ mix(seed*7919))
	if d := Density(spec.DataType); d > 0 {
		b := make([]byte, d)
		for i := 0; i < d; i++ {
			b[i] = byte(h >> (8 * (uint(i) % 8)))
			if i%8 == 7 {
				h = mix(h)
			}
		}
		if spec.DataType == "float32" || spec.DataType == "float64" {
			// keep away from NaN payload canonicalisation concerns: bytes are compared raw anyway
		}
		return b
	}
	n := int(h % 41)
	if h%7 == 0 {
		n = 0
	}
	if h%13 == 0 {
		n = 64 + int(h%100)
	}
	switch spec.DataType {
	case "string":
		b := make([]byte, n)
		for i := range b {
			b[i] = 'a' + byte(mix(h+uint64(i))%26)
		}
		return b
	case "json":
		b := []byte(`{"v":"`)
		for i := 0; i < n; i++ {
			b = append(b, 'a'+byte(mix(h+uint64(i))%26))
		}
		return append(b, '"', '}')
	default: // bytes
		b := make([]byte, n)
		for i := range b {
			b[i] = byte(mix(h + uint64(i)))
		}
		return b
	}
}

// Encode concatenates samples into the on-the-wire series layout of the data type.
func Encode(dt string, samples [][]byte) []byte {
	var out []byte
	if Density(dt) > 0 {
		for _, s := range samples {
			out = append(out, s...)
		}
		return out
	}
	for _, s := range samples {
		var l [4]byte
		binary.LittleEndian.PutUint32(l[:], uint32(len(s)))
		out = append(out, l[:]...)
		out = append(out, s...)
	}
	return out
}

// Decode splits series bytes into samples. ok=false if the layout is malformed.
func Decode(dt string, data []byte) (samples [][]byte, ok bool) {
	if d := Density(dt); d > 0 {
		if len(data)%d != 0 {
			return nil, false
		}
		for i := 0; i < len(data); i += d {
			samples = append(samples, data[i:i+d])
		}
		return samples, true
	}
	for off := 0; off < len(data); {
		if off+4 > len(data) {
			return nil, false
		}
		l := int(binary.LittleEndian.Uint32(data[off:]))
		off += 4
		if off+l > len(data) {
			return nil, false
		}
		samples = append(samples, data[off:off+l])
		off += l
	}
	return samples, true
}

// TSBytes encodes an index timestamp.
func TSBytes(ts int64) []byte {
	var b [8]byte
	binary.LittleEndian.PutUint64(b[:], uint64(ts))
	return b[:]
}

// Interval is a half-open range [S,E).
type Interval struct{ S, E int64 }

// Chan is the model state of one channel.
type Chan struct {
	Spec    ChannelSpec
	Samples map[int64][]byte // committed samples by index timestamp
	// Cover is the union of committed domains (sorted, merged when overlapping or equal;
	// adjacent domains are kept merged too since only coverage matters for legality).
	Cover []Interval
	// SnapGaps (index channels): after a delete ending at b inside stored data, the engine
	// starts the kept part at the next remaining sample s > b; [b,s) is then covered by the
	// model's (superset) coverage but not by the engine's index.
	SnapGaps []Interval
}

// Model is the committed state of all channels.
type Model struct {
	Chans map[uint32]*Chan
	Order []uint32
}

func New(specs []ChannelSpec) *Model {
	m := &Model{Chans: map[uint32]*Chan{}}
	for _, s := range specs {
		m.Add(s)
	}
	return m
}

func (m *Model) Add(s ChannelSpec) {
	m.Chans[s.Key] = &Chan{Spec: s, Samples: map[int64][]byte{}}
	m.Order = append(m.Order, s.Key)
}

func (m *Model) Remove(key uint32) {
	delete(m.Chans, key)
	for i, k := range m.Order {
		if k == key {
			m.Order = append(m.Order[:i:i], m.Order[i+1:]...)
			break
		}
	}
}

// Clone deep-copies the model (sample byte slices are shared; they are never mutated).
func (m *Model) Clone() *Model {
	c := &Model{Chans: map[uint32]*Chan{}, Order: append([]uint32(nil), m.Order...)}
	for k, ch := range m.Chans {
		n := &Chan{Spec: ch.Spec, Samples: make(map[int64][]byte, len(ch.Samples)), Cover: append([]Interval(nil), ch.Cover...), SnapGaps: append([]Interval(nil), ch.SnapGaps...)}
		for t, v := range ch.Samples {
			n.Samples[t] = v
		}
		c.Chans[k] = n
	}
	return c
}

// Keys returns the committed timestamps of a channel in ascending order.
func (c *Chan) Keys() []int64 {
	ks := make([]int64, 0, len(c.Samples))
	for t := range c.Samples {
		ks = append(ks, t)
	}
	sort.Slice(ks, func(i, j int) bool { return ks[i] < ks[j] })
	return ks
}

// Read returns the (timestamp, value) sequence of a channel in [a,b).
func (c *Chan) Read(a, b int64) (ts []int64, vals [][]byte) {
	for _, t := range c.Keys() {
		if t >= a && t < b {
			ts = append(ts, t)
			vals = append(vals, c.Samples[t])
		}
	}
	return
}

// AddCover merges [s,e) into the coverage.
func (c *Chan) AddCover(s, e int64) {
	if e <= s {
		return
	}
	c.Cover = append(c.Cover, Interval{s, e})
	sort.Slice(c.Cover, func(i, j int) bool { return c.Cover[i].S < c.Cover[j].S })
	out := c.Cover[:0]
	for _, iv := range c.Cover {
		if n := len(out); n > 0 && iv.S <= out[n-1].E {
			if iv.E > out[n-1].E {
				out[n-1].E = iv.E
			}
			continue
		}
		out = append(out, iv)
	}
	c.Cover = out
}

// Covered reports whether t lies inside committed coverage.
func (c *Chan) Covered(t int64) bool {
	for _, iv := range c.Cover {
		if t >= iv.S && t < iv.E {
			return true
		}
	}
	return false
}

// NextCoverStart returns the start of the first covered interval at or after t
// (ok=false if none).
func (c *Chan) NextCoverStart(t int64) (int64, bool) {
	for _, iv := range c.Cover {
		if iv.S >= t {
			return iv.S, true
		}
	}
	return 0, false
}

// Commit applies committed samples of one channel: ts[i] -> vals[i], domain [start,end).
func (c *Chan) Commit(start, end int64, ts []int64, vals [][]byte) {
	for i, t := range ts {
		c.Samples[t] = vals[i]
	}
	c.AddCover(start, end)
}

// CutCover removes [a,b) from the coverage. The real engine snaps cuts to sample
// boundaries (it removes at least [a,b) and at most up to the neighbouring samples), so
// the model coverage is a superset of the real one - conservative for legality checks.
func (c *Chan) CutCover(a, b int64) {
	if b <= a {
		return
	}
	var out []Interval
	for _, iv := range c.Cover {
		if iv.E <= a || iv.S >= b {
			out = append(out, iv)
			continue
		}
		if iv.S < a {
			out = append(out, Interval{iv.S, a})
		}
		if iv.E > b {
			out = append(out, Interval{b, iv.E})
		}
	}
	c.Cover = out
}

// Delete removes samples with timestamp in [a,b).
func (c *Chan) Delete(a, b int64) (removed int) {
	if c.Spec.IsIndex && b > a {
		for _, iv := range c.Cover {
			if b > iv.S && b < iv.E {
				next := int64(-1)
				for t := range c.Samples {
					if t >= b && t < iv.E && (next < 0 || t < next) {
						next = t
					}
				}
				if next > b {
					c.SnapGaps = append(c.SnapGaps, Interval{b, next})
				}
			}
		}
	}
	c.CutCover(a, b)
	for t := range c.Samples {
		if t >= a && t < b {
			delete(c.Samples, t)
			removed++
		}
	}
	return
}

// HasSampleIn reports whether the channel holds a sample in [a,b).
func (c *Chan) HasSampleIn(a, b int64) bool {
	for t := range c.Samples {
		if t >= a && t < b {
			return true
		}
	}
	return false
}

// CoverOverlaps reports whether coverage intersects [a,b).
func (c *Chan) CoverOverlaps(a, b int64) bool {
	for _, iv := range c.Cover {
		if iv.S < b && a < iv.E {
			return true
		}
	}
	return false
}

// Dependants returns the data channels indexed by idx.
func (m *Model) Dependants(idx uint32) []uint32 {
	var out []uint32
	for _, k := range m.Order {
		if c := m.Chans[k]; !c.Spec.IsIndex && c.Spec.Index == idx {
			out = append(out, k)
		}
	}
	return out
}

func (m *Model) String() string {
	s := ""
	for _, k := range m.Order {
		c := m.Chans[k]
		s += fmt.Sprintf("ch%d(%s idx=%d): keys=%v cover=%v\n", k, c.Spec.DataType, c.Spec.Index, c.Keys(), c.Cover)
	}
	return s
}
