// Journaling filesystem for crash-point enumeration (C02). It wraps an xfs.MemFS, forwards
// every call and records every mutating call. A crash image for prefix k is rebuilt by
// replaying the first k entries on a fresh MemFS through the same MemFS code paths, so
// the image is what a process crash after the k-th completed call leaves behind
// (completed calls survive; cesium never syncs and, under this model, need not).
package verif_c02_test

import (
	"os"
	"path"
	"sync"

	xfs "github.com/synnaxlabs/x/io/fs"
)

type entry struct {
	Kind   string // sub open write writeat truncate rename remove close
	Path   string
	Path2  string
	Flag   int
	Handle int
	Off    int64
	Data   []byte
	Size   int64
}

type journal struct {
	mu      sync.Mutex
	entries []entry
	nextH   int
}

func (j *journal) add(e entry) {
	j.mu.Lock()
	j.entries = append(j.entries, e)
	j.mu.Unlock()
}

func (j *journal) len() int {
	j.mu.Lock()
	defer j.mu.Unlock()
	return len(j.entries)
}

type jfs struct {
	inner xfs.FS // the root MemFS
	j     *journal
	dir   string
}

func newJFS() (*jfs, *journal) {
	j := &journal{}
	return &jfs{inner: xfs.NewMem(), j: j}, j
}

func (f *jfs) p(name string) string { return path.Join(f.dir, name) }

func (f *jfs) Open(name string, flag int) (xfs.File, error) {
	full := f.p(name)
	file, err := f.inner.Open(full, flag)
	if err != nil {
		return nil, err
	}
	mutating := flag&(os.O_CREATE|os.O_TRUNC|os.O_WRONLY|os.O_RDWR|os.O_APPEND) != 0
	h := -1
	if mutating {
		f.j.mu.Lock()
		h = f.j.nextH
		f.j.nextH++
		f.j.entries = append(f.j.entries, entry{Kind: "open", Path: full, Flag: flag, Handle: h})
		f.j.mu.Unlock()
	}
	return &jfile{File: file, j: f.j, h: h, path: full}, nil
}

func (f *jfs) Sub(name string) (xfs.FS, error) {
	full := f.p(name)
	if _, err := f.inner.Sub(full); err != nil {
		return nil, err
	}
	f.j.add(entry{Kind: "sub", Path: full})
	return &jfs{inner: f.inner, j: f.j, dir: full}, nil
}

func (f *jfs) List(name string) ([]xfs.FileInfo, error) { return f.inner.List(f.p(name)) }
func (f *jfs) Exists(name string) (bool, error)         { return f.inner.Exists(f.p(name)) }
func (f *jfs) Stat(name string) (xfs.FileInfo, error)   { return f.inner.Stat(f.p(name)) }

func (f *jfs) Remove(name string) error {
	full := f.p(name)
	if err := f.inner.Remove(full); err != nil {
		return err
	}
	f.j.add(entry{Kind: "remove", Path: full})
	return nil
}

func (f *jfs) Rename(a, b string) error {
	fa, fb := f.p(a), f.p(b)
	if err := f.inner.Rename(fa, fb); err != nil {
		return err
	}
	f.j.add(entry{Kind: "rename", Path: fa, Path2: fb})
	return nil
}

type jfile struct {
	xfs.File
	j    *journal
	h    int
	path string
}

func (f *jfile) Write(p []byte) (int, error) {
	n, err := f.File.Write(p)
	if n > 0 && f.h >= 0 {
		f.j.add(entry{Kind: "write", Handle: f.h, Path: f.path, Data: append([]byte(nil), p[:n]...)})
	}
	return n, err
}

func (f *jfile) WriteAt(p []byte, off int64) (int, error) {
	n, err := f.File.WriteAt(p, off)
	if n > 0 && f.h >= 0 {
		f.j.add(entry{Kind: "writeat", Handle: f.h, Path: f.path, Off: off, Data: append([]byte(nil), p[:n]...)})
	}
	return n, err
}

func (f *jfile) Truncate(size int64) error {
	err := f.File.Truncate(size)
	if err == nil && f.h >= 0 {
		f.j.add(entry{Kind: "truncate", Handle: f.h, Path: f.path, Size: size})
	}
	return err
}

func (f *jfile) Close() error {
	err := f.File.Close()
	if f.h >= 0 {
		f.j.add(entry{Kind: "close", Handle: f.h, Path: f.path})
	}
	return err
}

// rebuild replays entries[:k] onto a fresh MemFS. If torn >= 0, the last entry (which must
// be a write/writeat) is applied with only its first `torn` bytes.
func rebuild(entries []entry, k int, torn int) (xfs.FS, error) {
	fs := xfs.NewMem()
	handles := map[int]xfs.File{}
	for i := 0; i < k; i++ {
		e := entries[i]
		switch e.Kind {
		case "sub":
			if _, err := fs.Sub(e.Path); err != nil {
				return nil, err
			}
		case "open":
			f, err := fs.Open(e.Path, e.Flag)
			if err != nil {
				return nil, err
			}
			handles[e.Handle] = f
		case "write":
			d := e.Data
			if i == k-1 && torn >= 0 {
				d = d[:torn]
			}
			if f := handles[e.Handle]; f != nil && len(d) > 0 {
				if _, err := f.Write(d); err != nil {
					return nil, err
				}
			}
		case "writeat":
			d := e.Data
			if i == k-1 && torn >= 0 {
				d = d[:torn]
			}
			if f := handles[e.Handle]; f != nil && len(d) > 0 {
				if _, err := f.WriteAt(d, e.Off); err != nil {
					return nil, err
				}
			}
		case "truncate":
			if f := handles[e.Handle]; f != nil {
				if err := f.Truncate(e.Size); err != nil {
					return nil, err
				}
			}
		case "close":
			if f := handles[e.Handle]; f != nil {
				_ = f.Close()
				delete(handles, e.Handle)
			}
		case "rename":
			if err := fs.Rename(e.Path, e.Path2); err != nil {
				return nil, err
			}
		case "remove":
			if err := fs.Remove(e.Path); err != nil {
				return nil, err
			}
		}
	}
	for _, f := range handles {
		_ = f.Close()
	}
	return fs, nil
}
