// C02 — cesium survives a crash at any point with consistent, durable data.
package verif_c02_test

import (
	"encoding/binary"
	"os"
	"sort"
	"context"
	"fmt"
	"path"
	"regexp"
	"runtime/debug"
	"strings"
	"testing"
	"time"

	"github.com/synnaxlabs/cesium"
	"github.com/synnaxlabs/cesium/internal/verif/cx"
	"github.com/synnaxlabs/cesium/internal/verif/tsm"
	kit "github.com/synnaxlabs/cesium/internal/verifkit"
	xfs "github.com/synnaxlabs/x/io/fs"
	"github.com/synnaxlabs/x/telem"
	"pgregory.net/rapid"
)

const inf = int64(1) << 62

type mark struct{ start, end int }

type content [][]byte

func sameContent(a, b content) bool {
	if len(a) != len(b) {
		return false
	}
	for i := range a {
		if string(a[i]) != string(b[i]) {
			return false
		}
	}
	return true
}

// dumpIndex decodes a channel's persisted index.domain (26-byte pointers) for messages.
func dumpIndex(fs xfs.FS, key uint32) string {
	f, err := fs.Open(fmt.Sprintf("%d/index.domain", key), os.O_RDONLY)
	if err != nil {
		return "(no index.domain)"
	}
	defer f.Close()
	st, _ := f.Stat()
	buf := make([]byte, st.Size())
	_, _ = f.ReadAt(buf, 0)
	var sb strings.Builder
	for o := 0; o+26 <= len(buf); o += 26 {
		fmt.Fprintf(&sb, "[%d,%d)f%d+%d/%d ", binary.LittleEndian.Uint64(buf[o:]), binary.LittleEndian.Uint64(buf[o+8:]), binary.LittleEndian.Uint16(buf[o+16:]), binary.LittleEndian.Uint32(buf[o+18:]), binary.LittleEndian.Uint32(buf[o+22:]))
	}
	return sb.String()
}

func sideSnapshot(st *cx.State) map[uint32]cx.SideChan {
	out := map[uint32]cx.SideChan{}
	for k, c := range st.Side {
		cp := *c
		cp.TS = append([]int64(nil), c.TS...)
		out[k] = cp
	}
	return out
}

func snapshot(m *tsm.Model) map[uint32]content {
	out := map[uint32]content{}
	for _, k := range m.Order {
		_, vals := m.Chans[k].Read(0, inf)
		out[k] = vals
	}
	return out
}

var numDomain = regexp.MustCompile(`^\d+\.domain$`)

// describe maps a journal entry to a stable description used in violation signatures.
func describe(e entry) string {
	base := path.Base(e.Path)
	cat := base
	switch {
	case numDomain.MatchString(base):
		cat = "N.domain"
	case strings.HasSuffix(base, ".domain_gc"):
		cat = "N.domain_gc"
	case strings.Contains(base, "-DELETE-"):
		cat = "chan-DELETE"
	case regexp.MustCompile(`^\d+$`).MatchString(base):
		cat = "chandir"
	}
	if e.Kind == "rename" {
		b2 := path.Base(e.Path2)
		c2 := b2
		switch {
		case numDomain.MatchString(b2):
			c2 = "N.domain"
		case strings.Contains(b2, "-DELETE-"):
			c2 = "chan-DELETE"
		case strings.HasSuffix(b2, ".domain_temp"):
			c2 = "N.domain_temp"
		}
		return "rename(" + cat + "->" + c2 + ")"
	}
	return e.Kind + "(" + cat + ")"
}

func openImage(ctx context.Context, fs xfs.FS, sc cx.Script) (db *cesium.DB, err error, pan string) {
	defer func() {
		if r := recover(); r != nil {
			pan = fmt.Sprintf("%v\n%s", r, debug.Stack())
		}
	}()
	opts := []cesium.Option{cesium.WithFS(fs), cesium.WithGCConfig(cesium.GCConfig{TryInterval: 24 * time.Hour})}
	if sc.FileCap > 0 {
		opts = append(opts, cesium.WithFileSizeCap(telem.Size(sc.FileCap)))
	}
	db, err = cesium.Open(ctx, "", opts...)
	return
}

func execute(sc cx.Script, rep *kit.Report) error {
	ctx := context.Background()
	jf, j := newJFS()
	marks := make([]mark, len(sc.Ops))
	var snaps []map[uint32]content       // snaps[s]: model content after s completed ops
	var durable []map[uint32]int         // durable[s][ch]: newest snapshot index guaranteed durable after s completed ops
	var sideSnaps []map[uint32]cx.SideChan // sideSnaps[s]: expected side-channel states after s completed ops
	autoCommit := map[int]bool{}
	persistAlways := map[int]bool{}
	wchans := map[int][]uint32{}
	// intervalOpen[s][ch]: after s completed ops an auto-committing writer with a persistence
	// interval (neither always-persist nor explicit commits) is open on ch
	var intervalOpen []map[uint32]bool
	intervalW := map[int]bool{}
	openW := map[int]bool{}
	snapInterval := func() map[uint32]bool {
		m := map[uint32]bool{}
		for w := range openW {
			if intervalW[w] {
				for _, k := range wchans[w] {
					m[k] = true
				}
			}
		}
		return m
	}
	cur := map[uint32]int{}
	setupEnd := -1
	lrep := &kit.Report{}
	st, env, err := cx.Run(sc, lrep, cx.RunConfig{
		FS: jf,
		GC: func(ctx context.Context, db *cesium.DB) error { return db.VerifGarbageCollect(ctx) },
		OnStep: func(i int, op cx.Op, phase string, st *cx.State) {
			if phase == "start" {
				if setupEnd < 0 {
					setupEnd = j.len()
					snaps = append(snaps, snapshot(st.M))
					sideSnaps = append(sideSnaps, sideSnapshot(st))
					intervalOpen = append(intervalOpen, snapInterval())
					d := map[uint32]int{}
					for _, k := range st.M.Order {
						d[k] = 0
					}
					durable = append(durable, d)
				}
				marks[i].start = j.len()
				if op.Kind == "open" {
					autoCommit[op.W], persistAlways[op.W], wchans[op.W] = op.AutoCommit, op.PersistAlways, op.Channels
					intervalW[op.W] = op.AutoCommit && !op.PersistAlways
					openW[op.W] = true
				}
				return
			}
			marks[i].end = j.len()
			s := len(snaps)
			snaps = append(snaps, snapshot(st.M))
			sideSnaps = append(sideSnaps, sideSnapshot(st))
			if op.Kind == "close" {
				delete(openW, op.W)
			}
			intervalOpen = append(intervalOpen, snapInterval())
			switch op.Kind {
			case "write":
				if autoCommit[op.W] && persistAlways[op.W] {
					for _, k := range wchans[op.W] {
						cur[k] = s
					}
				}
			case "commit":
				if !autoCommit[op.W] {
					for _, k := range wchans[op.W] {
						cur[k] = s
					}
				}
			case "close":
				for _, k := range wchans[op.W] {
					cur[k] = s
				}
			case "delete":
				// a delete that changed a channel persisted it; unchanged channels keep their mark
				for _, k := range op.Channels {
					if !sameContent(snaps[s][k], snaps[s-1][k]) {
						cur[k] = s
					}
				}
			case "gc", "reopen":
				for _, k := range st.M.Order {
					cur[k] = s
				}
			}
			d := map[uint32]int{}
			for k, v := range cur {
				d[k] = v
			}
			durable = append(durable, d)
		},
	})
	_ = env
	if err != nil {
		return err
	}
	for _, c := range lrep.Classes() {
		if c != "__discarded" {
			rep.Class("script:" + c)
		}
	}
	if lrep.Has("__discarded") || setupEnd < 0 {
		rep.Discard("script-discarded")
		return nil
	}
	// the executor's own final close+reopen happened after the last op: ignore those entries
	entries := j.entries
	last := marks[len(marks)-1].end
	entries = entries[:last]
	_ = st
	specs := sc.Channels
	insideOp := false
	for k := 0; k <= len(entries); k++ {
		variants := []int{-1}
		if k > 0 && (entries[k-1].Kind == "write" || entries[k-1].Kind == "writeat") {
			n := len(entries[k-1].Data)
			seen := map[int]bool{}
			for _, t := range []int{1, n / 2, n - 1} {
				if t > 0 && t < n && !seen[t] {
					seen[t] = true
					variants = append(variants, t)
				}
			}
		}
		for _, torn := range variants {
			if v := checkImage(ctx, sc, specs, entries, k, torn, setupEnd, marks, snaps, durable, sideSnaps, intervalOpen, rep); v != nil {
				if kv, ok := v.(*kit.Violation); ok && rep.Known(kv.Sig) {
					rep.Add("images_excluded_known_finding", 1)
					continue
				}
				return v
			}
			rep.Add("images", 1)
			if torn >= 0 {
				rep.Add("torn_variants", 1)
			}
		}
		rep.Add("crash_points", 1)
		// strictly inside an operation?
		for i := range marks {
			if marks[i].start < k && k < marks[i].end {
				kind := sc.Ops[i].Kind
				if kind == "delete" || kind == "gc" || kind == "commit" || kind == "write" || kind == "close" || strings.HasPrefix(kind, "x") {
					insideOp = true
					rep.Add("crash_points_inside_"+kind, 1)
				}
			}
		}
		if k < setupEnd && k > 0 {
			rep.Add("crash_points_inside_channel_create", 1)
			insideOp = true
		}
	}
	if insideOp {
		rep.Nontrivial()
	}
	return nil
}

func checkImage(ctx context.Context, sc cx.Script, specs []tsm.ChannelSpec, entries []entry, k, torn, setupEnd int,
	marks []mark, snaps []map[uint32]content, durable []map[uint32]int, sideSnaps []map[uint32]cx.SideChan, intervalOpen []map[uint32]bool, rep *kit.Report) error {
	fs, rerr := rebuild(entries, k, torn)
	if rerr != nil {
		return kit.Fail("harness-rebuild", "rebuilding image %d failed: %v", k, rerr)
	}
	// which operation is in flight?
	completed := 0
	for completed < len(marks) && marks[completed].end <= k && k >= setupEnd {
		completed++
	}
	inflight := -1
	opKind := "between-ops"
	if k < setupEnd {
		opKind = "channel-create"
	} else if completed < len(marks) && marks[completed].start < k {
		inflight = completed
		opKind = sc.Ops[inflight].Kind
	}
	after, before := "start", "end"
	if k > 0 {
		after = describe(entries[k-1])
		if torn >= 0 {
			after = "torn-" + after
		}
	}
	if k < len(entries) {
		before = describe(entries[k])
	}
	window := fmt.Sprintf("op=%s:after=%s:before=%s", opKind, after, before)
	rep.Class("window:" + after + "|" + before)
	where := fmt.Sprintf("crash after journal entry %d/%d (%s, torn=%d)", k, len(entries), window, torn)

	db, oerr, pan := openImage(ctx, fs, sc)
	if pan != "" {
		return kit.Fail("open-panic:"+window, "%s: cesium.Open panicked: %s", where, pan)
	}
	if oerr != nil {
		return kit.Fail("open-failed:"+window, "%s: cesium.Open failed: %v", where, oerr)
	}
	defer db.Close()
	for _, spec := range specs {
		_, cerr := db.RetrieveChannel(ctx, spec.Key)
		if cerr != nil {
			if k < setupEnd {
				continue // creation had not completed: absence is fine
			}
			return kit.Fail("channel-missing:"+window, "%s: channel %d (created before the crash) is missing: %v", where, spec.Key, cerr)
		}
		got, gerr := cx.ReadChannel(ctx, db, spec, 0, inf)
		if gerr != nil {
			// An interval-persisting writer decides per channel, from that channel's own clock,
			// whether a commit persists its index: a data channel can persist a commit its index
			// channel did not. The signature names that situation (listed finding).
			if !spec.IsIndex && strings.Contains(gerr.Error(), "is not continuous in the index") && k >= setupEnd &&
				(intervalOpen[completed][spec.Key] || intervalOpen[min(completed+1, len(intervalOpen)-1)][spec.Key]) {
				return kit.Fail("read-error:data-persisted-ahead-of-index:interval-persist:"+window, "%s: reading ch%d failed: %v (an auto-committing writer with a persistence interval is open on the channel: its data channel persisted a commit that its index channel has not persisted). Persisted pointers in the image: ch%d %s; its index ch%d %s", where, spec.Key, gerr, spec.Key, dumpIndex(fs, spec.Key), spec.Index, dumpIndex(fs, spec.Index))
			}
			return kit.Fail("read-error:"+window, "%s: reading ch%d failed: %v", where, spec.Key, gerr)
		}
		if k < setupEnd {
			if len(got) != 0 {
				return kit.Fail("never-written:"+window, "%s: ch%d holds %d samples before anything was written", where, spec.Key, len(got))
			}
			continue
		}
		lo := durable[completed][spec.Key]
		hi := completed
		if inflight >= 0 {
			hi = completed + 1
		}
		ok := false
		for s := lo; s <= hi && !ok; s++ {
			ok = sameContent(content(got), snaps[s][spec.Key])
		}
		if ok {
			continue
		}
		// classify
		for s := 0; s < lo; s++ {
			if sameContent(content(got), snaps[s][spec.Key]) {
				return kit.Fail("durable-data-lost:"+window, "%s: ch%d reads back the state after %d ops (%d samples) although the state after %d ops (%d samples) was durable", where, spec.Key, s, len(got), lo, len(snaps[lo][spec.Key]))
			}
		}
		ever := map[string]bool{}
		for _, sn := range snaps {
			for _, v := range sn[spec.Key] {
				ever[string(v)] = true
			}
		}
		for _, v := range got {
			if !ever[string(v)] {
				return kit.Fail("never-written:"+window, "%s: ch%d returned a sample value %x that was never written to it", where, spec.Key, v)
			}
		}
		return kit.Fail("inconsistent-state:"+window, "%s: ch%d reads back %d samples, which matches no commit point between the durable one (%d ops, %d samples) and the latest started (%d ops, %d samples)",
			where, spec.Key, len(got), lo, len(snaps[lo][spec.Key]), hi, len(snaps[hi][spec.Key]))
	}
	if k < setupEnd {
		return nil
	}
	// side channels (created, renamed and deleted by the script): each must be in the state
	// the completed operations left it in, or - when the operation in flight targets it - in
	// the state that operation produces; an in-flight write may have stored a prefix
	var sideKeys []uint32
	for key := range sideSnaps[len(sideSnaps)-1] {
		sideKeys = append(sideKeys, key)
	}
	sort.Slice(sideKeys, func(a, b int) bool { return sideKeys[a] < sideKeys[b] })
	for _, key := range sideKeys {
		done, hasDone := sideSnaps[completed][key]
		next, hasNext := done, hasDone
		if inflight >= 0 {
			next, hasNext = sideSnaps[completed+1][key]
		}
		ch, cerr := db.RetrieveChannel(ctx, key)
		exists := cerr == nil
		var got []int64
		if exists && ch.IsIndex {
			var rerr error
			if got, rerr = cx.SideContent(ctx, db, key); rerr != nil {
				return kit.Fail("read-error:"+window, "%s: reading side channel %d failed: %v", where, key, rerr)
			}
		}
		matches := func(c cx.SideChan, has bool) bool {
			if !has || !c.Exists {
				return !exists
			}
			if !exists || ch.Name != c.Name {
				return false
			}
			if c.Kind != "index" {
				return true
			}
			if len(got) != len(c.TS) {
				return false
			}
			for i := range got {
				if got[i] != c.TS[i] {
					return false
				}
			}
			return true
		}
		ok := matches(done, hasDone) || matches(next, hasNext)
		if !ok && inflight >= 0 && sc.Ops[inflight].Kind == "xwrite" && exists && hasNext && ch.Name == next.Name && len(got) >= len(done.TS) && len(got) <= len(next.TS) {
			ok = true
			for i := range got {
				ok = ok && got[i] == next.TS[i]
			}
		}
		if !ok {
			sig := "side-channel-state:"
			if exists && ((hasDone && done.Exists && ch.Name == done.Name) || (hasNext && next.Exists && ch.Name == next.Name)) {
				sig = "inconsistent-state:" // right channel, wrong samples: same class as for the model's channels
			}
			return kit.Fail(sig+window, "%s: side channel %d is (exists=%v name=%q samples=%v); the completed operations leave it as %+v (defined=%v), the operation in flight as %+v (defined=%v)", where, key, exists, ch.Name, got, done, hasDone, next, hasNext)
		}
	}
	// the image must be usable: a new writer after all existing data, write, commit, read back
	return postCrashWrite(ctx, db, sc, specs, window, where)
}

func postCrashWrite(ctx context.Context, db *cesium.DB, sc cx.Script, specs []tsm.ChannelSpec, window, where string) error {
	idx := specs[0]
	// start after everything any channel of the group could cover
	start := int64(7000)
	st := cx.NewState(specs)
	op := cx.Op{Kind: "open", W: 0, Channels: []uint32{idx.Key}, Start: start, AutoCommit: false, Sync: true}
	for _, s := range specs {
		if !s.IsIndex && s.Index == idx.Key {
			op.Channels = append(op.Channels, s.Key)
		}
	}
	st.ApplyOpen(op)
	no, yes := false, true
	w, err := db.OpenWriter(ctx, cesium.WriterConfig{Channels: op.Channels, Start: telem.TimeStamp(start), EnableAutoCommit: &no, Sync: &yes})
	if err != nil {
		return kit.Fail("post-crash-write:"+window, "%s: opening a writer at %d on the reopened database failed: %v", where, start, err)
	}
	wop := cx.Op{Kind: "write", W: 0, TS: []int64{start, start + 3}, Seed: 99}
	fr := cx.BuildFrame(st, wop)
	if _, err = w.Write(fr); err == nil {
		_, err = w.Commit()
	}
	cerr := w.Close()
	if err != nil || cerr != nil {
		return kit.Fail("post-crash-write:"+window, "%s: write+commit on the reopened database failed: %v / %v", where, err, cerr)
	}
	st.ApplyWrite(wop)
	st.ApplyCommit(0)
	for _, key := range op.Channels {
		spec := st.M.Chans[key].Spec
		got, gerr := cx.ReadChannel(ctx, db, spec, start, start+10)
		_, want := st.M.Chans[key].Read(start, start+10)
		if gerr != nil || !sameContent(content(got), content(want)) {
			return kit.Fail("post-crash-write:"+window, "%s: samples written after recovery to ch%d read back as %d samples (err %v), want %d", where, key, len(got), gerr, len(want))
		}
	}
	return nil
}

func TestC02(t *testing.T) {
	r := &kit.Runner[cx.Script]{Name: "TestC02", Exec: execute}
	r.Run(t, func(rt *rapid.T) cx.Script {
		return cx.Gen(rt, cx.GenOpts{MaxChans: 2, Groups: 1, MinOps: 4, MaxOps: 22, Deletes: true, GC: true, NoReads: true, ForceSync: true, MaxWrite: 6, SideChannels: true, PersistIntervals: true})
	})
}
