// gen_test.go: typed program generator (construction, not rejection). All randomness comes
// from rapid draws; simplest alternatives are listed first so that shrinking moves towards
// small programs.
package verif_c19_test

import (
	"math"
	"os"
	"strings"

	"pgregory.net/rapid"
)

// avoidSet is the set of hazard tags that are excluded from the search. The check's
// configuration supplies C19_AVOID_DEFAULT (the constructs that hit defects already reported
// for the tree under test); C19_AVOID, when present in the environment (even empty),
// overrides it, e.g. `C19_AVOID= ./check C19` searches with nothing excluded.
func avoidSet() map[string]bool {
	v, ok := os.LookupEnv("C19_AVOID")
	if !ok {
		v = os.Getenv("C19_AVOID_DEFAULT")
	}
	m := map[string]bool{}
	for _, s := range strings.Split(v, ",") {
		if s = strings.TrimSpace(s); s != "" {
			m[s] = true
		}
	}
	return m
}

type vinfo struct {
	n      string
	t      Ty
	ro     bool // loop variable: cannot be assigned
	frozen int  // >0: referenced by an enclosing loop header; must not be assigned
	state  bool
}

type gen struct {
	t         *rapid.T
	avoid     map[string]bool
	vars      []vinfo
	ctr       int
	budget    int // remaining statements
	loopDepth int
	ret       Ty
	cnt       map[string]int // construction-time counters (avoided-by-construction etc.)
	palette   []Ty
	helpers   []Helper // helpers generated so far: callable from what is generated next
}

func (g *gen) intn(n int, label string) int { return rapid.IntRange(0, n-1).Draw(g.t, label) }
func (g *gen) chance(pct int, label string) bool {
	return rapid.IntRange(0, 99).Draw(g.t, label) < pct
}

func (g *gen) fresh(prefix string) string {
	g.ctr++
	return prefix + itoa(g.ctr)
}

func itoa(i int) string {
	if i == 0 {
		return "0"
	}
	var b []byte
	for i > 0 {
		b = append([]byte{byte('0' + i%10)}, b...)
		i /= 10
	}
	return string(b)
}

// ty draws a type: mostly from the program's small palette, so that variables, parameters
// and literals of one type meet each other (and boundary arguments reach the operators).
func (g *gen) ty(label string) Ty {
	if len(g.palette) > 0 && g.intn(10, label+"-pal") < 7 {
		return g.palette[g.intn(len(g.palette), label)]
	}
	return Ty(g.intn(int(nTy), label))
}

func (g *gen) intTy(label string) Ty { return Ty(g.intn(int(F32), label)) }

func (g *gen) varsOf(t Ty) []int {
	var out []int
	for i, v := range g.vars {
		if v.t == t {
			out = append(out, i)
		}
	}
	return out
}

func (g *gen) assignable() []int {
	var out []int
	for i, v := range g.vars {
		if !v.ro && v.frozen == 0 {
			out = append(out, i)
		}
	}
	return out
}

// ---------------------------------------------------------------- literals

var intPool = []int64{0, 1, 2, 3, -1, 5, 7, 10, -2, 100, 127, 128, -128, -129, 255, 256, 32767, 32768, -32768, -32769,
	65535, 65536, 2147483647, 2147483648, -2147483648, -2147483649, 4294967295, 4294967296,
	9223372036854775807, -9223372036854775807}

func inRange(t Ty, v int64) bool {
	if t.isSigned() {
		return v >= t.minI() && v <= t.maxI()
	}
	return v >= 0 && uint64(v) <= t.maxU()
}

func (g *gen) intLit(t Ty) *Expr {
	// integer literals are limited to |v| <= MaxInt64 (the compiler parses the digits with
	// ParseInt; larger u64 literals and the i64 minimum cannot be spelled) — counted region
	for try := 0; try < 8; try++ {
		v := intPool[g.intn(len(intPool), "ilit")]
		if t.isSigned() && v == t.minI() {
			// `-128` is read as unary minus applied to the literal 128, which the compiler
			// rejects as out of range for i8: the minimum of a signed type cannot be spelled
			g.cnt["avoided-construct:signed-minimum-literal"]++
			v++
		}
		if inRange(t, v) {
			return litInt(t, v)
		}
	}
	return litInt(t, int64(g.intn(4, "ilit-small")))
}

var floatPool = []float64{0, 1, 2, -1, 0.5, 3, 2.5, -0.5, 10, 0.1, 100, -2.5, 0.001, 255.5, 256, -128.5, 127.9,
	65535.5, 16777216, 16777217, 2147483647, 2147483648, -2147483649, 4294967295, 4294967296, 1e10,
	9223372036854775807, 18446744073709551615, -9.3e18, 1e19, 1e20, 3.4028234663852886e38, 1e38, 1e-40, 1e300}

func (g *gen) floatLit(t Ty) *Expr {
	v := floatPool[g.intn(len(floatPool), "flit")]
	if t == F32 {
		if math.Abs(v) > math.MaxFloat32 {
			v = 1e38
		}
		e := litF32(float32(v))
		if float64(float32(v)) == math.Trunc(v) && math.Abs(v) < 1e6 && g.chance(15, "flit-int") {
			e.IL = true
		}
		return e
	}
	e := litF64(v)
	if v == math.Trunc(v) && math.Abs(v) < 1e6 && g.chance(15, "flit-int") {
		e.IL = true
	}
	return e
}

func (g *gen) lit(t Ty) *Expr {
	if t.isFloat() {
		return g.floatLit(t)
	}
	return g.intLit(t)
}

func (g *gen) nonZeroIntLit(t Ty) *Expr {
	for try := 0; try < 8; try++ {
		e := g.intLit(t)
		if e.V != 0 {
			return e
		}
	}
	return litInt(t, 1)
}

// ---------------------------------------------------------------- expressions

func (g *gen) leaf(t Ty) *Expr {
	vs := g.varsOf(t)
	k := g.intn(10, "leaf")
	switch {
	case len(vs) > 0 && k < 7:
		v := g.vars[vs[g.intn(len(vs), "leaf-var")]]
		return varRef(v.n, v.t)
	case len(g.vars) > 0 && k >= 7 && k < 9:
		v := g.vars[g.intn(len(g.vars), "leaf-castvar")]
		if v.t == t {
			return varRef(v.n, v.t)
		}
		return cast(t, varRef(v.n, v.t))
	}
	return g.lit(t)
}

var arithOps = []string{"+", "-", "*", "+", "-", "*", "/", "%", "^"}

// callExpr calls one of the helpers generated so far; the result is cast when its type is not t.
func (g *gen) callExpr(t Ty, d int) *Expr {
	f := g.intn(len(g.helpers), "call-f")
	for i := range g.helpers { // prefer a helper that returns t
		if j := (f + i) % len(g.helpers); g.helpers[j].Ret == t {
			f = j
			break
		}
	}
	h := &g.helpers[f]
	n := len(h.Params)
	for n > 0 && h.Params[n-1].Def != nil && g.chance(50, "call-omit-default") {
		n--
	}
	e := &Expr{K: KCall, T: h.Ret, F: f}
	for i := 0; i < n; i++ {
		e.Args = append(e.Args, g.expr(h.Params[i].T, d-1))
	}
	g.cnt["constructed:function-call"]++
	if h.Ret != t {
		return cast(t, e)
	}
	return e
}

func (g *gen) expr(t Ty, d int) *Expr {
	if d <= 0 {
		return g.leaf(t)
	}
	if len(g.helpers) > 0 && g.intn(100, "call") >= 82 {
		return g.callExpr(t, d)
	}
	k := g.intn(100, "ek")
	switch {
	case k < 22:
		return g.leaf(t)
	case k < 62:
		if t == U8 && k >= 48 {
			return g.boolExpr(d)
		}
		return g.arith(t, d)
	case k < 72:
		if t == U8 && k >= 68 {
			return &Expr{K: KNot, T: U8, A: g.expr(U8, d-1)}
		}
		a := g.expr(t, d-1)
		if a.K == KLit && t.isUnsigned() && a.V != 0 {
			g.cnt["avoided-construct:negated-unsigned-literal"]++
			return a
		}
		return &Expr{K: KNeg, T: t, A: a}
	case k < 90:
		s := g.ty("cast-from")
		if s == t {
			return g.arith(t, d)
		}
		return cast(t, g.expr(s, d-1))
	default:
		if t == U8 {
			return g.boolExpr(d)
		}
		// a comparison result used as a number: T(a < b)
		return cast(t, g.boolExpr(d-1))
	}
}

func (g *gen) arith(t Ty, d int) *Expr {
	op := arithOps[g.intn(len(arithOps), "aop")]
	if t.isFloat() && op == "%" {
		g.cnt["avoided-construct:float-modulo"]++ // compiler: "float modulo not yet implemented"; spec shows % on integers only
		op = "*"
	}
	a := g.expr(t, d-1)
	switch op {
	case "/", "%":
		if t.isInt() {
			// undefined region avoided by construction: the divisor is a non-zero literal
			g.cnt["constructed:int-divisor-nonzero-literal"]++
			return bin(op, t, a, g.nonZeroIntLit(t))
		}
		return bin(op, t, a, g.expr(t, d-1))
	case "^":
		if t.isInt() {
			// undefined region avoided by construction: small non-negative literal exponent,
			// or (rarely) a clamped expression whose negative values are skipped at run time
			if g.chance(85, "pow-lit") {
				g.cnt["constructed:int-pow-exponent-small-literal"]++
				if g.chance(30, "pow-large") {
					// exponents with several set bits, powers of two and their neighbours (the
					// result is the wrapping product whatever the exponent; all fit every type)
					return bin(op, t, a, litInt(t, int64(powExps[g.intn(len(powExps), "pow-exp-large")])))
				}
				return bin(op, t, a, litInt(t, int64(g.intn(5, "pow-exp"))))
			}
			return bin(op, t, a, bin("%", t, g.expr(t, d-1), litInt(t, int64(2+g.intn(14, "pow-mod")))))
		}
		return bin(op, t, a, g.expr(t, d-1))
	}
	return bin(op, t, a, g.expr(t, d-1))
}

var powExps = []int{5, 6, 7, 8, 9, 10, 11, 12, 13, 14, 15, 16, 17, 19, 21, 23, 27, 31, 32, 33, 47, 63, 64}

var cmpOps = []string{"==", "!=", "<", ">", "<=", ">="}

// boolExpr generates a u8-typed expression built from comparisons / logic.
func (g *gen) boolExpr(d int) *Expr {
	if d <= 0 {
		s := g.ty("cmp-ty")
		return bin(cmpOps[g.intn(6, "cmp")], U8, g.leaf(s), g.leaf(s))
	}
	k := g.intn(100, "bk")
	switch {
	case k < 46:
		s := g.ty("cmp-ty")
		return bin(cmpOps[g.intn(6, "cmp")], U8, g.expr(s, d-1), g.expr(s, d-1))
	case k < 50:
		// a comparison of comparison results (u8): exercises the associativity of level 5
		return bin(cmpOps[g.intn(6, "cmp")], U8, g.boolExpr(d-1), g.expr(U8, d-1))
	case k < 58:
		// guarded division, as in operators.mdx: b != 0 and (a / b) > 10
		var ints []int
		for i, v := range g.vars {
			if v.t.isInt() {
				ints = append(ints, i)
			}
		}
		if len(ints) == 0 {
			return bin("and", U8, g.expr(U8, d-1), g.expr(U8, d-1))
		}
		v := g.vars[ints[g.intn(len(ints), "gd-var")]]
		op := "/"
		if g.chance(40, "gd-mod") {
			op = "%"
		}
		g.cnt["constructed:int-divisor-guarded-by-and"]++
		div := bin(op, v.t, g.expr(v.t, d-1), varRef(v.n, v.t))
		return bin("and", U8, bin("!=", U8, varRef(v.n, v.t), litInt(v.t, 0)),
			bin(cmpOps[g.intn(6, "cmp")], U8, div, g.leaf(v.t)))
	case k < 75:
		return bin("and", U8, g.expr(U8, d-1), g.expr(U8, d-1))
	case k < 92:
		return bin("or", U8, g.expr(U8, d-1), g.expr(U8, d-1))
	default:
		return &Expr{K: KNot, T: U8, A: g.expr(U8, d-1)}
	}
}

func (g *gen) depth(label string) int {
	// 0..4, small depths more likely
	return []int{0, 1, 1, 2, 2, 2, 3, 3, 4}[g.intn(9, label)]
}

func (g *gen) cond() *Expr {
	if !g.avoid["gen-cond-non-u8"] && g.chance(6, "cond-nonu8") {
		// statements.mdx: "Conditions evaluate as u8: 0 is false, non-zero is true";
		// loops.mdx: "repeats while the condition is non-zero"
		t := g.intTy("cond-ty")
		return g.expr(t, g.depth("cond-d")-1)
	}
	d := g.depth("cond-d")
	if d < 1 {
		d = 1
	}
	return g.boolExpr(d - 1)
}

// ---------------------------------------------------------------- statements

func (g *gen) declStmt() Stmt {
	t := g.ty("decl-ty")
	e := g.expr(t, g.depth("decl-d"))
	n := g.fresh("v")
	s := Stmt{K: SDecl, N: n, T: t, E: e, Ann: g.chance(50, "decl-ann")}
	g.vars = append(g.vars, vinfo{n: n, t: t})
	return s
}

func (g *gen) assignStmt() (Stmt, bool) {
	as := g.assignable()
	if len(as) == 0 {
		return Stmt{}, false
	}
	v := g.vars[as[g.intn(len(as), "asg-var")]]
	op := ""
	if g.chance(40, "asg-compound") {
		ops := []string{"+", "-", "*", "/", "%"}
		op = ops[g.intn(len(ops), "asg-op")]
		if op == "%" && v.t.isFloat() {
			op = "+"
		}
	}
	var e *Expr
	if (op == "/" || op == "%") && v.t.isInt() {
		g.cnt["constructed:int-divisor-nonzero-literal"]++
		e = g.nonZeroIntLit(v.t)
	} else {
		e = g.expr(v.t, g.depth("asg-d"))
	}
	return Stmt{K: SAssign, N: v.n, T: v.t, Op: op, E: e}, true
}

// refs collects the variable names an expression reads.
func refs(e *Expr, out map[string]bool) {
	if e == nil {
		return
	}
	if e.K == KVar {
		out[e.N] = true
	}
	refs(e.A, out)
	refs(e.B, out)
	for _, a := range e.Args {
		refs(a, out)
	}
}

func (g *gen) freeze(names map[string]bool, delta int) {
	for i := range g.vars {
		if names[g.vars[i].n] {
			g.vars[i].frozen += delta
		}
	}
}

// stmtList draws between min and max statement groups as a rapid slice, so that the
// shrinker can delete whole statements.
func (g *gen) stmtList(min, max int, label string) []Stmt {
	outer := g.t
	groups := rapid.SliceOfN(rapid.Custom(func(t *rapid.T) []Stmt {
		g.t = t
		defer func() { g.t = outer }()
		return g.stmt()
	}), min, max).Draw(outer, label)
	g.t = outer
	var out []Stmt
	for _, gr := range groups {
		out = append(out, gr...)
	}
	return out
}

// block generates up to max statements in a fresh scope, optionally ended by a terminator.
func (g *gen) block(max int, allowReturn bool) []Stmt {
	mark := len(g.vars)
	out := g.stmtList(0, max, "block")
	// optional terminator
	if g.budget > 0 {
		k := g.intn(100, "blk-end")
		switch {
		case allowReturn && k >= 45 && k < 70:
			g.budget--
			out = append(out, Stmt{K: SReturn, E: g.expr(g.ret, g.depth("ret-d"))})
		case g.loopDepth > 0 && k >= 70 && k < 85:
			g.budget--
			out = append(out, Stmt{K: SBreak})
		case g.loopDepth > 0 && k >= 85:
			g.budget--
			out = append(out, Stmt{K: SContinue})
		}
	}
	g.vars = g.vars[:mark]
	return out
}

func (g *gen) ifStmt() Stmt {
	s := Stmt{K: SIf, E: g.cond()}
	s.Body = g.block(3, true)
	ne := []int{0, 0, 0, 1, 1, 2}[g.intn(6, "if-elifs")]
	for i := 0; i < ne && g.budget > 0; i++ {
		c := g.cond()
		s.Elifs = append(s.Elifs, Elif{C: c, Body: g.block(2, true)})
	}
	if g.budget > 0 && g.chance(50, "if-else") {
		s.HasElse = true
		s.Else = g.block(3, true)
	}
	return s
}

// guardedDiv: if v != 0 { q := e / v ... }
func (g *gen) guardedDiv() ([]Stmt, bool) {
	var ints []int
	for i, v := range g.vars {
		if v.t.isInt() {
			ints = append(ints, i)
		}
	}
	if len(ints) == 0 {
		return nil, false
	}
	v := g.vars[ints[g.intn(len(ints), "gdiv-var")]]
	op := "/"
	if g.chance(40, "gdiv-mod") {
		op = "%"
	}
	g.cnt["constructed:int-divisor-guarded-by-if"]++
	s := Stmt{K: SIf, E: bin("!=", U8, varRef(v.n, v.t), litInt(v.t, 0))}
	mark := len(g.vars)
	q := g.fresh("q")
	s.Body = append(s.Body, Stmt{K: SDecl, N: q, T: v.t, Ann: g.chance(50, "gdiv-ann"),
		E: bin(op, v.t, g.expr(v.t, g.depth("gdiv-d")), varRef(v.n, v.t))})
	g.budget--
	g.vars = append(g.vars, vinfo{n: q, t: v.t})
	if g.budget > 0 {
		if g.chance(50, "gdiv-ret") {
			s.Body = append(s.Body, Stmt{K: SReturn, E: g.expr(g.ret, g.depth("ret-d"))})
			g.budget--
		} else if st, ok := g.assignStmt(); ok {
			s.Body = append(s.Body, st)
			g.budget--
		}
	}
	g.vars = g.vars[:mark]
	return []Stmt{s}, true
}

// smallArg: a loop bound of type t that is small by construction.
func (g *gen) smallArg(t Ty, lo, hi int) *Expr {
	if g.chance(70, "rng-lit") {
		v := lo + g.intn(hi-lo+1, "rng-v")
		if v < 0 && !t.isSigned() {
			v = -v
		}
		return litInt(t, int64(v))
	}
	// clamped expression: e % K (negative remainders are an avoided region at run time)
	return bin("%", t, g.expr(t, 1), litInt(t, int64(2+g.intn(5, "rng-mod"))))
}

func (g *gen) forRange() Stmt {
	t := g.intTy("rng-ty")
	s := Stmt{K: SForRange, T: t, N: g.fresh("k")}
	form := g.intn(3, "rng-form")
	if g.intn(5, "rng-window") == 0 {
		form = 3
	}
	switch form {
	case 3:
		// a short window far from zero: across the sign bit of the register for unsigned
		// types, just below the type's maximum, across zero / just above the minimum for
		// signed ones (the loop variable stays inside the type: end + step <= max)
		d := uint64(g.intn(6, "rng-win-len"))
		var a, b *Expr
		if t.isSigned() {
			base := []int64{t.maxI() - 8, -3, t.minI() + 1}[g.intn(3, "rng-win-base")]
			a, b = litInt(t, base), litInt(t, base+int64(d))
		} else {
			half := uint64(1) << (t.bits() - 1)
			base := []uint64{half - 2, half - 1, t.maxU() - 8}[g.intn(3, "rng-win-base")]
			a, b = litUint(t, base), litUint(t, base+d)
			if t == U64 {
				// literals above MaxInt64 cannot be spelled (see intLit): the end is computed
				if base > half {
					base = half - 2
				}
				a = litUint(t, base)
				b = bin("+", t, litUint(t, base), litUint(t, d))
			}
		}
		s.Args = []*Expr{a, b}
		if g.chance(40, "rng-win-step") {
			s.Args = append(s.Args, litInt(t, int64(1+g.intn(2, "rng-step"))))
		}
		g.cnt["constructed:range-window-far-from-zero"]++
	case 0:
		s.Args = []*Expr{g.smallArg(t, 0, 5)}
	case 1:
		s.Args = []*Expr{g.smallArg(t, -2, 3), g.smallArg(t, 0, 6)}
	default:
		if t.isSigned() && g.chance(40, "rng-down") {
			s.Args = []*Expr{g.smallArg(t, 0, 6), g.smallArg(t, -3, 2), litInt(t, int64(-1-g.intn(3, "rng-step")))}
		} else {
			s.Args = []*Expr{g.smallArg(t, -2, 3), g.smallArg(t, 0, 7), litInt(t, int64(1+g.intn(3, "rng-step")))}
		}
	}
	// loops.mdx does not say when the bounds are evaluated: variables read by the header
	// are not assigned in the body (avoided by construction)
	used := map[string]bool{}
	for _, a := range s.Args {
		refs(a, used)
	}
	g.cnt["constructed:range-bounds-not-assigned-in-body"]++
	g.freeze(used, 1)
	mark := len(g.vars)
	g.vars = append(g.vars, vinfo{n: s.N, t: t, ro: true})
	g.loopDepth++
	s.Body = g.block(3, true)
	g.loopDepth--
	g.vars = g.vars[:mark]
	g.freeze(used, -1)
	return s
}

// counted loops: c T := K; for c > 0 { c = c - 1; body }   /   for { if c <= 0 { break }; c = c - 1; body }
func (g *gen) forCounted(inf bool) []Stmt {
	t := g.ty("cnt-ty")
	c := g.fresh("c")
	var init *Expr
	if t.isFloat() {
		f := float64(g.intn(5, "cnt-k"))
		if t == F32 {
			init = litF32(float32(f))
		} else {
			init = litF64(f)
		}
	} else {
		init = g.smallArg(t, 0, 4)
	}
	decl := Stmt{K: SDecl, N: c, T: t, Ann: true, E: init}
	g.budget -= 2
	one, zero := litInt(t, 1), litInt(t, 0)
	if t == F32 {
		one, zero = litF32(1), litF32(0)
	} else if t == F64 {
		one, zero = litF64(1), litF64(0)
	}
	dec := Stmt{K: SAssign, N: c, T: t, E: bin("-", t, varRef(c, t), one)}
	if g.chance(40, "cnt-compound") {
		dec = Stmt{K: SAssign, N: c, T: t, Op: "-", E: one}
	}
	g.vars = append(g.vars, vinfo{n: c, t: t, frozen: 1})
	g.loopDepth++
	body := g.block(3, true)
	g.loopDepth--
	for i := range g.vars {
		if g.vars[i].n == c {
			g.vars[i].frozen = 0
		}
	}
	var loop Stmt
	if inf {
		guard := Stmt{K: SIf, E: bin("<=", U8, varRef(c, t), zero), Body: []Stmt{{K: SBreak}}}
		loop = Stmt{K: SForInf, Body: append([]Stmt{guard, dec}, body...)}
	} else {
		loop = Stmt{K: SForCond, E: bin(">", U8, varRef(c, t), zero), Body: append([]Stmt{dec}, body...)}
	}
	return []Stmt{decl, loop}
}

// ---------------------------------------------------------------- control-flow templates
//
// ctlLoop builds a loop whose body is dominated by if / else-if / else chains with break,
// continue and early return in every position (if, else-if and final else blocks, nested
// chains, nested loops) and whose effect is observable: an accumulator receives a distinct
// increment on every path, before and after the chain. The branch conditions test the loop
// counter modulo a small constant, so that successive iterations take different branches.
// The free-form statement generator reaches these shapes only rarely (a terminator in the
// final else of a chain inside a loop, followed by live statements).
type ctlGen struct {
	acc  string
	t    Ty
	next int
}

var ctlIncs = []int64{1, 3, 7, 20, 50, 100, 300, 700, 2000, 5000}

func (g *gen) ctlLit(t Ty, v int64) *Expr {
	switch t {
	case F32:
		return litF32(float32(v))
	case F64:
		return litF64(float64(v))
	}
	return litInt(t, v)
}

func (g *gen) ctlUpd(c *ctlGen) Stmt {
	inc := ctlIncs[c.next%len(ctlIncs)]
	c.next++
	if g.chance(30, "ctl-compound") {
		return Stmt{K: SAssign, N: c.acc, T: c.t, Op: "+", E: g.ctlLit(c.t, inc)}
	}
	return Stmt{K: SAssign, N: c.acc, T: c.t, E: bin("+", c.t, varRef(c.acc, c.t), g.ctlLit(c.t, inc))}
}

func (g *gen) ctlBlock(c *ctlGen, k string, kt Ty, depth int) []Stmt {
	var out []Stmt
	if g.chance(60, "ctl-upd") {
		out = append(out, g.ctlUpd(c))
	}
	if depth < 2 && g.chance(25, "ctl-nest") {
		out = append(out, g.ctlChain(c, k, kt, depth+1))
		if g.chance(50, "ctl-nest-after") {
			out = append(out, g.ctlUpd(c))
		}
	} else if depth < 2 && g.loopDepth < 2 && g.chance(12, "ctl-inner-loop") {
		out = append(out, g.ctlLoopStmts(c)...)
		out = append(out, g.ctlUpd(c))
	}
	switch g.intn(8, "ctl-term") {
	case 4, 5:
		out = append(out, Stmt{K: SContinue})
	case 6:
		out = append(out, Stmt{K: SBreak})
	case 7:
		if g.chance(40, "ctl-ret") {
			out = append(out, Stmt{K: SReturn, E: varRef(c.acc, c.t)})
		}
	}
	return out
}

func (g *gen) ctlChain(c *ctlGen, k string, kt Ty, depth int) Stmt {
	mod := 2 + g.intn(3, "ctl-mod")
	cond := func() *Expr {
		one, zero := litInt(kt, int64(mod)), litInt(kt, int64(g.intn(mod, "ctl-r")))
		if kt.isFloat() {
			// counted loops over floats: compare the counter directly
			return bin([]string{"<", ">", "=="}[g.intn(3, "ctl-fop")], U8, varRef(k, kt), g.ctlLit(kt, int64(g.intn(4, "ctl-fk"))))
		}
		return bin("==", U8, bin("%", kt, varRef(k, kt), one), zero)
	}
	s := Stmt{K: SIf, E: cond(), Body: g.ctlBlock(c, k, kt, depth)}
	for i, n := 0, []int{0, 1, 1, 1, 2, 3}[g.intn(6, "ctl-elifs")]; i < n; i++ {
		s.Elifs = append(s.Elifs, Elif{C: cond(), Body: g.ctlBlock(c, k, kt, depth)})
	}
	if g.chance(75, "ctl-else") {
		s.HasElse = true
		s.Else = g.ctlBlock(c, k, kt, depth)
	}
	return s
}

// ctlLoopStmts returns the statements of one loop (range, conditional or infinite form).
func (g *gen) ctlLoopStmts(c *ctlGen) []Stmt {
	g.loopDepth++
	defer func() { g.loopDepth-- }()
	body := func(k string, kt Ty) []Stmt {
		var b []Stmt
		if g.chance(40, "ctl-pre") {
			b = append(b, g.ctlUpd(c))
		}
		b = append(b, g.ctlChain(c, k, kt, 0))
		b = append(b, g.ctlUpd(c))
		if g.chance(30, "ctl-second-chain") {
			b = append(b, g.ctlChain(c, k, kt, 0), g.ctlUpd(c))
		}
		return b
	}
	switch g.intn(4, "ctl-form") {
	case 0, 1:
		kt := g.intTy("ctl-kty")
		k := g.fresh("k")
		args := []*Expr{litInt(kt, int64(2+g.intn(6, "ctl-n")))}
		if g.chance(30, "ctl-range2") {
			args = []*Expr{litInt(kt, int64(g.intn(3, "ctl-lo"))), litInt(kt, int64(3+g.intn(6, "ctl-hi")))}
		}
		return []Stmt{{K: SForRange, T: kt, N: k, Args: args, Body: body(k, kt)}}
	default:
		kt := g.ty("ctl-cty")
		cn := g.fresh("c")
		decl := Stmt{K: SDecl, N: cn, T: kt, Ann: true, E: g.ctlLit(kt, int64(2+g.intn(6, "ctl-cn")))}
		dec := Stmt{K: SAssign, N: cn, T: kt, E: bin("-", kt, varRef(cn, kt), g.ctlLit(kt, 1))}
		zero := g.ctlLit(kt, 0)
		if g.intn(2, "ctl-inf") == 0 {
			return []Stmt{decl, {K: SForCond, E: bin(">", U8, varRef(cn, kt), zero), Body: append([]Stmt{dec}, body(cn, kt)...)}}
		}
		guard := Stmt{K: SIf, E: bin("<=", U8, varRef(cn, kt), zero), Body: []Stmt{{K: SBreak}}}
		return []Stmt{decl, {K: SForInf, Body: append([]Stmt{guard, dec}, body(cn, kt)...)}}
	}
}

func (g *gen) stmt() []Stmt {
	k := g.intn(100, "sk")
	if g.budget <= 0 {
		return nil
	}
	g.budget--
	switch {
	case k < 30:
		return []Stmt{g.declStmt()}
	case k < 55:
		if s, ok := g.assignStmt(); ok {
			return []Stmt{s}
		}
		return []Stmt{g.declStmt()}
	case k < 73:
		return []Stmt{g.ifStmt()}
	case k < 79:
		if s, ok := g.guardedDiv(); ok {
			return s
		}
		return []Stmt{g.declStmt()}
	case k < 90:
		if g.loopDepth >= 2 {
			return []Stmt{g.declStmt()}
		}
		return []Stmt{g.forRange()}
	case k < 97:
		if g.loopDepth >= 2 {
			return []Stmt{g.declStmt()}
		}
		return g.forCounted(false)
	default:
		if g.loopDepth >= 2 {
			return []Stmt{g.declStmt()}
		}
		return g.forCounted(true)
	}
}

// ---------------------------------------------------------------- arguments

func boundaryArgs(t Ty) []uint64 {
	switch {
	case t == F32:
		fs := []float32{0, float32(math.Copysign(0, -1)), 1, -1, 0.5, -0.5, 1.5, 2.5, -2.5, math.MaxFloat32, -math.MaxFloat32,
			math.SmallestNonzeroFloat32, float32(math.Inf(1)), float32(math.Inf(-1)), float32(math.NaN()),
			127.9, -128.9, 255.5, 256, 65535.5, 2147483520, 2147483648, 4294967040, 4294967296, -2147483648, -2147483904,
			9223371487098961920, 9223372036854775808, 18446742974197923840, 18446744073709551616, 1e10, 16777216}
		out := make([]uint64, len(fs))
		for i, f := range fs {
			out[i] = uint64(math.Float32bits(f))
		}
		return out
	case t == F64:
		fs := []float64{0, math.Copysign(0, -1), 1, -1, 0.5, -0.5, 1.5, 2.5, -2.5, math.MaxFloat64, -math.MaxFloat64,
			math.SmallestNonzeroFloat64, math.Inf(1), math.Inf(-1), math.NaN(),
			127.9, -128.9, 255.5, 256, 65535.5, 2147483647, 2147483647.5, 2147483648, 4294967295.5, 4294967296, -2147483648.5, -2147483649,
			9223372036854774784, 9223372036854775808, 18446744073709549568, 18446744073709551616, 1e10, 16777217,
			3.4028234663852886e38, 3.5e38, 1e-320}
		out := make([]uint64, len(fs))
		for i, f := range fs {
			out[i] = math.Float64bits(f)
		}
		return out
	case t.isSigned():
		vs := []int64{0, 1, -1, t.minI(), t.maxI(), t.minI() + 1, t.maxI() - 1, 2, -2, 3, 7, 10, -10, 100}
		for _, b := range []int64{127, 128, 255, 256, 32767, 32768, 65535, 65536, 2147483647, 2147483648, 4294967295, 4294967296, -129, -32769, -2147483649} {
			if b >= t.minI() && b <= t.maxI() {
				vs = append(vs, b)
			}
		}
		out := make([]uint64, len(vs))
		for i, v := range vs {
			out[i] = t.norm(uint64(v))
		}
		return out
	}
	sb := uint64(1) << (t.bits() - 1)
	vs := []uint64{0, 1, 2, t.maxU(), t.maxU() - 1, sb, sb - 1, sb + 1, 3, 7, 10, 100}
	for _, b := range []uint64{127, 128, 255, 256, 32767, 32768, 65535, 65536, 2147483647, 2147483648, 4294967295, 4294967296} {
		if b <= t.maxU() {
			vs = append(vs, b)
		}
	}
	return vs
}

func (g *gen) arg(t Ty) uint64 {
	k := g.intn(100, "arg-k")
	bs := boundaryArgs(t)
	switch {
	case k < 70:
		return bs[g.intn(len(bs), "arg-b")]
	case k < 88:
		v := int64(g.intn(11, "arg-small")) - 5
		switch {
		case t == F32:
			return uint64(math.Float32bits(float32(v) / 2))
		case t == F64:
			return math.Float64bits(float64(v) / 2)
		case t.isUnsigned() && v < 0:
			v = -v
		}
		return t.norm(uint64(v))
	}
	r := rapid.Uint64().Draw(g.t, "arg-r")
	switch t {
	case F32:
		return uint64(uint32(r))
	case F64:
		return r
	}
	return t.norm(r)
}

// ---------------------------------------------------------------- script

func genScriptWith(t *rapid.T, maxStmts int) Script { return genScriptN(t, maxStmts, -1) }

// genScriptN: forceParams >= 0 fixes the number of parameters.
func genScriptN(t *rapid.T, maxStmts int, forceParams int) Script {
	g := &gen{t: t, avoid: avoidSet(), cnt: map[string]int{}}
	var sc Script
	for i, n := 0, 1+g.intn(3, "palette-n"); i < n; i++ {
		g.palette = append(g.palette, Ty(g.intn(int(nTy), "palette-ty")))
	}
	// helper functions (a third of the programs): generated first, each may call the earlier ones
	if forceParams < 0 && g.intn(3, "helpers") == 0 {
		for i, n := 0, 1+g.intn(2, "nhelpers"); i < n; i++ {
			h := Helper{Name: "h" + itoa(i), Ret: g.ty("helper-ret")}
			g.vars, g.ret, g.budget, g.loopDepth = nil, h.Ret, 3, 0
			np := 1 + g.intn(3, "helper-nparams")
			defaults := g.chance(40, "helper-defaults")
			for j := 0; j < np; j++ {
				pa := Param{N: g.fresh("p"), T: g.ty("helper-param-ty")}
				if defaults && j == np-1 || defaults && j == np-2 && g.chance(50, "helper-default-2") {
					if pa.T.isFloat() {
						pa.Def = &Expr{K: KLit, T: pa.T, V: valBits(pa.T, float64(g.intn(9, "helper-def-f"))+0.5)}
					} else {
						pa.Def = litInt(pa.T, int64(g.intn(100, "helper-def-i")))
					}
				}
				h.Params = append(h.Params, pa)
				g.vars = append(g.vars, vinfo{n: pa.N, t: pa.T})
			}
			// defaults must be trailing
			seenDef := false
			for j := range h.Params {
				if h.Params[j].Def != nil {
					seenDef = true
				} else if seenDef {
					h.Params[j-1].Def = nil
				}
			}
			h.Body = append(h.Body, g.stmtList(0, 3, "helper-body")...)
			h.Body = append(h.Body, Stmt{K: SReturn, E: g.expr(h.Ret, g.depth("helper-ret-d"))})
			g.helpers = append(g.helpers, h)
		}
		sc.Helpers = g.helpers
		g.vars, g.loopDepth = nil, 0
		g.cnt["constructed:helper-functions"]++
	}
	np := []int{1, 2, 2, 3, 1, 2, 0, 3}[g.intn(8, "nparams")]
	if forceParams >= 0 {
		np = forceParams
	}
	for i := 0; i < np; i++ {
		p := Param{N: string(rune('a' + i)), T: g.ty("param-ty")}
		sc.Params = append(sc.Params, p)
		g.vars = append(g.vars, vinfo{n: p.N, t: p.T})
	}
	sc.Ret = g.ty("ret-ty")
	// control-flow mode: the function returns an accumulator that every path of a loop
	// full of if-chains with break/continue/return updates
	ctlMode := g.intn(4, "ctl-mode") == 0
	if ctlMode {
		sc.Ret = []Ty{I32, I64, U32, U64, F64, I64}[g.intn(6, "ctl-ret-ty")]
	}
	g.ret = sc.Ret
	g.budget = maxStmts
	// stateful declarations: top level only (as in every documented example)
	outer := g.t
	sc.Body = append(sc.Body, rapid.SliceOfN(rapid.Custom(func(t *rapid.T) Stmt {
		g.t = t
		defer func() { g.t = outer }()
		st := g.ty("state-ty")
		n := g.fresh("s")
		e := g.expr(st, g.depth("state-d"))
		g.vars = append(g.vars, vinfo{n: n, t: st, state: true})
		g.budget--
		return Stmt{K: SState, N: n, T: st, E: e, Ann: g.chance(60, "state-ann")}
	}), 0, 2).Draw(outer, "state-decls")...)
	g.t = outer
	if ctlMode {
		c := &ctlGen{acc: g.fresh("acc"), t: sc.Ret}
		sc.Body = append(sc.Body, Stmt{K: SDecl, N: c.acc, T: c.t, Ann: true, E: g.ctlLit(c.t, int64(g.intn(3, "ctl-init")))})
		g.vars = append(g.vars, vinfo{n: c.acc, t: c.t})
		g.budget -= 6
		sc.Body = append(sc.Body, g.stmtList(0, 2, "ctl-before")...)
		sc.Body = append(sc.Body, g.ctlLoopStmts(c)...)
		sc.Body = append(sc.Body, g.stmtList(0, 2, "ctl-after")...)
		g.cnt["constructed:control-flow-template"]++
		if g.chance(60, "ctl-ret-plain") {
			sc.Body = append(sc.Body, Stmt{K: SReturn, E: varRef(c.acc, c.t)})
		} else {
			sc.Body = append(sc.Body, Stmt{K: SReturn, E: bin("+", c.t, varRef(c.acc, c.t), g.expr(sc.Ret, g.depth("ret-d")))})
		}
	} else if g.intn(12, "tail-chain") == 0 {
		// The function ends in an if / else-if / else chain whose blocks all return (no
		// trailing return statement): the analyzer's return-on-all-paths check has to accept
		// it. In half of these programs one block (any position, also nested) does not return.
		sc.Body = append(sc.Body, g.stmtList(0, 3, "tail-before")...)
		blocks := 0
		var chain func(depth int) Stmt
		retBlock := func(depth int) []Stmt {
			blocks++
			mark := len(g.vars)
			defer func() { g.vars = g.vars[:mark] }()
			b := g.stmtList(0, 1, "tail-blk")
			if depth < 1 && g.intn(5, "tail-nest") == 0 {
				blocks--
				return append(b, chain(depth+1))
			}
			return append(b, Stmt{K: SReturn, E: g.expr(sc.Ret, g.depth("ret-d"))})
		}
		chain = func(depth int) Stmt {
			s := Stmt{K: SIf, E: g.cond(), Body: retBlock(depth), HasElse: true}
			for i, n := 0, []int{0, 1, 2, 2, 3}[g.intn(5, "tail-elifs")]; i < n; i++ {
				s.Elifs = append(s.Elifs, Elif{C: g.cond(), Body: retBlock(depth)})
			}
			s.Else = retBlock(depth)
			return s
		}
		tail := chain(0)
		if g.chance(50, "tail-fall") {
			// remove the return of the k-th block (pre-order)
			k, seen := g.intn(blocks, "tail-fall-k"), 0
			var strip func(s *Stmt) bool
			stripBlock := func(b *[]Stmt) bool {
				last := &(*b)[len(*b)-1]
				if last.K == SIf {
					return strip(last)
				}
				if seen == k {
					*b = (*b)[:len(*b)-1]
					seen++
					return true
				}
				seen++
				return false
			}
			strip = func(s *Stmt) bool {
				if stripBlock(&s.Body) {
					return true
				}
				for i := range s.Elifs {
					if stripBlock(&s.Elifs[i].Body) {
						return true
					}
				}
				return stripBlock(&s.Else)
			}
			sc.Fall = strip(&tail)
		}
		sc.Body = append(sc.Body, tail)
		g.cnt["constructed:function-ends-in-returning-if-chain"]++
	} else {
		sc.Body = append(sc.Body, g.stmtList(0, maxStmts, "body")...)
		sc.Body = append(sc.Body, Stmt{K: SReturn, E: g.expr(sc.Ret, g.depth("ret-d"))})
	}
	minCalls := 3
	if np == 0 {
		minCalls = 1
	}
	sc.Calls = rapid.SliceOfN(rapid.Custom(func(t *rapid.T) []uint64 {
		g.t = t
		defer func() { g.t = outer }()
		args := make([]uint64, np)
		if np == 0 {
			g.intn(2, "no-args")
		}
		for i, p := range sc.Params {
			args[i] = g.arg(p.T)
		}
		return args
	}), minCalls, 12).Draw(outer, "calls")
	g.t = outer
	genCounters = g.cnt
	return sc
}

func valBits(t Ty, f float64) uint64 {
	if t == F32 {
		return uint64(math.Float32bits(float32(f)))
	}
	return math.Float64bits(f)
}

// genCounters carries the construction counters of the most recent genScript call to the
// executor (same goroutine; reset per case). They are statistics only.
var genCounters map[string]int

func genScript(t *rapid.T) Script { return genScriptWith(t, 12) }
