// C19 — compiled Arc code computes what the language specification says.
//
// ast_test.go: the generator's own typed AST (plain JSON-serialisable data). The printer
// (print_test.go) turns it into Arc source; the reference interpreter M-ARC (interp_test.go)
// evaluates it directly and never parses Arc text.
package verif_c19_test

import (
	"math"
)

// Ty enumerates the ten scalar numeric types of the language.
type Ty int

const (
	I8 Ty = iota
	I16
	I32
	I64
	U8
	U16
	U32
	U64
	F32
	F64
	nTy
)

var tyNames = [...]string{"i8", "i16", "i32", "i64", "u8", "u16", "u32", "u64", "f32", "f64"}

func (t Ty) String() string { return tyNames[t] }
func (t Ty) isFloat() bool  { return t == F32 || t == F64 }
func (t Ty) isInt() bool    { return t < F32 }
func (t Ty) isSigned() bool { return t <= I64 }
func (t Ty) isUnsigned() bool {
	return t >= U8 && t <= U64
}
func (t Ty) bits() uint {
	switch t {
	case I8, U8:
		return 8
	case I16, U16:
		return 16
	case I32, U32, F32:
		return 32
	}
	return 64
}
func (t Ty) narrow() bool { return t.isInt() && t.bits() < 32 }

// wasm32 reports whether the type travels in a 32-bit WASM integer register.
func (t Ty) wasm32() bool { return t.isInt() && t.bits() <= 32 }

// minI / maxI: bounds of a signed type as int64; maxU: bound of an unsigned type.
func (t Ty) minI() int64 { return -(int64(1) << (t.bits() - 1)) }
func (t Ty) maxI() int64 { return int64(1)<<(t.bits()-1) - 1 }
func (t Ty) maxU() uint64 {
	if t.bits() == 64 {
		return math.MaxUint64
	}
	return uint64(1)<<t.bits() - 1
}

// norm brings a 64-bit pattern into the canonical form of an integer type: the low
// bits() bits, sign-extended (signed) or zero-extended (unsigned) to 64 bits.
func (t Ty) norm(u uint64) uint64 {
	switch t {
	case I8:
		return uint64(int64(int8(u)))
	case I16:
		return uint64(int64(int16(u)))
	case I32:
		return uint64(int64(int32(u)))
	case U8:
		return uint64(uint8(u))
	case U16:
		return uint64(uint16(u))
	case U32:
		return uint64(uint32(u))
	}
	return u
}

// Expr kinds.
const (
	KLit  = "lit"
	KVar  = "var"
	KNeg  = "neg"
	KNot  = "not"
	KBin  = "bin"
	KCast = "cast"
	KCall = "call" // Helpers[F](Args...); trailing parameters with a default may be left out
)

// Expr is an expression node. T is its (static) result type.
type Expr struct {
	K  string `json:"k"`
	T  Ty     `json:"t"`
	Op string `json:"op,omitempty"` // bin: + - * / % ^ == != < > <= >= and or
	A  *Expr  `json:"a,omitempty"`
	B  *Expr  `json:"b,omitempty"`
	N  string `json:"n,omitempty"` // var: name
	// lit: integer types: the value in canonical 64-bit form; f32: float32 bits; f64: float64 bits
	V uint64 `json:"v,omitempty"`
	// lit of float type written as an integer literal (e.g. `2` where an f32 is expected)
	IL bool `json:"il,omitempty"`
	// call
	F    int     `json:"f,omitempty"`
	Args []*Expr `json:"args,omitempty"`
}

// Stmt kinds.
const (
	SDecl     = "decl"     // N [T] := E
	SState    = "sdecl"    // N [T] $= E
	SAssign   = "assign"   // N = E   or  N op= E
	SIf       = "if"       // if E {Body} (else if Elifs[i].C {Elifs[i].Body})* (else {Else})?
	SForRange = "forrange" // for N := range(Args...) {Body}
	SForCond  = "forcond"  // for E {Body}
	SForInf   = "forinf"   // for {Body}
	SBreak    = "break"
	SContinue = "continue"
	SReturn   = "return" // return E
)

type Elif struct {
	C    *Expr  `json:"c"`
	Body []Stmt `json:"body"`
}

type Stmt struct {
	K       string  `json:"k"`
	N       string  `json:"n,omitempty"`
	T       Ty      `json:"t,omitempty"`
	Ann     bool    `json:"ann,omitempty"` // decl/sdecl: print the type annotation
	Op      string  `json:"op,omitempty"`  // assign: "" or one of + - * / %
	E       *Expr   `json:"e,omitempty"`
	Args    []*Expr `json:"args,omitempty"`
	Body    []Stmt  `json:"body,omitempty"`
	Elifs   []Elif  `json:"elifs,omitempty"`
	Else    []Stmt  `json:"else,omitempty"`
	HasElse bool    `json:"has_else,omitempty"`
}

type Param struct {
	N string `json:"n"`
	T Ty     `json:"t"`
	// helper parameters only: literal default value (trailing parameters)
	Def *Expr `json:"def,omitempty"`
}

// Helper is a function the main function (and later helpers) can call in expressions:
// scalar parameters, optional trailing defaults, no stateful variables.
type Helper struct {
	Name   string  `json:"name"`
	Params []Param `json:"params"`
	Ret    Ty      `json:"ret"`
	Body   []Stmt  `json:"body"`
}

// Script is one case: one function and the argument vectors it is called with, in order,
// on a single instance.
type Script struct {
	Helpers []Helper  `json:"helpers,omitempty"`
	Params []Param    `json:"params"`
	Ret    Ty         `json:"ret"`
	Body   []Stmt     `json:"body"`
	Calls  [][]uint64 `json:"calls"` // per call, per parameter: canonical bits (see Expr.V)
	// Fall: the body ends in an if / else-if / else chain in which one branch does not
	// return, so a path falls off the end of a value-returning function. The analyzer has to
	// reject the program ("must return a value on all paths"); if it accepts it, the module
	// still has to validate. Such programs are never executed.
	Fall bool `json:"fall,omitempty"`
}

// ---- literal helpers

func litInt(t Ty, v int64) *Expr   { return &Expr{K: KLit, T: t, V: t.norm(uint64(v))} }
func litUint(t Ty, v uint64) *Expr { return &Expr{K: KLit, T: t, V: t.norm(v)} }
func litF64(v float64) *Expr       { return &Expr{K: KLit, T: F64, V: math.Float64bits(v)} }
func litF32(v float32) *Expr       { return &Expr{K: KLit, T: F32, V: uint64(math.Float32bits(v))} }
func varRef(n string, t Ty) *Expr  { return &Expr{K: KVar, T: t, N: n} }
func bin(op string, t Ty, a, b *Expr) *Expr {
	return &Expr{K: KBin, T: t, Op: op, A: a, B: b}
}
func cast(t Ty, a *Expr) *Expr { return &Expr{K: KCast, T: t, A: a} }

func isCmp(op string) bool {
	switch op {
	case "==", "!=", "<", ">", "<=", ">=":
		return true
	}
	return false
}
func isEq(op string) bool    { return op == "==" || op == "!=" }
func isLogic(op string) bool { return op == "and" || op == "or" }
