// Native (coverage-guided) fuzz target for "source the analyzer rejects produces diagnostics,
// never a crash". Oracle = executeText (the rapid token mutator's executor): arc.CompileText
// returns a program, diagnostics or an error value and never panics; a compile that exceeds
// the time bound is not a failure. Seed corpus: the repository's Arc sources and documentation
// blocks plus a few printed programs of the typed generator's shape. The driver executes the
// seeds (and committed crashers) in both tiers and a time-boxed campaign in the thorough tier.
package verif_c19_test

import (
	"testing"

	kit "github.com/synnaxlabs/arc/internal/verifkit"
)

func FuzzC19CompileText(f *testing.F) {
	for _, s := range loadSeeds() {
		if len(s) < 3000 {
			f.Add(s)
		}
	}
	for _, s := range []string{
		"func f(a i8, b u32) i64 {\n    acc i64 := 0\n    for k := range(5) {\n        if k % 2 == 0 {\n            acc = acc + 1\n            continue\n        } else if k % 3 == 0 {\n            break\n        } else {\n            acc += 7\n        }\n        acc = acc + 20\n    }\n    return acc\n}\n",
		"func g(a f32) u8 {\n    s $= 0\n    s = s + 1\n    return u8(a < 1.5 and not a > 0.5 or s == 2)\n}\n",
		"func h(a u64, b i16) i16 {\n    c i16 := b\n    for c > 0 {\n        c -= 1\n    }\n    return i16(a ^ 2) + -c % 3\n}\n",
		"func", "func f(", "func f() i64 { return 1 +", "{{{{{{{{", "func f() { x := [1, 2, 3][ }", "\"", "`", "f\"{", "1..2", "0x", "1e999",
	} {
		f.Add(s)
	}
	f.Fuzz(func(t *testing.T, src string) {
		if len(src) > 4000 {
			src = src[:4000]
		}
		rep := &kit.Report{}
		if err := executeText(TextScript{Src: src}, rep); err != nil {
			if v, ok := err.(*kit.Violation); ok {
				t.Fatalf("VERIF-FUZZ-VIOLATION %s: %s", v.Sig, v.Msg)
			}
			t.Fatalf("VERIF-FUZZ-VIOLATION error: %v", err)
		}
	})
}
