package verif_c19_test

import (
	"context"
	"fmt"
	"os"
	"strconv"
	"strings"
	"testing"

	"github.com/tetratelabs/wazero"
)

// TestProbe (development aid): C19_PROBE=file; programs separated by "//====\n"; lines "//call f a b" call f.
func TestProbe(t *testing.T) {
	p := os.Getenv("C19_PROBE")
	if p == "" {
		t.Skip()
	}
	b, _ := os.ReadFile(p)
	for i, src := range strings.Split(string(b), "//====\n") {
		fmt.Printf("--- program %d\n", i)
		probeOne(src)
	}
}

func probeOne(src string) {
	ctx := context.Background()
	res, _ := compileGuarded(src)
	if res.panicked != nil {
		fmt.Printf("PANIC: %v\n", res.panicked)
		return
	}
	if res.err != nil {
		fmt.Printf("COMPILE ERROR: %v\n", res.err)
		return
	}
	h, err := newHost(ctx)
	if err != nil {
		panic(err)
	}
	defer h.rt.Close(ctx)
	mod, err := h.rt.InstantiateWithConfig(ctx, res.prog.WASM, wazero.NewModuleConfig().WithName(""))
	if err != nil {
		fmt.Printf("INSTANTIATE ERROR: %v\n", err)
		return
	}
	for _, ln := range strings.Split(src, "\n") {
		if !strings.HasPrefix(ln, "//call ") {
			continue
		}
		f := strings.Fields(ln[7:])
		var args []uint64
		for _, a := range f[1:] {
			w := strings.HasPrefix(a, "w")
			v, err := strconv.ParseInt(strings.TrimPrefix(a, "w"), 0, 64)
			if err != nil {
				u, _ := strconv.ParseUint(a, 0, 64)
				v = int64(u)
			}
			if w {
				args = append(args, uint64(uint32(v)))
			} else {
				args = append(args, uint64(v))
			}
		}
		fn := mod.ExportedFunction(f[0])
		if fn == nil {
			fmt.Printf("%s: no such export\n", f[0])
			continue
		}
		out, err := fn.Call(ctx, args...)
		fmt.Printf("%s -> %v (hex %x) err=%v\n", ln[7:], out, out, err)
	}
}
