package verif_c19_test

import (
	"context"
	"fmt"
	"os"
	"strconv"
	"strings"
	"testing"

	"github.com/synnaxlabs/arc"
	stlchannels "github.com/synnaxlabs/arc/stl/channels"
	stlerrors "github.com/synnaxlabs/arc/stl/errors"
	stlmath "github.com/synnaxlabs/arc/stl/math"
	"github.com/synnaxlabs/arc/stl/series"
	"github.com/synnaxlabs/arc/stl/stateful"
	stlstrings "github.com/synnaxlabs/arc/stl/strings"
	stltime "github.com/synnaxlabs/arc/stl/time"
	"github.com/tetratelabs/wazero"
)

// TestProbe: C19_PROBE=file ; file format: source, then lines "//call f a b c" (uint64 decimal or 0x hex)
func TestProbe(t *testing.T) {
	p := os.Getenv("C19_PROBE")
	if p == "" {
		t.Skip()
	}
	b, _ := os.ReadFile(p)
	for i, src := range strings.Split(string(b), "//====\n") {
		fmt.Printf("--- program %d\n", i)
		probeOne(src)
	}
}

func probeOne(src string) {
	ctx := context.Background()
	prog, err := arc.CompileText(ctx, arc.Text{Raw: src}, arc.NewRoot(nil))
	if err != nil {
		fmt.Printf("COMPILE ERROR: %v\n", err)
		return
	}
	if os.Getenv("C19_DUMP") != "" {
		fmt.Printf("WASM: %x\n", prog.WASM)
	}
	cfg := wazero.NewRuntimeConfigCompiler()
	if os.Getenv("C19_INTERP") != "" {
		cfg = wazero.NewRuntimeConfigInterpreter()
	}
	rt := wazero.NewRuntimeWithConfig(ctx, cfg)
	defer rt.Close(ctx)
	stringsState := stlstrings.NewProgramState()
	seriesState := series.NewProgramState()
	channelState := stlchannels.NewProgramState(nil)
	must(stateful.NewHost(ctx, rt, seriesState, stringsState))
	must(series.NewHost(ctx, rt, seriesState))
	must(stlstrings.NewHost(ctx, rt, stringsState, nil))
	must(stlmath.NewHost(ctx, rt))
	must(stlerrors.NewHost(ctx, rt, nil))
	must(stltime.NewHost(ctx, rt))
	must(stlchannels.NewHost(ctx, rt, channelState, stringsState))
	mod, err := rt.Instantiate(ctx, prog.WASM)
	if err != nil {
		fmt.Printf("INSTANTIATE ERROR: %v\n", err)
		return
	}
	for _, ln := range strings.Split(src, "\n") {
		if !strings.HasPrefix(ln, "//call ") {
			continue
		}
		f := strings.Fields(ln[7:])
		var args []uint64
		for _, a := range f[1:] {
			v, err := strconv.ParseInt(strings.TrimPrefix(a, "w"), 0, 64)
			if err != nil {
				u, _ := strconv.ParseUint(a, 0, 64)
				v = int64(u)
			}
			if strings.HasPrefix(a, "w") {
				args = append(args, uint64(uint32(v)))
				continue
			}
			args = append(args, uint64(v))
		}
		fn := mod.ExportedFunction(f[0])
		if fn == nil {
			fmt.Printf("%s: no such export\n", f[0])
			continue
		}
		res, err := fn.Call(ctx, args...)
		fmt.Printf("%s -> %v (hex %x) err=%v\n", ln[7:], res, res, err)
	}
}

func must[T any](v T, err error) T {
	if err != nil {
		panic(err)
	}
	return v
}
