// interp_test.go: M-ARC, the reference interpreter. It evaluates the generator's AST with
// Go fixed-width arithmetic following arc/docs/spec.md and the reference pages:
//
//   - integer + - * and unary minus wrap in two's complement at the width of the type
//     (spec "Integer overflow uses two's-complement wrapping");
//   - integer / truncates toward zero (operators.mdx "Division Behavior"), % is the matching
//     remainder; unsigned types use unsigned division;
//   - comparisons return u8 0/1; and/or short-circuit and normalise to 0/1; not x = (x == 0);
//   - casts (spec "Type Casting" / types.mdx "Casting Rules"): widening preserves the value,
//     narrowing truncates, signed<->unsigned saturates at the bounds, float->integer
//     truncates toward zero and saturates on overflow;
//   - f32 arithmetic rounds to f32 after every operation; ^ is the host pow;
//   - stateful variables ($=) are initialised the first time their declaration executes on
//     an instance and keep their value across calls;
//   - loops as reference/loops.mdx defines them.
//
// While evaluating, M-ARC records *dynamic hazard tags* (places where the value depends on
// one specific rule, e.g. "narrow-wrap": an i8/i16/u8/u16 operation overflowed its width),
// and aborts the call when it enters a region the documents leave undefined or ambiguous.
package verif_c19_test

import (
	"fmt"
	"math"
	"sort"
)

type val struct {
	T Ty
	U uint64  // integer types: canonical 64-bit form
	F float64 // float types (an f32 value is held exactly)
}

func (v val) String() string {
	switch {
	case v.T == F32:
		return fmt.Sprintf("%s(%v /0x%08x)", v.T, float32(v.F), math.Float32bits(float32(v.F)))
	case v.T == F64:
		return fmt.Sprintf("%s(%v /0x%016x)", v.T, v.F, math.Float64bits(v.F))
	case v.T.isSigned():
		return fmt.Sprintf("%s(%d)", v.T, int64(v.U))
	}
	return fmt.Sprintf("%s(%d)", v.T, v.U)
}

// undefined is the panic value used to leave a call that entered an avoided region.
type undefined struct{ region string }

// regions the documents leave undefined / ambiguous (always avoided, counted)
const (
	uDivZero     = "int-div-or-mod-by-zero"                       // spec: runtime error, behaviour of the result unspecified
	uDivOverflow = "int-min-div-minus-one"                        // MIN / -1, MIN % -1: not covered by any rule
	uModSign     = "mod-with-negative-operand"                    // sign of % result not specified
	uFDivZero    = "float-div-by-zero"                            // spec lists "Division/modulo by zero" as a runtime error without restricting it to integers
	uPowNegExp   = "int-pow-negative-exponent"                    // not specified
	uCastNaN     = "float-to-int-cast-of-nan"                     // not specified
	uCastAmbig   = "narrowing-cast-with-sign-change-out-of-range" // truncates or saturates? both rules apply
	uFuel        = "step-budget-exceeded"
)

type machine struct {
	sc     *Script
	state  map[string]*val // stateful variables of the instance
	env    map[string]*val
	haz    map[string]bool // dynamic hazards of the current call
	fuel   int
	usedFP bool // a float ^ was evaluated in this call
	depth  int
}

func newMachine(sc *Script) *machine {
	return &machine{sc: sc, state: map[string]*val{}}
}

type ctl int

const (
	cNone ctl = iota
	cBreak
	cContinue
	cReturn
)

// call evaluates one invocation. undef != "" means the call entered an avoided region (the
// instance must not be used further: its state is no longer defined).
func (m *machine) call(args []uint64) (res val, hazards []string, undef string) {
	m.env = map[string]*val{}
	m.haz = map[string]bool{}
	m.fuel = 20000
	m.usedFP = false
	defer func() {
		if r := recover(); r != nil {
			u, ok := r.(undefined)
			if !ok {
				panic(r)
			}
			undef = u.region
		}
		for h := range m.haz {
			hazards = append(hazards, h)
		}
		sort.Strings(hazards)
	}()
	for i, p := range m.sc.Params {
		v := valFromBits(p.T, args[i])
		m.env[p.N] = &v
	}
	c, r := m.block(m.sc.Body)
	if c != cReturn {
		panic("M-ARC: function body fell off the end (generator bug)")
	}
	return r, nil, ""
}

func valFromBits(t Ty, b uint64) val {
	switch t {
	case F32:
		return val{T: t, F: float64(math.Float32frombits(uint32(b)))}
	case F64:
		return val{T: t, F: math.Float64frombits(b)}
	}
	return val{T: t, U: t.norm(b)}
}

func (v val) bits() uint64 {
	switch v.T {
	case F32:
		return uint64(math.Float32bits(float32(v.F)))
	case F64:
		return math.Float64bits(v.F)
	}
	return v.U
}

func (m *machine) tick() {
	m.fuel--
	if m.fuel < 0 {
		panic(undefined{uFuel})
	}
}

func (m *machine) lookup(n string) *val {
	if v, ok := m.env[n]; ok {
		return v
	}
	if v, ok := m.state[n]; ok && v != nil {
		return v
	}
	panic("M-ARC: unknown variable " + n + " (generator bug)")
}

func truthy(v val) bool {
	if v.T.isFloat() {
		return v.F != 0
	}
	return v.U != 0
}

func (m *machine) block(body []Stmt) (ctl, val) {
	var declared []string
	defer func() {
		for _, n := range declared {
			delete(m.env, n)
		}
	}()
	for i := range body {
		s := &body[i]
		m.tick()
		switch s.K {
		case SDecl:
			v := m.eval(s.E)
			m.env[s.N] = &v
			declared = append(declared, s.N)
		case SState:
			// the initialiser is pure; it only takes effect the first time
			v := m.eval(s.E)
			if m.state[s.N] == nil {
				m.state[s.N] = &v
			}
		case SAssign:
			dst := m.lookup(s.N)
			v := m.eval(s.E)
			if s.Op != "" {
				v = m.arith(s.Op, *dst, v)
			}
			*dst = v
		case SIf:
			taken := false
			if truthy(m.eval(s.E)) {
				taken = true
				if c, r := m.block(s.Body); c != cNone {
					return c, r
				}
			}
			if !taken {
				for j := range s.Elifs {
					if truthy(m.eval(s.Elifs[j].C)) {
						taken = true
						if c, r := m.block(s.Elifs[j].Body); c != cNone {
							return c, r
						}
						break
					}
				}
			}
			if !taken && s.HasElse {
				if c, r := m.block(s.Else); c != cNone {
					return c, r
				}
			}
		case SForRange:
			t := s.T
			var start, end, step val
			start = val{T: t}
			step = val{T: t, U: 1}
			switch len(s.Args) {
			case 1:
				end = m.eval(s.Args[0])
			case 2:
				start, end = m.eval(s.Args[0]), m.eval(s.Args[1])
			case 3:
				start, end, step = m.eval(s.Args[0]), m.eval(s.Args[1]), m.eval(s.Args[2])
			}
			neg := t.isSigned() && int64(step.U) < 0
			if step.U == 0 {
				panic(undefined{"range-step-zero"})
			}
			i := start
			for {
				m.tick()
				var cont bool
				if neg {
					cont = m.cmp(">", i, end)
				} else {
					cont = m.cmp("<", i, end)
				}
				if !cont {
					break
				}
				iv := i
				m.env[s.N] = &iv
				c, r := m.block(s.Body)
				delete(m.env, s.N)
				if c == cBreak {
					break
				}
				if c == cReturn {
					return c, r
				}
				nx := m.arith("+", i, step)
				// the loop variable leaving its type's range is not described by loops.mdx
				if (neg && m.cmp(">", nx, i)) || (!neg && m.cmp("<", nx, i)) {
					panic(undefined{"range-variable-overflow"})
				}
				i = nx
			}
		case SForCond:
			for {
				m.tick()
				if !truthy(m.eval(s.E)) {
					break
				}
				c, r := m.block(s.Body)
				if c == cBreak {
					break
				}
				if c == cReturn {
					return c, r
				}
			}
		case SForInf:
			for {
				m.tick()
				c, r := m.block(s.Body)
				if c == cBreak {
					break
				}
				if c == cReturn {
					return c, r
				}
			}
		case SBreak:
			return cBreak, val{}
		case SContinue:
			return cContinue, val{}
		case SReturn:
			return cReturn, m.eval(s.E)
		default:
			panic("M-ARC: unknown statement " + s.K)
		}
	}
	return cNone, val{}
}

func b2v(b bool) val {
	if b {
		return val{T: U8, U: 1}
	}
	return val{T: U8}
}

func (m *machine) eval(e *Expr) val {
	m.tick()
	switch e.K {
	case KLit:
		return valFromBits(e.T, e.V)
	case KVar:
		v := *m.lookup(e.N)
		if v.T != e.T {
			panic(fmt.Sprintf("M-ARC: variable %s has type %s, expression says %s (generator bug)", e.N, v.T, e.T))
		}
		return v
	case KNeg:
		a := m.eval(e.A)
		if a.T.isFloat() {
			return val{T: a.T, F: -a.F}
		}
		if a.T.isUnsigned() && a.U != 0 {
			m.haz["neg-unsigned"] = true
		}
		return m.arith("-", val{T: a.T}, a)
	case KNot:
		return b2v(!truthy(m.eval(e.A)))
	case KCast:
		return m.cast(m.eval(e.A), e.T)
	case KCall:
		h := &m.sc.Helpers[e.F]
		env := map[string]*val{}
		for i, pa := range h.Params {
			var v val
			if i < len(e.Args) {
				v = m.eval(e.Args[i]) // arguments are evaluated left to right in the caller's scope
			} else {
				v = valFromBits(pa.Def.T, pa.Def.V)
			}
			if v.T != pa.T {
				panic(fmt.Sprintf("M-ARC: argument %d of %s has type %s, parameter is %s (generator bug)", i, h.Name, v.T, pa.T))
			}
			env[pa.N] = &v
		}
		m.depth++
		if m.depth > 8 {
			panic(undefined{uFuel})
		}
		saved := m.env
		m.env = env
		c, r := m.block(h.Body)
		m.env = saved
		m.depth--
		if c != cReturn {
			panic("M-ARC: helper body fell off the end (generator bug)")
		}
		return r
	case KBin:
		switch {
		case e.Op == "and":
			if !truthy(m.eval(e.A)) {
				return b2v(false)
			}
			return b2v(truthy(m.eval(e.B)))
		case e.Op == "or":
			if truthy(m.eval(e.A)) {
				return b2v(true)
			}
			return b2v(truthy(m.eval(e.B)))
		case isCmp(e.Op):
			return b2v(m.cmp(e.Op, m.eval(e.A), m.eval(e.B)))
		}
		a := m.eval(e.A)
		b := m.eval(e.B)
		return m.arith(e.Op, a, b)
	}
	panic("M-ARC: unknown expression " + e.K)
}

func (m *machine) cmp(op string, a, b val) bool {
	if a.T != b.T {
		panic(fmt.Sprintf("M-ARC: comparison of %s and %s (generator bug)", a.T, b.T))
	}
	var lt, eq bool
	switch {
	case a.T.isFloat():
		// IEEE: every ordered comparison with a NaN is false, != is true
		lt, eq = a.F < b.F, a.F == b.F
		switch op {
		case "==":
			return eq
		case "!=":
			return !eq
		case "<":
			return lt
		case "<=":
			return a.F <= b.F
		case ">":
			return a.F > b.F
		case ">=":
			return a.F >= b.F
		}
	case a.T.isSigned():
		lt, eq = int64(a.U) < int64(b.U), a.U == b.U
	default:
		lt, eq = a.U < b.U, a.U == b.U
	}
	switch op {
	case "==":
		return eq
	case "!=":
		return !eq
	case "<":
		return lt
	case "<=":
		return lt || eq
	case ">":
		return !lt && !eq
	case ">=":
		return !lt
	}
	panic("M-ARC: unknown comparison " + op)
}

// wrap normalises an integer result to its type and records whether a narrow type wrapped.
func (m *machine) wrap(t Ty, exactFits bool, u uint64) val {
	n := t.norm(u)
	if !exactFits {
		if t.narrow() {
			m.haz["narrow-wrap"] = true
		} else {
			m.haz["wide-wrap"] = true
		}
	}
	return val{T: t, U: n}
}

func fitsSigned(t Ty, v int64) bool { return v >= t.minI() && v <= t.maxI() }

func (m *machine) arith(op string, a, b val) val {
	if a.T != b.T {
		panic(fmt.Sprintf("M-ARC: %s of %s and %s (generator bug)", op, a.T, b.T))
	}
	t := a.T
	if t.isFloat() {
		var r float64
		switch op {
		case "+":
			r = a.F + b.F
		case "-":
			r = a.F - b.F
		case "*":
			r = a.F * b.F
		case "/":
			if b.F == 0 {
				panic(undefined{uFDivZero})
			}
			r = a.F / b.F
		case "^":
			m.usedFP = true
			r = math.Pow(a.F, b.F)
		default:
			panic("M-ARC: float operator " + op)
		}
		if t == F32 {
			r = float64(float32(r))
		}
		return val{T: t, F: r}
	}
	if t.isSigned() {
		x, y := int64(a.U), int64(b.U)
		switch op {
		case "+":
			r := x + y
			fits := fitsSigned(t, r) && !(t == I64 && ((x > 0 && y > 0 && r < 0) || (x < 0 && y < 0 && r >= 0)))
			return m.wrap(t, fits, uint64(r))
		case "-":
			r := x - y
			fits := fitsSigned(t, r) && !(t == I64 && ((x >= 0 && y < 0 && r < 0) || (x < 0 && y > 0 && r >= 0)))
			return m.wrap(t, fits, uint64(r))
		case "*":
			r := x * y
			fits := fitsSigned(t, r)
			if t == I64 && x != 0 && (r/x != y || (x == -1 && y == math.MinInt64)) {
				fits = false
			}
			return m.wrap(t, fits, uint64(r))
		case "/", "%":
			if y == 0 {
				panic(undefined{uDivZero})
			}
			if y == -1 && x == t.minI() {
				if t.narrow() {
					// i8: -128 / -1 = 128 -> wraps by the integer-overflow rule; for 32/64-bit
					// types the documents give no rule (and division hardware traps)
					if op == "/" {
						return m.wrap(t, false, uint64(-x))
					}
					return val{T: t}
				}
				panic(undefined{uDivOverflow})
			}
			if op == "/" {
				return val{T: t, U: t.norm(uint64(x / y))}
			}
			r := x % y
			if r != 0 && (x < 0 || y < 0) {
				panic(undefined{uModSign})
			}
			return val{T: t, U: t.norm(uint64(r))}
		case "^":
			if y < 0 {
				panic(undefined{uPowNegExp})
			}
			acc := val{T: t, U: 1}
			for i := int64(0); i < y; i++ {
				m.tick()
				acc = m.arith("*", acc, a)
			}
			return acc
		}
		panic("M-ARC: integer operator " + op)
	}
	x, y := a.U, b.U
	switch op {
	case "+":
		r := x + y
		fits := r >= x && r <= t.maxU()
		return m.wrap(t, fits, r)
	case "-":
		return m.wrap(t, x >= y, x-y)
	case "*":
		r := x * y
		fits := (x == 0 || r/x == y) && r <= t.maxU()
		return m.wrap(t, fits, r)
	case "/", "%":
		if y == 0 {
			panic(undefined{uDivZero})
		}
		if op == "/" {
			return val{T: t, U: x / y}
		}
		return val{T: t, U: x % y}
	case "^":
		acc := val{T: t, U: 1}
		if y > 64 && x > 1 {
			// avoid long loops: the result is 0 for even bases after 64 doublings, but keep it simple
			panic(undefined{uFuel})
		}
		for i := uint64(0); i < y; i++ {
			m.tick()
			acc = m.arith("*", acc, a)
		}
		return acc
	}
	panic("M-ARC: integer operator " + op)
}

// cast implements the casting rules of spec.md / types.mdx.
func (m *machine) cast(a val, to Ty) val {
	from := a.T
	if from == to {
		return a
	}
	switch {
	case from.isFloat() && to.isFloat():
		if to == F32 {
			return val{T: F32, F: float64(float32(a.F))}
		}
		return val{T: F64, F: a.F}
	case from.isInt() && to.isFloat():
		var f float64
		if to == F32 {
			if from.isSigned() {
				f = float64(float32(int64(a.U)))
			} else {
				f = float64(float32(a.U))
			}
		} else {
			if from.isSigned() {
				f = float64(int64(a.U))
			} else {
				f = float64(a.U)
			}
		}
		return val{T: to, F: f}
	case from.isFloat() && to.isInt():
		// "Float -> Integer truncates toward zero, saturates on overflow"
		f := a.F
		if f != f {
			panic(undefined{uCastNaN})
		}
		tr := math.Trunc(f)
		if tr != f {
			m.haz["cast-f2i-frac"] = true
		}
		if to.isSigned() {
			lo, hi := float64(to.minI()), float64(to.maxI()) // hi rounds up to 2^63 for i64
			switch {
			case tr < lo:
				m.haz["cast-f2i-sat"] = true
				return val{T: to, U: uint64(to.minI())}
			case tr > hi || (to == I64 && tr >= 9223372036854775808.0):
				m.haz["cast-f2i-sat"] = true
				return val{T: to, U: uint64(to.maxI())}
			}
			return val{T: to, U: uint64(int64(tr))}
		}
		switch {
		case tr < 0:
			m.haz["cast-f2i-sat"] = true
			return val{T: to}
		case tr > float64(to.maxU()) || (to == U64 && tr >= 18446744073709551616.0):
			m.haz["cast-f2i-sat"] = true
			return val{T: to, U: to.maxU()}
		}
		return val{T: to, U: uint64(tr)}
	}
	// integer -> integer
	representable := false
	if from.isSigned() {
		x := int64(a.U)
		if to.isSigned() {
			representable = fitsSigned(to, x)
		} else {
			representable = x >= 0 && uint64(x) <= to.maxU()
		}
	} else {
		if to.isSigned() {
			representable = a.U <= uint64(to.maxI())
		} else {
			representable = a.U <= to.maxU()
		}
	}
	if representable {
		return val{T: to, U: to.norm(a.U)}
	}
	if from.isSigned() == to.isSigned() {
		// "Narrowing (e.g. i8(i64_val)) truncates"
		m.haz["cast-trunc"] = true
		return val{T: to, U: to.norm(a.U)}
	}
	if to.bits() >= from.bits() {
		// "Signed <-> Unsigned saturates at bounds"
		if from.isSigned() { // negative -> unsigned
			m.haz["cast-sat-s2u"] = true
			return val{T: to}
		}
		m.haz["cast-sat-u2s"] = true // same width, above the signed maximum
		return val{T: to, U: uint64(to.maxI())}
	}
	// narrowing and a change of signedness with a value that does not fit: the narrowing
	// rule (truncate) and the signedness rule (saturate) give different results.
	panic(undefined{uCastAmbig})
}
